(* C13 - theorems about the model of the sequence-diagram generator (Seq/SeqModel.v), for every module, every start
   list, every blackbox map and (unless stated) both settings of the two source facts in `variant`. *)
From Coq Require Import List NArith Bool Lia Arith Permutation.
Import ListNotations.
Require Import Verif.Seq.SeqModel Verif.Seq.SeqFlat.

(* ================================================================ visitEndpoint in named pieces *)
Definition suppr (ap:app) : bool := has_pat PHuman (app_pats ap) || has_pat PCron (app_pats ap).
Definition arrow_drawn (from:option id) (ap:app) (ep:endpoint) : bool :=
  negb ((has_pat PHuman (app_pats ap) && negb (is_some from)) || has_pat PCron (app_pats ap)) && negb (ep_hidden ep).
Definition ve_reg (s:st) (from:option id) (a:id) : st := uniq_var (match from with Some x => uniq_var s x | None => s end) a.
Definition ve_arrow (s:st) (from:option id) (a e:id) (ap:app) (ep:endpoint) : st :=
  if arrow_drawn from ap ep then emit s (Arrow (sender_of from) a e) else s.
Definition ve_early (s:st) (from:option id) (a:id) (shown:bool) (caller:option (nat*bool)) : st :=
  match caller with
  | Some (c, true) => if negb (match from with Some x => N.eqb x a | None => false end) && negb shown then fire s c else s
  | _ => s
  end.
Definition is_cut (up:option upto) : bool := match up with Some u => u_cut u | None => false end.
Definition ve_cut (V:variant) (s2:st) (from:option id) (a:id) (ep:endpoint) (up:option upto) : st :=
  let shown := is_shown (ret_payload (ep_body ep)) in
  let s3 := match up with
            | Some u => if shown then (let s' := activate s2 a in if u_comment u then emit s' (NoteOver a) else s')
                        else emit s2 NoteSide
            | None => s2
            end in
  if shown then
    let s4 := if ep_hidden ep then s3 else emit s3 (Return (sender_of from) a) in
    if v_inprog_unguarded V || is_some up then deactivate s4 a else s4
  else s3.

Lemma visit_endpoint_eq V m f bbs s from a e caller :
  visit_endpoint V m (S f) bbs s from a e caller =
  match lookup m a e with
  | None => lookup_fail V
  | Some (ap, ep) =>
      let s2 := ve_early (ve_arrow (ve_reg s from a) from a e ap ep) from a (is_shown (ret_payload (ep_body ep))) caller in
      match ep_body ep with
      | [] => Ok s2
      | _ :: _ =>
          if is_cut (assoc2 (a,e) bbs) || is_visited s2 a e then Ok (ve_cut V s2 from a ep (assoc2 (a,e) bbs))
          else
            bind (walk_list (fun s t te last => visit_endpoint V m f bbs s (Some a) t te (Some (snd (activated s2 a (suppr ap)), last)))
                            a (sender_of from) (push_visited (fst (activated s2 a (suppr ap))) a e) (ep_body ep) true)
                 (fun s5 => Ok (pop_visited (fire s5 (snd (activated s2 a (suppr ap)))) a e))
      end
  end.
Proof.
  cbn [visit_endpoint]. destruct (lookup m a e) as [[ap ep]|]; [|reflexivity].
  destruct ep as [hid body]. destruct body as [|x b]; [reflexivity|].
  unfold ve_cut. cbn [ep_body ep_hidden]. destruct (is_shown (ret_payload (x :: b))); reflexivity.
Qed.

Ltac unf_prims :=
  unfold ve_cut, ve_early, ve_arrow, ve_reg, activated, fire, deactivate, activate, uniq_var, emit, push_visited, pop_visited,
         with_active, with_cells, with_visited, with_syms in *.
Ltac brk_goal := repeat match goal with |- context [match ?x with _ => _ end] => destruct x end.

(* ================================================================ 1. no panic once the lookups return errors *)
Section NoPanic.
  Variable V : variant.
  Variable m : module.
  Hypothesis HV : v_lookup_panics V = false.

  Lemma run_no_panic call il : (forall s t te last, call s t te last <> Panic) -> forall s, run call il s <> Panic.
  Proof.
    intros Hc. induction il as [|i r IH]; intros s; cbn [run]; [discriminate|].
    destruct i as [e|t te last]; [apply IH|].
    specialize (Hc s t te last). destruct (call s t te last); cbn [bind]; auto; discriminate.
  Qed.

  Lemma visit_endpoint_no_panic fuel : forall bbs s from a e caller, visit_endpoint V m fuel bbs s from a e caller <> Panic.
  Proof.
    induction fuel as [|f IH]; intros bbs s from a e caller; [discriminate|].
    rewrite visit_endpoint_eq. destruct (lookup m a e) as [[ap ep]|]; [|unfold lookup_fail; rewrite HV; discriminate].
    cbv zeta. destruct (ep_body ep) as [|x b] eqn:Eb; [discriminate|].
    destruct (_ || _); [discriminate|].
    rewrite walk_flat.
    match goal with |- bind ?r _ <> _ => assert (Hr : r <> Panic) by (apply run_no_panic; intros; apply IH); destruct r; cbn [bind]; auto; discriminate end.
  Qed.

  Lemma run_entries_no_panic fuel all : forall es bbs s, run_entries V m fuel all bbs s es <> Panic.
  Proof.
    induction es as [|[a e] r IH]; intros bbs s; cbn [run_entries]; [discriminate|].
    destruct (lookup m a e); [|discriminate].
    match goal with |- bind ?r _ <> _ => assert (Hr : r <> Panic) by apply visit_endpoint_no_panic; destruct r; cbn [bind]; auto; discriminate end.
  Qed.

  Theorem seq_no_panic fuel bbs starts : gen V m fuel bbs starts <> Panic.
  Proof.
    unfold gen, gen_st. pose proof (run_entries_no_panic fuel starts starts (make_bbs bbs) init) as H.
    destruct (run_entries _ _ _ _ _ _ _); cbn [bind]; auto; discriminate.
  Qed.
End NoPanic.

(* today's source (before the repair) does panic: a call to an application that does not exist *)
Definition dangling_module : module := [(0%N, {| app_pats := []; app_eps := [(0%N, {| ep_hidden := false; ep_body := [Call 1%N 0%N] |})] |})].
Theorem seq_no_panic_refuted_when_lookups_panic :
  gen {| v_lookup_panics := true; v_inprog_unguarded := false |} dangling_module (fuel_for dangling_module) [] [(0%N,0%N)] = Panic.
Proof. vm_compute. reflexivity. Qed.
Example seq_dangling_is_error_after_repair :
  gen {| v_lookup_panics := false; v_inprog_unguarded := false |} dangling_module (fuel_for dangling_module) [] [(0%N,0%N)] = Err.
Proof. vm_compute. reflexivity. Qed.

(* ================================================================ small facts about the primitives *)
Lemma key_eqb_eq x y : key_eqb x y = true <-> x = y.
Proof.
  destruct x as [a e], y as [a' e']. unfold key_eqb. cbn [fst snd]. rewrite andb_true_iff, !N.eqb_eq.
  split; [intros [-> ->]; reflexivity|intros [= -> ->]; auto].
Qed.
Lemma key_eqb_refl x : key_eqb x x = true.
Proof. apply key_eqb_eq. reflexivity. Qed.
Lemma assoc_in {A} k (l:list (id*A)) x : assoc k l = Some x -> In (k, x) l.
Proof.
  induction l as [|[j y] t IH]; cbn [assoc]; [discriminate|].
  destruct (N.eqb_spec k j) as [->|]; [intros [= ->]; left; reflexivity|intros H; right; auto].
Qed.
Lemma is_visited_false s a e : is_visited s a e = false -> ~ In (a,e) (visited s).
Proof.
  unfold is_visited. intros H Hin. assert (existsb (key_eqb (a,e)) (visited s) = true); [|congruence].
  apply existsb_exists. exists (a,e). split; [exact Hin|apply key_eqb_refl].
Qed.

Ltac prim_field := intros; unf_prims; brk_goal; reflexivity.
Lemma visited_emit s e : visited (emit s e) = visited s. Proof. reflexivity. Qed.
Lemma visited_fire s c : visited (fire s c) = visited s. Proof. prim_field. Qed.
Lemma visited_activated s a b : visited (fst (activated s a b)) = visited s. Proof. prim_field. Qed.
Lemma visited_pre s from a e ap ep sh caller :
  visited (ve_early (ve_arrow (ve_reg s from a) from a e ap ep) from a sh caller) = visited s.
Proof. prim_field. Qed.
Lemma visited_cut V s from a ep up : visited (ve_cut V s from a ep up) = visited s.
Proof. prim_field. Qed.

(* ================================================================ 2. the in-progress set is restored; termination *)
Section Terminates.
  Variable V : variant.
  Variable m : module.

  Lemma lookup_fail_not_ok s : lookup_fail V <> Ok s.
  Proof. unfold lookup_fail. destruct (v_lookup_panics V); discriminate. Qed.
  Lemma lookup_fail_not_oof : lookup_fail V <> OutOfFuel.
  Proof. unfold lookup_fail. destruct (v_lookup_panics V); discriminate. Qed.

  Lemma visit_endpoint_visited fuel : forall bbs s from a e caller s',
    visit_endpoint V m fuel bbs s from a e caller = Ok s' -> visited s' = visited s.
  Proof.
    induction fuel as [|f IH]; intros bbs s from a e caller s' H; [discriminate|].
    rewrite visit_endpoint_eq in H. destruct (lookup m a e) as [[ap ep]|]; [|exfalso; eapply lookup_fail_not_ok, H].
    cbv zeta in H. destruct (ep_body ep) as [|x b] eqn:Eb.
    - injection H as <-. apply visited_pre.
    - destruct (_ || _) in H.
      + injection H as <-. rewrite visited_cut. apply visited_pre.
      + match type of H with bind ?r _ = _ => destruct r as [s5| | |] eqn:W; try discriminate end.
        cbn [bind] in H. injection H as <-.
        apply (walk_pres _ a (sender_of from) (fun s s' => visited s' = visited s)) in W.
        * unfold pop_visited, with_visited. cbn [visited]. rewrite visited_fire, W. unfold push_visited, with_visited. cbn [visited remove1].
          rewrite key_eqb_refl, visited_activated. apply visited_pre.
        * reflexivity.
        * intros s1 s2 s3 H1 H2. congruence.
        * reflexivity.
        * intros s1 t te last s2 Hc. eapply IH, Hc.
  Qed.

  Definition keys : list (id*id) := flat_map (fun p => map (fun q => (fst p, fst q)) (app_eps (snd p))) m.
  Lemma keys_length : length keys = n_endpoints m.
  Proof.
    unfold keys, n_endpoints. induction m as [|[a ap] r IH]; [reflexivity|].
    cbn [flat_map fold_right fst snd]. rewrite app_length, map_length, IH. reflexivity.
  Qed.
  Lemma lookup_in_keys a e x : lookup m a e = Some x -> In (a,e) keys.
  Proof.
    unfold lookup, keys. destruct (assoc a m) as [ap|] eqn:Ea; [|discriminate].
    destruct (assoc e (app_eps ap)) as [ep|] eqn:Ee; [|discriminate]. intros _.
    apply in_flat_map. exists (a, ap). split; [apply assoc_in, Ea|].
    cbn [fst snd]. apply in_map_iff. exists (e, ep). split; [reflexivity|apply assoc_in, Ee].
  Qed.

  (* a generic "this failure never comes out of the walk" *)
  Lemma run_neq call (X:outcome st) (Inv:st -> Prop) (Q:id*id -> Prop) :
    (forall s, X <> Ok s) ->
    (forall s e, Inv s -> Inv (emit s e)) ->
    (forall s t te last, Inv s -> Q (t,te) -> call s t te last <> X /\ forall s', call s t te last = Ok s' -> Inv s') ->
    forall il, Forall Q (calls_of il) -> forall s, Inv s -> run call il s <> X.
  Proof.
    intros HX He Hc. induction il as [|i r IH]; intros HQ s Hs; cbn [run]; [intros E; symmetry in E; eapply HX, E|].
    destruct i as [e|t te last].
    - apply IH; [exact HQ|apply He, Hs].
    - cbn [calls_of flat_map Datatypes.app] in HQ. inversion HQ as [|? ? Hq HQ']; subst.
      destruct (Hc s t te last Hs Hq) as [Hn Hi].
      destruct (call s t te last) as [s1| | |]; cbn [bind]; try exact Hn. apply IH; [exact HQ'|apply Hi; reflexivity].
  Qed.

  Lemma visit_endpoint_terminates fuel : forall bbs s from a e caller,
    NoDup (visited s) -> incl (visited s) keys -> length keys < fuel + length (visited s) ->
    visit_endpoint V m fuel bbs s from a e caller <> OutOfFuel.
  Proof.
    induction fuel as [|f IH]; intros bbs s from a e caller Hnd Hincl Hlen.
    - exfalso. pose proof (NoDup_incl_length Hnd Hincl). lia.
    - rewrite visit_endpoint_eq. destruct (lookup m a e) as [[ap ep]|] eqn:L; [|apply lookup_fail_not_oof].
      cbv zeta. destruct (ep_body ep) as [|x b] eqn:Eb; [discriminate|].
      destruct (is_cut _ || is_visited _ a e) eqn:C; [discriminate|].
      apply orb_false_iff in C as [_ C]. apply is_visited_false in C. rewrite visited_pre in C.
      rewrite walk_flat.
      match goal with |- bind ?r _ <> _ => assert (Hr : r <> OutOfFuel); [|destruct r; cbn [bind]; auto; discriminate] end.
      apply (run_neq _ OutOfFuel (fun s1 => visited s1 = (a,e) :: visited s) (fun _ => True)).
      + discriminate.
      + intros s1 ev H1. exact H1.
      + intros s1 t te last H1 _. split.
        * apply IH; rewrite H1.
          -- constructor; assumption.
          -- intros k [<-|Hk]; [eapply lookup_in_keys, L|apply Hincl, Hk].
          -- cbn [length]. lia.
        * intros s2 H2. rewrite (visit_endpoint_visited _ _ _ _ _ _ _ _ H2). exact H1.
      + apply Forall_forall. intros; exact I.
      + unfold push_visited, with_visited. cbn [visited]. rewrite visited_activated, visited_pre. reflexivity.
  Qed.

  Lemma run_entries_terminates fuel all : n_endpoints m < fuel ->
    forall es bbs s, run_entries V m fuel all bbs s es <> OutOfFuel.
  Proof.
    intros Hf. induction es as [|[a e] r IH]; intros bbs s; cbn [run_entries]; [discriminate|].
    destruct (lookup m a e); [|discriminate].
    match goal with |- bind ?r _ <> _ => assert (Hr : r <> OutOfFuel); [|destruct r; cbn [bind]; auto; discriminate] end.
    apply visit_endpoint_terminates; cbn [visited with_visited length].
    - constructor.
    - intros k [].
    - rewrite keys_length. lia.
  Qed.

  (* generation terminates on every call graph - recursion, mutual recursion, self calls: one level of fuel per
     endpoint of the module is enough *)
  Theorem seq_terminates fuel bbs starts : n_endpoints m < fuel -> gen V m fuel bbs starts <> OutOfFuel.
  Proof.
    intros Hf. unfold gen, gen_st. pose proof (run_entries_terminates fuel starts Hf starts (make_bbs bbs) init) as H.
    destruct (run_entries _ _ _ _ _ _ _); cbn [bind]; auto; discriminate.
  Qed.
  Corollary seq_terminates_fuel_for bbs starts : gen V m (fuel_for m) bbs starts <> OutOfFuel.
  Proof. apply seq_terminates. unfold fuel_for. lia. Qed.
End Terminates.

(* mutual recursion A.E0 -> B.E0 -> A.E0 and a self call: the model neither runs out of fuel nor fails *)
Definition cyclic_module : module :=
  [(0%N, {| app_pats := []; app_eps := [(0%N, {| ep_hidden := false; ep_body := [Call 1%N 0%N; Call 0%N 0%N; Ret RetShown] |})] |});
   (1%N, {| app_pats := []; app_eps := [(0%N, {| ep_hidden := false; ep_body := [Block BLoop [Call 0%N 0%N]; Ret RetPrim] |})] |})].
Example seq_terminates_nonvacuous :
  exists d ev, gen {| v_lookup_panics := false; v_inprog_unguarded := false |} cyclic_module (fuel_for cyclic_module) [] [(0%N,0%N)] = Ok (d, ev)
               /\ length (arrows ev) = 4.
Proof. eexists. eexists. vm_compute. split; reflexivity. Qed.
