(* Correspondence glue for C13: one case = (module, blackboxes, start entries, group-by values, what the real
   sequencediagram.GenerateSequenceDiag produced, read back from the PlantUML text by the harness). *)
From Coq Require Import List NArith Bool.
Import ListNotations.
Require Import Verif.Seq.SeqModel Verif.Base.Harness.

Inductive obs :=
| ObsOk (d:list decl) (ev:list event) (bx:list (id * list id))   (* head declarations, body events, group boxes, in order *)
| ObsErr                                (* an error was returned *)
| ObsPanic.                             (* the call panicked *)

Definition c13_case := (module * list bbin * list (id*id) * list (id*id) * obs)%type.

Definition part_eqb (x y:part) : bool :=
  match x, y with World, World => true | P a, P b => N.eqb a b | _, _ => false end.
Definition kw_eqb (x y:kw) : bool :=
  match x, y with KOpt, KOpt | KLoop, KLoop | KGroup, KGroup => true | _, _ => false end.
Definition agentk_eqb (x y:agentk) : bool :=
  match x, y with
  | Actor, Actor | Boundary, Boundary | Control, Control | Database, Database | Collections, Collections | Queue, Queue => true
  | _, _ => false end.
Definition event_eqb (x y:event) : bool :=
  match x, y with
  | Section a e, Section a' e' => N.eqb a a' && N.eqb e e'
  | Arrow s t e, Arrow s' t' e' => part_eqb s s' && N.eqb t t' && N.eqb e e'
  | Return s t, Return s' t' => part_eqb s s' && N.eqb t t'
  | Self a, Self a' => N.eqb a a'
  | Activate a, Activate a' => N.eqb a a'
  | Deactivate a, Deactivate a' => N.eqb a a'
  | Open k, Open k' => kw_eqb k k'
  | OpenAlt, OpenAlt | Else, Else | Close, Close | NoteSide, NoteSide => true
  | NoteOver a, NoteOver a' => N.eqb a a'
  | _, _ => false
  end.
Definition decl_eqb (x y:decl) : bool := N.eqb (fst x) (fst y) && agentk_eqb (snd x) (snd y).

Definition box_eqb (x y:id * list id) : bool := N.eqb (fst x) (fst y) && list_eqb N.eqb (snd x) (snd y).

Definition c13_ok (V:variant) (c:c13_case) : bool :=
  match c with (m, bbs, starts, groups, o) =>
    match gen V m (fuel_for m) bbs starts, o with
    | Ok (d, ev), ObsOk d' ev' bx' =>
        list_eqb decl_eqb d d' && list_eqb event_eqb ev ev'
        && match gen_boxes V m (fuel_for m) bbs starts groups with Ok bx => list_eqb box_eqb bx bx' | _ => false end
    | Err, ObsErr => true
    | Panic, ObsPanic => true
    | _, _ => false
    end
  end.
