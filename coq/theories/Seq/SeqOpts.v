(* C13 - the option layer and the texts of the sequence-diagram generator:
     pkg/sequencediagram/sequencediagram.go   DoConstructSequenceDiagrams (both modes: one diagram for -s entries, or the
                                              templated mode `-o ...%(epname)...` = one diagram per endpoint of every -a
                                              application), ConstructFormatParser
     pkg/cmdutils/utils.go                    ParseBlackBoxesFromArgument, TransformBlackBoxes, TransformBlackboxesToUptos
     pkg/cmdutils/visitor.go                  makeEntry (EndpointParserRE), MakeEndpointCollectionElement (which blackboxes
                                              are in force, the one-character convention and its write to the SHARED Upto),
                                              the Upto bookkeeping (VisitCount, the three "not hit" reports), the label of
                                              every call arrow (EndpointElement.label), of every participant
                                              (UniqueVarForAppName), the section headers, the notes of cut / in-progress calls
   on top of the structural model (SeqModel.gen) and the format parser (Fmt). The blackbox maps of Go hold POINTERS
   that several maps share (bbsAll of the application loop, the collection element's map): here one table `umap`
   (key text -> count, comment, kind) threaded through the calls plays the heap.
   Texts that stay outside: return payloads, block conditions, the direction of side notes, indentation.
   Definitions only; proofs are in SeqOptsProps.v. *)
From Coq Require Import String Ascii List NArith Bool Arith.
Import ListNotations.
Require Import Verif.Seq.SeqModel Verif.Seq.Fmt.
Local Open Scope string_scope.
Local Infix "+++" := (@List.app _) (at level 60, right associativity).

(* ---- the texts of a module (the structural module has numbers only) ---- *)
Record calltx := { cx_attrs : attrs; cx_pats : list string }.        (* the k-th call statement of an endpoint (calls_list order) *)
Record eptx := { ex_name : string; ex_long : string;
                 ex_attrs : attrs;                                   (* every attribute, as GetS() reads it *)
                 ex_pats : list string;                              (* the string elements of `patterns` *)
                 ex_args : string;                                   (* strings.Join(GetAndFmtParam(m, ep.Param), " | "), asked of the real function *)
                 ex_bbs : list (option (list string));               (* the `blackboxes` attribute: per element None = not an array *)
                 ex_calls : list calltx }.
Record apptx := { ax_name : string; ax_attrs : attrs; ax_bbs : list (option (list string)); ax_eps : list (id * eptx) }.
Definition texts := list (id * apptx).

Definition no_call : calltx := {| cx_attrs := []; cx_pats := [] |}.
Definition no_ep : eptx := {| ex_name := ""; ex_long := ""; ex_attrs := []; ex_pats := []; ex_args := ""; ex_bbs := []; ex_calls := [] |}.
Definition no_app : apptx := {| ax_name := ""; ax_attrs := []; ax_bbs := []; ax_eps := [] |}.
Definition tx_app (T:texts) (a:id) : apptx := match assoc a T with Some x => x | None => no_app end.
Definition tx_ep (T:texts) (a e:id) : eptx := match assoc e (ax_eps (tx_app T a)) with Some x => x | None => no_ep end.

Definition missing : id := 4294967295%N.      (* a name the module does not define *)
Fixpoint find_id {A} (f:A -> string) (n:string) (l:list (id * A)) : id :=
  match l with [] => missing | (i,x) :: t => if String.eqb (f x) n then i else find_id f n t end.
Definition app_id (T:texts) (n:string) : id := find_id ax_name n T.
Definition ep_id (T:texts) (a:id) (n:string) : id := find_id ex_name n (ax_eps (tx_app T a)).

(* fmt.Sprintf("%s <- %s", appName, endpointName) *)
Definition vkey (T:texts) (a e:id) : string := ax_name (tx_app T a) ++ " <- " ++ ex_name (tx_ep T a e).
(* the endpoint a blackbox key names, if any *)
Definition resolve (T:texts) (k:string) : option (id * id) :=
  (fix goa (l:texts) : option (id*id) :=
     match l with
     | [] => None
     | (a, ax) :: t =>
         match (fix goe (es:list (id * eptx)) : option (id*id) :=
                  match es with
                  | [] => None
                  | (e, ex) :: r => if String.eqb (ax_name ax ++ " <- " ++ ex_name ex) k then Some (a, e) else goe r
                  end) (ax_eps ax) with
         | Some x => Some x
         | None => goa t
         end
     end) T.

(* ---- makeEntry: EndpointParserRE on an entry without "[upto" and without newline: the application is what stands
   before the first "<-" less trailing blanks, the endpoint everything after it less leading blanks; no "<-": both
   empty ---- *)
Fixpoint split_arrow (s:string) : option (string * string) :=
  match str_prefix "<-" s with
  | Some r => Some (EmptyString, r)
  | None => match s with
            | EmptyString => None
            | String c t => match split_arrow t with Some (a, b) => Some (String c a, b) | None => None end
            end
  end.
Fixpoint ltrim (f:ascii -> bool) (s:string) : string :=
  match s with String c t => if f c then ltrim f t else s | EmptyString => EmptyString end.
Definition rtrim (f:ascii -> bool) (s:string) : string := str_rev (ltrim f (str_rev s)).
Definition make_entry (s:string) : string * string :=
  match split_arrow s with
  | Some (a, b) => (rtrim is_space_re a, ltrim is_space_re b)
  | None => (EmptyString, EmptyString)
  end.
(* strings.TrimSpace(strings.Split(name, "<-")[0]) *)
Definition is_space_go (c:ascii) : bool := is_space_re c || (N_of_ascii c =? 11)%N.
Definition entry_app_trimmed (s:string) : string :=
  let a := match split_arrow s with Some (a, _) => a | None => s end in rtrim is_space_go (ltrim is_space_go a).
Definition start_of (T:texts) (s:string) : id * id :=
  let (an, en) := make_entry s in
  if String.eqb an EmptyString then (missing, missing) else let a := app_id T an in (a, ep_id T a en).

(* ---- the Upto heap ---- *)
Inductive ukind := KUpTo | KApplication | KEndpointCollection | KCommandLine.
Record urec := { u_vc : nat; u_text : string; u_kind : ukind }.
Definition umap := list (string * urec).
Fixpoint uget (k:string) (m:umap) : option urec :=
  match m with [] => None | (j,x) :: t => if String.eqb k j then Some x else uget k t end.
Fixpoint uset (k:string) (v:urec) (m:umap) : umap :=
  match m with [] => [(k,v)] | (j,x) :: t => if String.eqb k j then (k,v) :: t else (j,x) :: uset k v t end.
Fixpoint udel (k:string) (m:umap) : umap :=
  match m with [] => [] | (j,x) :: t => if String.eqb k j then t else (j,x) :: udel k t end.

Inductive ores (A:Type) := OOk (x:A) | OErr | OPanic.
Arguments OOk {A}. Arguments OErr {A}. Arguments OPanic {A}.
Definition obind {A B} (o:ores A) (f:A -> ores B) : ores B := match o with OOk x => f x | OErr => OErr | OPanic => OPanic end.

(* what the source facts about the option layer say (Gen/SeqShape.v); the values of the unrepaired source in brackets. The last
   one only describes the source (a 'not hit' report is not part of the property): false before and after the repairs *)
Record ovariant := {
  ov_fmt_checked : bool;        (* [false] DoConstructSequenceDiagrams tries every format string before use and returns an error *)
  ov_bbattr_guarded : bool;     (* [false] a `blackboxes` element that is no list, or a list of one string, is read without indexing past its end *)
  ov_onechar_in_heap : bool;    (* [true] MakeEndpointCollectionElement clears a one-character comment in the Upto it shares with its caller *)
  ov_ep_layered : bool;         (* [false] an endpoint's blackboxes go into a map of their own laid over the application's (else: into the application's map, and are deleted from it afterwards) *)
  ov_ep_empty_reported : bool   (* [false] an endpoint's blackbox with an empty note, which is never in force, is reported as not hit *)
}.

(* TransformBlackBoxes: an element that is not an array is a nil dereference (guarded: it has no strings); elements without strings are dropped *)
Fixpoint transform_bbs (guarded:bool) (l:list (option (list string))) : ores (list (list string)) :=
  match l with
  | [] => OOk []
  | None :: t => if guarded then transform_bbs guarded t else OPanic
  | Some x :: t => obind (transform_bbs guarded t) (fun r => OOk (if is_nil x then r else x :: r))
  end.
(* ParseBlackBoxesFromArgument *)
Definition parse_bb_args (l:list (string * string)) : list (list string) :=
  flat_map (fun kc => if String.eqb (fst kc) EmptyString then [] else [[fst kc; snd kc]]) l.
(* TransformBlackboxesToUptos: val[0], val[1] - fewer than two strings is an index out of range (guarded: no strings
   is skipped, one string is a key with the empty note) *)
Fixpoint to_uptos (guarded:bool) (m:umap) (bbs:list (list string)) (k:ukind) : ores umap :=
  match bbs with
  | [] => OOk m
  | (key :: comment :: _) :: t => to_uptos guarded (uset key {| u_vc := 0; u_text := comment; u_kind := k |} m) t k
  | [key] :: t => if guarded then to_uptos guarded (uset key {| u_vc := 0; u_text := EmptyString; u_kind := k |} m) t k else OPanic
  | [] :: t => if guarded then to_uptos guarded m t k else OPanic
  end.

(* ---- the blackboxes a collection element works with (resolved keys only: no other key can be looked up) ---- *)
Record tupto := { tu_key : string;       (* the heap entry it IS (shared pointer); "" for a fresh "see below" *)
                  tu_cut : bool; tu_text : string }.
Definition tbbmap := list ((id * id) * tupto).
Definition to_bbmap (b:tbbmap) : bbmap :=
  map (fun x => (fst x, {| u_cut := tu_cut (snd x); u_comment := negb (String.eqb (tu_text (snd x)) EmptyString) |})) b.
Definition t_see_below : tupto := {| tu_key := ""; tu_cut := false; tu_text := "see below" |}.
Definition mark_others_t (all:list (id*id)) (cur:id*id) (b:tbbmap) : tbbmap :=
  fold_left (fun b k => if key_eqb k cur then b else set2 k t_see_below b) all b.

(* MakeEndpointCollectionElement on the heap: entries with a comment are taken (the SAME Upto), a comment of one
   character is cleared - in the heap, for everybody who shares the entry *)
Definition clear_one_char (m:umap) : umap :=
  map (fun kx => (fst kx, if Nat.eqb (String.length (u_text (snd kx))) 1
                          then {| u_vc := u_vc (snd kx); u_text := EmptyString; u_kind := u_kind (snd kx) |} else snd kx)) m.
Definition in_force (m:umap) : umap := filter (fun kx => negb (String.eqb (u_text (snd kx)) EmptyString)) m.
Definition clen_of (s:string) : clen := match String.length s with 0 => C0 | 1 => C1 | _ => CN end.
Definition is_upto (k:ukind) : bool := match k with KUpTo => true | _ => false end.
(* what GenerateSequenceDiag's structural model is given *)
Definition bbins_of (T:texts) (m:umap) : list bbin :=
  flat_map (fun kx => match resolve T (fst kx) with
                      | Some ae => [{| bb_key := ae; bb_cut := negb (is_upto (u_kind (snd kx))); bb_clen := clen_of (u_text (snd kx)) |}]
                      | None => []
                      end) m.
(* the element's own map, after the clearing *)
Definition tbb_of (T:texts) (m:umap) : tbbmap :=
  fold_right (fun kx acc => match resolve T (fst kx) with
                            | Some ae => set2 ae {| tu_key := fst kx; tu_cut := negb (is_upto (u_kind (snd kx)));
                                                    tu_text := if Nat.eqb (String.length (u_text (snd kx))) 1 then EmptyString else u_text (snd kx) |} acc
                            | None => acc
                            end) [] (in_force m).

(* ---- the visits of one section: every endpoint with statements that visitEndpoint reaches (the `VisitCount++` site),
   in order; same recursion as the call arrows (SeqModel.ref_calls) ---- *)
Section Visits.
  Variable m : module.
  Variable bbs : bbmap.
  Fixpoint visits (fuel:nat) (inprog:list (id*id)) (a e:id) {struct fuel} : list (id*id) :=
    match fuel with
    | O => []
    | S f =>
      match lookup m a e with
      | None => []
      | Some (_, ep) =>
        if is_nil (ep_body ep) then []
        else (a, e) ::
             (if (match assoc2 (a,e) bbs with Some u => u_cut u | None => false end) || existsb (key_eqb (a,e)) inprog
              then []
              else flat_map (fun c => visits f ((a,e) :: inprog) (fst c) (snd c)) (calls_list (ep_body ep)))
      end
    end.
End Visits.

Fixpoint bump (k:string) (m:umap) : umap :=
  match m with
  | [] => []
  | (j,x) :: t => if String.eqb k j then (j, {| u_vc := S (u_vc x); u_text := u_text x; u_kind := u_kind x |}) :: t else (j,x) :: bump k t
  end.

(* ---- texts of a diagram ---- *)
Inductive titem :=
| TSection (s:string)
| TArrow (s:part) (t e:id) (lbl:string)       (* what follows " : " *)
| TNoteOver (s:string) | TNoteSide (s:string).

Definition bindp {A B} (o:pres A) (f:A -> pres B) : pres B :=
  match o with POk x => f x | PPanic k => PPanic k | PFuel => PFuel end.
Fixpoint nth_call (k:nat) (l:list calltx) : calltx :=
  match k, l with O, x :: _ => x | S j, _ :: t => nth_call j t | _, [] => no_call end.
Fixpoint number {A} (n:nat) (l:list A) : list (nat * A) :=
  match l with [] => [] | x :: t => (n, x) :: number (S n) t end.
Definition pats_str (a b:list string) : string :=
  let a' := sorted_set a in let b' := sorted_set b in
  if is_nil a' && is_nil b' then EmptyString else (join ", " a' ++ " " ++ arrow_r ++ " " ++ join ", " b')%string.
Definition mem_str (x:string) (l:list string) : bool := existsb (String.eqb x) l.
Definition sel (b:bool) (s:string) : string := if b then s else EmptyString.

Section Texts.
  Variable rx : string -> option (string -> bool).
  Variable m : module.
  Variable T : texts.
  Variable epfmt appfmt : string.        (* Self of the two parsers *)

  Definition app_pats_of (a:id) : list pat := match assoc a m with Some ap => app_pats ap | None => [] end.

  (* EndpointElement.label for a call statement: the k-th call of endpoint (ca, ce) to (a, e) *)
  Definition call_label (ca ce:id) (k:nat) (a e:id) : pres string :=
    let tgt := tx_ep T a e in
    let clr := tx_ep T ca ce in
    let cx := nth_call k (ex_calls clr) in
    let human := has_pat PHuman (app_pats_of a) in
    let human_sender := has_pat PHuman (app_pats_of ca) in
    let cron_sender := has_pat PCron (app_pats_of ca) in
    label_endpoint rx epfmt
      {| p_epname := normalize_epname (ex_name tgt);
         p_human := sel human "human"; p_human_sender := sel human_sender "human sender";
         p_needs_int := sel (negb (human || human_sender || cron_sender) && negb (N.eqb ca a)) "needs_int";
         p_args := ex_args tgt;
         p_patterns := pats_str (ex_pats clr +++ cx_pats cx) (ex_pats tgt);
         p_controls := iso_ctrl_str (ex_attrs tgt);
         p_attrs := cx_attrs cx |}.

  Definition app_label (a:id) : pres string :=
    let ax := tx_app T a in label_app rx appfmt (ax_name ax) (iso_ctrl_str (ax_attrs ax)) (ax_attrs ax).

  Section Walk.
    Variable tbb : tbbmap.
    (* caller = (application, endpoint, index of the call statement) *)
    Fixpoint text_walk (fuel:nat) (inprog:list (id*id)) (caller:option (id*id*nat)) (a e:id) {struct fuel} : pres (list titem) :=
      match fuel with
      | O => PFuel
      | S f =>
        match lookup m a e with
        | None => POk []
        | Some (ap, ep) =>
          let human := has_pat PHuman (app_pats ap) in
          let cron := has_pat PCron (app_pats ap) in
          let from := match caller with Some (ca, _, _) => Some ca | None => None end in
          bindp (if negb ((human && negb (is_some caller)) || cron) then
                   bindp (match caller with
                          | Some (ca, ce, k) => call_label ca ce k a e
                          | None => POk (normalize_epname (ex_name (tx_ep T a e)))
                          end)
                         (fun l => POk (if ep_hidden ep then []
                                        else [TArrow (sender_of from) a e (sel (mem_str "cron" (ex_pats (tx_ep T a e))) "<&timer>" ++ l)]))
                 else POk [])
                (fun ai =>
                   match ep_body ep with
                   | [] => POk ai
                   | _ :: _ =>
                     let up := assoc2 (a,e) tbb in
                     let shown := is_shown (ret_payload (ep_body ep)) in
                     if (match up with Some u => tu_cut u | None => false end) || existsb (key_eqb (a,e)) inprog then
                       POk (ai +++ match up with
                                  | Some u => if shown then (if String.eqb (tu_text u) EmptyString then [] else [TNoteOver (tu_text u)])
                                              else [TNoteSide (tu_text u)]
                                  | None => []
                                  end)
                     else
                       bindp ((fix go (l:list (nat * (id*id))) : pres (list titem) :=
                                 match l with
                                 | [] => POk []
                                 | (k, c) :: r =>
                                     bindp (text_walk f ((a,e) :: inprog) (Some (a, e, k)) (fst c) (snd c))
                                           (fun x => bindp (go r) (fun y => POk (x +++ y)))
                                 end) (number 0 (calls_list (ep_body ep))))
                             (fun rest => POk (ai +++ rest))
                   end)
        end
      end.
  End Walk.

  (* the "== App <- Endpoint ==" header with the `link` attributes *)
  Definition section_text (a e:id) : string :=
    let an := ax_name (tx_app T a) in let en := ex_name (tx_ep T a e) in
    let al := aget "link" (ax_attrs (tx_app T a)) in let el := aget "link" (ex_attrs (tx_ep T a e)) in
    let lnk (l n:string) := if String.eqb l EmptyString then n else ("[[" ++ l ++ " " ++ n ++ "]]")%string in
    (lnk al an ++ " <- " ++ lnk el en)%string.

  (* the sections: texts and, on the heap, the visit counts *)
  Fixpoint text_entries (fuel:nat) (all:list (id*id)) (tbb:tbbmap) (u:umap) (es:list (id*id)) : pres (list titem * tbbmap * umap) :=
    match es with
    | [] => POk ([], tbb, u)
    | (a, e) :: r =>
        let tbb' := mark_others_t all (a, e) tbb in
        bindp (text_walk tbb' fuel [] None a e)
              (fun items =>
                 let vs := visits m (to_bbmap tbb') fuel [] a e in
                 let u' := fold_left (fun u k => match assoc2 k tbb' with
                                                 | Some x => if String.eqb (tu_key x) EmptyString then u else bump (tu_key x) u
                                                 | None => u
                                                 end) vs u in
                 bindp (text_entries fuel all tbb' u' r)
                       (fun rest => match rest with (its, tb, uu) => POk (TSection (section_text a e) :: items +++ its, tb, uu) end))
    end.

  Fixpoint decl_labels (d:list decl) : pres (list string) :=
    match d with
    | [] => POk []
    | (a, _) :: t => bindp (app_label a) (fun l => bindp (decl_labels t) (fun r => POk (l :: r)))
    end.
End Texts.

(* group boxes with text names: the value of the group-by attribute, names sorted, members in name (= number) order *)
Definition tgroup_of (T:texts) (g:string) (x:id) : option string :=
  let a := ax_attrs (tx_app T x) in if ahas g a then Some (aget g a) else None.
Definition tboxes_of (T:texts) (g:string) (ys:list id) : list (string * list id) :=
  if String.eqb g EmptyString then []
  else map (fun n => (n, isort (filter (fun x => match tgroup_of T g x with Some v => String.eqb v n | None => false end) ys)))
           (sorted_set (flat_map (fun x => match tgroup_of T g x with Some v => [v] | None => [] end) ys)).

(* ---- one GenerateSequenceDiag call ---- *)
Record diagram := { d_out : string; d_title : string; d_decls : list decl; d_labels : list string; d_events : list event;
                    d_texts : list titem; d_boxes : list (string * list id) }.

Definition of_pres {A} (x:pres A) : ores A := match x with POk a => OOk a | _ => OPanic end.
Definition of_outcome {A} (x:outcome A) : ores A := match x with Ok a => OOk a | Err => OErr | _ => OPanic end.

Section Construct.
  Variable rx : string -> option (string -> bool).
  Variable short_b : bool.
  Variable V : variant.
  Variable OV : ovariant.
  Variable m : module.
  Variable T : texts.

  Definition check_fmt (self:string) : ores unit :=
    if ov_fmt_checked OV then (match parse rx self [] with POk _ => OOk tt | _ => OErr end) else OOk tt.

  (* GenerateSequenceDiag with the heap u as p.Blackboxes: the diagram, the heap afterwards, the keys Visit reports *)
  Definition generate (out title epfmt appfmt group:string) (entries:list string) (u:umap) : ores (diagram * umap * list string) :=
    let starts := map (start_of T) entries in
    let u1 := if ov_onechar_in_heap OV then clear_one_char u else u in
    let fuel := fuel_for m in
    obind (of_outcome (gen V m fuel (bbins_of T u) starts))
          (fun de =>
             match gen_st V m fuel (bbins_of T u) starts with
             | Ok st =>
               obind (of_pres (text_entries rx m T epfmt fuel starts (tbb_of T u) u1 starts))
                     (fun r => match r with (items, tbb, u2) =>
                        obind (of_pres (decl_labels rx T appfmt (fst de)))
                              (fun labels =>
                                 (* Visit: entries of the element's map of kind BBEndpointCollection that were never counted;
                                    an entry replaced by "see below" is no longer in that map, a key that names no endpoint is *)
                                 let notyet := flat_map (fun kx =>
                                   match u_kind (snd kx) with
                                   | KEndpointCollection =>
                                       let live := match resolve T (fst kx) with
                                                   | Some ae => match assoc2 ae tbb with Some x => String.eqb (tu_key x) (fst kx) | None => false end
                                                   | None => true
                                                   end in
                                       if live then match uget (fst kx) u2 with
                                                    | Some y => if Nat.eqb (u_vc y) 0 then [fst kx] else []
                                                    | None => []
                                                    end
                                       else []
                                   | _ => []
                                   end) (in_force u) in
                                 OOk ({| d_out := out; d_title := title; d_decls := fst de; d_labels := labels; d_events := snd de;
                                         d_texts := items; d_boxes := tboxes_of T group (syms st) |}, u2, notyet))
                        end)
             | _ => OPanic
             end).

  Record opts := { o_output : string; o_title : string; o_epfmt : string; o_appfmt : string;
                   o_endpoints : list string; o_apps : list string;
                   o_bbflag : list (string * string); o_bblist : list (list string); o_group : string }.

  Definition not_hit (k:ukind) (u:umap) : list string :=
    flat_map (fun kx => if Nat.eqb (u_vc (snd kx)) 0 && (match u_kind (snd kx), k with
                                                         | KApplication, KApplication | KCommandLine, KCommandLine => true
                                                         | _, _ => false end) then [fst kx] else []) u.

  Fixpoint contains (p s:string) : bool :=
    match str_prefix p s with
    | Some _ => true
    | None => match s with EmptyString => false | String _ t => contains p t end
    end.

  (* warnings are tagged: "ep:" (Visit), "app:" (after the application loop), "cli:" (command line) *)
  Definition tag (t:string) (l:list string) : list string := map (fun k => (t ++ k)%string) l.

  (* the endpoints of one application, in key order *)
  Fixpoint eps_loop (o:opts) (a:id) (spout seqtitle epfmt appfmt:string) (u:umap) (es:list (id * eptx))
    : ores (list diagram * umap * list string) :=
    match es with
    | [] => OOk ([], u, [])
    | (e, ex) :: r =>
        let ax := tx_app T a in
        obind (of_pres (fmt_output rx spout (ax_name ax) (ex_name ex) (ex_long ex) (ex_attrs ex)))
          (fun outname =>
        obind (transform_bbs (ov_bbattr_guarded OV) (ex_bbs ex))
          (fun bbs2 =>
             let top_calls := match lookup m a e with
                              | Some (_, ep) => flat_map (fun x => match x with Call t te => [(t, te)] | _ => [] end) (ep_body ep)
                              | None => []
                              end in
             let entries := if is_nil (o_endpoints o) then map (fun c => vkey T (fst c) (snd c)) top_calls else o_endpoints o in
             if is_nil entries then OErr
             else
               let g := aget "groupby" (ex_attrs ex) in
               let group := if String.eqb g EmptyString then o_group o else g in
        obind (to_uptos (ov_bbattr_guarded OV) u bbs2 KEndpointCollection)
          (fun u1 =>
        obind (of_pres (fmt_seq rx seqtitle (ex_name ex) (ex_long ex) (merge_attributes (ax_attrs ax) (ex_attrs ex))))
          (fun title =>
        obind (generate outname title epfmt appfmt group entries u1)
          (fun r1 => match r1 with (d, u2, w1) =>
             let keys2 := flat_map (fun b => match b with k :: _ => [k] | [] => [] end) bbs2 in
             (* what the application's map is afterwards: the endpoint's keys deleted from the one shared map - or, with a
                map of its own per endpoint, the application's entries as they were, the shared ones with their new counts *)
             let u3 := if ov_ep_layered OV
                       then map (fun kx => if existsb (String.eqb (fst kx)) keys2 then kx
                                           else match uget (fst kx) u2 with Some y => (fst kx, y) | None => kx end) u
                       else fold_left (fun u k => udel k u) keys2 u2 in
             let w0 := if ov_ep_empty_reported OV
                       then flat_map (fun k => match uget k u2 with
                                               | Some y => match u_kind y with
                                                           | KEndpointCollection =>
                                                               if Nat.eqb (u_vc y) 0 && String.eqb (u_text y) EmptyString then [k] else []
                                                           | _ => []
                                                           end
                                               | None => []
                                               end) keys2
                       else [] in
        obind (eps_loop o a spout seqtitle epfmt appfmt u3 r)
          (fun r2 => match r2 with (ds, u4, w2) => OOk (d :: ds, u4, tag "ep:" (w1 +++ w0) +++ w2) end)
          end)))))
    end.

  Definition sort_eps (es:list (id * eptx)) : list (id * eptx) :=
    fold_right (fun x acc =>
                  (fix ins (l:list (id * eptx)) : list (id * eptx) :=
                     match l with
                     | [] => [x]
                     | y :: t => if str_leb (ex_name (snd x)) (ex_name (snd y)) then x :: y :: t else y :: ins t
                     end) acc) [] es.

  Fixpoint apps_loop (o:opts) (apps:list string) : ores (list diagram * list string) :=
    match apps with
    | [] => OOk ([], [])
    | an :: r =>
        let a := app_id T an in
        let ax := tx_app T a in                       (* an unknown application reads as one without anything *)
        obind (transform_bbs (ov_bbattr_guarded OV) (ax_bbs ax))
          (fun bbs =>
             let seqtitle := construct_format short_b (aget "seqtitle" (ax_attrs ax)) (o_title o) in
             let epfmt := construct_format short_b (aget "epfmt" (ax_attrs ax)) (o_epfmt o) in
             let appfmt := construct_format short_b (aget "appfmt" (ax_attrs ax)) (o_appfmt o) in
        obind (check_fmt seqtitle) (fun _ => obind (check_fmt epfmt) (fun _ => obind (check_fmt appfmt) (fun _ =>
        obind (to_uptos (ov_bbattr_guarded OV) [] bbs KApplication)
          (fun u0 =>
        obind (eps_loop o a (o_output o) seqtitle epfmt appfmt u0 (sort_eps (ax_eps ax)))
          (fun r1 => match r1 with (ds, u1, w1) =>
        obind (apps_loop o r)
          (fun r2 => match r2 with (ds2, w2) => OOk (ds +++ ds2, w1 +++ tag "app:" (not_hit KApplication u1) +++ w2) end)
          end))))))
    end.

  (* DoConstructSequenceDiagrams: the diagrams in the order they are made (result[name] = out: a later diagram of the
     same name replaces an earlier one) and the "not hit" reports *)
  Definition do_construct (o:opts) : ores (list diagram * list string) :=
    let blackboxes := if is_nil (o_bblist o) then parse_bb_args (o_bbflag o) else o_bblist o in
    if contains "%(epname)" (o_output o) then
      obind (check_fmt (o_output o))
        (fun _ =>
           let apps := if is_nil (o_apps o) then map entry_app_trimmed (o_endpoints o) else o_apps o in
           apps_loop o apps)
    else if is_nil (o_endpoints o) then OOk ([], [])
    else
      let epfmt := construct_format short_b EmptyString (o_epfmt o) in
      let appfmt := construct_format short_b EmptyString (o_appfmt o) in
      obind (check_fmt epfmt) (fun _ => obind (check_fmt appfmt) (fun _ =>
      obind (to_uptos (ov_bbattr_guarded OV) [] blackboxes KCommandLine)
        (fun u0 =>
      obind (generate (o_output o) (o_title o) epfmt appfmt (o_group o) (o_endpoints o) u0)
        (fun r => match r with (d, u1, w) => OOk ([d], tag "ep:" w +++ tag "cli:" (not_hit KCommandLine u1)) end)))).
End Construct.
