(* Correspondence glue for the option layer of C13 (Seq/SeqOpts.v): one case = (module, its texts, the options of
   DoConstructSequenceDiagrams, what Go's regexp says about the patterns of the formats in play, what the real
   DoConstructSequenceDiagrams returned: per output name the diagram read back from its PlantUML text, and the
   "not hit" reports it logged). *)
From Coq Require Import String Ascii List NArith Bool.
Import ListNotations.
Require Import Verif.Seq.SeqModel Verif.Seq.Fmt Verif.Seq.SeqOpts Verif.Seq.Run Verif.Seq.RunFmt Verif.Gen.SeqShape Verif.Base.Harness.
Local Open Scope string_scope.

(* the fact about the option layer read from the current source *)
Definition ovariant_now : ovariant :=
  {| ov_fmt_checked := fmt_checked_now; ov_bbattr_guarded := bbattr_guarded_now; ov_onechar_in_heap := onechar_in_heap_now;
     ov_ep_layered := ep_layered_now; ov_ep_empty_reported := ep_empty_reported_now |}.

Definition CX a p := {| cx_attrs := a; cx_pats := p |}.
Definition EX n l a p g b c := {| ex_name := n; ex_long := l; ex_attrs := a; ex_pats := p; ex_args := g; ex_bbs := b; ex_calls := c |}.
Definition AX n a b e := {| ax_name := n; ax_attrs := a; ax_bbs := b; ax_eps := e |}.
Definition OPT o t ef af es aps bf bl g :=
  {| o_output := o; o_title := t; o_epfmt := ef; o_appfmt := af; o_endpoints := es; o_apps := aps; o_bbflag := bf; o_bblist := bl; o_group := g |}.

(* one diagram as read back: output name, title, head (with labels), events, texts, boxes *)
Definition dobs := (string * string * list decl * list string * list event * list titem * list (string * list id))%type.
Inductive oobs := OObsOk (ds:list dobs) (warnings:list string) | OObsErr | OObsPanic.

Definition opt_case := (module * texts * opts * rxtab * oobs)%type.

Definition titem_eqb (x y:titem) : bool :=
  match x, y with
  | TSection a, TSection b => String.eqb a b
  | TArrow s t e l, TArrow s' t' e' l' => part_eqb s s' && N.eqb t t' && N.eqb e e' && String.eqb l l'
  | TNoteOver a, TNoteOver b => String.eqb a b
  | TNoteSide a, TNoteSide b => String.eqb a b
  | _, _ => false
  end.
Definition tbox_eqb (x y:string * list id) : bool := String.eqb (fst x) (fst y) && list_eqb N.eqb (snd x) (snd y).

Definition diagram_ok (d:diagram) (o:dobs) : bool :=
  match o with (out, title, decls, labels, evs, txs, bxs) =>
    String.eqb (d_out d) out && String.eqb (d_title d) title
    && list_eqb decl_eqb (d_decls d) decls && list_eqb String.eqb (d_labels d) labels
    && list_eqb event_eqb (d_events d) evs && list_eqb titem_eqb (d_texts d) txs && list_eqb tbox_eqb (d_boxes d) bxs
  end.

(* result[name] = out: of several diagrams with one name the last one stays; the harness lists them by name *)
Fixpoint last_wins (l:list diagram) : list diagram :=
  match l with
  | [] => []
  | d :: t => if existsb (fun x => String.eqb (d_out x) (d_out d)) t then last_wins t else d :: last_wins t
  end.
Fixpoint ins_diag (d:diagram) (l:list diagram) : list diagram :=
  match l with [] => [d] | y :: t => if str_leb (d_out d) (d_out y) then d :: y :: t else y :: ins_diag d t end.
Definition by_name (l:list diagram) : list diagram := fold_right ins_diag [] (last_wins l).

Fixpoint all2 {A B} (f:A -> B -> bool) (x:list A) (y:list B) : bool :=
  match x, y with [], [] => true | a :: x', b :: y' => f a b && all2 f x' y' | _, _ => false end.

Definition opt_ok (jb:bool) (V:variant) (OV:ovariant) (c:opt_case) : bool :=
  match c with (m, T, o, t, obs) =>
    match do_construct (rx_of t) jb V OV m T o, obs with
    | OOk (ds, w), OObsOk ds' w' =>
        all2 diagram_ok (by_name ds) ds' && list_eqb String.eqb (sort_strs w) (sort_strs w')
    | OErr, OObsErr => true
    | OPanic, OObsPanic => true
    | _, _ => false
    end
  end.
