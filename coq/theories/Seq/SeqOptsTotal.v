(* C13 - DoConstructSequenceDiagrams as a whole never panics (Seq/SeqOpts.do_construct), for EVERY module (call graphs
   with cycles, calls to what does not exist, statements without type, alternatives without choices), every text table,
   every option record (both modes, any format strings, any `blackboxes` attributes, any entries): it returns diagrams or
   an error - given the four facts about the current source that this needs (lookups return errors, the default arm of
   visitStatment returns an error, format strings are tried before use, the blackboxes attribute is read with guards).
   The pieces: the text walk of a section ends with one level of fuel per endpoint (same measure as the structural
   walk: the in-progress list is duplicate free and within the endpoint keys) and, over a format that passed the trial
   parse, never panics (FmtProps.fmt_checked_never_panics: whether Parse panics is decided by the format alone);
   gen neither panics nor runs out of fuel (SeqProps.seq_no_panic / seq_terminates). *)
From Coq Require Import String Ascii List NArith Bool Arith Lia.
Import ListNotations.
Require Import Verif.Seq.SeqModel Verif.Seq.SeqProps Verif.Seq.Fmt Verif.Seq.FmtProps Verif.Seq.SeqOpts Verif.Seq.SeqOptsProps.

Section Total.
  Variable rx : string -> option (string -> bool).
  Variable m : module.
  Variable T : texts.

  Lemma not_inprog (k:id*id) l : existsb (key_eqb k) l = false -> ~ In k l.
  Proof.
    intros H Hin. assert (existsb (key_eqb k) l = true); [|congruence].
    apply existsb_exists. exists k. split; [exact Hin|apply key_eqb_refl].
  Qed.

  (* ---- the text walk of one section ---- *)
  Lemma text_walk_total epfmt tbb : format_ok rx epfmt = true ->
    forall fuel inprog caller a e,
      NoDup inprog -> incl inprog (keys m) -> length (keys m) < fuel + length inprog ->
      exists items, text_walk rx m T epfmt tbb fuel inprog caller a e = POk items.
  Proof.
    intros Hok. induction fuel as [|f IH]; intros inprog caller a e Hnd Hincl Hlen.
    - exfalso. pose proof (NoDup_incl_length Hnd Hincl). lia.
    - cbn [text_walk]. destruct (lookup m a e) as [[ap ep]|] eqn:L; [|eauto].
      assert (Harrow : exists ai,
                 (if negb ((has_pat PHuman (app_pats ap) && negb (is_some caller)) || has_pat PCron (app_pats ap)) then
                    bindp (match caller with
                           | Some (ca, ce, k) => call_label rx m T epfmt ca ce k a e
                           | None => POk (normalize_epname (ex_name (tx_ep T a e)))
                           end)
                          (fun l => POk (if ep_hidden ep then []
                                         else [TArrow (sender_of (match caller with Some (ca, _, _) => Some ca | None => None end)) a e
                                                      (sel (mem_str "cron" (ex_pats (tx_ep T a e))) "<&timer>" ++ l)]))
                  else POk []) = POk ai).
      { destruct (negb _); [|eauto]. destruct caller as [[[ca ce] k]|]; [|cbn [bindp]; eauto].
        unfold call_label, label_endpoint.
        match goal with |- context [parse rx epfmt ?A] => destruct (fmt_checked_never_panics rx epfmt Hok A) as [l El]; rewrite El end.
        cbn [bindp]. eauto. }
      destruct Harrow as [ai Eai]. rewrite Eai. cbn [bindp].
      destruct (ep_body ep) as [|x0 b0] eqn:Eb; [eauto|].
      destruct (_ || existsb (key_eqb (a, e)) inprog) eqn:C; [eauto|].
      apply orb_false_iff in C as [_ C]. apply not_inprog in C.
      match goal with |- exists items, bindp (?G ?L) ?K = POk items => assert (Hgo : forall l, exists y, G l = POk y) end.
      { induction l as [|[k c] r IHl]; [eexists; reflexivity|].
        destruct (IH ((a,e) :: inprog) (Some (a, e, k)) (fst c) (snd c)) as [x Ex].
        - constructor; assumption.
        - intros z [<-|Hz]; [eapply lookup_in_keys, L|apply Hincl, Hz].
        - cbn [length]. lia.
        - destruct IHl as [y Ey]. rewrite Ex. cbn [bindp]. rewrite Ey. cbn [bindp]. eauto. }
      match goal with |- exists items, bindp (?G ?L) ?K = POk items => destruct (Hgo L) as [y Ey]; rewrite Ey end.
      cbn [bindp]. eauto.
  Qed.

  Lemma text_entries_total epfmt fuel all : format_ok rx epfmt = true -> n_endpoints m < fuel ->
    forall es tbb u, exists r, text_entries rx m T epfmt fuel all tbb u es = POk r.
  Proof.
    intros Hok Hf. induction es as [|[a e] r IH]; intros tbb u; cbn [text_entries]; [eauto|].
    destruct (text_walk_total epfmt (mark_others_t all (a, e) tbb) Hok fuel [] None a e) as [items Ei].
    - constructor.
    - intros z [].
    - rewrite keys_length. cbn [length]. lia.
    - rewrite Ei. cbn [bindp].
      match goal with |- context [text_entries rx m T epfmt fuel all ?tb ?uu r] => destruct (IH tb uu) as [[[its tb'] uu'] Er]; rewrite Er end.
      cbn [bindp]. eauto.
  Qed.

  Lemma decl_labels_total appfmt : format_ok rx appfmt = true -> forall d, exists l, decl_labels rx T appfmt d = POk l.
  Proof.
    intros Hok. induction d as [|[a k] t IH]; cbn [decl_labels]; [eauto|].
    unfold app_label, label_app.
    match goal with |- context [parse rx appfmt ?A] => destruct (fmt_checked_never_panics rx appfmt Hok A) as [l El]; rewrite El end.
    cbn [bindp]. destruct IH as [r Er]. rewrite Er. cbn [bindp]. eauto.
  Qed.

  Section Construct.
    Variable short_b : bool.
    Variable V : variant.
    Variable OV : ovariant.
    Hypothesis HV : v_lookup_panics V = false.
    Hypothesis HN : v_nil_panics V = false.
    Hypothesis HF : ov_fmt_checked OV = true.
    Hypothesis HG : ov_bbattr_guarded OV = true.

    Lemma check_fmt_ok self : check_fmt rx OV self = OOk tt -> format_ok rx self = true.
    Proof. unfold check_fmt, format_ok. rewrite HF. destruct (parse rx self []); [reflexivity|discriminate|discriminate]. Qed.
    Lemma check_fmt_cases self : check_fmt rx OV self = OErr \/ (check_fmt rx OV self = OOk tt /\ format_ok rx self = true).
    Proof. unfold check_fmt, format_ok. rewrite HF. destruct (parse rx self []); auto. Qed.

    (* one GenerateSequenceDiag *)
    Lemma generate_total out title epfmt appfmt group entries u :
      format_ok rx epfmt = true -> format_ok rx appfmt = true ->
      generate rx V OV m T out title epfmt appfmt group entries u <> OPanic.
    Proof.
      intros He Ha. unfold generate.
      pose proof (seq_no_panic V m HV HN (fuel_for m) (bbins_of T u) (map (start_of T) entries)) as Hp.
      pose proof (seq_terminates_fuel_for V m (bbins_of T u) (map (start_of T) entries)) as Ht.
      unfold gen in *.
      destruct (gen_st V m (fuel_for m) (bbins_of T u) (map (start_of T) entries)) as [st| | |]; cbn [bind of_outcome obind] in *;
        try discriminate; try congruence.
      destruct (text_entries_total epfmt (fuel_for m) (map (start_of T) entries) He (Nat.lt_succ_diag_r _) (map (start_of T) entries)
                  (tbb_of T u) (if ov_onechar_in_heap OV then clear_one_char u else u)) as [[[items tbb] u2] Er].
      rewrite Er. cbn [of_pres obind fst].
      destruct (decl_labels_total appfmt Ha (declare m (syms st))) as [labels El]. rewrite El. cbn [of_pres obind]. discriminate.
    Qed.

    Lemma eps_loop_total o a spout seqtitle epfmt appfmt :
      format_ok rx spout = true -> format_ok rx seqtitle = true -> format_ok rx epfmt = true -> format_ok rx appfmt = true ->
      forall es u, eps_loop rx V OV m T o a spout seqtitle epfmt appfmt u es <> OPanic.
    Proof.
      intros Ho Hs He Ha. induction es as [|[e ex] r IH]; intros u; cbn [eps_loop]; [discriminate|].
      unfold fmt_output.
      match goal with |- context [parse rx spout ?A] => destruct (fmt_checked_never_panics rx spout Ho A) as [outname Eo]; rewrite Eo end.
      cbn [of_pres obind]. rewrite HG.
      pose proof (guarded_transform_total (ex_bbs ex)) as Hb.
      destruct (transform_bbs true (ex_bbs ex)) as [bbs2| |]; cbn [obind]; [|discriminate|contradiction].
      match goal with |- context [if is_nil ?en then OErr else _] => destruct (is_nil en); [discriminate|] end.
      pose proof (guarded_to_uptos_total bbs2 u KEndpointCollection) as Hu.
      destruct (to_uptos true u bbs2 KEndpointCollection) as [u1| |]; cbn [obind]; [|discriminate|contradiction].
      unfold fmt_seq.
      match goal with |- context [parse rx seqtitle ?A] => destruct (fmt_checked_never_panics rx seqtitle Hs A) as [title Et]; rewrite Et end.
      cbn [of_pres obind].
      match goal with |- context [generate rx V OV m T ?a1 ?a2 ?a3 ?a4 ?a5 ?a6 ?a7] =>
        pose proof (generate_total a1 a2 a3 a4 a5 a6 a7 He Ha) as Hg; destruct (generate rx V OV m T a1 a2 a3 a4 a5 a6 a7) as [[[d u2] w1]| |] end;
        cbn [obind]; [|discriminate|contradiction].
      match goal with |- context [eps_loop rx V OV m T o a spout seqtitle epfmt appfmt ?u3 r] =>
        specialize (IH u3); destruct (eps_loop rx V OV m T o a spout seqtitle epfmt appfmt u3 r) as [[[ds u4] w2]| |] end;
        cbn [obind]; [discriminate|discriminate|contradiction].
    Qed.

    Lemma apps_loop_total o : format_ok rx (o_output o) = true -> forall apps, apps_loop rx short_b V OV m T o apps <> OPanic.
    Proof.
      intros Ho. induction apps as [|an r IH]; cbn [apps_loop]; [discriminate|].
      rewrite HG. pose proof (guarded_transform_total (ax_bbs (tx_app T (app_id T an)))) as Hb.
      destruct (transform_bbs true (ax_bbs (tx_app T (app_id T an)))) as [bbs| |]; cbn [obind]; [|discriminate|contradiction].
      match goal with |- context [check_fmt rx OV ?f] => destruct (check_fmt_cases f) as [E|[E Hs]]; rewrite E; cbn [obind]; [discriminate|] end.
      match goal with |- context [check_fmt rx OV ?f] => destruct (check_fmt_cases f) as [E2|[E2 He]]; rewrite E2; cbn [obind]; [discriminate|] end.
      match goal with |- context [check_fmt rx OV ?f] => destruct (check_fmt_cases f) as [E3|[E3 Ha]]; rewrite E3; cbn [obind]; [discriminate|] end.
      pose proof (guarded_to_uptos_total bbs [] KApplication) as Hu.
      destruct (to_uptos true [] bbs KApplication) as [u0| |]; cbn [obind]; [|discriminate|contradiction].
      match goal with |- context [eps_loop rx V OV m T o ?a ?sp ?st ?ef ?af ?u ?es] =>
        pose proof (eps_loop_total o a sp st ef af Ho Hs He Ha es u) as Hl; destruct (eps_loop rx V OV m T o a sp st ef af u es) as [[[ds u1] w1]| |] end;
        cbn [obind]; [|discriminate|contradiction].
      destruct (apps_loop rx short_b V OV m T o r) as [[ds2 w2]| |]; cbn [obind]; [discriminate|discriminate|contradiction].
    Qed.

    Theorem do_construct_total o : do_construct rx short_b V OV m T o <> OPanic.
    Proof.
      unfold do_construct. destruct (contains "%(epname)" (o_output o)).
      - destruct (check_fmt_cases (o_output o)) as [E|[E Ho]]; rewrite E; cbn [obind]; [discriminate|].
        apply apps_loop_total, Ho.
      - destruct (is_nil (o_endpoints o)); [discriminate|].
        match goal with |- context [check_fmt rx OV ?f] => destruct (check_fmt_cases f) as [E|[E He]]; rewrite E; cbn [obind]; [discriminate|] end.
        match goal with |- context [check_fmt rx OV ?f] => destruct (check_fmt_cases f) as [E2|[E2 Ha]]; rewrite E2; cbn [obind]; [discriminate|] end.
        rewrite HG.
        match goal with |- context [to_uptos true [] ?b KCommandLine] =>
          pose proof (guarded_to_uptos_total b [] KCommandLine) as Hu; destruct (to_uptos true [] b KCommandLine) as [u0| |] end;
          cbn [obind]; [|discriminate|contradiction].
        match goal with |- context [generate rx V OV m T ?a1 ?a2 ?a3 ?a4 ?a5 ?a6 ?a7] =>
          pose proof (generate_total a1 a2 a3 a4 a5 a6 a7 He Ha) as Hg; destruct (generate rx V OV m T a1 a2 a3 a4 a5 a6 a7) as [[[d u1] w]| |] end;
          cbn [obind]; [discriminate|discriminate|contradiction].
    Qed.
  End Construct.
End Total.

(* the hypotheses are met by the repaired source; the same run over a module with a recursion, a call to a missing
   application and a statement without type ends in an error *)
Example do_construct_total_nonvacuous :
  (exists ds w, w_run ov_repaired [Some ["A01 <- E00"%string; "x"%string]] [] "%(epname)" = OOk (ds, w) /\ List.length ds = 2)
  /\ do_construct rx_none false v_repaired ov_repaired nil_module
       [(0%N, {| ax_name := "A"; ax_attrs := []; ax_bbs := []; ax_eps := [(0%N, {| ex_name := "E"; ex_long := ""; ex_attrs := []; ex_pats := []; ex_args := ""; ex_bbs := []; ex_calls := [no_call] |})] |});
        (1%N, {| ax_name := "B"; ax_attrs := []; ax_bbs := []; ax_eps := [(0%N, {| ex_name := "G"; ex_long := ""; ex_attrs := []; ex_pats := []; ex_args := ""; ex_bbs := []; ex_calls := [] |})] |})]
       {| o_output := "out.puml"; o_title := ""; o_epfmt := "%(epname)"; o_appfmt := "%(appname)"; o_endpoints := ["A <- E"%string]; o_apps := [];
          o_bbflag := []; o_bblist := []; o_group := "" |} = OErr.
Proof. split; [eexists; eexists; vm_compute; split; reflexivity|vm_compute; reflexivity]. Qed.
