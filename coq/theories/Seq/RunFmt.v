(* Correspondence glue for the label pipeline of C13 (Seq/Fmt.v): one case = (format string, entry point with its
   arguments, what Go's regexp says about the patterns the format contains, what the real FormatParser answered). *)
From Coq Require Import String Ascii List NArith Bool.
Import ListNotations.
Require Import Verif.Seq.Fmt Verif.Base.Harness.
Local Open Scope string_scope.

Definition bs (l:list N) : string := fold_right (fun n s => String (ascii_of_N n) s) EmptyString l.

Fixpoint sassoc {A} (k:string) (l:list (string * A)) : option A :=
  match l with [] => None | (j,x) :: t => if String.eqb k j then Some x else sassoc k t end.

(* pattern -> None (does not compile) | Some (value -> matches) as answered by regexp.Compile / MatchString *)
Definition rxtab := list (string * option (list (string * bool))).
Definition rx_of (t:rxtab) (p:string) : option (string -> bool) :=
  match sassoc p t with
  | Some (Some vt) => Some (fun v => match sassoc v vt with Some b => b | None => false end)
  | Some None => None
  | None => None
  end.

Definition EPP n h hs ni a p c att := {| p_epname := n; p_human := h; p_human_sender := hs; p_needs_int := ni; p_args := a;
                                        p_patterns := p; p_controls := c; p_attrs := att |}.

Inductive fcall :=
| CParse (vals:attrs)
| CEndpoint (p:ep_param)
| CApp (appname controls:string) (a:attrs)
| CConstruct (latter appname controls:string) (a:attrs)     (* ConstructFormatParser(self, latter) then LabelApp *)
| CSeq (epname eplongname:string) (a:attrs)
| COutput (appname epname eplongname:string) (a:attrs).

Inductive fobs := FLabel (s:string) | FPanicked (k:fpanic) | FCrash.

Definition fmt_case := (string * fcall * rxtab * fobs)%type.

Definition fpanic_eqb (x y:fpanic) : bool :=
  match x, y with
  | MissingVariable, MissingVariable | MissingCondValue, MissingCondValue
  | UnclosedExpansion, UnclosedExpansion | BadRegexp, BadRegexp => true
  | _, _ => false
  end.

Definition run_fcall (jb:bool) (rx:string -> option (string -> bool)) (self:string) (c:fcall) : pres string :=
  match c with
  | CParse v => parse rx self v
  | CEndpoint p => label_endpoint rx self p
  | CApp n ctl a => label_app rx self n ctl a
  | CConstruct latter n ctl a => label_app rx (construct_format jb self latter) n ctl a
  | CSeq n l a => fmt_seq rx self n l a
  | COutput an n l a => fmt_output rx self an n l a
  end.

Definition fmt_ok (jb:bool) (c:fmt_case) : bool :=
  match c with (self, call, t, o) =>
    match run_fcall jb (rx_of t) self call, o with
    | POk s, FLabel s' => String.eqb s s'
    | PPanic k, FPanicked k' => fpanic_eqb k k'
    | _, _ => false
    end
  end.

(* the pure helpers *)
Inductive util_case :=
| UNormalize (s out:string)
| URemovePct (s out:string)
| UIso (a:attrs) (out:string)
| UMerge (a b out:attrs)              (* out sorted by key *)
| UEscape (s out:string).

Definition attrs_same (x y:attrs) : bool :=
  forallb (fun kv => ahas (fst kv) y && String.eqb (aget (fst kv) y) (snd kv)) x
  && forallb (fun kv => ahas (fst kv) x && String.eqb (aget (fst kv) x) (snd kv)) y.

Definition util_ok (jb:bool) (c:util_case) : bool :=
  match c with
  | UNormalize s out => String.eqb (normalize_epname s) out
  | URemovePct s out => String.eqb (remove_percent s) out
  | UIso a out => String.eqb (iso_ctrl_str a) out
  | UMerge a b out => attrs_same (merge_attributes a b) out
  | UEscape s out => String.eqb (escape_word_boundary jb s) out
  end.
