(* C13 - group boxes: every participant of the diagram is in exactly one box (the one named by its group-by value)
   or, without such a value, outside all boxes; boxes hold declared participants only, no box is written twice. *)
From Coq Require Import List NArith Bool Lia Arith Permutation.
Import ListNotations.
Require Import Verif.Seq.SeqModel Verif.Seq.SeqFlat Verif.Seq.SeqProps.

Lemma ins_sorted_perm x l : Permutation (ins_sorted x l) (x :: l).
Proof.
  induction l as [|y t IH]; cbn [ins_sorted]; [reflexivity|]. destruct (N.leb x y); [reflexivity|].
  rewrite IH. apply perm_swap.
Qed.
Lemma isort_perm l : Permutation (isort l) l.
Proof. induction l as [|x t IH]; cbn [isort fold_right]; [reflexivity|]. fold (isort t). rewrite ins_sorted_perm, IH. reflexivity. Qed.

(* written in ascending order *)
Fixpoint ascending (l:list N) : Prop :=
  match l with [] => True | x :: t => (match t with [] => True | y :: _ => (x <= y)%N end) /\ ascending t end.
Lemma ins_sorted_ascending x l : ascending l -> ascending (ins_sorted x l).
Proof.
  induction l as [|y t IH]; cbn [ins_sorted]; [cbn; auto|]. intros [H1 H2].
  destruct (N.leb_spec x y) as [Hle|Hgt].
  - cbn [ascending]. auto.
  - specialize (IH H2). cbn [ascending]. split; [|exact IH].
    destruct t as [|z t']; cbn [ins_sorted]; [lia|]. destruct (N.leb x z); lia.
Qed.
Lemma isort_ascending l : ascending (isort l).
Proof. induction l as [|x t IH]; [exact I|]. cbn [isort fold_right]. apply ins_sorted_ascending, IH. Qed.

Section Boxes.
  Variable groups : list (id*id).
  Variable ys : list id.
  Hypothesis Hnd : NoDup ys.

  Lemma in_box_names g : In g (box_names groups ys) <-> exists x, In x ys /\ group_of groups x = Some g.
  Proof.
    unfold box_names. rewrite (Permutation_in' eq_refl (isort_perm _)), nodup_In, in_flat_map. split.
    - intros (x & Hx & Hg). exists x. split; [exact Hx|]. destruct (group_of groups x); [destruct Hg as [->|[]]; reflexivity|destruct Hg].
    - intros (x & Hx & Hg). exists x. split; [exact Hx|]. rewrite Hg. left. reflexivity.
  Qed.
  Lemma box_names_nodup : NoDup (box_names groups ys).
  Proof. unfold box_names. eapply Permutation_NoDup; [symmetry; apply isort_perm|apply NoDup_nodup]. Qed.
  Lemma in_group_spec g x : in_group groups g x = true <-> group_of groups x = Some g.
  Proof.
    unfold in_group. destruct (group_of groups x) as [g'|]; [|split; discriminate].
    rewrite N.eqb_eq. split; [intros ->; reflexivity|intros [= ->]; reflexivity].
  Qed.

  (* no box is written twice, in name order *)
  Theorem boxes_names_nodup : NoDup (map fst (boxes_of groups ys)) /\ ascending (map fst (boxes_of groups ys)).
  Proof.
    unfold boxes_of. rewrite map_map. cbn [fst]. rewrite map_id. split; [apply box_names_nodup|apply isort_ascending].
  Qed.
  (* a box holds exactly the declared participants whose group-by value is its name, each once, in name order *)
  Theorem box_members g mem : In (g, mem) (boxes_of groups ys) ->
    NoDup mem /\ ascending mem /\ forall x, In x mem <-> In x ys /\ group_of groups x = Some g.
  Proof.
    unfold boxes_of. rewrite in_map_iff. intros (g' & [= <- <-] & _). split; [|split].
    - eapply Permutation_NoDup; [symmetry; apply isort_perm|apply NoDup_filter, Hnd].
    - apply isort_ascending.
    - intros x. rewrite (Permutation_in' eq_refl (isort_perm _)), filter_In, in_group_spec. reflexivity.
  Qed.
  (* a participant with a group-by value has its box; one without is in no box *)
  Theorem box_exists x g : In x ys -> group_of groups x = Some g -> exists mem, In (g, mem) (boxes_of groups ys) /\ In x mem.
  Proof.
    intros Hx Hg. exists (isort (filter (in_group groups g) ys)). split.
    - unfold boxes_of. apply in_map_iff. exists g. split; [reflexivity|]. apply in_box_names. eauto.
    - rewrite (Permutation_in' eq_refl (isort_perm _)), filter_In, in_group_spec. auto.
  Qed.
  Theorem box_unique x g mem g' mem' :
    In (g, mem) (boxes_of groups ys) -> In x mem -> In (g', mem') (boxes_of groups ys) -> In x mem' -> g = g' /\ mem = mem'.
  Proof.
    intros Hb Hx Hb' Hx'. destruct (box_members _ _ Hb) as (_ & _ & H). destruct (box_members _ _ Hb') as (_ & _ & H').
    apply H in Hx as [_ E]. apply H' in Hx' as [_ E']. assert (g = g') by congruence. subst g'. split; [reflexivity|].
    unfold boxes_of in *. apply in_map_iff in Hb as (? & [= <- <-] & _). apply in_map_iff in Hb' as (? & [= <- <-] & _). reflexivity.
  Qed.
End Boxes.

(* for a run of the generator: the symbol table is duplicate free and is what the head declares *)
Theorem seq_boxes V m fuel bbs starts groups d ev bx :
  gen V m fuel bbs starts = Ok (d, ev) -> gen_boxes V m fuel bbs starts groups = Ok bx ->
  NoDup (map fst bx)
  /\ (forall g mem, In (g, mem) bx -> NoDup mem /\ forall x, In x mem <-> In x (map fst d) /\ group_of groups x = Some g)
  /\ (forall x g, In x (map fst d) -> group_of groups x = Some g -> exists mem, In (g, mem) bx /\ In x mem)
  /\ (forall x g mem g' mem', In (g, mem) bx -> In x mem -> In (g', mem') bx -> In x mem' -> g = g' /\ mem = mem').
Proof.
  unfold gen, gen_boxes. intros H Hb. destruct (gen_st V m fuel bbs starts) as [s| | |] eqn:R; try discriminate.
  cbn [bind] in *. injection H as <- _. injection Hb as <-.
  assert (Hnd : NoDup (syms s)).
  { unfold gen_st in R. apply run_entries_decl in R as (H1 & _); [exact H1|]. repeat split; [constructor|intros x []|intros y b []]. }
  assert (Hd : forall x, In x (map fst (declare m (syms s))) <-> In x (syms s)).
  { intros x. split; apply Permutation_in; [apply declare_perm|symmetry; apply declare_perm]. }
  split; [apply boxes_names_nodup|]. split; [|split].
  - intros g mem Hin. destruct (box_members groups (syms s) Hnd g mem Hin) as (N1 & _ & M1). split; [exact N1|].
    intros x. rewrite Hd. apply M1.
  - intros x g Hx Hg. apply box_exists; [apply Hd, Hx|exact Hg].
  - intros x g mem g' mem'. apply box_unique, Hnd.
Qed.

Example seq_boxes_nonvacuous :
  gen_boxes {| v_lookup_panics := false; v_inprog_unguarded := false; v_nil_panics := false |} inprog_module (fuel_for inprog_module) [] [(0%N,0%N)]
            [(0%N,2%N); (2%N,1%N); (1%N,2%N)]
  = Ok [(1%N,[2%N]); (2%N,[0%N;1%N])].
Proof. vm_compute. reflexivity. Qed.
