(* C13 - the statement walk of one expansion (visitStatment / visitAlt / visitBlockStmt) as a flat instruction list.
   walk_list threads the state through a nested recursion over the statement tree; every later proof wants a plain
   list induction instead. `flat_list` is the list of things the walk does in order - emit this event, make this
   call with this isLastStmt flag - and `walk_flat` proves that walk_list IS the fold `run` over it. The pure facts
   about flat_list (blocks nest, the calls are calls_list in source order, only the final instruction can be a call
   flagged last) are proved here too. *)
From Coq Require Import List NArith Bool Lia.
Import ListNotations.
Require Import Verif.Seq.SeqModel.

(* ---- induction principle for the nested statement type ---- *)
Section StmtInd.
  Variable P : stmt -> Prop.
  Hypothesis Hcall : forall t te, P (Call t te).
  Hypothesis Haction : P Action.
  Hypothesis Hdots : P Dots.
  Hypothesis Hret : forall k, P (Ret k).
  Hypothesis Hblock : forall k b, Forall P b -> P (Block k b).
  Hypothesis Halt : forall cs, Forall (Forall P) cs -> P (Alt cs).
  Hypothesis Hnil : P Nil.
  Fixpoint stmt_ind' (x:stmt) : P x :=
    match x with
    | Call t te => Hcall t te
    | Action => Haction
    | Dots => Hdots
    | Ret k => Hret k
    | Block k b => Hblock k b ((fix go (l:list stmt) : Forall P l :=
                                  match l with [] => Forall_nil _ | y :: r => Forall_cons _ (stmt_ind' y) (go r) end) b)
    | Alt cs => Halt cs ((fix goc (l:list (list stmt)) : Forall (Forall P) l :=
                            match l with
                            | [] => Forall_nil _
                            | c :: r => Forall_cons _ ((fix go (l:list stmt) : Forall P l :=
                                                          match l with [] => Forall_nil _ | y :: r' => Forall_cons _ (stmt_ind' y) (go r') end) c)
                                                    (goc r)
                            end) cs)
    | Nil => Hnil
    end.
End StmtInd.

(* ---- instructions ---- *)
Inductive instr := IEmit (e:event) | ICall (t te:id) (last:bool) | IFail (* the statement without `Stmt`: the walk ends here *).

Section Flat.
  Variable a : id.
  Variable sndr : part.

  Fixpoint flat_stmt (x:stmt) (last:bool) {struct x} : list instr :=
    match x with
    | Call t te => [ICall t te last]
    | Action => [IEmit (Self a)]
    | Dots => []
    | Ret _ => [IEmit (Return sndr a)]
    | Block k b =>
        IEmit (Open (kw_of k)) ::
        (fix go (l:list stmt) (lastp:bool) {struct l} : list instr :=
           match l with [] => [] | y :: r => flat_stmt y (lastp && is_nil r) ++ go r lastp end) b last
        ++ [IEmit Close]
    | Alt cs =>
        (fix goc (l:list (list stmt)) (first:bool) {struct l} : list instr :=
           match l with
           | [] => []
           | c :: r =>
               IEmit (if first then OpenAlt else Else) ::
               (fix go (l:list stmt) (lastp:bool) {struct l} : list instr :=
                  match l with [] => [] | y :: r' => flat_stmt y (lastp && is_nil r') ++ go r' lastp end) c (last && is_nil r)
               ++ goc r false
           end) cs true
        ++ [IEmit Close]
    | Nil => [IFail]
    end.
  Definition flat_list : list stmt -> bool -> list instr :=
    fix go (l:list stmt) (lastp:bool) {struct l} : list instr :=
      match l with [] => [] | y :: r => flat_stmt y (lastp && is_nil r) ++ go r lastp end.
  Definition flat_alts (last:bool) : list (list stmt) -> bool -> list instr :=
    fix goc (l:list (list stmt)) (first:bool) {struct l} : list instr :=
      match l with
      | [] => []
      | c :: r => IEmit (if first then OpenAlt else Else) :: flat_list c (last && is_nil r) ++ goc r false
      end.

  Lemma flat_block k b last : flat_stmt (Block k b) last = IEmit (Open (kw_of k)) :: flat_list b last ++ [IEmit Close].
  Proof. reflexivity. Qed.
  Lemma flat_alt cs last : flat_stmt (Alt cs) last = flat_alts last cs true ++ [IEmit Close].
  Proof. reflexivity. Qed.
  Lemma flat_list_cons y r lastp : flat_list (y :: r) lastp = flat_stmt y (lastp && is_nil r) ++ flat_list r lastp.
  Proof. reflexivity. Qed.
  Lemma flat_alts_cons last c r first :
    flat_alts last (c :: r) first = IEmit (if first then OpenAlt else Else) :: flat_list c (last && is_nil r) ++ flat_alts last r false.
  Proof. reflexivity. Qed.
End Flat.

(* ---- the fold ---- *)
Section Run.
  Variable call : st -> id -> id -> bool -> outcome st.
  Variable np : bool.
  Fixpoint run (il:list instr) (s:st) : outcome st :=
    match il with
    | [] => Ok s
    | IEmit e :: r => run r (emit s e)
    | ICall t te last :: r => bind (call s t te last) (run r)
    | IFail :: _ => nil_fail np
    end.
  Lemma run_app x y s : run (x ++ y) s = bind (run x s) (run y).
  Proof.
    revert s. induction x as [|i x IH]; intros s; [reflexivity|].
    destruct i as [e|t te last|]; cbn [run Datatypes.app]; [apply IH| |destruct np; reflexivity].
    destruct (call s t te last); cbn [bind]; auto.
  Qed.

  Variable a : id.
  Variable sndr : part.

  Lemma walk_block s k b last :
    walk_stmt call np a sndr s (Block k b) last
    = bind (walk_list call np a sndr (emit s (Open (kw_of k))) b last) (fun s' => Ok (emit s' Close)).
  Proof. reflexivity. Qed.
  Lemma walk_alt s cs last :
    walk_stmt call np a sndr s (Alt cs) last = bind (walk_alts call np a sndr last s cs true) (fun s' => Ok (emit s' Close)).
  Proof. reflexivity. Qed.
  Lemma walk_list_cons s y r lastp :
    walk_list call np a sndr s (y :: r) lastp
    = bind (walk_stmt call np a sndr s y (lastp && is_nil r)) (fun s' => walk_list call np a sndr s' r lastp).
  Proof. reflexivity. Qed.
  Lemma walk_alts_cons last s c r first :
    walk_alts call np a sndr last s (c :: r) first
    = bind (walk_list call np a sndr (emit s (if first then OpenAlt else Else)) c (last && is_nil r))
           (fun s' => walk_alts call np a sndr last s' r false).
  Proof. reflexivity. Qed.

  Lemma walk_list_flat_of l :
    Forall (fun x => forall s last, walk_stmt call np a sndr s x last = run (flat_stmt a sndr x last) s) l ->
    forall s lastp, walk_list call np a sndr s l lastp = run (flat_list a sndr l lastp) s.
  Proof.
    induction 1 as [|y r Hy _ IH]; intros s lastp; [reflexivity|].
    rewrite walk_list_cons, flat_list_cons, run_app, Hy.
    destruct (run _ s); cbn [bind]; auto.
  Qed.

  Lemma walk_stmt_flat x : forall s last, walk_stmt call np a sndr s x last = run (flat_stmt a sndr x last) s.
  Proof.
    induction x as [t te| | |k|k b IH|cs IH|] using stmt_ind'; intros s last; try reflexivity.
    - cbn [walk_stmt flat_stmt run]. destruct (call s t te last); reflexivity.
    - rewrite walk_block, flat_block. cbn [run]. rewrite run_app, (walk_list_flat_of b IH).
      destruct (run _ _); reflexivity.
    - rewrite walk_alt, flat_alt, run_app.
      assert (H : forall s first, walk_alts call np a sndr last s cs first = run (flat_alts a sndr last cs first) s).
      { clear s. induction IH as [|c r Hc _ IHr]; intros s first; [reflexivity|].
        rewrite walk_alts_cons, flat_alts_cons. cbn [run]. rewrite run_app, (walk_list_flat_of c Hc).
        destruct (run _ _); cbn [bind]; auto. }
      rewrite H. destruct (run _ _); reflexivity.
  Qed.

  Theorem walk_flat l s lastp : walk_list call np a sndr s l lastp = run (flat_list a sndr l lastp) s.
  Proof. apply walk_list_flat_of. apply Forall_forall. intros x _. apply walk_stmt_flat. Qed.
End Run.

(* ---- pure facts about the instruction list ---- *)
Definition calls_of (il:list instr) : list (id*id) :=
  flat_map (fun i => match i with ICall t te _ => [(t,te)] | _ => [] end) il.
Definition skel (il:list instr) : list event :=
  flat_map (fun i => match i with IEmit e => [e] | _ => [] end) il.
Definition is_emit (i:instr) : bool := match i with ICall _ _ _ => false | _ => true end.   (* not a call *)
Definition unflagged (il:list instr) : bool := forallb (fun i => match i with ICall _ _ true => false | _ => true end) il.
(* after a call flagged last no further call follows *)
Fixpoint flag_ok (il:list instr) : bool :=
  match il with [] => true | ICall _ _ true :: r => forallb is_emit r | _ :: r => flag_ok r end.

Lemma calls_of_app x y : calls_of (x ++ y) = calls_of x ++ calls_of y.
Proof. apply flat_map_app. Qed.
Lemma skel_app x y : skel (x ++ y) = skel x ++ skel y.
Proof. apply flat_map_app. Qed.
Lemma unflagged_app x y : unflagged (x ++ y) = unflagged x && unflagged y.
Proof. apply forallb_app. Qed.
Lemma unflagged_flag_ok il : unflagged il = true -> flag_ok il = true.
Proof.
  induction il as [|i r IH]; [reflexivity|]. cbn [unflagged forallb flag_ok]. intros H. apply andb_prop in H as [H1 H2].
  destruct i as [e|t te [|]|]; try discriminate; apply IH, H2.
Qed.
Lemma flag_ok_app_l x y : unflagged x = true -> flag_ok y = true -> flag_ok (x ++ y) = true.
Proof.
  induction x as [|i r IH]; [auto|]. cbn [unflagged forallb flag_ok Datatypes.app]. intros H Hy. apply andb_prop in H as [H1 H2].
  destruct i as [e|t te [|]|]; try discriminate; apply IH; assumption.
Qed.
Lemma flag_ok_app_r x y : flag_ok x = true -> forallb is_emit y = true -> flag_ok (x ++ y) = true.
Proof.
  induction x as [|i r IH]; cbn [flag_ok Datatypes.app]; intros Hx Hy.
  - apply unflagged_flag_ok. unfold unflagged. rewrite forallb_forall in *. intros i Hi. specialize (Hy i Hi). destruct i; [reflexivity|discriminate|reflexivity].
  - destruct i as [e|t te [|]|]; try (apply IH; assumption). rewrite forallb_app, Hx, Hy. reflexivity.
Qed.

Section FlatFacts.
  Variable a : id.
  Variable sndr : part.
  Notation fstmt := (flat_stmt a sndr).
  Notation flist := (flat_list a sndr).
  Notation falts := (flat_alts a sndr).

  (* the calls, in source order *)
  Lemma calls_flat_list_of l :
    Forall (fun x => forall last, calls_of (fstmt x last) = calls_stmt x) l -> forall lastp, calls_of (flist l lastp) = calls_list l.
  Proof.
    induction 1 as [|y r Hy _ IH]; intros lastp; [reflexivity|].
    rewrite flat_list_cons, calls_of_app, Hy, IH. reflexivity.
  Qed.
  Lemma calls_flat_stmt x : forall last, calls_of (fstmt x last) = calls_stmt x.
  Proof.
    induction x as [t te| | |k|k b IH|cs IH|] using stmt_ind'; intros last; try reflexivity.
    - rewrite flat_block. change (IEmit (Open (kw_of k)) :: flist b last ++ [IEmit Close]) with ([IEmit (Open (kw_of k))] ++ flist b last ++ [IEmit Close]).
      rewrite !calls_of_app, (calls_flat_list_of b IH). cbn. rewrite app_nil_r. reflexivity.
    - rewrite flat_alt, calls_of_app. cbn [calls_of flat_map]. rewrite app_nil_r.
      change (calls_stmt (Alt cs)) with (calls_alts cs).
      generalize true as first. induction IH as [|c r Hc _ IHr]; intros first; [reflexivity|].
      rewrite flat_alts_cons.
      change (IEmit (if first then OpenAlt else Else) :: flist c (last && is_nil r) ++ falts last r false)
        with ([IEmit (if first then OpenAlt else Else)] ++ flist c (last && is_nil r) ++ falts last r false).
      rewrite !calls_of_app, (calls_flat_list_of c Hc), IHr. reflexivity.
  Qed.
  Theorem calls_flat_list l lastp : calls_of (flist l lastp) = calls_list l.
  Proof. apply calls_flat_list_of, Forall_forall. intros x _. apply calls_flat_stmt. Qed.

  (* only the final call can carry the flag, and only when the list itself is in last position *)
  Lemma unflagged_list_of l : Forall (fun x => unflagged (fstmt x false) = true) l -> unflagged (flist l false) = true.
  Proof.
    induction 1 as [|y r Hy _ IH]; [reflexivity|]. rewrite flat_list_cons, unflagged_app. cbn [andb]. rewrite Hy, IH. reflexivity.
  Qed.
  Lemma unflagged_stmt x : unflagged (fstmt x false) = true.
  Proof.
    induction x as [t te| | |k|k b IH|cs IH|] using stmt_ind'; try reflexivity.
    - rewrite flat_block. cbn [unflagged forallb]. fold (unflagged (flist b false ++ [IEmit Close])).
      rewrite unflagged_app, (unflagged_list_of b IH). reflexivity.
    - rewrite flat_alt, unflagged_app.
      assert (H : forall first, unflagged (falts false cs first) = true).
      { induction IH as [|c r Hc _ IHr]; intros first; [reflexivity|].
        rewrite flat_alts_cons. cbn [unflagged forallb]. fold (unflagged (flist c (false && is_nil r) ++ falts false r false)).
        rewrite unflagged_app. cbn [andb]. rewrite (unflagged_list_of c Hc), IHr. destruct first; reflexivity. }
      rewrite H. reflexivity.
  Qed.
  Lemma unflagged_list l : unflagged (flist l false) = true.
  Proof. apply unflagged_list_of, Forall_forall. intros x _. apply unflagged_stmt. Qed.

  Lemma flag_ok_list_of l : Forall (fun x => flag_ok (fstmt x true) = true) l -> flag_ok (flist l true) = true.
  Proof.
    induction 1 as [|y r Hy _ IH]; [reflexivity|]. rewrite flat_list_cons. cbn [andb].
    destruct r as [|z r']; cbn [is_nil].
    - cbn [flat_list]. rewrite app_nil_r. exact Hy.
    - apply flag_ok_app_l; [apply unflagged_stmt|exact IH].
  Qed.
  Lemma flag_ok_stmt x : flag_ok (fstmt x true) = true.
  Proof.
    induction x as [t te| | |k|k b IH|cs IH|] using stmt_ind'; try reflexivity.
    - rewrite flat_block. cbn [flag_ok]. apply flag_ok_app_r; [apply (flag_ok_list_of b IH)|reflexivity].
    - rewrite flat_alt. apply flag_ok_app_r; [|reflexivity].
      assert (H : forall first, flag_ok (falts true cs first) = true); [|apply H].
      induction IH as [|c r Hc _ IHr]; intros first; [reflexivity|].
      rewrite flat_alts_cons. cbn [andb].
      transitivity (flag_ok (flist c (is_nil r) ++ falts true r false)); [destruct first; reflexivity|].
      destruct r as [|c' r']; cbn [is_nil].
      + cbn [flat_alts]. rewrite app_nil_r. apply (flag_ok_list_of c Hc).
      + apply flag_ok_app_l; [apply unflagged_list|apply IHr].
  Qed.
  Theorem flag_ok_list l lastp : flag_ok (flist l lastp) = true.
  Proof.
    destruct lastp; [apply flag_ok_list_of, Forall_forall; intros x _; apply flag_ok_stmt|apply unflagged_flag_ok, unflagged_list].
  Qed.

  (* the events the walk itself writes *)
  Definition walk_ev (e:event) : Prop :=
    match e with
    | Self x => x = a
    | Return p x => p = sndr /\ x = a
    | Open _ | OpenAlt | Else | Close => True
    | _ => False
    end.
  Definition instr_ok (i:instr) : Prop := match i with IEmit e => walk_ev e | _ => True end.
  Lemma instrs_ok_list_of l : Forall (fun x => forall last, Forall instr_ok (fstmt x last)) l -> forall lastp, Forall instr_ok (flist l lastp).
  Proof.
    induction 1 as [|y r Hy _ IH]; intros lastp; [constructor|]. rewrite flat_list_cons. apply Forall_app. split; [apply Hy|apply IH].
  Qed.
  Lemma instrs_ok_stmt x : forall last, Forall instr_ok (fstmt x last).
  Proof.
    induction x as [t te| | |k|k b IH|cs IH|] using stmt_ind'; intros last;
      try (repeat constructor; fail).
    - rewrite flat_block. constructor; [exact I|]. apply Forall_app. split; [apply (instrs_ok_list_of b IH)|repeat constructor].
    - rewrite flat_alt. apply Forall_app. split; [|repeat constructor].
      generalize true as first. induction IH as [|c r Hc _ IHr]; intros first; [constructor|].
      rewrite flat_alts_cons. constructor; [destruct first; exact I|]. apply Forall_app. split; [apply (instrs_ok_list_of c Hc)|apply IHr].
  Qed.
  Theorem instrs_ok_list l lastp : Forall instr_ok (flist l lastp).
  Proof. apply instrs_ok_list_of, Forall_forall. intros x _. apply instrs_ok_stmt. Qed.
End FlatFacts.

(* ---- generic preservation through the fold ---- *)
Section RunPres.
  Variable call : st -> id -> id -> bool -> outcome st.
  Variable np : bool.
  Variable a : id.
  Variable sndr : part.
  Variable R : st -> st -> Prop.
  Hypothesis Rrefl : forall s, R s s.
  Hypothesis Rtrans : forall s1 s2 s3, R s1 s2 -> R s2 s3 -> R s1 s3.
  Hypothesis Remit : forall s e, walk_ev a sndr e -> R s (emit s e).
  Hypothesis Rcall : forall s t te last s', call s t te last = Ok s' -> R s s'.
  Lemma run_pres il : Forall (instr_ok a sndr) il -> forall s s', run call np il s = Ok s' -> R s s'.
  Proof.
    induction 1 as [|i r Hi _ IH]; intros s s' H; cbn [run] in H.
    - injection H as <-. apply Rrefl.
    - destruct i as [e|t te last|].
      + eapply Rtrans; [apply Remit, Hi|apply IH, H].
      + destruct (call s t te last) as [s1| | |] eqn:E; try discriminate. cbn [bind] in H.
        eapply Rtrans; [eapply Rcall, E|apply IH, H].
      + destruct np; discriminate.
  Qed.
  Theorem walk_pres l lastp s s' : walk_list call np a sndr s l lastp = Ok s' -> R s s'.
  Proof. rewrite walk_flat. apply run_pres, instrs_ok_list. Qed.
End RunPres.
