(* C13 - the call tree as a specification WITHOUT fuel, and the generator against it.
   `walks m bbs stack from a e evs`: evs are the call arrows of the depth-first walk that starts with the call
   from -> a.e while the endpoints in `stack` are being expanded: the arrow of the call itself (unless the target is a
   cron participant, a human participant called from outside, or the endpoint is hidden - those are visited but not
   drawn), then, unless the endpoint has no statements, is black-boxed or is already on the stack, the walks of its
   call statements in source order with a.e pushed on the stack. The relation is functional (walks_functional), every
   successful run of the generator - whatever its fuel - draws exactly these arrows (seq_follows_call_tree), and a
   run that does not run out of fuel gives the same result with any larger fuel (seq_fuel_monotone). *)
From Coq Require Import List NArith Bool Lia Arith.
Import ListNotations.
Require Import Verif.Seq.SeqModel Verif.Seq.SeqFlat Verif.Seq.SeqProps.

Definition arrow_of (from:option id) (a e:id) (ap:app) (ep:endpoint) : list event :=
  if arrow_drawn from ap ep then [Arrow (sender_of from) a e] else [].
(* shown but not expanded *)
Definition not_expanded (bbs:bbmap) (stack:list (id*id)) (a e:id) (ep:endpoint) : bool :=
  is_nil (ep_body ep) || is_cut (assoc2 (a,e) bbs) || existsb (key_eqb (a,e)) stack.

Section Tree.
  Variable m : module.
  Variable bbs : bbmap.

  Inductive walks : list (id*id) -> option id -> id -> id -> list event -> Prop :=
  | W_shown stack from a e ap ep :
      lookup m a e = Some (ap, ep) -> not_expanded bbs stack a e ep = true ->
      walks stack from a e (arrow_of from a e ap ep)
  | W_expanded stack from a e ap ep evs :
      lookup m a e = Some (ap, ep) -> not_expanded bbs stack a e ep = false ->
      walks_calls ((a,e) :: stack) a (calls_list (ep_body ep)) evs ->
      walks stack from a e (arrow_of from a e ap ep ++ evs)
  with walks_calls : list (id*id) -> id -> list (id*id) -> list event -> Prop :=
  | WC_nil stack a : walks_calls stack a [] []
  | WC_cons stack a t te r e1 e2 :
      walks stack (Some a) t te e1 -> walks_calls stack a r e2 -> walks_calls stack a ((t,te) :: r) (e1 ++ e2).

  Scheme walks_mut := Minimality for walks Sort Prop
    with walks_calls_mut := Minimality for walks_calls Sort Prop.

  Theorem walks_functional : forall stack from a e x, walks stack from a e x -> forall y, walks stack from a e y -> x = y.
  Proof.
    apply (walks_mut (fun stack from a e x => forall y, walks stack from a e y -> x = y)
                     (fun stack a cs x => forall y, walks_calls stack a cs y -> x = y)).
    - intros stack from a e ap ep L N y Hy. inversion Hy; subst.
      + match goal with H : lookup m a e = Some (_, _) |- _ => rewrite L in H; injection H as <- <- end. reflexivity.
      + match goal with H : lookup m a e = Some (_, _) |- _ => rewrite L in H; injection H as <- <- end. congruence.
    - intros stack from a e ap ep evs L N _ IH y Hy. inversion Hy; subst.
      + match goal with H : lookup m a e = Some (_, _) |- _ => rewrite L in H; injection H as <- <- end. congruence.
      + match goal with H : lookup m a e = Some (_, _) |- _ => rewrite L in H; injection H as <- <- end.
        f_equal. apply IH. assumption.
    - intros stack a y Hy. inversion Hy. reflexivity.
    - intros stack a t te r e1 e2 _ IH1 _ IH2 y Hy. inversion Hy; subst. f_equal; [apply IH1|apply IH2]; assumption.
  Qed.
  Theorem walks_calls_functional stack a cs x y : walks_calls stack a cs x -> walks_calls stack a cs y -> x = y.
  Proof.
    intros Hx. revert y. induction Hx as [|stack a t te r e1 e2 H1 _ IH]; intros y Hy; inversion Hy; subst; [reflexivity|].
    f_equal; [eapply walks_functional; eassumption|apply IH; assumption].
  Qed.

  (* every drawn event of a walk is a call arrow *)
  Lemma walks_calls_app stack a c1 c2 x y : walks_calls stack a c1 x -> walks_calls stack a c2 y -> walks_calls stack a (c1 ++ c2) (x ++ y).
  Proof.
    induction 1 as [|stack a t te r e1 e2 H1 _ IH]; intros Hy; [exact Hy|].
    cbn [Datatypes.app]. rewrite <- app_assoc. constructor; [exact H1|apply IH, Hy].
  Qed.
End Tree.

(* one walk per start entry, under the blackbox map of that entry (every other start entry is an "upto" marker) *)
Inductive walks_entries (m:module) (all:list (id*id)) : bbmap -> list (id*id) -> list event -> Prop :=
| WE_nil bbs : walks_entries m all bbs [] []
| WE_cons bbs a e r e1 e2 :
    walks m (mark_others all (a,e) bbs) [] None a e e1 ->
    walks_entries m all (mark_others all (a,e) bbs) r e2 ->
    walks_entries m all bbs ((a,e) :: r) (e1 ++ e2).
Theorem walks_entries_functional m all bbs es x y : walks_entries m all bbs es x -> walks_entries m all bbs es y -> x = y.
Proof.
  intros Hx. revert y. induction Hx as [|bbs a e r e1 e2 H1 _ IH]; intros y Hy; inversion Hy; subst; [reflexivity|].
  f_equal; [eapply walks_functional; eassumption|apply IH; assumption].
Qed.

(* ================================================================ the generator draws the call tree *)
Lemma trace_walks m bbs a sndr stack (Q:id -> id -> bool -> list event -> Prop) il evs :
  (forall t te last c, Q t te last c -> walks m bbs stack (Some a) t te (arrows c)) -> Forall (instr_ok a sndr) il -> Trace Q il evs ->
  walks_calls m bbs stack a (calls_of il) (arrows evs).
Proof.
  intros HQ Hok. induction 1 as [|e il evs _ IH|t te last il c evs Hq _ IH]; [constructor| |].
  - inversion Hok as [|? ? He Hok']; subst. change (calls_of (IEmit e :: il)) with (calls_of il).
    replace (arrows (e :: evs)) with (arrows evs); [apply IH, Hok'|]. destruct e; cbn in He; try contradiction; reflexivity.
  - inversion Hok as [|? ? _ Hok']; subst. change (calls_of (ICall t te last :: il)) with ((t,te) :: calls_of il).
    rewrite arrows_app. constructor; [apply (HQ _ _ _ _ Hq)|apply IH, Hok'].
Qed.

Section Follows.
  Variable V : variant.
  Variable m : module.

  Lemma visit_endpoint_walks fuel : forall bbs s from a e caller s',
    visit_endpoint V m fuel bbs s from a e caller = Ok s' ->
    exists evs, ext s s' evs /\ walks m bbs (visited s) from a e (arrows evs).
  Proof.
    induction fuel as [|f IH]; intros bbs s from a e caller s' H; [discriminate|].
    rewrite visit_endpoint_eq in H.
    destruct (lookup m a e) as [[ap ep]|] eqn:L; [|exfalso; eapply lookup_fail_not_ok, H].
    cbv zeta in H.
    destruct (pre_ext s from a e ap ep (is_shown (ret_payload (ep_body ep))) caller) as (q1 & X1 & Q1).
    set (s2 := ve_early _ _ _ _ _) in *.
    fold (arrow_of from a e ap ep) in X1. set (A := arrow_of from a e ap ep) in *.
    assert (HAa : arrows A = A) by (subst A; unfold arrow_of; destruct (arrow_drawn from ap ep); reflexivity).
    assert (Ev : is_visited s2 a e = existsb (key_eqb (a, e)) (visited s)).
    { unfold is_visited. subst s2. rewrite visited_pre. reflexivity. }
    destruct (ep_body ep) as [|x b] eqn:Eb.
    - injection H as <-. exists (A ++ q1). split; [exact X1|].
      rewrite arrows_app, HAa, (arrows_quiet _ Q1), app_nil_r. apply W_shown; [exact L|]. unfold not_expanded. rewrite Eb. reflexivity.
    - destruct (is_cut _ || is_visited s2 a e) eqn:C.
      + injection H as <-. destruct (cut_ext V s2 from a ep (assoc2 (a,e) bbs)) as (q2 & X2 & Q2).
        exists ((A ++ q1) ++ q2). split; [eapply ext_trans; eassumption|].
        rewrite !arrows_app, HAa, (arrows_quiet _ Q1), (arrows_quiet _ Q2), !app_nil_r.
        apply W_shown; [exact L|]. unfold not_expanded. rewrite Eb, <- Ev. cbn [is_nil orb]. exact C.
      + match type of H with bind ?r _ = _ => destruct r as [s5| | |] eqn:W; try discriminate end.
        cbn [bind] in H. injection H as <-.
        destruct (activated_ext s2 a (suppr ap)) as (q2 & X2 & Q2).
        destruct (fire_ext s5 (snd (activated s2 a (suppr ap)))) as (q3 & X3 & Q3).
        rewrite walk_flat in W.
        apply (run_trace _ _ (fun s1 => visited s1 = (a,e) :: visited s)
                 (fun t te last c => walks m bbs ((a,e) :: visited s) (Some a) t te (arrows c))) in W.
        * destruct W as (ew & Xw & Tw).
          exists ((((A ++ q1) ++ q2) ++ ew) ++ q3). split.
          { eapply ext_trans; [|exact X3]. eapply ext_trans; [|exact Xw]. eapply ext_trans; eassumption. }
          rewrite !arrows_app, HAa, (arrows_quiet _ Q1), (arrows_quiet _ Q2), (arrows_quiet _ Q3), !app_nil_r.
          apply W_expanded; [exact L|unfold not_expanded; rewrite Eb, <- Ev; cbn [is_nil orb]; exact C|].
          rewrite Eb, <- (calls_flat_list a (sender_of from) (x :: b) true).
          apply (trace_walks m bbs a (sender_of from) _ _ _ _ (fun t te last c Hq => Hq) (instrs_ok_list _ _ _ _) Tw).
        * intros s1 ev H1. exact H1.
        * intros s1 t te last s1' H1 Hc. split; [rewrite (visit_endpoint_visited _ _ _ _ _ _ _ _ _ _ Hc); exact H1|].
          destruct (IH _ _ _ _ _ _ _ Hc) as (c & Xc & Wc). exists c. rewrite H1 in Wc. auto.
        * unfold push_visited, with_visited. cbn [visited]. rewrite visited_activated. subst s2. rewrite visited_pre. reflexivity.
  Qed.

  Lemma run_entries_walks fuel all : forall es bbs s s',
    run_entries V m fuel all bbs s es = Ok s' -> exists evs, ext s s' evs /\ walks_entries m all bbs es (arrows evs).
  Proof.
    induction es as [|[a e] r IH]; intros bbs s s' H; cbn [run_entries] in H.
    - injection H as <-. exists []. split; [apply ext_refl|constructor].
    - destruct (lookup m a e); [|discriminate].
      match type of H with bind ?r _ = _ => destruct r as [s1| | |] eqn:W; try discriminate end. cbn [bind] in H.
      apply visit_endpoint_walks in W as (c & Xc & Wc). apply IH in H as (evs & Xe & We).
      exists (([Section a e] ++ c) ++ evs). split.
      { eapply ext_trans; [|exact Xe]. eapply ext_trans; [apply ext_emit|]. exact Xc. }
      rewrite !arrows_app. change (arrows [Section a e]) with (@nil event). cbn [Datatypes.app].
      constructor; assumption.
  Qed.

  (* whatever the fuel: a run that returns a diagram has drawn exactly the call tree of the module *)
  Theorem seq_follows_call_tree fuel bbs starts d ev :
    gen V m fuel bbs starts = Ok (d, ev) -> walks_entries m starts (make_bbs bbs) starts (arrows ev).
  Proof.
    intros H. unfold gen, gen_st in H. destruct (run_entries _ _ _ _ _ _ _) as [s| | |] eqn:R; try discriminate.
    cbn [bind] in H. injection H as _ <-. apply run_entries_walks in R as (evs & X & W).
    unfold ext in X. cbn [out init Datatypes.app] in X. rewrite X. exact W.
  Qed.
  Corollary seq_arrows_unique fuel fuel' bbs starts d ev d' ev' :
    gen V m fuel bbs starts = Ok (d, ev) -> gen V m fuel' bbs starts = Ok (d', ev') -> arrows ev = arrows ev'.
  Proof. intros H H'. eapply walks_entries_functional; eapply seq_follows_call_tree; eassumption. Qed.
End Follows.

(* ================================================================ more fuel never changes a result *)
Lemma run_mono call1 call2 np :
  (forall s t te last, call1 s t te last <> OutOfFuel -> call2 s t te last = call1 s t te last) ->
  forall il s, run call1 np il s <> OutOfFuel -> run call2 np il s = run call1 np il s.
Proof.
  intros Hc. induction il as [|i r IH]; intros s H; [reflexivity|].
  destruct i as [e|t te last|]; cbn [run] in *; [apply IH, H| |reflexivity].
  assert (H1 : call1 s t te last <> OutOfFuel) by (intros E; rewrite E in H; apply H; reflexivity).
  rewrite (Hc _ _ _ _ H1). destruct (call1 s t te last) as [s1| | |]; cbn [bind] in *; try reflexivity. apply IH, H.
Qed.

Section Mono.
  Variable V : variant.
  Variable m : module.

  Lemma visit_endpoint_mono f : forall f', f <= f' -> forall bbs s from a e caller,
    visit_endpoint V m f bbs s from a e caller <> OutOfFuel ->
    visit_endpoint V m f' bbs s from a e caller = visit_endpoint V m f bbs s from a e caller.
  Proof.
    induction f as [|f IH]; intros f' Hle bbs s from a e caller H; [exfalso; apply H; reflexivity|].
    destruct f' as [|f']; [lia|]. rewrite !visit_endpoint_eq in *.
    destruct (lookup m a e) as [[ap ep]|]; [|reflexivity]. cbv zeta in *.
    destruct (ep_body ep) as [|x b]; [reflexivity|]. destruct (_ || _); [reflexivity|].
    rewrite !walk_flat in *.
    match type of H with bind ?r _ <> _ => assert (Hr : r <> OutOfFuel) by (intros E; rewrite E in H; apply H; reflexivity) end.
    erewrite run_mono; [reflexivity| |exact Hr].
    intros s1 t te last Hc. apply IH; [lia|exact Hc].
  Qed.

  Lemma run_entries_mono f f' all : f <= f' -> forall es bbs s,
    run_entries V m f all bbs s es <> OutOfFuel -> run_entries V m f' all bbs s es = run_entries V m f all bbs s es.
  Proof.
    intros Hle. induction es as [|[a e] r IH]; intros bbs s H; [reflexivity|]. cbn [run_entries] in *.
    destruct (lookup m a e); [|reflexivity].
    match type of H with bind ?r _ <> _ => assert (Hr : r <> OutOfFuel) by (intros E; rewrite E in H; apply H; reflexivity) end.
    rewrite (visit_endpoint_mono _ _ Hle _ _ _ _ _ _ Hr).
    destruct (visit_endpoint V m f _ _ _ _ _ _) as [s1| | |]; cbn [bind] in *; try reflexivity. apply IH, H.
  Qed.

  (* a run that does not run out of fuel gives the same diagram / error with any larger fuel *)
  Theorem seq_fuel_monotone f f' bbs starts : f <= f' -> gen V m f bbs starts <> OutOfFuel -> gen V m f' bbs starts = gen V m f bbs starts.
  Proof.
    intros Hle H. unfold gen, gen_st in *.
    match type of H with bind ?r _ <> _ => assert (Hr : r <> OutOfFuel) by (intros E; rewrite E in H; apply H; reflexivity) end.
    rewrite (run_entries_mono _ _ _ Hle _ _ _ Hr). reflexivity.
  Qed.

  (* so the result does not depend on the fuel at all once it exceeds the number of endpoints *)
  Theorem seq_fuel_irrelevant f f' bbs starts : n_endpoints m < f -> n_endpoints m < f' -> gen V m f bbs starts = gen V m f' bbs starts.
  Proof.
    intros Hf Hf'. destruct (Nat.le_ge_cases f f') as [Hle|Hle].
    - symmetry. apply seq_fuel_monotone; [exact Hle|apply seq_terminates, Hf].
    - apply seq_fuel_monotone; [exact Hle|apply seq_terminates, Hf'].
  Qed.
End Mono.

(* the reference walk of Seq/SeqProps (fuelled) agrees with the relation whenever the generator succeeds: both are
   the arrows of the run *)
Example walks_nonvacuous :
  walks_entries cyclic_module [(0%N,0%N)] [] [(0%N,0%N)]
    [Arrow World 0%N 0%N; Arrow (P 0%N) 1%N 0%N; Arrow (P 1%N) 0%N 0%N; Arrow (P 0%N) 0%N 0%N].
Proof.
  assert (H := seq_follows_call_tree {| v_lookup_panics := false; v_inprog_unguarded := false; v_nil_panics := false |} cyclic_module (fuel_for cyclic_module) [] [(0%N,0%N)]).
  vm_compute gen in H. specialize (H _ _ eq_refl). exact H.
Qed.

(* blackboxes at any depth are inside every theorem (they quantify over the blackbox map): here C.E0, two calls
   below the start, is cut by a command-line blackbox with a comment, and B.E0 is an "upto" marker *)
Definition nested_bb_module : module :=
  [(0%N, {| app_pats := []; app_eps := [(0%N, {| ep_hidden := false; ep_body := [Call 1%N 0%N; Ret RetShown] |})] |});
   (1%N, {| app_pats := []; app_eps := [(0%N, {| ep_hidden := false; ep_body := [Block BCond [Call 2%N 0%N]; Call 2%N 0%N] |})] |});
   (2%N, {| app_pats := []; app_eps := [(0%N, {| ep_hidden := false; ep_body := [Call 0%N 0%N; Ret RetShown] |})] |})].
Example blackbox_depth_nonvacuous :
  exists d ev,
    gen {| v_lookup_panics := false; v_inprog_unguarded := false; v_nil_panics := false |} nested_bb_module (fuel_for nested_bb_module)
        [{| bb_key := (2%N,0%N); bb_cut := true; bb_clen := CN |}; {| bb_key := (1%N,0%N); bb_cut := false; bb_clen := CN |}] [(0%N,0%N)] = Ok (d, ev)
    /\ n_act 2%N ev = 2 /\ n_deact 2%N ev = 2 /\ In (NoteOver 2%N) ev /\ length (arrows ev) = 4.
Proof. eexists. eexists. vm_compute. repeat split; try reflexivity. auto 12. Qed.
