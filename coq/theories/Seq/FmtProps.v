(* C13 - theorems about the label pipeline (Seq/Fmt.v): the format parser is total (its fuel - one unit per byte of the
   format - is never used up), whether and how it panics is decided by the format string alone (never by the attribute
   values), it is a function of (format, values) (no state survives a call), the default formats give the names, a
   format without `%` is its own label; MergeAttributes reads the endpoint's value over the application's. *)
From Coq Require Import String Ascii List NArith Bool Arith Lia.
Import ListNotations.
Require Import Verif.Seq.Fmt.
Local Open Scope string_scope.

(* ---- lengths: every Eat leaves a rest that is no longer ---- *)
Lemma drop_length : forall n s, String.length (drop n s) <= String.length s.
Proof. induction n as [|n IH]; intros [|c s]; cbn; auto. Qed.

Lemma span_length : forall f s a b, span f s = (a, b) -> String.length a + String.length b = String.length s.
Proof.
  induction s as [|c s IH]; cbn; intros a b H.
  - inversion H; reflexivity.
  - destruct (f c).
    + destruct (span f s) as [a0 b0] eqn:E. specialize (IH a0 b0 eq_refl). inversion H; subst. cbn. lia.
    + inversion H; subst. reflexivity.
Qed.

Definition shrinks (mt:string -> option (string * string)) : Prop :=
  forall s g r, mt s = Some (g, r) -> String.length r <= String.length s.
Definition shrinks1 (mt:string -> option (string * string)) : Prop :=
  forall s g r, mt s = Some (g, r) -> String.length r < String.length s.

Lemma shrinks1_shrinks : forall mt, shrinks1 mt -> shrinks mt.
Proof. intros mt H s g r E. specialize (H s g r E). lia. Qed.

Lemma m_var_shrinks : shrinks1 m_var.
Proof.
  intros [|c t] g r; cbn; [discriminate|].
  destruct (Ascii.eqb c "@").
  - destruct (span is_word t) as [w rest0] eqn:E. destruct w; [discriminate|]. intros H; inversion H; subst.
    apply span_length in E. cbn in *. lia.
  - destruct (is_word c) eqn:W; [|discriminate].
    destruct (span is_word t) as [w rest0] eqn:E. intros H; inversion H; subst. apply span_length in E. cbn. lia.
Qed.

Lemma m_condoper_shrinks : shrinks1 m_condoper.
Proof.
  intros [|c [|d t]] g r; cbn; try discriminate.
  destruct ((Ascii.eqb c "!" || Ascii.eqb c "=") && Ascii.eqb d "="); [|discriminate]. intros H; inversion H; subst. cbn. lia.
Qed.

Lemma m_search_shrinks : shrinks1 m_search.
Proof.
  intros [|c [|d t]] g r; cbn; try discriminate.
  destruct (Ascii.eqb c "~" && Ascii.eqb d "/"); [|discriminate].
  destruct (span not_slash t) as [p q] eqn:E. destruct p; [discriminate|]. destruct q; [discriminate|].
  intros H; inversion H; subst. apply span_length in E. cbn in *. lia.
Qed.

Lemma m_condval_shrinks : shrinks1 m_condval.
Proof.
  intros [|c t] g r; cbn; [discriminate|].
  destruct (Ascii.eqb c "'"); [|discriminate].
  destruct (span word_or_blank t) as [p q] eqn:E. destruct p; [discriminate|]. destruct q as [|q0 q]; [discriminate|].
  destruct (Ascii.eqb q0 "'"); [|discriminate]. intros H; inversion H; subst. apply span_length in E. cbn in *. lia.
Qed.

Lemma m_varstart_len : forall s g r, m_varstart s = Some (g, r) -> String.length r + 2 = String.length s.
Proof.
  intros [|c [|d t]] g r; cbn; try discriminate.
  destruct (Ascii.eqb c c_pct && Ascii.eqb d c_lpar); [|discriminate]. intros H; inversion H; subst. cbn. lia.
Qed.

Lemma m_char_shrinks : forall f, shrinks1 (m_char f).
Proof. intros f [|c t] g r; cbn; [discriminate|]. destruct (f c); [|discriminate]. intros H; inversion H; subst. cbn. lia. Qed.

Lemma eat_word_rest : forall mt s s', shrinks mt -> eat_word mt s = Some s' -> String.length (rest s') <= String.length (rest s).
Proof.
  intros mt s s' Hm. unfold eat_word. destruct (mt (rest s)) as [[g r]|] eqn:E; [|discriminate].
  intros H; inversion H; subst; cbn. eapply Hm; eauto.
Qed.
Lemma eat_sym_rest : forall mt s s', shrinks mt -> eat_sym mt s = Some s' -> String.length (rest s') <= String.length (rest s).
Proof.
  intros mt s s' Hm. unfold eat_sym. destruct (mt (rest s)) as [[g r]|] eqn:E; [|discriminate].
  intros H; inversion H; subst; cbn. eapply Hm; eauto.
Qed.
Lemma eat_item_rest : forall r s s', eat_item r s = Some s' -> String.length (rest s') <= String.length (rest s).
Proof.
  intros r s s'. unfold eat_item. destruct (rest s) eqn:E; [discriminate|].
  intros H; inversion H; subst; cbn. apply drop_length.
Qed.
Lemma pop_rest : forall s x s', pop s = (x, s') -> rest s' = rest s.
Proof. intros s x s'. unfold pop. destruct (rev (stk s)); intros H; inversion H; subst; reflexivity. Qed.

Lemma head_stage_return : forall r res s s2 res1,
  head_stage r res s = HReturn s2 res1 -> String.length (rest s2) <= String.length (rest s).
Proof.
  intros r res s s2 res1. unfold head_stage.
  destruct (eat_item r s) as [s1|] eqn:E1; [|discriminate].
  destruct (pop s1) as [prefix sp] eqn:Ep.
  destruct (eat_sym m_varstart sp) as [s3|] eqn:E3.
  - destruct (eat_word m_var s3) as [s4|]; [|discriminate]. destruct (pop s4); discriminate.
  - intros H; inversion H; subst. rewrite (pop_rest _ _ _ Ep). eapply eat_item_rest; eauto.
Qed.

Lemma head_stage_var : forall r res s s5 var res1,
  head_stage r res s = HVar s5 var res1 -> String.length (rest s5) + 2 <= String.length (rest s).
Proof.
  intros r res s s5 var res1. unfold head_stage.
  destruct (eat_item r s) as [s1|] eqn:E1; [|discriminate].
  destruct (pop s1) as [prefix sp] eqn:Ep.
  destruct (eat_sym m_varstart sp) as [s3|] eqn:E3; [|discriminate].
  destruct (eat_word m_var s3) as [s4|] eqn:E4; [|discriminate].
  destruct (pop s4) as [v sq] eqn:Eq. intros H; inversion H; subst.
  rewrite (pop_rest _ _ _ Eq).
  apply eat_word_rest in E4; [|apply shrinks1_shrinks, m_var_shrinks].
  apply eat_item_rest in E1. rewrite <- (pop_rest _ _ _ Ep) in E1.
  unfold eat_sym in E3. destruct (m_varstart (rest sp)) as [[g r0]|] eqn:Ev; [|discriminate].
  inversion E3; subst; cbn in *. apply m_varstart_len in Ev. lia.
Qed.

Section WithRx.
  Variable rx : string -> option (string -> bool).

  Lemma cond_stage_len : forall v s sd fl, cond_stage v s = POk (sd, fl) -> String.length (rest sd) <= String.length (rest s).
  Proof.
    intros v s sd fl. unfold cond_stage.
    destruct (eat_sym m_condoper s) as [s6|] eqn:E6.
    - destruct (eat_word m_condval (with_oper s6 EmptyString)) as [s8|] eqn:E8; [|discriminate].
      destruct (pop s8) as [cv s9] eqn:Ep. intros H; inversion H; subst.
      rewrite (pop_rest _ _ _ Ep).
      apply eat_word_rest in E8; [|apply shrinks1_shrinks, m_condval_shrinks]. cbn in E8.
      apply eat_sym_rest in E6; [|apply shrinks1_shrinks, m_condoper_shrinks]. lia.
    - intros H; inversion H; subst. lia.
  Qed.

  Lemma search_stage_len : forall v s fl sd fl', search_stage rx v (s, fl) = POk (sd, fl') -> String.length (rest sd) <= String.length (rest s).
  Proof.
    intros v s fl sd fl'. unfold search_stage.
    destruct (eat_word m_search s) as [sb|] eqn:Eb.
    - destruct (pop sb) as [pat sc] eqn:Ep. destruct (rx pat); [|discriminate]. intros H; inversion H; subst.
      rewrite (pop_rest _ _ _ Ep). apply eat_word_rest in Eb; [|apply shrinks1_shrinks, m_search_shrinks]. exact Eb.
    - intros H; inversion H; subst. lia.
  Qed.

  Lemma pre_stage_len : forall v s sd fl, pre_stage rx v s = POk (sd, fl) -> String.length (rest sd) <= String.length (rest s).
  Proof.
    intros v s sd fl. unfold pre_stage. destruct (cond_stage v s) as [[sa fa]| |] eqn:Ec; try discriminate.
    intros H. apply search_stage_len in H. apply cond_stage_len in Ec. lia.
  Qed.

  (* a call that returns leaves a rest that is no longer *)
  Lemma expansions_len : forall fuel r A res s s',
    expansions rx fuel r A res s = POk s' -> String.length (rest s') <= String.length (rest s).
  Proof.
    induction fuel as [|f IH]; intros r A res s s'; cbn [expansions]; [discriminate|].
    destruct (head_stage r res s) as [|s2 res1|s5 var res1|] eqn:Eh; try discriminate.
    - intros H; inversion H; subst. lia.
    - intros H; inversion H; subst. cbn. eapply head_stage_return; eauto.
    - apply head_stage_var in Eh.
      destruct (pre_stage rx (aget var A) s5) as [[sd fl]| |] eqn:Epre; try discriminate.
      apply pre_stage_len in Epre.
      destruct (eat_sym m_stmtoper sd) as [se|] eqn:Ese.
      + apply eat_sym_rest in Ese; [|apply shrinks1_shrinks, m_char_shrinks].
        destruct (expansions rx f ReStatement A EmptyString se) as [sf| |] eqn:Ey; try discriminate.
        apply IH in Ey.
        destruct (eat_sym m_nostmtoper sf) as [sh|] eqn:Esh.
        * apply eat_sym_rest in Esh; [|apply shrinks1_shrinks, m_char_shrinks].
          destruct (expansions rx f ReEnd A EmptyString sh) as [si| |] eqn:En; try discriminate.
          apply IH in En.
          destruct (eat_sym m_stmtend si) as [sk|] eqn:Esk; [|discriminate].
          apply eat_sym_rest in Esk; [|apply shrinks1_shrinks, m_char_shrinks].
          intros H. apply IH in H. cbn in H. lia.
        * destruct (eat_sym m_stmtend sf) as [sk|] eqn:Esk; [|discriminate].
          apply eat_sym_rest in Esk; [|apply shrinks1_shrinks, m_char_shrinks].
          intros H. apply IH in H. cbn in H. lia.
      + destruct (eat_sym m_nostmtoper sd) as [sh|] eqn:Esh.
        * apply eat_sym_rest in Esh; [|apply shrinks1_shrinks, m_char_shrinks].
          destruct (expansions rx f ReEnd A EmptyString sh) as [si| |] eqn:En; try discriminate.
          apply IH in En.
          destruct (eat_sym m_stmtend si) as [sk|] eqn:Esk; [|discriminate].
          apply eat_sym_rest in Esk; [|apply shrinks1_shrinks, m_char_shrinks].
          intros H. apply IH in H. cbn in H. lia.
        * destruct (eat_sym m_stmtend sd) as [sk|] eqn:Esk; [|discriminate].
          apply eat_sym_rest in Esk; [|apply shrinks1_shrinks, m_char_shrinks].
          intros H. apply IH in H. cbn in H. lia.
  Qed.

  (* ---- totality: one unit of fuel per byte of what is left of the format is enough ---- *)
  Lemma expansions_fuel : forall fuel r A res s,
    String.length (rest s) < fuel -> expansions rx fuel r A res s <> PFuel.
  Proof.
    induction fuel as [|f IH]; intros r A res s Hlt; [lia|]. cbn [expansions].
    destruct (head_stage r res s) as [|s2 res1|s5 var res1|] eqn:Eh; try discriminate.
    apply head_stage_var in Eh.
    destruct (pre_stage rx (aget var A) s5) as [[sd fl]| |] eqn:Epre; try discriminate.
    2:{ exfalso. unfold pre_stage in Epre. destruct (cond_stage (aget var A) s5) as [[sa fa]| |] eqn:Ec; try discriminate.
        - unfold search_stage in Epre. destruct (eat_word m_search sa); [|discriminate]. destruct (pop f0). destruct (rx s0); discriminate.
        - unfold cond_stage in Ec. destruct (eat_sym m_condoper s5); [|discriminate].
          destruct (eat_word m_condval (with_oper f0 EmptyString)); [|discriminate]. destruct (pop f1); discriminate. }
    apply pre_stage_len in Epre.
    destruct (eat_sym m_stmtoper sd) as [se|] eqn:Ese.
    - apply eat_sym_rest in Ese; [|apply shrinks1_shrinks, m_char_shrinks].
      destruct (expansions rx f ReStatement A EmptyString se) as [sf| |] eqn:Ey; try discriminate.
      2:{ exfalso. revert Ey. apply IH. lia. }
      apply expansions_len in Ey.
      destruct (eat_sym m_nostmtoper sf) as [sh|] eqn:Esh.
      + apply eat_sym_rest in Esh; [|apply shrinks1_shrinks, m_char_shrinks].
        destruct (expansions rx f ReEnd A EmptyString sh) as [si| |] eqn:En; try discriminate.
        2:{ exfalso. revert En. apply IH. lia. }
        apply expansions_len in En.
        destruct (eat_sym m_stmtend si) as [sk|] eqn:Esk; [|discriminate].
        apply eat_sym_rest in Esk; [|apply shrinks1_shrinks, m_char_shrinks].
        apply IH. cbn. lia.
      + destruct (eat_sym m_stmtend sf) as [sk|] eqn:Esk; [|discriminate].
        apply eat_sym_rest in Esk; [|apply shrinks1_shrinks, m_char_shrinks].
        apply IH. cbn. lia.
    - destruct (eat_sym m_nostmtoper sd) as [sh|] eqn:Esh.
      + apply eat_sym_rest in Esh; [|apply shrinks1_shrinks, m_char_shrinks].
        destruct (expansions rx f ReEnd A EmptyString sh) as [si| |] eqn:En; try discriminate.
        2:{ exfalso. revert En. apply IH. lia. }
        apply expansions_len in En.
        destruct (eat_sym m_stmtend si) as [sk|] eqn:Esk; [|discriminate].
        apply eat_sym_rest in Esk; [|apply shrinks1_shrinks, m_char_shrinks].
        apply IH. cbn. lia.
      + destruct (eat_sym m_stmtend sd) as [sk|] eqn:Esk; [|discriminate].
        apply eat_sym_rest in Esk; [|apply shrinks1_shrinks, m_char_shrinks].
        apply IH. cbn. lia.
  Qed.

  (* every format string, every value map: a label or one of the four announced panics - never out of fuel *)
  Theorem fmt_total : forall self A, parse rx self A <> PFuel.
  Proof.
    intros self A. unfold parse.
    destruct (expansions rx (fuel_of self) ReDefault A EmptyString (fresh self)) eqn:E; try discriminate.
    exfalso. revert E. apply expansions_fuel. unfold fuel_of, fresh; cbn. lia.
  Qed.

  Corollary fmt_label_or_panic : forall self A, (exists l, parse rx self A = POk l) \/ (exists k, parse rx self A = PPanic k).
  Proof.
    intros self A. destruct (parse rx self A) eqn:E; [left; eauto|right; eauto|]. exfalso. eapply fmt_total; eauto.
  Qed.
End WithRx.

(* ---- whether, and how, a format panics is decided by the format alone: two runs of the parser that differ only in
   the value map (and in the text accumulated so far) go through the same positions of the format ---- *)
Definition sim (s s':fp) : Prop := rest s = rest s' /\ stk s = stk s' /\ oper s = oper s'.
Definition opt_sim (o o':option fp) : Prop :=
  match o, o' with Some a, Some b => sim a b | None, None => True | _, _ => False end.
Inductive rsim : pres fp -> pres fp -> Prop :=
| rsim_ok : forall s s', sim s s' -> rsim (POk s) (POk s')
| rsim_panic : forall k, rsim (PPanic k) (PPanic k)
| rsim_fuel : rsim PFuel PFuel.

Lemma sim_refl : forall s, sim s s. Proof. intros s; repeat split. Qed.
Lemma with_result_sim : forall s s' r r', sim s s' -> sim (with_result s r) (with_result s' r').
Proof. intros s s' r r' (A & B & C). repeat split; cbn; assumption. Qed.
Lemma with_oper_sim : forall s s' o, sim s s' -> sim (with_oper s o) (with_oper s' o).
Proof. intros s s' o (A & B & C). repeat split; cbn; assumption. Qed.

Lemma eat_item_sim : forall r s s', sim s s' -> opt_sim (eat_item r s) (eat_item r s').
Proof.
  intros r s s' (A & B & C). unfold eat_item. rewrite <- A. destruct (rest s); cbn; [exact I|].
  repeat split; cbn; congruence.
Qed.
Lemma eat_word_sim : forall mt s s', sim s s' -> opt_sim (eat_word mt s) (eat_word mt s').
Proof.
  intros mt s s' (A & B & C). unfold eat_word. rewrite <- A. destruct (mt (rest s)) as [[g r]|]; cbn; [|exact I].
  repeat split; cbn; congruence.
Qed.
Lemma eat_sym_sim : forall mt s s', sim s s' -> opt_sim (eat_sym mt s) (eat_sym mt s').
Proof.
  intros mt s s' (A & B & C). unfold eat_sym. rewrite <- A. destruct (mt (rest s)) as [[g r]|]; cbn; [|exact I].
  repeat split; cbn; congruence.
Qed.
Lemma pop_sim : forall s s', sim s s' -> fst (pop s) = fst (pop s') /\ sim (snd (pop s)) (snd (pop s')).
Proof.
  intros s s' (A & B & C). unfold pop. rewrite <- B. destruct (rev (stk s)); cbn.
  - repeat split; assumption.
  - repeat split; cbn; congruence.
Qed.

Definition head_sim (h h':head) : Prop :=
  match h, h' with
  | HStop, HStop => True
  | HReturn a _, HReturn b _ => sim a b
  | HVar a v _, HVar b v' _ => sim a b /\ v = v'
  | HMissingVar, HMissingVar => True
  | _, _ => False
  end.

Ltac use_opt H a b :=
  match type of H with opt_sim ?x ?y => destruct x as [a|], y as [b|]; cbn in H; try contradiction end.

Lemma head_stage_sim : forall r res res' s s', sim s s' -> head_sim (head_stage r res s) (head_stage r res' s').
Proof.
  intros r res res' s s' H. unfold head_stage.
  pose proof (eat_item_sim r s s' H) as H1. use_opt H1 a1 b1; [|exact I].
  destruct (pop_sim a1 b1 H1) as [Hp Hs]. destruct (pop a1) as [p1 a2], (pop b1) as [p2 b2]; cbn in Hp, Hs. subst p2.
  pose proof (eat_sym_sim m_varstart a2 b2 Hs) as H3. use_opt H3 a3 b3; [|exact Hs].
  pose proof (eat_word_sim m_var a3 b3 H3) as H4. use_opt H4 a4 b4; [|exact I].
  destruct (pop_sim a4 b4 H4) as [Hp' Hs']. destruct (pop a4) as [v1 a5], (pop b4) as [v2 b5]; cbn in Hp', Hs'.
  cbn. split; assumption.
Qed.

Definition pre_sim (x y:pres (fp * flags)) : Prop :=
  match x, y with
  | POk (a, _), POk (b, _) => sim a b
  | PPanic k, PPanic k' => k = k'
  | PFuel, PFuel => True
  | _, _ => False
  end.

Section Independence.
  Variable rx : string -> option (string -> bool).

  Lemma cond_stage_sim : forall v v' s s', sim s s' -> pre_sim (cond_stage v s) (cond_stage v' s').
  Proof.
    intros v v' s s' H. unfold cond_stage.
    pose proof (eat_sym_sim m_condoper s s' H) as H6. use_opt H6 a6 b6; [|exact H].
    pose proof (eat_word_sim m_condval _ _ (with_oper_sim a6 b6 EmptyString H6)) as H8. use_opt H8 a8 b8; [|reflexivity].
    destruct (pop_sim a8 b8 H8) as [Hp Hs]. destruct (pop a8) as [c1 a9], (pop b8) as [c2 b9]; cbn in Hp, Hs. exact Hs.
  Qed.

  Lemma search_stage_sim : forall v v' s s' fl fl', sim s s' -> pre_sim (search_stage rx v (s, fl)) (search_stage rx v' (s', fl')).
  Proof.
    intros v v' s s' fl fl' H. unfold search_stage.
    pose proof (eat_word_sim m_search s s' H) as Hb. use_opt Hb ab bb; [|exact H].
    destruct (pop_sim ab bb Hb) as [Hp Hs]. destruct (pop ab) as [p1 ac], (pop bb) as [p2 bc]; cbn in Hp, Hs. subst p2.
    destruct (rx p1); cbn; [exact Hs|reflexivity].
  Qed.

  Lemma pre_stage_sim : forall v v' s s', sim s s' -> pre_sim (pre_stage rx v s) (pre_stage rx v' s').
  Proof.
    intros v v' s s' H. unfold pre_stage.
    pose proof (cond_stage_sim v v' s s' H) as Hc.
    destruct (cond_stage v s) as [[a fa]|k|], (cond_stage v' s') as [[b fb]|k'|]; cbn in Hc; try contradiction; try exact Hc.
    apply search_stage_sim; assumption.
  Qed.

  Lemma expansions_sim : forall fuel r A A' res res' s s',
    sim s s' -> rsim (expansions rx fuel r A res s) (expansions rx fuel r A' res' s').
  Proof.
    induction fuel as [|f IH]; intros r A A' res res' s s' H; cbn [expansions]; [constructor|].
    pose proof (head_stage_sim r res res' s s' H) as Hh.
    destruct (head_stage r res s) as [|a2 r1|a5 v1 r1|], (head_stage r res' s') as [|b2 r2|b5 v2 r2|]; cbn in Hh; try contradiction.
    - constructor; exact H.
    - constructor. apply with_result_sim; exact Hh.
    - destruct Hh as [Hs Hv]. subst v2.
      pose proof (pre_stage_sim (aget v1 A) (aget v1 A') a5 b5 Hs) as Hp.
      destruct (pre_stage rx (aget v1 A) a5) as [[ad fa]|k|], (pre_stage rx (aget v1 A') b5) as [[bd fb]|k'|];
        cbn in Hp; try contradiction; [|subst; constructor|constructor].
      pose proof (eat_sym_sim m_stmtoper ad bd Hp) as He. use_opt He ae be.
      + pose proof (IH ReStatement A A' EmptyString EmptyString ae be He) as Hy.
        inversion Hy as [af bf Hf Ea Eb|k Ea Eb|Ea Eb]; [|constructor|constructor].
        pose proof (eat_sym_sim m_nostmtoper af bf Hf) as Hn. use_opt Hn ah bh.
        * pose proof (IH ReEnd A A' EmptyString EmptyString ah bh Hn) as Hno.
          inversion Hno as [ai bi Hi Ea' Eb'|k Ea' Eb'|Ea' Eb']; [|constructor|constructor].
          pose proof (eat_sym_sim m_stmtend ai bi Hi) as Hk. use_opt Hk ak bk; [|constructor].
          apply IH. apply with_result_sim; exact Hk.
        * pose proof (eat_sym_sim m_stmtend af bf Hf) as Hk. use_opt Hk ak bk; [|constructor].
          apply IH. apply with_result_sim; exact Hk.
      + pose proof (eat_sym_sim m_nostmtoper ad bd Hp) as Hn. use_opt Hn ah bh.
        * pose proof (IH ReEnd A A' EmptyString EmptyString ah bh Hn) as Hno.
          inversion Hno as [ai bi Hi Ea' Eb'|k Ea' Eb'|Ea' Eb']; [|constructor|constructor].
          pose proof (eat_sym_sim m_stmtend ai bi Hi) as Hk. use_opt Hk ak bk; [|constructor].
          apply IH. apply with_result_sim; exact Hk.
        * pose proof (eat_sym_sim m_stmtend ad bd Hp) as Hk. use_opt Hk ak bk; [|constructor].
          apply IH. apply with_result_sim; exact Hk.
    - constructor.
  Qed.

  (* the outcome KIND of Parse does not depend on the values: a format that gives a label for one value map gives a
     label for every value map; one that panics panics the same way for every value map *)
  Definition outcome_kind {A} (x:pres A) : option (option fpanic) :=
    match x with POk _ => Some None | PPanic k => Some (Some k) | PFuel => None end.

  Theorem fmt_panic_independent_of_values : forall self A A',
    outcome_kind (parse rx self A) = outcome_kind (parse rx self A').
  Proof.
    intros self A A'. unfold parse.
    pose proof (expansions_sim (fuel_of self) ReDefault A A' EmptyString EmptyString (fresh self) (fresh self) (sim_refl _)) as H.
    remember (expansions rx (fuel_of self) ReDefault A EmptyString (fresh self)) as x eqn:Ex.
    remember (expansions rx (fuel_of self) ReDefault A' EmptyString (fresh self)) as y eqn:Ey.
    clear Ex Ey. destruct H; reflexivity.
  Qed.

  (* so one trial run with the empty value map decides for all: the check a caller can make up front *)
  Definition format_ok (self:string) : bool := match parse rx self [] with POk _ => true | _ => false end.

  Corollary fmt_checked_never_panics : forall self, format_ok self = true -> forall A, exists l, parse rx self A = POk l.
  Proof.
    intros self Hok A. unfold format_ok in Hok.
    pose proof (fmt_panic_independent_of_values self [] A) as H.
    destruct (parse rx self []) eqn:E0; try discriminate.
    destruct (parse rx self A) eqn:E1; cbn in H; try discriminate. eauto.
  Qed.

  Corollary fmt_unchecked_always_panics : forall self, format_ok self = false -> forall A, exists k, parse rx self A = PPanic k.
  Proof.
    intros self Hok A. unfold format_ok in Hok.
    pose proof (fmt_panic_independent_of_values self [] A) as H.
    destruct (parse rx self A) eqn:E1; destruct (parse rx self []) eqn:E0; cbn in H; try discriminate; eauto.
    exfalso. eapply fmt_total; eauto.
  Qed.
End Independence.

(* "no panic" is refuted for the parser as it is: the shortest witnesses of the four panics *)
Definition rx_none : string -> option (string -> bool) := fun _ => None.
Theorem fmt_no_panic_refuted :
  parse rx_none "%(" [] = PPanic MissingVariable
  /\ parse rx_none "%(a=='" [] = PPanic MissingCondValue
  /\ parse rx_none "%(a" [] = PPanic UnclosedExpansion
  /\ parse rx_none "%(a~/(/)" [] = PPanic BadRegexp.
Proof. repeat split; vm_compute; reflexivity. Qed.

(* ---- the default formats give the names (newlines escaped) ---- *)
Lemma aget_aset_other : forall k k' v m, String.eqb k k' = false -> aget k (aset k' v m) = aget k m.
Proof.
  intros k k' v m Hk. induction m as [|[j x] t IH]; cbn.
  - rewrite Hk. reflexivity.
  - destruct (String.eqb k' j) eqn:E; cbn.
    + apply String.eqb_eq in E. subst j. rewrite Hk. reflexivity.
    + destruct (String.eqb k j); [reflexivity|exact IH].
Qed.

Lemma aget_merge_plain : forall k a val, (forall r, k <> String "@" r) -> aget k (merge_attrs_map val a) = aget k val.
Proof.
  intros k a. unfold merge_attrs_map. induction a as [|[j x] t IH]; intros val Hk; cbn; [reflexivity|].
  rewrite IH by assumption. apply aget_aset_other. apply String.eqb_neq. apply Hk.
Qed.

Section Defaults.
  Variable rx : string -> option (string -> bool).

  Lemma parse_default_ep : forall A, parse rx "%(epname)" A = POk (escape_nl (aget "epname" A)).
  Proof. intros A. vm_compute. reflexivity. Qed.
  Lemma parse_default_app : forall A, parse rx "%(appname)" A = POk (escape_nl (aget "appname" A)).
  Proof. intros A. vm_compute. reflexivity. Qed.

  (* cmd_sequencediagram.go: --endpoint_format defaults to %(epname), --app_format to %(appname) *)
  Theorem label_endpoint_default : forall p, label_endpoint rx "%(epname)" p = POk (escape_nl (p_epname p)).
  Proof.
    intros p. unfold label_endpoint. rewrite parse_default_ep. rewrite aget_merge_plain; [reflexivity|].
    intros r H; discriminate H.
  Qed.
  Theorem label_app_default : forall n ctl a, label_app rx "%(appname)" n ctl a = POk (escape_nl n).
  Proof.
    intros n ctl a. unfold label_app. rewrite parse_default_app. rewrite aget_merge_plain; [reflexivity|].
    intros r H; discriminate H.
  Qed.
End Defaults.

(* ---- MergeAttributes: the keys of both maps; the endpoint's value wins ---- *)
Lemma ahas_aset : forall k k' v m, ahas k (aset k' v m) = String.eqb k k' || ahas k m.
Proof.
  intros k k' v m. induction m as [|[j x] t IH]; cbn; [rewrite orb_false_r; reflexivity|].
  destruct (String.eqb k' j) eqn:E; cbn.
  - apply String.eqb_eq in E. subst j. destruct (String.eqb k k'); reflexivity.
  - rewrite IH. destruct (String.eqb k j), (String.eqb k k'); reflexivity.
Qed.
Lemma aget_aset_same : forall k v m, aget k (aset k v m) = v.
Proof.
  intros k v m. induction m as [|[j x] t IH]; cbn; [rewrite String.eqb_refl; reflexivity|].
  destruct (String.eqb k j) eqn:E; cbn; [rewrite String.eqb_refl; reflexivity|]. rewrite E. exact IH.
Qed.
Definition put_all (l m:attrs) : attrs := fold_left (fun m kv => aset (fst kv) (snd kv) m) l m.
Lemma ahas_put_all : forall l m k, ahas k (put_all l m) = ahas k l || ahas k m.
Proof.
  unfold put_all. induction l as [|[j x] t IH]; intros m k; cbn; [reflexivity|].
  rewrite IH, ahas_aset. destruct (String.eqb k j), (ahas k t), (ahas k m); reflexivity.
Qed.
Lemma aget_put_all_absent : forall l m k, ahas k l = false -> aget k (put_all l m) = aget k m.
Proof.
  unfold put_all. induction l as [|[j x] t IH]; intros m k H; cbn in *; [reflexivity|].
  apply orb_false_iff in H. destruct H as [H1 H2]. rewrite IH by assumption. apply aget_aset_other; assumption.
Qed.
(* a Go map has every key once *)
Lemma aget_put_all_present : forall l m k, NoDup (map fst l) -> ahas k l = true -> aget k (put_all l m) = aget k l.
Proof.
  unfold put_all. induction l as [|[j x] t IH]; intros m k Hnd H; cbn in *; [discriminate|].
  inversion Hnd as [|? ? Hnot Hnd']; subst.
  destruct (String.eqb k j) eqn:E.
  - apply String.eqb_eq in E. subst j.
    assert (Ht : ahas k t = false).
    { clear -Hnot. induction t as [|[j y] t IH]; cbn in *; [reflexivity|].
      destruct (String.eqb k j) eqn:E; cbn.
      - apply String.eqb_eq in E. subst. exfalso. apply Hnot. left; reflexivity.
      - apply IH. intros Hin. apply Hnot. right; exact Hin. }
    fold (put_all t (aset k x m)). rewrite aget_put_all_absent by assumption. apply aget_aset_same.
  - cbn in H. apply IH; assumption.
Qed.

Theorem merge_attributes_keys : forall app ep k, ahas k (merge_attributes app ep) = ahas k ep || ahas k app.
Proof.
  intros app ep k. unfold merge_attributes. fold (put_all app []). fold (put_all ep (put_all app [])).
  rewrite !ahas_put_all. cbn. rewrite orb_false_r. reflexivity.
Qed.
Theorem merge_attributes_value : forall app ep k, NoDup (map fst app) -> NoDup (map fst ep) ->
  aget k (merge_attributes app ep) = if ahas k ep then aget k ep else aget k app.
Proof.
  intros app ep k Ha He. unfold merge_attributes. fold (put_all app []). fold (put_all ep (put_all app [])).
  destruct (ahas k ep) eqn:E.
  - apply aget_put_all_present; assumption.
  - rewrite aget_put_all_absent by assumption.
    destruct (ahas k app) eqn:E'.
    + apply aget_put_all_present; assumption.
    + rewrite aget_put_all_absent by assumption. cbn.
      clear -E'. induction app as [|[j x] t IH]; cbn in *; [reflexivity|].
      apply orb_false_iff in E'. destruct E' as [E1 E2]. rewrite E1. apply IH; assumption.
Qed.
Example merge_attributes_nonvacuous :
  aget "a" (merge_attributes [("a","1");("b","2")] [("a","3");("c","4")]) = "3"
  /\ aget "b" (merge_attributes [("a","1");("b","2")] [("a","3");("c","4")]) = "2"
  /\ NoDup (map fst [("a","1");("b","2")]) /\ NoDup (map fst [("a","3");("c","4")]).
Proof.
  repeat split; try reflexivity; repeat constructor; cbn; intuition discriminate.
Qed.
