(* C13: what the model of the sequence-diagram generator takes for granted about pkg/cmdutils/visitor.go, checked
   against the tables regenerated from the CURRENT source (Gen/SeqShape.v). Every lemma here is closed by
   `reflexivity` on a regenerated table: it stops checking when the source changes shape, which the driver reports
   as a broken obligation (followed by a failing-input search). *)
From Coq Require Import String List NArith Bool.
Import ListNotations.
Require Import Verif.Seq.SeqModel Verif.Gen.SeqShape.
Local Open Scope string_scope.

(* the translator classified every construct it looked at *)
Lemma shape_is_known : shape_known = true.
Proof. reflexivity. Qed.

(* the three defects are repaired in the current source: a missing call target is an error, not a panic; the
   in-progress branch of visitEndpoint deactivates only what it activated itself; a statement without `Stmt` (the
   default arm of visitStatment's type switch) is an error, not a panic *)
Definition variant_fixed : variant := {| v_lookup_panics := false; v_inprog_unguarded := false; v_nil_panics := false |}.
Lemma variant_now_fixed : variant_now = variant_fixed.
Proof. reflexivity. Qed.

(* MakeAgent: pattern -> (category, PlantUML participant kind); the model's agent_of_pat / make_agent is this table *)
Definition pat_of_string (s:string) : pat :=
  if String.eqb s "human" then PHuman else if String.eqb s "ui" then PUi else if String.eqb s "cron" then PCron
  else if String.eqb s "db" then PDb else if String.eqb s "external" then PExternal else if String.eqb s "file" then PFile
  else if String.eqb s "topic" then PTopic else POther.
Definition agentk_name (k:agentk) : string :=
  match k with Actor => "actor" | Boundary => "boundary" | Control => "control" | Database => "database"
             | Collections => "collections" | Queue => "queue" end.
Definition model_agent_row (p:pat) : option (N * string) :=
  match agent_of_pat p with Some (c, k) => Some (c, agentk_name k) | None => None end.
Definition all_pats : list pat := [PHuman; PUi; PCron; PDb; PExternal; PFile; PTopic; POther].
Fixpoint table_find (s:pat) (l:list (string * (N * string))) : option (N * string) :=
  match l with [] => None | (k, v) :: r => if pat_eqb (pat_of_string k) s then Some v else table_find s r end.
Definition opt_row_eqb (x y:option (N*string)) : bool :=
  match x, y with
  | None, None => true
  | Some (c, k), Some (c', k') => N.eqb c c' && String.eqb k k'
  | _, _ => false end.
Lemma agent_table_is_model :
  forallb (fun p => opt_row_eqb (table_find p agent_table) (model_agent_row p)) all_pats = true
  /\ forallb (fun r => negb (pat_eqb (pat_of_string (fst r)) POther)) agent_table = true
  /\ agent_default = (let '(c, k) := make_agent [] in (c, agentk_name k)).
Proof. repeat split; reflexivity. Qed.

(* visitStatment: one arm per statement kind of the model (Action covers Action and Dots; Cond, Loop, LoopN,
   Foreach, Group are the five block kinds), anything else - SeqModel.Nil, a statement whose oneof is not set - is an error
   (before the repair: ("default","panic"), and variant_now said v_nil_panics := true) *)
Lemma stmt_arms_expected :
  stmt_arms = [("Action","visitAction"); ("Alt","visitAlt"); ("Call","visitCall"); ("Cond","visitCond");
               ("Foreach","visitForeach"); ("Group","visitGroup"); ("Loop","visitLoop"); ("LoopN","visitLoopN");
               ("Ret","visitRet"); ("default","error")].
Proof. reflexivity. Qed.

(* the five block visitors all go through visitGroupStmt (open, body, "end") with the model's keyword and forward
   e.isLastStmt(i) *)
Definition kw_name (k:kw) : string := match k with KOpt => "opt" | KLoop => "loop" | KGroup => "group" end.
Lemma block_visitors_expected :
  block_visitors = [("visitCond", ("visitGroupStmt", kw_name (kw_of BCond), "isLastStmt"));
                    ("visitForeach", ("visitGroupStmt", kw_name (kw_of BForeach), "isLastStmt"));
                    ("visitGroup", ("visitGroupStmt", kw_name (kw_of BGroup), "isLastStmt"));
                    ("visitLoop", ("visitGroupStmt", kw_name (kw_of BLoop), "isLastStmt"));
                    ("visitLoopN", ("visitGroupStmt", kw_name (kw_of BLoopN), "isLastStmt"))].
Proof. reflexivity. Qed.

Lemma group_stmt_closes_block : group_stmt_closes = true.
Proof. reflexivity. Qed.

(* visitAlt flags a choice as last iff the alt is the last statement and the choice is the last one; "alt" then
   "else", one "end" (walk_alts); isLastStmt(i) = isLastParentStmt && i == len(stmts)-1 (walk_list) *)
Lemma alt_rule_expected : alt_rule = "last-statement-and-last-choice".
Proof. reflexivity. Qed.
Lemma is_last_rule_expected : is_last_rule = "parent-last-and-last-index".
Proof. reflexivity. Qed.

(* ---- the option layer and the label pipeline (Seq/Fmt.v, Seq/SeqOpts.v) ---- *)
(* the eleven expressions the scanners of Fmt.v (item_at / find_item, m_var, m_condoper, m_search, m_condval, m_varstart,
   m_stmtoper, m_nostmtoper, m_stmtend) are written against, and the three shapes Eat distinguishes by the number of groups *)
Lemma item_regexps_expected :
  item_regexps = [("ItemReCondOper", "^[!=]="); ("ItemReCondVal", "^\'([\w ]+)\'");
                  ("ItemReDefault", "((?:[^%]|%[^(\n]|\n)*?)($|%\()"); ("ItemReEnd", "((?:[^%]|%[^(\n]|\n)*?)($|\)|%\()");
                  ("ItemReNoStmtOper", "^\|"); ("ItemReSearch", "^~/([^/]+)/");
                  ("ItemReStatement", "((?:[^%]|%[^(\n]|\n)*?)($|[|)]|%\()"); ("ItemReStmtEnd", "^\)");
                  ("ItemReStmtOper", "^[=?]"); ("ItemReVar", "^(@?\w+)"); ("ItemReVarStart", "^%\(")].
Proof. reflexivity. Qed.
Lemma match_consts_expected :
  match_consts = [("MatchSymbol", "iota + 1"); ("MatchWord", "iota"); ("MatchLookahead", "iota")].
Proof. reflexivity. Qed.

(* MakeEndpointCollectionElement takes a blackbox iff its comment is not empty (SeqOpts.in_force) and leaves the Upto it
   shares with its caller alone; a comment of exactly one character is dropped where a note is written (Upto.note;
   SeqOpts.tbb_of). Before the repair it cleared the comment by assignment through the shared pointer
   (SeqOpts.clear_one_char): mece_rule was (_, "len(b.Comment) == 1", "b.Comment = """""). *)
Lemma mece_rule_expected : mece_rule = ("len(b.Comment) > 0", "none", "none").
Proof. reflexivity. Qed.
(* visitEndpoint looks blackboxes up under "App <- Endpoint" (SeqOpts.vkey / resolve) and shows without expanding what is
   a blackbox of another kind than UpTo, or in progress (SeqModel.visit_endpoint, SeqOpts.text_walk / visits) *)
Lemma visiting_format_expected : visiting_format = "%s <- %s e.appName e.endpointName".
Proof. reflexivity. Qed.
Lemma cut_rule_expected : cut_rule = "(hitUpto && upto.ValueType != UpTo) || hitVisited".
Proof. reflexivity. Qed.
(* DoConstructSequenceDiagrams: application level, endpoint level (templated mode), command line *)
Lemma bb_kinds_expected : bb_kinds = ["cmdutils.BBApplication"; "cmdutils.BBEndpointCollection"; "cmdutils.BBCommandLine"].
Proof. reflexivity. Qed.

(* the four repairs of the option layer are in the current source: format strings are tried before use, a malformed
   `blackboxes` attribute is read without indexing past its end, the shared Upto is not written, an endpoint's
   blackboxes are laid over the application's in a map of their own. (ep_empty_reported_now only DESCRIBES the source for the
   model: does DoConstructSequenceDiagrams log a "not hit" line for an endpoint's blackbox with an empty note - it does not,
   and nothing asks it to: warnings are not part of the property.) *)
Lemma option_layer_repaired :
  (fmt_checked_now, bbattr_guarded_now, onechar_in_heap_now, ep_layered_now) = (true, true, false, true).
Proof. reflexivity. Qed.
Lemma fmt_checked_now_true : fmt_checked_now = true.
Proof. reflexivity. Qed.
Lemma bbattr_guarded_now_true : bbattr_guarded_now = true.
Proof. reflexivity. Qed.
