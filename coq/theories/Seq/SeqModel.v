(* C13 - model of the sequence-diagram generator:
     pkg/cmdutils/visitor.go   visitEndpointCollection / visitEndpoint / visitStatment / visitCall / visitAlt /
                               visitBlockStmt / visitGroupStmt / visitRet / visitAction / UniqueVarForAppName / MakeAgent
     pkg/cmdutils/writer.go    Activate / Activated (one-shot closure) / Deactivate (guarded counter)
     pkg/cmdutils/utils.go     GetReturnPayload
   The control flow is transliterated; what is explicit state here is implicit in Go:
     active  = SequenceDiagramWriter.Active          (per participant activation depth)
     visited = SequenceDiagramVisitor.visited        (endpoints being expanded; cleared per start entry)
     cells   = the closures returned by Activated    (participant, still armed?) addressed by creation index
     syms    = SequenceDiagramVisitor.symbols        (participants in first-use order = alias number)
     out     = the body buffer, as events
   Outside the model: labels / payload texts (FormatReturnParam is only observed as "formatted payload empty or not",
   per return statement), indentation, title, note direction, group boxes, the icon of cron endpoints.
   Definitions only; proofs are in SeqProps.v. *)
From Coq Require Import List NArith Bool.
Import ListNotations.

Definition id := N.

(* ---- input ---- *)
Inductive retk := RetEmpty (* payload "" *) | RetPrim (* non-empty, FormatReturnParam drops it *) | RetShown.
Inductive bkind := BCond | BLoop | BLoopN | BForeach | BGroup.
Inductive kw := KOpt | KLoop | KGroup.
Definition kw_of (k:bkind) : kw := match k with BCond => KOpt | BGroup => KGroup | _ => KLoop end.

Inductive stmt :=
| Call (app ep:id)
| Action | Dots                       (* an action, the action "..." (not drawn) *)
| Ret (k:retk)
| Block (k:bkind) (body:list stmt)    (* Cond | Loop | LoopN | Foreach | Group: visitGroupStmt *)
| Alt (choices:list (list stmt))
| Nil.                                (* a statement whose `Stmt` oneof is not set: not from the parser, but a module read from
                                         .pb / .textpb / JSON can hold one *)

Inductive pat := PHuman | PUi | PCron | PDb | PExternal | PFile | PTopic | POther.
Inductive agentk := Actor | Boundary | Control | Database | Collections | Queue.

Record endpoint := { ep_hidden : bool; ep_body : list stmt }.
Record app := { app_pats : list pat; app_eps : list (id * endpoint) }.
Definition module := list (id * app).

(* one entry of SequenceDiagParam.Blackboxes *)
Inductive clen := C0 | C1 | CN.       (* len(Comment) = 0 | = 1 | > 1 *)
Record bbin := { bb_key : id * id; bb_cut : bool (* ValueType <> UpTo *); bb_clen : clen }.
(* the visitor's view after MakeEndpointCollectionElement *)
Record upto := { u_cut : bool; u_comment : bool (* len(Comment) > 0 *) }.
Definition bbmap := list ((id * id) * upto).

(* what the two facts read from the current source say (Gen/SeqShape.v) *)
Record variant := {
  v_lookup_panics : bool;     (* application()/endpoint() panic on a missing target (else: return an error) *)
  v_inprog_unguarded : bool;  (* the in-progress branch of visitEndpoint calls Deactivate(agent) even when it
                                 did not Activate (upto = nil) *)
  v_nil_panics : bool         (* the default arm of visitStatment's type switch (a statement without `Stmt`) panics
                                 (else: returns an error) *)
}.

(* ---- output ---- *)
Inductive part := World | P (a:id).
Inductive event :=
| Section (a e:id)                    (* == App <- Endpoint == *)
| Arrow (s:part) (t:id) (ep:id)       (* s->t : ep *)
| Return (s:part) (t:id)              (* s<--t : payload *)
| Self (a:id)                         (* a -> a : action *)
| Activate (a:id) | Deactivate (a:id)
| Open (k:kw) | OpenAlt | Else | Close
| NoteOver (a:id) | NoteSide.

Inductive outcome (A:Type) := Ok (x:A) | Err | Panic | OutOfFuel.
Arguments Ok {A}. Arguments Err {A}. Arguments Panic {A}. Arguments OutOfFuel {A}.

(* ---- helpers ---- *)
Fixpoint assoc {A} (k:id) (l:list (id*A)) : option A :=
  match l with [] => None | (j,x)::t => if N.eqb k j then Some x else assoc k t end.
Definition key_eqb (x y:id*id) : bool := N.eqb (fst x) (fst y) && N.eqb (snd x) (snd y).
Fixpoint assoc2 {A} (k:id*id) (l:list ((id*id)*A)) : option A :=
  match l with [] => None | (j,x)::t => if key_eqb k j then Some x else assoc2 k t end.
Fixpoint set2 {A} (k:id*id) (v:A) (l:list ((id*id)*A)) : list ((id*id)*A) :=
  match l with [] => [(k,v)] | (j,x)::t => if key_eqb k j then (k,v)::t else (j,x)::set2 k v t end.
Definition pat_eqb (x y:pat) : bool :=
  match x, y with
  | PHuman,PHuman | PUi,PUi | PCron,PCron | PDb,PDb | PExternal,PExternal | PFile,PFile | PTopic,PTopic | POther,POther => true
  | _, _ => false end.
Definition has_pat (p:pat) (l:list pat) : bool := existsb (pat_eqb p) l.
Definition is_nil {A} (l:list A) : bool := match l with [] => true | _ => false end.
Definition is_some {A} (o:option A) : bool := match o with Some _ => true | None => false end.

Definition lookup (m:module) (a e:id) : option (app * endpoint) :=
  match assoc a m with
  | None => None
  | Some ap => match assoc e (app_eps ap) with None => None | Some ep => Some (ap, ep) end
  end.

(* MakeAgent: the first pattern (in attribute order) that names an agent kind decides; default control, category 3 *)
Definition agent_of_pat (p:pat) : option (N * agentk) :=
  match p with
  | PHuman => Some (0, Actor) | PUi => Some (1, Boundary) | PCron => Some (2, Control) | PDb => Some (4, Database)
  | PExternal => Some (5, Control) | PFile => Some (6, Collections) | PTopic => Some (7, Queue) | POther => None
  end%N.
Fixpoint make_agent (l:list pat) : N * agentk :=
  match l with
  | [] => (3%N, Control)
  | p :: r => match agent_of_pat p with Some x => x | None => make_agent r end
  end.

(* GetReturnPayload: the first return statement met decides, even when its payload is empty; below an alternative or
   a block only a non-empty payload is taken, otherwise the search goes on *)
Definition nonempty (k:retk) : bool := match k with RetEmpty => false | _ => true end.
(* one iteration of the loop: Some k = `return k` here, None = go on with the next statement *)
Fixpoint ret_stmt (x:stmt) : option retk :=
  match x with
  | Call _ _ | Action | Dots | Nil => None  (* GetReturnPayload: no arm of its switch matches, the search goes on *)
  | Ret k => Some k
  | Block _ b =>
      let p := (fix go (l:list stmt) : retk :=
                  match l with [] => RetEmpty | y :: r => match ret_stmt y with Some k => k | None => go r end end) b in
      if nonempty p then Some p else None
  | Alt cs =>
      (fix goc (l:list (list stmt)) : option retk :=
         match l with
         | [] => None
         | c :: r =>
             let p := (fix go (l:list stmt) : retk :=
                         match l with [] => RetEmpty | y :: r' => match ret_stmt y with Some k => k | None => go r' end end) c in
             if nonempty p then Some p else goc r
         end) cs
  end.
Definition ret_payload : list stmt -> retk :=
  fix go (l:list stmt) : retk :=
    match l with [] => RetEmpty | y :: r => match ret_stmt y with Some k => k | None => go r end end.
Definition is_shown (k:retk) : bool := match k with RetShown => true | _ => false end.

(* ---- state ---- *)
Record st := { active : list (id * nat); visited : list (id * id); cells : list (id * bool); syms : list id; out : list event }.

Definition emit (s:st) (e:event) : st :=
  {| active := active s; visited := visited s; cells := cells s; syms := syms s; out := out s ++ [e] |}.
Definition with_active (s:st) (a:list (id*nat)) : st :=
  {| active := a; visited := visited s; cells := cells s; syms := syms s; out := out s |}.
Definition with_visited (s:st) (v:list (id*id)) : st :=
  {| active := active s; visited := v; cells := cells s; syms := syms s; out := out s |}.
Definition with_cells (s:st) (c:list (id*bool)) : st :=
  {| active := active s; visited := visited s; cells := c; syms := syms s; out := out s |}.
Definition with_syms (s:st) (y:list id) : st :=
  {| active := active s; visited := visited s; cells := cells s; syms := y; out := out s |}.

Fixpoint get (a:id) (l:list (id*nat)) : nat := match l with [] => O | (j,n)::t => if N.eqb a j then n else get a t end.
Fixpoint set (a:id) (n:nat) (l:list (id*nat)) : list (id*nat) :=
  match l with [] => [(a,n)] | (j,x)::t => if N.eqb a j then (a,n)::t else (j,x)::set a n t end.

(* writer.Activate / Deactivate / Activated *)
Definition activate (s:st) (a:id) : st := emit (with_active s (set a (S (get a (active s))) (active s))) (Activate a).
Definition deactivate (s:st) (a:id) : st :=
  match get a (active s) with
  | O => s
  | S n => emit (with_active s (set a n (active s))) (Deactivate a)
  end.
Definition activated (s:st) (a:id) (suppressed:bool) : st * nat :=
  let s1 := if suppressed then s else activate s a in
  (with_cells s1 (cells s1 ++ [(a, negb suppressed)]), length (cells s1)).
Fixpoint disarm (n:nat) (l:list (id*bool)) : list (id*bool) :=
  match n, l with _, [] => [] | O, (a,_)::t => (a,false)::t | S k, x::t => x :: disarm k t end.
Definition fire (s:st) (c:nat) : st :=
  match nth_error (cells s) c with
  | Some (a, true) => deactivate (with_cells s (disarm c (cells s))) a
  | _ => s
  end.

Definition is_visited (s:st) (a e:id) : bool := existsb (key_eqb (a,e)) (visited s).
Definition push_visited (s:st) (a e:id) : st := with_visited s ((a,e) :: visited s).
Fixpoint remove1 (k:id*id) (l:list (id*id)) : list (id*id) :=
  match l with [] => [] | x::t => if key_eqb k x then t else x :: remove1 k t end.
Definition pop_visited (s:st) (a e:id) : st := with_visited s (remove1 (a,e) (visited s)).

(* UniqueVarForAppName *)
Definition uniq_var (s:st) (a:id) : st := if existsb (N.eqb a) (syms s) then s else with_syms s (syms s ++ [a]).

Definition sender_of (from:option id) : part := match from with Some a => P a | None => World end.

Definition bind {A B} (o:outcome A) (f:A -> outcome B) : outcome B :=
  match o with Ok x => f x | Err => Err | Panic => Panic | OutOfFuel => OutOfFuel end.

(* the default arm of visitStatment *)
Definition nil_fail (np:bool) : outcome st := if np then Panic else Err.

(* ---- visitStatment and the block visitors, for one expansion (agent a called by snd); `call` is visitCall ---- *)
Section Walk.
  Variable call : st -> id -> id -> bool -> outcome st.   (* state, target app, target endpoint, isLastStmt *)
  Variable np : bool.                                      (* v_nil_panics *)
  Variable a : id.
  Variable sndr : part.

  (* last = e.isLastStmt(i) of the statement *)
  Fixpoint walk_stmt (s:st) (x:stmt) (last:bool) {struct x} : outcome st :=
    match x with
    | Call t te => call s t te last
    | Action => Ok (emit s (Self a))
    | Dots => Ok s
    | Ret _ => Ok (emit s (Return sndr a))
    | Nil => nil_fail np
    | Block k b =>
        bind ((fix go (s:st) (l:list stmt) (lastp:bool) {struct l} : outcome st :=
                 match l with
                 | [] => Ok s
                 | y :: r => bind (walk_stmt s y (lastp && is_nil r)) (fun s' => go s' r lastp)
                 end) (emit s (Open (kw_of k))) b last)
             (fun s' => Ok (emit s' Close))
    | Alt cs =>
        bind ((fix goc (s:st) (l:list (list stmt)) (first:bool) {struct l} : outcome st :=
                 match l with
                 | [] => Ok s
                 | c :: r =>
                     bind ((fix go (s:st) (l:list stmt) (lastp:bool) {struct l} : outcome st :=
                              match l with
                              | [] => Ok s
                              | y :: r' => bind (walk_stmt s y (lastp && is_nil r')) (fun s' => go s' r' lastp)
                              end) (emit s (if first then OpenAlt else Else)) c (last && is_nil r))
                          (fun s' => goc s' r false)
                 end) s cs true)
             (fun s' => Ok (emit s' Close))
    end.

  (* visitStatment over a list whose isLastParentStmt is lastp *)
  Definition walk_list : st -> list stmt -> bool -> outcome st :=
    fix go (s:st) (l:list stmt) (lastp:bool) {struct l} : outcome st :=
      match l with
      | [] => Ok s
      | y :: r => bind (walk_stmt s y (lastp && is_nil r)) (fun s' => go s' r lastp)
      end.
  (* the loop of visitAlt; last = isLastStmt of the alt statement *)
  Definition walk_alts (last:bool) : st -> list (list stmt) -> bool -> outcome st :=
    fix goc (s:st) (l:list (list stmt)) (first:bool) {struct l} : outcome st :=
      match l with
      | [] => Ok s
      | c :: r => bind (walk_list (emit s (if first then OpenAlt else Else)) c (last && is_nil r)) (fun s' => goc s' r false)
      end.
End Walk.

Section Gen.
  Variable V : variant.
  Variable m : module.

  Definition lookup_fail : outcome st := if v_lookup_panics V then Panic else Err.

  (* visitEndpoint; caller = (cell of the calling expansion, isLastStmt of the call) *)
  Fixpoint visit_endpoint (fuel:nat) (bbs:bbmap) (s:st) (from:option id) (a e:id) (caller:option (nat*bool)) {struct fuel}
    : outcome st :=
    match fuel with
    | O => OutOfFuel
    | S f =>
      let sender := sender_of from in
      let s0 := uniq_var (match from with Some x => uniq_var s x | None => s end) a in
      match lookup m a e with
      | None => lookup_fail
      | Some (ap, ep) =>
        let human := has_pat PHuman (app_pats ap) in
        let cron := has_pat PCron (app_pats ap) in
        let hidden := ep_hidden ep in
        let s1 := if negb ((human && negb (is_some from)) || cron) && negb hidden then emit s0 (Arrow sender a e) else s0 in
        let shown := is_shown (ret_payload (ep_body ep)) in
        let calling_self := match from with Some x => N.eqb x a | None => false end in
        let s2 := match caller with
                  | Some (c, true) => if negb calling_self && negb shown then fire s1 c else s1
                  | _ => s1
                  end in
        match ep_body ep with
        | [] => Ok s2
        | _ :: _ =>
          let up := assoc2 (a,e) bbs in
          if (match up with Some u => u_cut u | None => false end) || is_visited s2 a e then
            let s3 := match up with
                      | Some u =>
                          if shown then (let s' := activate s2 a in if u_comment u then emit s' (NoteOver a) else s')
                          else emit s2 NoteSide
                      | None => s2
                      end in
            if shown then
              let s4 := if hidden then s3 else emit s3 (Return sender a) in
              Ok (if v_inprog_unguarded V || is_some up then deactivate s4 a else s4)
            else Ok s3
          else
            let '(s3, cell) := activated s2 a (human || cron) in
            let s4 := push_visited s3 a e in
            bind (walk_list (fun s t te last => visit_endpoint f bbs s (Some a) t te (Some (cell, last))) (v_nil_panics V) a sender
                            s4 (ep_body ep) true)
                 (fun s5 => Ok (pop_visited (fire s5 cell) a e))
        end
      end
    end.

  (* visitEndpointCollection: one section per start entry; every other start entry becomes a "see below" upto *)
  Definition see_below : upto := {| u_cut := false; u_comment := true |}.
  Definition mark_others (all:list (id*id)) (cur:id*id) (bbs:bbmap) : bbmap :=
    fold_left (fun b k => if key_eqb k cur then b else set2 k see_below b) all bbs.

  Fixpoint run_entries (fuel:nat) (all:list (id*id)) (bbs:bbmap) (s:st) (es:list (id*id)) : outcome st :=
    match es with
    | [] => Ok s
    | (a,e) :: r =>
        match lookup m a e with
        | None => Err
        | Some _ =>
            let s1 := emit s (Section a e) in
            let bbs' := mark_others all (a,e) bbs in
            bind (visit_endpoint fuel bbs' (with_visited s1 []) None a e None)
                 (fun s2 => run_entries fuel all bbs' s2 r)
        end
    end.

  (* MakeEndpointCollectionElement: entries without comment are dropped, a one-character comment is cleared *)
  Fixpoint make_bbs (l:list bbin) : bbmap :=
    match l with
    | [] => []
    | b :: r => match bb_clen b with
                | C0 => make_bbs r
                | C1 => set2 (bb_key b) {| u_cut := bb_cut b; u_comment := false |} (make_bbs r)
                | CN => set2 (bb_key b) {| u_cut := bb_cut b; u_comment := true |} (make_bbs r)
                end
    end.

  (* head: symbols sorted by (category, first use) *)
  Definition decl := (id * agentk)%type.
  Definition cat_of (a:id) : N * agentk :=
    match assoc a m with Some ap => make_agent (app_pats ap) | None => make_agent [] end.
  Fixpoint insert_cat (x:N*decl) (l:list (N*decl)) : list (N*decl) :=
    match l with
    | [] => [x]
    | y :: t => if N.ltb (fst x) (fst y) then x :: y :: t else y :: insert_cat x t
    end.
  Definition declare (ys:list id) : list decl :=
    map (@Datatypes.snd _ _) (fold_left (fun acc a => insert_cat (fst (cat_of a), (a, Datatypes.snd (cat_of a))) acc) ys []).

  Definition init : st := {| active := []; visited := []; cells := []; syms := []; out := [] |}.

  Definition gen_st (fuel:nat) (bbs:list bbin) (starts:list (id*id)) : outcome st :=
    run_entries fuel starts (make_bbs bbs) init starts.

  (* GenerateSequenceDiag: head declarations and body events; writer.String() is empty when either is *)
  Definition gen (fuel:nat) (bbs:list bbin) (starts:list (id*id)) : outcome (list decl * list event) :=
    bind (gen_st fuel bbs starts) (fun s => Ok (declare (syms s), out s)).
End Gen.

(* the bound used for runs: one level per endpoint of the module, plus one *)
Definition n_endpoints (m:module) : nat := fold_right (fun ap n => length (app_eps (Datatypes.snd ap)) + n) 0 m.
Definition fuel_for (m:module) : nat := S (n_endpoints m).

(* ---- the specification the call arrows are compared with: depth-first walk of the call statements in source
   order; an endpoint in progress (or black-boxed) is shown but not expanded ---- *)
Fixpoint calls_stmt (x:stmt) : list (id*id) :=
  match x with
  | Call t te => [(t, te)]
  | Action | Dots | Ret _ | Nil => []
  | Block _ b => (fix go (l:list stmt) := match l with [] => [] | y :: r => calls_stmt y ++ go r end) b
  | Alt cs => (fix goc (l:list (list stmt)) :=
                 match l with [] => []
                 | c :: r => (fix go (l:list stmt) := match l with [] => [] | y :: r' => calls_stmt y ++ go r' end) c ++ goc r
                 end) cs
  end.
Definition calls_list : list stmt -> list (id*id) :=
  fix go (l:list stmt) := match l with [] => [] | y :: r => calls_stmt y ++ go r end.
Definition calls_alts : list (list stmt) -> list (id*id) :=
  fix goc (l:list (list stmt)) := match l with [] => [] | c :: r => calls_list c ++ goc r end.

Section Ref.
  Variable m : module.
  Variable bbs : bbmap.
  Fixpoint ref_calls (fuel:nat) (inprog:list (id*id)) (from:option id) (a e:id) {struct fuel} : list event :=
    match fuel with
    | O => []
    | S f =>
      match lookup m a e with
      | None => []
      | Some (ap, ep) =>
        let human := has_pat PHuman (app_pats ap) in
        let cron := has_pat PCron (app_pats ap) in
        (if negb ((human && negb (is_some from)) || cron) && negb (ep_hidden ep) then [Arrow (sender_of from) a e] else [])
        ++ (if is_nil (ep_body ep) || (match assoc2 (a,e) bbs with Some u => u_cut u | None => false end)
               || existsb (key_eqb (a,e)) inprog
            then []
            else flat_map (fun c => ref_calls f ((a,e) :: inprog) (Some a) (fst c) (Datatypes.snd c)) (calls_list (ep_body ep)))
      end
    end.
End Ref.

Definition is_arrow (e:event) : bool := match e with Arrow _ _ _ => true | _ => false end.
Definition arrows (l:list event) : list event := filter is_arrow l.

(* ---- group boxes (GenerateSequenceDiag after the walk, option groupby): `groups` maps an application to the value
   of its group-by attribute (empty when the option is off). visitEndpoint puts the target application of every
   visit into the box named by that value; on a run without error these are exactly the registered symbols (a sender
   is always an application under expansion, i.e. an earlier target), so the boxes are computed from the final symbol
   table instead of being threaded through the state. Boxes are written in name order, their members in application
   name order (ids are handed out by the harness in name order). ---- *)
Fixpoint ins_sorted (x:N) (l:list N) : list N :=
  match l with [] => [x] | y :: t => if N.leb x y then x :: y :: t else y :: ins_sorted x t end.
Definition isort (l:list N) : list N := fold_right ins_sorted [] l.
Definition group_of (groups:list (id*id)) (x:id) : option id := assoc x groups.
Definition in_group (groups:list (id*id)) (g:id) (x:id) : bool :=
  match group_of groups x with Some g' => N.eqb g' g | None => false end.
Definition box_names (groups:list (id*id)) (ys:list id) : list id :=
  isort (nodup N.eq_dec (flat_map (fun x => match group_of groups x with Some g => [g] | None => [] end) ys)).
Definition boxes_of (groups:list (id*id)) (ys:list id) : list (id * list id) :=
  map (fun g => (g, isort (filter (in_group groups g) ys))) (box_names groups ys).
Definition gen_boxes (V:variant) (m:module) (fuel:nat) (bbs:list bbin) (starts:list (id*id)) (groups:list (id*id))
  : outcome (list (id * list id)) :=
  bind (gen_st V m fuel bbs starts) (fun s => Ok (boxes_of groups (syms s))).
