(* C13 - theorems about blackboxes and the option layer (Seq/SeqOpts.v, on top of SeqModel / SeqProps):
   "nothing below a blackbox is drawn, everything above is": the call arrows of a run with blackboxes are the pre-order
   of the call tree of the run WITHOUT blackboxes, pruned below every cut point; which entries of the option are cut
   points (a note of at least one character, whatever it is; an empty note never); the heap of shared Uptos keeps the
   notes of the application's blackboxes from diagram to diagram once the one-character convention no longer writes
   to it (and loses them before: refuted by witness). *)
From Coq Require Import String Ascii List NArith Bool Arith Lia.
Import ListNotations.
Require Import Verif.Seq.SeqModel Verif.Seq.SeqProps Verif.Seq.Fmt Verif.Seq.FmtProps Verif.Seq.SeqOpts.

(* ---- the call tree ---- *)
Inductive ctree :=
| Node (arrow:list event) (key:id*id) (kids:list ctree)      (* one visit: the arrow it draws (none when hidden / cron / human from outside) *)
| Stop.                                                       (* the walk ends here: no such endpoint, or the fuel is used up *)

Fixpoint preorder (t:ctree) : list event :=
  match t with
  | Node ar _ kids => ar ++ flat_map preorder kids
  | Stop => []
  end.
(* cut below every node whose key satisfies `cut` *)
Fixpoint prune (cut:id*id -> bool) (t:ctree) : ctree :=
  match t with
  | Node ar k kids => Node ar k (if cut k then [] else map (prune cut) kids)
  | Stop => Stop
  end.

Definition cutf (bbs:bbmap) (k:id*id) : bool := match assoc2 k bbs with Some u => u_cut u | None => false end.

Section Tree.
  Variable m : module.
  (* the call tree of an endpoint when nothing is black-boxed: children = the call statements in source order; an
     endpoint without statements or already on the path is a leaf *)
  Fixpoint full_tree (fuel:nat) (inprog:list (id*id)) (from:option id) (a e:id) {struct fuel} : ctree :=
    match fuel with
    | O => Stop
    | S f =>
      match lookup m a e with
      | None => Stop
      | Some (ap, ep) =>
        let human := has_pat PHuman (app_pats ap) in
        let cron := has_pat PCron (app_pats ap) in
        Node (if negb ((human && negb (is_some from)) || cron) && negb (ep_hidden ep) then [Arrow (sender_of from) a e] else [])
             (a, e)
             (if is_nil (ep_body ep) || existsb (key_eqb (a,e)) inprog then []
              else map (fun c => full_tree f ((a,e) :: inprog) (Some a) (fst c) (snd c)) (calls_list (ep_body ep)))
      end
    end.

  Lemma flat_map_map {A B C} (f:A -> B) (g:B -> list C) (l:list A) : flat_map g (map f l) = flat_map (fun x => g (f x)) l.
  Proof. induction l as [|x t IH]; cbn; [reflexivity|]. rewrite IH. reflexivity. Qed.

  (* nothing below a blackbox is drawn, everything above is *)
  Theorem ref_calls_pruned : forall bbs fuel inprog from a e,
    ref_calls m bbs fuel inprog from a e = preorder (prune (cutf bbs) (full_tree fuel inprog from a e)).
  Proof.
    intros bbs. induction fuel as [|f IH]; intros inprog from a e; cbn [ref_calls full_tree]; [reflexivity|].
    destruct (lookup m a e) as [[ap ep]|]; [|reflexivity].
    cbn [prune preorder]. f_equal. unfold cutf at 1.
    destruct (is_nil (ep_body ep)) eqn:En; cbn [orb].
    - destruct (match assoc2 (a,e) bbs with Some u => u_cut u | None => false end); reflexivity.
    - destruct (match assoc2 (a,e) bbs with Some u => u_cut u | None => false end); cbn [orb]; [reflexivity|].
      destruct (existsb (key_eqb (a,e)) inprog); cbn [map flat_map]; [reflexivity|].
      rewrite map_map, flat_map_map. apply flat_map_ext. intros c. apply IH.
  Qed.

  Corollary ref_calls_no_blackbox : forall fuel inprog from a e,
    ref_calls m [] fuel inprog from a e = preorder (full_tree fuel inprog from a e).
  Proof.
    intros. rewrite ref_calls_pruned. f_equal.
    generalize (full_tree fuel inprog from a e). fix IHt 1. intros [ar k kids|]; [|reflexivity].
    cbn [prune]. unfold cutf at 1. cbn [assoc2]. f_equal.
    induction kids as [|t r IHr]; cbn [map]; [reflexivity|]. rewrite IHt, IHr. reflexivity.
  Qed.
End Tree.

Lemma key_eqb_refl k : key_eqb k k = true.
Proof. unfold key_eqb. rewrite !N.eqb_refl. reflexivity. Qed.

(* one start entry: the arrows of the diagram are the pruned call tree of that entry *)
Theorem seq_blackbox_prunes : forall V m fuel bbs a e d ev,
  gen V m fuel bbs [(a,e)] = Ok (d, ev) ->
  arrows ev = preorder (prune (cutf (make_bbs bbs)) (full_tree m fuel [] None a e)).
Proof.
  intros V m fuel bbs a e d ev H. rewrite (seq_follows_calls V m fuel bbs [(a,e)] d ev H).
  cbn [ref_entries]. unfold mark_others. cbn [fold_left]. rewrite key_eqb_refl.
  rewrite app_nil_r. apply ref_calls_pruned.
Qed.

(* ---- which entries of the option are cut points (MakeEndpointCollectionElement) ---- *)
Lemma assoc2_set2_same {A} k (v:A) l : assoc2 k (set2 k v l) = Some v.
Proof.
  induction l as [|[j x] t IH]; cbn; [rewrite key_eqb_refl; reflexivity|].
  destruct (key_eqb k j) eqn:E; cbn; [rewrite key_eqb_refl; reflexivity|]. rewrite E. exact IH.
Qed.
Lemma key_eqb_eq k j : key_eqb k j = true -> k = j.
Proof.
  destruct k as [a b], j as [c d]. unfold key_eqb; cbn. intros H. apply andb_prop in H as [H1 H2].
  apply N.eqb_eq in H1, H2. subst. reflexivity.
Qed.
Lemma assoc2_set2_other {A} k j (v:A) l : key_eqb k j = false -> assoc2 k (set2 j v l) = assoc2 k l.
Proof.
  intros Hk. induction l as [|[i x] t IH]; cbn; [rewrite Hk; reflexivity|].
  destruct (key_eqb j i) eqn:E; cbn.
  - apply key_eqb_eq in E. subst i. rewrite Hk. reflexivity.
  - destruct (key_eqb k i); [reflexivity|exact IH].
Qed.

(* the first entry of the list for a key decides (a Go map has one entry per key anyway) *)
Fixpoint first_for (k:id*id) (l:list bbin) : option bbin :=
  match l with [] => None | b :: r => if key_eqb k (bb_key b) then Some b else first_for k r end.

Lemma make_bbs_lookup : forall l k,
  (forall b, In b l -> bb_clen b <> C0) ->
  assoc2 k (make_bbs l) = match first_for k l with
                          | Some b => Some {| u_cut := bb_cut b; u_comment := match bb_clen b with CN => true | _ => false end |}
                          | None => None
                          end.
Proof.
  induction l as [|b r IH]; intros k Hall; cbn [make_bbs first_for]; [reflexivity|].
  assert (Hr : forall b', In b' r -> bb_clen b' <> C0) by (intros b' Hin; apply Hall; right; exact Hin).
  specialize (Hall b (or_introl eq_refl)).
  destruct (key_eqb k (bb_key b)) eqn:E.
  - apply key_eqb_eq in E. subst k. destruct (bb_clen b); [contradiction| |]; apply assoc2_set2_same.
  - destruct (bb_clen b); [contradiction| |]; rewrite (assoc2_set2_other _ _ _ _ E); apply IH; exact Hr.
Qed.

(* an entry with a note - one character or many - is a cut point *)
Theorem noted_blackbox_cuts : forall l b,
  (forall b', In b' l -> bb_clen b' <> C0) -> first_for (bb_key b) l = Some b -> bb_cut b = true ->
  cutf (make_bbs l) (bb_key b) = true.
Proof.
  intros l b Hall Hf Hc. unfold cutf. rewrite (make_bbs_lookup l (bb_key b) Hall), Hf. exact Hc.
Qed.

(* entries with an empty note are not there at all *)
Lemma make_bbs_drop_empty : forall l, make_bbs l = make_bbs (filter (fun b => match bb_clen b with C0 => false | _ => true end) l).
Proof.
  induction l as [|b r IH]; cbn [make_bbs filter]; [reflexivity|].
  destruct (bb_clen b) eqn:E; cbn [make_bbs]; rewrite ?E; rewrite IH; reflexivity.
Qed.
Theorem empty_note_never_cuts : forall l k,
  (forall b, In b l -> bb_key b = k -> bb_clen b = C0) -> cutf (make_bbs l) k = false.
Proof.
  intros l k H. unfold cutf. rewrite make_bbs_drop_empty.
  set (l' := filter _ l).
  assert (Hl' : forall b, In b l' -> bb_clen b <> C0 /\ bb_key b <> k).
  { intros b Hin. apply filter_In in Hin as [Hin Hc]. split.
    - intros E. rewrite E in Hc. discriminate.
    - intros E. rewrite (H b Hin E) in Hc. discriminate. }
  rewrite make_bbs_lookup by (intros b Hb; apply Hl'; exact Hb).
  replace (first_for k l') with (@None bbin); [reflexivity|].
  clearbody l'. induction l' as [|b r IH]; cbn; [reflexivity|].
  destruct (key_eqb k (bb_key b)) eqn:E.
  - apply key_eqb_eq in E. exfalso. apply (proj2 (Hl' b (or_introl eq_refl))). symmetry; exact E.
  - apply IH. intros b' Hb'. apply Hl'. right; exact Hb'.
Qed.

Example noted_blackbox_cuts_nonvacuous :
  let l := [{| bb_key := (1,0)%N; bb_cut := true; bb_clen := C1 |}; {| bb_key := (2,0)%N; bb_cut := true; bb_clen := CN |}] in
  (forall b', In b' l -> bb_clen b' <> C0) /\ first_for (1,0)%N l = Some {| bb_key := (1,0)%N; bb_cut := true; bb_clen := C1 |}.
Proof. split; [|reflexivity]. intros b' [<-|[<-|[]]]; discriminate. Qed.

(* ---- the heap of shared Uptos from diagram to diagram ---- *)
Definition same_notes (u u':umap) : Prop :=
  forall k, option_map (fun x => (u_text x, u_kind x)) (uget k u') = option_map (fun x => (u_text x, u_kind x)) (uget k u).

Lemma uget_bump : forall k j u, option_map (fun x => (u_text x, u_kind x)) (uget k (bump j u)) = option_map (fun x => (u_text x, u_kind x)) (uget k u).
Proof.
  intros k j u. induction u as [|[i x] t IH]; cbn; [reflexivity|].
  destruct (String.eqb j i) eqn:E; cbn.
  - destruct (String.eqb k i); reflexivity.
  - destruct (String.eqb k i); [reflexivity|exact IH].
Qed.

Section Heap.
  Variable rx : string -> option (string -> bool).
  Variable m : module.
  Variable T : texts.
  Variable epfmt : string.

  (* the sections of a diagram only count visits *)
  Lemma text_entries_same_notes : forall fuel all es tbb u items tbb' u',
    text_entries rx m T epfmt fuel all tbb u es = POk (items, tbb', u') -> same_notes u u'.
  Proof.
    intros fuel all. induction es as [|[a e] r IH]; intros tbb u items tbb' u' H; cbn [text_entries] in H.
    - injection H as _ _ <-. intros k. reflexivity.
    - destruct (text_walk rx m T epfmt (mark_others_t all (a,e) tbb) fuel [] None a e) as [its| |]; cbn [bindp] in H; try discriminate.
      match type of H with bindp (text_entries _ _ _ _ _ _ _ ?uu _) _ = _ => set (u1 := uu) in * end.
      destruct (text_entries rx m T epfmt fuel all (mark_others_t all (a,e) tbb) u1 r) as [[[its' tb] uu]| |] eqn:R; cbn [bindp] in H; try discriminate.
      injection H as _ _ <-. apply IH in R. intros k. rewrite (R k). clear R IH. subst u1.
      generalize (visits m (to_bbmap (mark_others_t all (a,e) tbb)) fuel [] a e). intros vs. revert u.
      induction vs as [|v vs IHv]; intros u; cbn [fold_left]; [reflexivity|].
      rewrite IHv. destruct (assoc2 v (mark_others_t all (a,e) tbb)) as [x|]; [|reflexivity].
      destruct (String.eqb (tu_key x) EmptyString); [reflexivity|apply uget_bump].
  Qed.
End Heap.

(* ---- the repaired option layer ---- *)
Definition ov_repaired : ovariant :=
  {| ov_fmt_checked := true; ov_bbattr_guarded := true; ov_onechar_in_heap := false; ov_ep_layered := true; ov_ep_empty_reported := false |}.
Definition ov_before : ovariant :=
  {| ov_fmt_checked := false; ov_bbattr_guarded := false; ov_onechar_in_heap := true; ov_ep_layered := false; ov_ep_empty_reported := false |}.
Definition v_repaired : variant := {| v_lookup_panics := false; v_inprog_unguarded := false; v_nil_panics := false |}.

(* a `blackboxes` attribute of any shape is read without a panic *)
Theorem guarded_transform_total : forall l, transform_bbs true l <> OPanic.
Proof.
  induction l as [|[x|] t IH]; cbn; try discriminate; [|exact IH].
  destruct (transform_bbs true t); cbn; try discriminate. contradiction.
Qed.
Theorem guarded_to_uptos_total : forall bbs m k, to_uptos true m bbs k <> OPanic.
Proof.
  induction bbs as [|b t IH]; intros m k; cbn; [discriminate|].
  destruct b as [|key [|comment r]]; apply IH.
Qed.
Theorem unguarded_blackboxes_attribute_refuted :
  transform_bbs false [None] = OPanic /\ to_uptos false [] [["A <- B"%string]] KApplication = OPanic.
Proof. split; reflexivity. Qed.

Section HeapRepaired.
  Variable rx : string -> option (string -> bool).
  Variable short_b : bool.
  Variable V : variant.
  Variable m : module.
  Variable T : texts.

  (* one diagram leaves every note (and kind) of the heap as it was: only visit counts change *)
  Theorem generate_keeps_notes : forall OV out title epfmt appfmt group entries u d u2 w,
    ov_onechar_in_heap OV = false ->
    generate rx V OV m T out title epfmt appfmt group entries u = OOk (d, u2, w) -> same_notes u u2.
  Proof.
    intros OV out title epfmt appfmt group entries u d u2 w Hh. unfold generate. rewrite Hh.
    destruct (of_outcome (gen V m (fuel_for m) (bbins_of T u) (map (start_of T) entries))) as [de| |]; cbn [obind]; try discriminate.
    destruct (gen_st V m (fuel_for m) (bbins_of T u) (map (start_of T) entries)) as [st| | |]; try discriminate.
    destruct (text_entries rx m T epfmt (fuel_for m) (map (start_of T) entries) (tbb_of T u) u (map (start_of T) entries))
      as [[[items tbb] uu]| |] eqn:R; cbn [of_pres obind]; try discriminate.
    destruct (of_pres (decl_labels rx T appfmt (fst de))) as [labels| |]; cbn [obind]; try discriminate.
    intros H. injection H as _ <- _. eapply text_entries_same_notes; exact R.
  Qed.
End HeapRepaired.

(* ---- witnesses: the module of the harness corpus. A00.E00 calls A01.E00 and A02.E00; A01.E00 calls A02.E00; A02.E01
   calls A01.E00; the project application A03 has the endpoints E00 (calls A00.E00) and E01 (calls A00.E00, A02.E01) ---- *)
Local Open Scope N_scope.
Definition w_module : module :=
  [(0, {| app_pats := []; app_eps := [(0, {| ep_hidden := false; ep_body := [Call 1 0; Call 2 0; Ret RetShown] |})] |});
   (1, {| app_pats := []; app_eps := [(0, {| ep_hidden := false; ep_body := [Call 2 0; Action] |})] |});
   (2, {| app_pats := []; app_eps := [(0, {| ep_hidden := false; ep_body := [Action; Ret RetShown] |});
                                       (1, {| ep_hidden := false; ep_body := [Call 1 0] |})] |});
   (3, {| app_pats := []; app_eps := [(0, {| ep_hidden := false; ep_body := [Call 0 0] |});
                                       (1, {| ep_hidden := false; ep_body := [Call 0 0; Call 2 1] |})] |})].
Local Open Scope string_scope.
Definition w_ep (n:string) (bb:list (option (list string))) (calls:nat) : eptx :=
  {| ex_name := n; ex_long := ""; ex_attrs := []; ex_pats := []; ex_args := ""; ex_bbs := bb; ex_calls := repeat no_call calls |}.
Definition w_texts (appbb e0bb:list (option (list string))) : texts :=
  [(0%N, {| ax_name := "A00"; ax_attrs := []; ax_bbs := []; ax_eps := [(0%N, w_ep "E00" [] 2)] |});
   (1%N, {| ax_name := "A01"; ax_attrs := []; ax_bbs := []; ax_eps := [(0%N, w_ep "E00" [] 1)] |});
   (2%N, {| ax_name := "A02"; ax_attrs := []; ax_bbs := []; ax_eps := [(0%N, w_ep "E00" [] 0); (1%N, w_ep "E01" [] 1)] |});
   (3%N, {| ax_name := "Project"; ax_attrs := []; ax_bbs := appbb; ax_eps := [(0%N, w_ep "E00" e0bb 1); (1%N, w_ep "E01" [] 2)] |})].
Definition w_opts (epfmt:string) : opts :=
  {| o_output := "%(epname).puml"; o_title := ""; o_epfmt := epfmt; o_appfmt := "%(appname)"; o_endpoints := []; o_apps := ["Project"];
     o_bbflag := []; o_bblist := []; o_group := "" |}.
Definition n_arrows (r:ores (list diagram * list string)) : option (list nat) :=
  match r with OOk (ds, _) => Some (map (fun d => List.length (arrows (d_events d))) ds) | _ => None end.
Definition w_run (OV:ovariant) (appbb e0bb:list (option (list string))) (epfmt:string) :=
  do_construct rx_none false v_repaired OV w_module (w_texts appbb e0bb) (w_opts epfmt).
Definition ov_only (f:ovariant -> ovariant) := f ov_repaired.

(* a blackbox of the application with a one-character note: while MakeEndpointCollectionElement wrote "" into the
   shared Upto, the second diagram of the application lost it (7 arrows: everything below A01 <- E00 is drawn);
   repaired: cut in both diagrams (3 and 5 arrows) *)
Theorem one_char_note_refuted_before_repair :
  n_arrows (w_run {| ov_fmt_checked := true; ov_bbattr_guarded := true; ov_onechar_in_heap := true; ov_ep_layered := true; ov_ep_empty_reported := false |}
                  [Some ["A01 <- E00"; "x"]] [] "%(epname)") = Some [3; 7]%nat
  /\ n_arrows (w_run ov_repaired [Some ["A01 <- E00"; "x"]] [] "%(epname)") = Some [3; 5]%nat
  /\ n_arrows (w_run ov_repaired [] [] "%(epname)") = Some [4; 7]%nat.
Proof. repeat split; vm_compute; reflexivity. Qed.

(* a blackbox of the application whose key an endpoint uses too: deleted from the shared map after that endpoint's
   diagram, so the next diagram lost it; repaired: the endpoint's map is its own *)
Theorem shared_key_refuted_before_repair :
  n_arrows (w_run {| ov_fmt_checked := true; ov_bbattr_guarded := true; ov_onechar_in_heap := false; ov_ep_layered := false; ov_ep_empty_reported := false |}
                  [Some ["A01 <- E00"; "note"]] [Some ["A01 <- E00"; "mine"]] "%(epname)") = Some [3; 7]%nat
  /\ n_arrows (w_run ov_repaired [Some ["A01 <- E00"; "note"]] [Some ["A01 <- E00"; "mine"]] "%(epname)") = Some [3; 5]%nat.
Proof. repeat split; vm_compute; reflexivity. Qed.

(* a malformed format string: a panic in the middle of generation before, an error up front now *)
Theorem format_panic_refuted_before_repair :
  w_run ov_before [] [] "%(epname" = OPanic /\ w_run ov_repaired [] [] "%(epname" = OErr.
Proof. split; vm_compute; reflexivity. Qed.

(* what the code does with an endpoint's blackbox that has an empty note (a description, not a requirement): it is not in
   force - the diagrams are those of the run without it - and no report mentions it *)
Theorem empty_note_is_silently_not_in_force :
  n_arrows (w_run ov_repaired [] [Some ["A01 <- E00"; ""]] "%(epname)") = n_arrows (w_run ov_repaired [] [] "%(epname)")
  /\ (match w_run ov_repaired [] [Some ["A01 <- E00"; ""]] "%(epname)" with OOk (_, w) => w | _ => ["?"] end) = [].
Proof. split; vm_compute; reflexivity. Qed.
