(* C15 MODEL (definitions only): the Mermaid data-model view of a whole module,
     pkg/mermaid/datamodeldiagram/datamodeldiagram.go  GenerateFullDataDiagram, generateFullDataDiagramHelper,
                                                       printProperties, printEnum, externalLinksContain
     pkg/syslwrapper/app.go                            IndexTypes, ConvertTypes, MapType, GetRefDetails, convertTableRef
     pkg/mermaid/utils.go                              CleanString, SortedKeys
   transliterated statement by statement.

   Strings are lists of '.'-free chunks as in DmModel.v (`a + "." + b` is list append, "" is [eps]).  CleanString works
   character by character (after MustUnescape; the compiled names hold no '%'), so it commutes with `+ "." +`: the
   harness hands in its effect on every chunk as a table (`clean`), the model maps it over the chunks.  Go map iteration
   followed by mermaid.SortedKeys is replaced by the harness presenting types and properties in sort.Strings order.
   convertPrimitive(t.String()) - the lower-case name of the primitive cut out of the proto text - is taken to be
   strings.ToLower(t.GetPrimitive().String()); the harness computes that itself, a different text shows as a mismatch.
   Not modelled: tuples with a json_map_key attribute (printMap; not generated), GenerateDataDiagramWithAppAndType. *)
From Coq Require Import List PeanoNat PArith ZArith Bool.
Import ListNotations.
Require Import Verif.DataModel.DmModel.

(* ---------- input: what MapType reads of a field's *sysl.Type ---------- *)
Record mref := {
  mr_ctx : option str;      (* Some (GetAppName Context.Appname) iff TypeRef.Context != nil *)
  mr_ctx0 : option str;     (* Some Context.Appname.Part[0] iff that list is not empty *)
  mr_app : option str;      (* Some (GetAppName ref.Appname) iff ref.Appname != nil *)
  mr_path : list str        (* ref.Path; [] iff nil *)
}.
Inductive melem := MEPrim (p:nat) | MERef (r:mref) | MENil.     (* element of a collection; MENil: no element type *)
Inductive mfty :=
| MFPrim (p:nat) | MFRef (r:mref)
| MFSet (e:melem) | MFSeq (e:melem) | MFList (e:melem)
| MFOther.                                (* notype, tuple, map, one_of, enum, no type at all: no case of printProperties *)
Definition mfields := list (positive * mfty).
Inductive mdef :=
| MDTuple (fs:mfields) | MDRel (fs:mfields)
| MDEnum (items:list (positive * Z))      (* name, value; in sort.Strings order of the names *)
| MDOther.                                (* primitive / reference / collection alias, union, Type == nil: an empty class *)
Record mentity := { me_app : str; me_name : str; me_def : mdef }.     (* me_app: the key of Module.Apps *)
Definition me_key (e:mentity) : str := me_app e ++ me_name e.         (* IndexTypes: appName + "." + typeName *)

(* ---------- output ---------- *)
Inductive mlab := MLP (p:nat) | MLR (r:str).
Inductive mitem :=
| MClass (n:str)                          (*  class <n> {          *)
| MProp (coll:bool) (l:mlab) (f:positive) (*   <type> <field>   /   List<type> <field> *)
| MItem (f:positive) (v:Z)                (*   <enumerator> <value> *)
| MEnd                                    (*  }                    *)
| MLink (a b:str).                        (*  <a> <-- <b>          *)

(* ---------- CleanString ---------- *)
Fixpoint clean_atom (tbl:list (atom * atom)) (a:atom) : atom :=
  match tbl with
  | [] => a
  | (x, y) :: t => if Pos.eqb a x then y else clean_atom t a
  end.
Definition clean (tbl:list (atom * atom)) (s:str) : str := map (clean_atom tbl) s.

(* ---------- syslwrapper.MapType on a field ---------- *)
(* the primitives printProperties has a case for: any (since fix C15-10) bool int float string bytes string_8 date
   datetime xml decimal uuid - every primitive but EMPTY (1) *)
Definition printable (p:nat) : bool := Nat.leb 2 p && Nat.leb p 13.

(* GetRefDetails: (appName, typeName) *)
Definition ref_details (r:mref) : str * str :=
  match mr_path r with
  | [] => (empty_str, match mr_app r with Some a => a | None => empty_str end)
  | [p] => (match mr_app r with
            | Some a => a
            | None => match mr_ctx r with Some c => c | None => empty_str end
            end, p)
  | p0 :: p1 :: _ => (p0, p1)             (* appName = ref.Path[0]; typeName = ref.Path[1] *)
  end.
Definition reference (r:mref) : str := let '(a, t) := ref_details r in a ++ t.

(* convertTableRef: Context.Appname.Part[0] + "." + Path[0]; None = index out of range *)
Definition table_reference (r:mref) : option str :=
  match mr_ctx0 r, mr_path r with
  | Some a, p0 :: _ => Some (a ++ p0)
  | _, _ => None
  end.

(* the simplified property: what printProperties switches on *)
Inductive sprop :=
| SPrim (p:nat)                           (* Type = the primitive's name *)
| SRef (r:str)                            (* Type = "ref", Reference = r *)
| SColl (item:option sprop)               (* Type = "list" / "set", Items = [item]; None = a nil item *)
| SOther.
Definition map_elem (e:melem) : option sprop :=
  match e with MEPrim p => Some (SPrim p) | MERef r => Some (SRef (reference r)) | MENil => None end.
(* MapType(v) of a tuple's field; of a table's column when it is no reference *)
Definition map_field (t:mfty) : sprop :=
  match t with
  | MFPrim p => SPrim p
  | MFRef r => SRef (reference r)
  | MFSet e | MFSeq e | MFList e => SColl (map_elem e)
  | MFOther => SOther
  end.
(* the Type_Relation_ case of MapType *)
Definition map_column (t:mfty) : outcome sprop :=
  match t with
  | MFRef r => match table_reference r with Some k => Ok (SRef k) | None => Panic 1 end
  | _ => Ok (map_field t)
  end.

(* ---------- printProperties ---------- *)
Definition link := (str * str)%type.
Definition link_eqb (a b:link) : bool := str_eqb (fst a) (fst b) && str_eqb (snd a) (snd b).
(* if not externalLinksContain(externalLinks, pair) then externalLinks = append(externalLinks, pair) *)
Definition add_link (ls:list link) (p:link) : list link := if existsb (link_eqb p) ls then ls else ls ++ [p].

Definition print_prop (tbl:list (atom * atom)) (owner:str) (ls:list link) (f:positive) (s:sprop)
  : outcome (list link * list mitem) :=
  match s with
  | SPrim p => Ok (ls, if printable p then [MProp false (MLP p) f] else [])
  | SRef r => Ok (add_link ls (owner, r), [MProp false (MLR (clean tbl r)) f])
  | SColl None => Panic 2                                        (* value.Items[0].Type on a nil item *)
  | SColl (Some (SRef r)) => Ok (add_link ls (owner, r), [MProp true (MLR (clean tbl r)) f])
  | SColl (Some (SPrim p)) => Ok (ls, [MProp true (MLP p) f])    (* List<%s> of Items[0].Type: any primitive name *)
  | SColl (Some _) => Ok (ls, [])                                (* nested collections: not produced *)
  | SOther => Ok (ls, [])
  end.

Fixpoint print_props (tbl:list (atom * atom)) (owner:str) (ls:list link) (ps:list (positive * sprop))
  : outcome (list link * list mitem) :=
  match ps with
  | [] => Ok (ls, [])
  | (f, s) :: ps' =>
      match print_prop tbl owner ls f s with
      | Panic n => Panic n
      | Ok (ls1, o1) =>
          match print_props tbl owner ls1 ps' with
          | Panic n => Panic n
          | Ok (ls2, o2) => Ok (ls2, o1 ++ o2)
          end
      end
  end.

(* ---------- MapType of a type definition: its properties / enum map ---------- *)
Fixpoint map_columns (fs:mfields) : outcome (list (positive * sprop)) :=
  match fs with
  | [] => Ok []
  | (f, t) :: fs' =>
      match map_column t, map_columns fs' with
      | Ok s, Ok r => Ok ((f, s) :: r)
      | Panic n, _ => Panic n
      | _, Panic n => Panic n
      end
  end.

(* enum[index] = str unless a name that is smaller already stands there: the first name in name order per value
   (items come in name order); printEnum: the values ascending *)
Fixpoint enum_first (items:list (positive * Z)) (acc:list (Z * positive)) : list (Z * positive) :=
  match items with
  | [] => acc
  | (n, v) :: r => enum_first r (if existsb (fun x => Z.eqb (fst x) v) acc then acc else acc ++ [(v, n)])
  end.
Fixpoint insert_val (x:Z * positive) (l:list (Z * positive)) : list (Z * positive) :=
  match l with [] => [x] | y :: l' => if Z.leb (fst x) (fst y) then x :: l else y :: insert_val x l' end.
Definition sort_vals (l:list (Z * positive)) : list (Z * positive) := fold_right insert_val [] l.
Definition print_enum (items:list (positive * Z)) : list mitem :=
  map (fun x => MItem (snd x) (fst x)) (sort_vals (enum_first items [])).

(* ---------- ConvertTypes + generateFullDataDiagramHelper ---------- *)
(* ConvertTypes converts EVERY type before anything is printed: a panic in any MapType ends the command *)
Definition converted (e:mentity) : outcome (list (positive * sprop)) :=
  match me_def e with
  | MDTuple fs => Ok (map (fun ft => (fst ft, map_field (snd ft))) fs)
  | MDRel fs => map_columns fs
  | _ => Ok []
  end.

Fixpoint convert_all (es:list mentity) : outcome (list (mentity * list (positive * sprop))) :=
  match es with
  | [] => Ok []
  | e :: es' =>
      match converted e, convert_all es' with
      | Ok ps, Ok r => Ok ((e, ps) :: r)
      | Panic n, _ => Panic n
      | _, Panic n => Panic n
      end
  end.

Definition print_body (tbl:list (atom * atom)) (ls:list link) (e:mentity) (ps:list (positive * sprop))
  : outcome (list link * list mitem) :=
  match me_def e with
  | MDTuple _ | MDRel _ => print_props tbl (me_key e) ls ps
  | MDEnum items => Ok (ls, print_enum items)
  | MDOther => Ok (ls, [])
  end.

Fixpoint print_classes (tbl:list (atom * atom)) (ls:list link) (cs:list (mentity * list (positive * sprop)))
  : outcome (list link * list mitem) :=
  match cs with
  | [] => Ok (ls, [])
  | (e, ps) :: cs' =>
      match print_body tbl ls e ps with
      | Panic n => Panic n
      | Ok (ls1, o1) =>
          match print_classes tbl ls1 cs' with
          | Panic n => Panic n
          | Ok (ls2, o2) => Ok (ls2, MClass (clean tbl (me_key e)) :: o1 ++ [MEnd] ++ o2)
          end
      end
  end.

(* GenerateFullDataDiagram; es = every type of every application in sort.Strings order of appName.typeName *)
Definition mermaid_full (tbl:list (atom * atom)) (es:list mentity) : outcome (list mitem) :=
  match convert_all es with
  | Panic n => Panic n
  | Ok cs =>
      match print_classes tbl [] cs with
      | Panic n => Panic n
      | Ok (ls, o) => Ok (o ++ map (fun l => MLink (clean tbl (fst l)) (clean tbl (snd l))) ls)
      end
  end.
