(* Vocabulary of the table Gen/DmShape.v, which the translator translate/dmshape.go regenerates from
   pkg/datamodeldiagram/datamodelview.go on every run. *)
From Coq Require Import List.
Import ListNotations.

(* how a Draw* function builds the argument of UniqueVarForAppName for the class it declares *)
Inductive keyform :=
| FullSplit        (* strings.Split(<entity name>, ".")...            : the whole App.Type name *)
| LastToken        (* tokens[len(tokens)-1] of that split             : the last '.'-chunk only *)
| UnknownKey.

(* how DrawRelation builds the alias of the table a foreign-key field points to *)
Inductive targetform :=
| TargetAppTable   (* UniqueVarForAppName(<app>, JoinTypePath(path[:len(path)-1])) : every element but the column (fix C15-7) *)
| TargetAppPath    (* UniqueVarForAppName(<app>, ref.Path[0]) *)
| TargetPathOnly   (* UniqueVarForAppName(ref.Path[0]) *)
| UnknownTarget.

(* the Count field written into the relationship map *)
Inductive countop :=
| CountConst (n:nat)      (* Count: n *)
| CountInc (n:nat)        (* Count: <old>.Count + n *)
| CountKeep               (* Count: <old>.Count *)
| UnknownCount.

(* the branches of the if/else-if chain in GenerateDataView, in source order *)
Inductive dkind := KRelation | KTuple | KPrimitive | KEnum | KUnknown.

(* the test by which GenerateDataView keeps an entity in a per-application view (dataParam.Epname) *)
Inductive viewtest :=
| ViewAppsMember   (* !viewApps[entityApps[entityName]] -> continue : the entity's own application is one of the view's (fixes C15-3, C15-9) *)
| ViewAppEq        (* strings.Split(entityName, ".")[0] != appName  -> continue : equality of the application part *)
| UnknownView.     (* anything else (a prefix test, a different operand, ...) *)

(* the application DrawRelation takes for a foreign key written without one *)
Inductive relapp :=
| RelAppParam      (* entityApp := viewParam.EntityApp : the application the table belongs to (fix C15-4) *)
| RelAppFirstToken (* entityApp := entityTokens[0]     : the first '.'-chunk of App.Type *)
| UnknownRelApp.

Record shape := {
  sh_rel_key : keyform; sh_prim_key : keyform; sh_tuple_key : keyform; sh_enum_key : keyform;
  sh_rel_target : targetform;
  sh_rel_app : relapp;
  sh_rel_guards_short_path : bool;  (* DrawRelation tests len(ref.Path) < 2 before indexing Path[0] / Path[1] *)
  sh_rel_checks_target : bool;      (* DrawRelation skips the relationship when viewParam.Types has no such table *)
  sh_rel_count_new : countop; sh_rel_count_again : countop;
  sh_tuple_count_new : countop; sh_tuple_count_again : countop;
  sh_dispatch : list dkind;
  sh_view : viewtest
}.
