(* C15 PROOFS about DmModel.draw_with for the shape of the current source (DmCurrent.fixed_shape).

   draw_blocks   : the class section of the diagram is, for every covered type in order, exactly its class
                   header, one line per typed field, and the closing brace (classes + fields, nothing else)
   alias_distinct: two declared classes with different alias keys have different aliases; tables, tuples and
                   enums have their full name as key (refuted for primitive aliases: last token only)
   edges_count   : for every pair of aliases the number of relationship lines equals the number of fields
                   whose reference the code resolves to that pair; with one-element reference paths that
                   resolution is the plain one (refuted for nested names) *)
From Coq Require Import List PeanoNat PArith Bool Lia.
Import ListNotations.
Require Import Verif.DataModel.DmShapeTypes Verif.DataModel.DmModel Verif.DataModel.DmCurrent.

(* ------------------------------------------------------------------ strings, symbol table *)
Lemma str_eqb_eq : forall a b, str_eqb a b = true <-> a = b.
Proof.
  induction a as [|x a IH]; destruct b as [|y b]; cbn [str_eqb]; try (split; [discriminate|discriminate]).
  - split; reflexivity.
  - rewrite andb_true_iff, Pos.eqb_eq, IH. split; [intros [-> ->]; reflexivity|intros [= -> ->]; split; reflexivity].
Qed.

Lemma str_eqb_refl : forall a, str_eqb a a = true.
Proof. intro a. apply str_eqb_eq. reflexivity. Qed.

Lemma str_eqb_neq : forall a b, a <> b -> str_eqb a b = false.
Proof. intros a b H. destruct (str_eqb a b) eqn:E; [apply str_eqb_eq in E; contradiction|reflexivity]. Qed.

Definition idx (sy:list str) (k:str) : nat := match index_of k sy with Some i => i | None => length sy end.

Lemma index_of_some : forall k l i, index_of k l = Some i -> nth_error l i = Some k.
Proof.
  induction l as [|x l IH]; cbn [index_of]; intros i H; [discriminate|].
  destruct (str_eqb k x) eqn:E.
  - injection H as <-. apply str_eqb_eq in E. subst. reflexivity.
  - destruct (index_of k l) as [j|]; [|discriminate]. injection H as <-. cbn. apply IH. reflexivity.
Qed.

Lemma index_of_none : forall k l, index_of k l = None -> ~ In k l.
Proof.
  induction l as [|x l IH]; cbn [index_of]; intros H; [intros []|].
  destruct (str_eqb k x) eqn:E; [discriminate|].
  destruct (index_of k l); [discriminate|].
  intros [->|Hin]; [rewrite str_eqb_refl in E; discriminate|apply IH; auto].
Qed.

Lemma index_of_in : forall k l, In k l -> exists i, index_of k l = Some i.
Proof.
  intros k l H. destruct (index_of k l) as [i|] eqn:E; [eauto|]. apply index_of_none in E. contradiction.
Qed.

Lemma index_of_app_in : forall k l e, In k l -> index_of k (l ++ e) = index_of k l.
Proof.
  induction l as [|x l IH]; intros e H; [destruct H|]. cbn [app index_of].
  destruct (str_eqb k x) eqn:E; [reflexivity|].
  destruct H as [->|H]; [rewrite str_eqb_refl in E; discriminate|]. rewrite IH; auto.
Qed.

Lemma index_of_app_notin : forall k l, ~ In k l -> index_of k (l ++ [k]) = Some (length l).
Proof.
  induction l as [|x l IH]; intros H; cbn [app index_of length].
  - rewrite str_eqb_refl. reflexivity.
  - rewrite str_eqb_neq by (intros ->; apply H; left; reflexivity).
    rewrite IH by (intros Hin; apply H; right; exact Hin). reflexivity.
Qed.

Lemma idx_app : forall sy e k, In k sy -> idx (sy ++ e) k = idx sy k.
Proof.
  intros sy e k H. unfold idx. rewrite index_of_app_in by assumption.
  destruct (index_of_in _ _ H) as [i ->]. reflexivity.
Qed.

Lemma idx_nth : forall sy k, In k sy -> nth_error sy (idx sy k) = Some k.
Proof. intros sy k H. unfold idx. destruct (index_of_in _ _ H) as [i E]. rewrite E. apply index_of_some. exact E. Qed.

Lemma idx_inj : forall sy k1 k2, In k1 sy -> In k2 sy -> idx sy k1 = idx sy k2 -> k1 = k2.
Proof.
  intros sy k1 k2 H1 H2 E. pose proof (idx_nth _ _ H1) as A. pose proof (idx_nth _ _ H2) as B.
  rewrite E in A. rewrite A in B. injection B as ->. reflexivity.
Qed.

Definition extends (sy sy':list str) : Prop := exists e, sy' = sy ++ e.
Lemma extends_refl : forall sy, extends sy sy.
Proof. intro. exists []. rewrite app_nil_r. reflexivity. Qed.
Lemma extends_trans : forall a b c, extends a b -> extends b c -> extends a c.
Proof. intros a b c [e ->] [f ->]. exists (e ++ f). rewrite app_assoc. reflexivity. Qed.
Lemma extends_in : forall a b k, extends a b -> In k a -> In k b.
Proof. intros a b k [e ->] H. apply in_or_app. left. exact H. Qed.
Lemma extends_idx : forall a b k, extends a b -> In k a -> idx b k = idx a k.
Proof. intros a b k [e ->] H. apply idx_app. exact H. Qed.

Lemma uvar_spec : forall sy parts sy' i, uvar sy parts = (sy', i) ->
  extends sy sy' /\ In (sym_key parts) sy' /\ i = idx sy' (sym_key parts).
Proof.
  intros sy parts sy' i. unfold uvar. destruct (index_of (sym_key parts) sy) as [j|] eqn:E; intros [= <- <-].
  - split; [apply extends_refl|]. split.
    + apply index_of_some in E. eapply nth_error_In. exact E.
    + unfold idx. rewrite E. reflexivity.
  - apply index_of_none in E. split; [exists [sym_key parts]; reflexivity|]. split.
    + apply in_or_app. right. left. reflexivity.
    + unfold idx. rewrite index_of_app_notin by exact E. reflexivity.
Qed.

(* ------------------------------------------------------------------ relationship map *)
Fixpoint cnt (r:relmap) (k:nat*nat) : nat :=
  match r with
  | [] => 0
  | (k', (_, _, n)) :: r' => (if pair_eqb k k' then n else 0) + cnt r' k
  end.

Lemma pair_eqb_eq : forall a b, pair_eqb a b = true <-> a = b.
Proof.
  intros [a1 a2] [b1 b2]. unfold pair_eqb. cbn [fst snd]. rewrite andb_true_iff, !Nat.eqb_eq.
  split; [intros [-> ->]; reflexivity|intros [= -> ->]; split; reflexivity].
Qed.

Lemma bump_cnt : forall r k c k',
  cnt (bump (CountConst 1) (CountInc 1) r k c) k' = cnt r k' + (if pair_eqb k k' then 1 else 0).
Proof.
  induction r as [|[k0 [[e0 c0] n0]] r IH]; intros k c k'; cbn [bump cnt apply_count].
  - destruct (pair_eqb k' k) eqn:E.
    + apply pair_eqb_eq in E. subst. replace (pair_eqb k k) with true by (symmetry; apply pair_eqb_eq; reflexivity). lia.
    + destruct (pair_eqb k k') eqn:E2; [apply pair_eqb_eq in E2; subst; rewrite (proj2 (pair_eqb_eq k' k') eq_refl) in E; discriminate|lia].
  - destruct (pair_eqb k k0) eqn:E; cbn [cnt].
    + apply pair_eqb_eq in E. subst k0. destruct (pair_eqb k' k) eqn:E2.
      * apply pair_eqb_eq in E2. subst. rewrite (proj2 (pair_eqb_eq k k) eq_refl). lia.
      * destruct (pair_eqb k k') eqn:E3; [apply pair_eqb_eq in E3; subst; rewrite (proj2 (pair_eqb_eq k' k') eq_refl) in E2; discriminate|lia].
    + rewrite IH. lia.
Qed.

Definition ent_ok (r:relmap) : Prop := forall k e c n, In (k, (e, c, n)) r -> e = snd k.

Lemma bump_ent_ok : forall cn ca r k c, ent_ok r -> ent_ok (bump cn ca r k c).
Proof.
  induction r as [|[k0 [[e0 c0] n0]] r IH]; intros k c H; cbn [bump].
  - intros k1 e1 c1 n1 [[= <- <- <- <-]|[]]. reflexivity.
  - destruct (pair_eqb k k0).
    + intros k1 e1 c1 n1 [[= <- <- <- <-]|Hin]; [eapply H; left; reflexivity|eapply H; right; exact Hin].
    + intros k1 e1 c1 n1 [[= <- <- <- <-]|Hin]; [eapply H; left; reflexivity|].
      eapply IH; [|exact Hin]. intros k2 e2 c2 n2 Hin2. eapply H. right. exact Hin2.
Qed.

(* number of relationship lines a -> b in a list of items *)
Definition is_edge (a b:nat) (i:item) : bool :=
  match i with IEdge f t _ _ => Nat.eqb f a && Nat.eqb t b | _ => false end.
Definition count_edges (o:list item) (a b:nat) : nat := length (filter (is_edge a b) o).

Lemma count_edges_app : forall o1 o2 a b, count_edges (o1 ++ o2) a b = count_edges o1 a b + count_edges o2 a b.
Proof. intros. unfold count_edges. rewrite filter_app, app_length. reflexivity. Qed.

Lemma count_edges_repeat : forall f t c ar n a b,
  count_edges (repeat (IEdge f t c ar) n) a b = if Nat.eqb f a && Nat.eqb t b then n else 0.
Proof.
  induction n as [|n IH]; intros a b; cbn [repeat].
  - destruct (Nat.eqb f a && Nat.eqb t b); reflexivity.
  - unfold count_edges in *. cbn [filter is_edge]. specialize (IH a b).
    destruct (Nat.eqb f a && Nat.eqb t b); cbn [length]; rewrite IH; reflexivity.
Qed.

Definition lines_cnt (ar:bool) (l:relmap) (a b:nat) : nat := count_edges (flat_map (edge_lines ar) l) a b.

Lemma lines_cnt_cons : forall ar x l a b,
  lines_cnt ar (x :: l) a b = count_edges (edge_lines ar x) a b + lines_cnt ar l a b.
Proof. intros. unfold lines_cnt. cbn [flat_map]. apply count_edges_app. Qed.

Lemma lines_cnt_insert : forall ar x l a b, lines_cnt ar (insert_rel x l) a b = lines_cnt ar (x :: l) a b.
Proof.
  induction l as [|y l IH]; intros a b; cbn [insert_rel]; [reflexivity|].
  destruct (key_leb (fst x) (fst y)); [reflexivity|].
  rewrite lines_cnt_cons, IH, !lines_cnt_cons. lia.
Qed.

Lemma lines_cnt_sort : forall ar l a b, lines_cnt ar (sort_rel l) a b = lines_cnt ar l a b.
Proof.
  induction l as [|x l IH]; intros a b; cbn [sort_rel]; [reflexivity|].
  rewrite lines_cnt_insert, !lines_cnt_cons, IH. reflexivity.
Qed.

Lemma lines_cnt_cnt : forall ar r a b, ent_ok r -> lines_cnt ar r a b = cnt r (a, b).
Proof.
  induction r as [|[k [[e c] n]] r IH]; intros a b H; [reflexivity|].
  rewrite lines_cnt_cons. cbn [cnt edge_lines]. destruct k as [f t].
  assert (e = t) as -> by (apply (H (f, t) e c n); left; reflexivity).
  rewrite count_edges_repeat. unfold pair_eqb. cbn [fst snd].
  rewrite (Nat.eqb_sym a f), (Nat.eqb_sym b t).
  rewrite IH by (intros k1 e1 c1 n1 Hin; eapply H; right; exact Hin). reflexivity.
Qed.

(* the relationship section prints, for every pair of aliases, exactly Count lines *)
Lemma relationship_lines : forall r ar a b, ent_ok r -> count_edges (draw_relationship r ar) a b = cnt r (a, b).
Proof. intros. unfold draw_relationship. change (lines_cnt ar (sort_rel r) a b = cnt r (a, b)). rewrite lines_cnt_sort. apply lines_cnt_cnt. assumption. Qed.

(* ------------------------------------------------------------------ one field *)
Notation sh0 := fixed_shape.

Definition step (s:st) (enc:nat) (c:card) (parts:option (list str)) : st :=
  match parts with
  | None => s
  | Some ps => let '(sy, tgt) := uvar (syms s) ps in
               {| syms := sy; rel := bump (CountConst 1) (CountInc 1) (rel s) (enc, tgt) c |}
  end.

(* what DrawRelation prints for a column, and the symbol it relates the table to (if any) *)
Definition lab (e:ety) : lname := let '(_, _, l, _) := get_names e in l.
Definition rel_line (f:positive * fty) : item :=
  IField (fst f) (match snd f with
                  | FRef r => match r_path r with
                              | _ :: _ :: _ => LFK (join (removelast (r_path r)) ++ last (r_path r) empty_str)
                              | short => LRefd (join (r_parts r ++ short))
                              end
                  | FPrim p => LPrim p
                  | FList e => LColl KList (lab e)
                  | FSet e => LColl KSet (lab e)
                  | FSeq e => LColl KSeq (lab e)
                  | FOther => LPrim 0
                  end).
(* the element type of a collection column *)
Definition coll_parts (tm:list entity) (e:ety) : option (list str) :=
  let '(app, path, _, isprim) := get_names e in
  if negb isprim && has_type tm (app ++ join path) then Some [app; join path] else None.
Definition rel_parts (tm:list entity) (eapp:str) (t:fty) : option (list str) :=
  match t with
  | FRef r => match r_path r with
              | _ :: _ :: _ =>
                  let tapp := match r_app r with Some a => a | None => eapp end in
                  let table := join (removelast (r_path r)) in
                  if has_type tm (tapp ++ table) then Some [tapp; table] else None
              | _ => None
              end
  | FList e | FSet e | FSeq e => coll_parts tm e
  | _ => None
  end.
(* the label a table's relationship lines to that symbol start with *)
Definition rel_card (t:fty) : card := match t with FList _ | FSet _ | FSeq _ => CMany | _ => CBlank end.

Lemma rel_coll_step : forall tm enc s n k e,
  draw_rel_coll tm enc s n k (get_names e) = (step s enc CMany (coll_parts tm e), [IField n (LColl k (lab e))]).
Proof.
  intros tm enc s n k e. unfold draw_rel_coll, coll_parts, lab, step, add_relationship.
  destruct (get_names e) as [[[app path] l] isprim].
  destruct (negb isprim && has_type tm (app ++ join path)); [|reflexivity].
  destruct (uvar (syms s) _) as [sy tgt]. reflexivity.
Qed.

Lemma rel_field_step : forall tm eapp enc s f s' o,
  draw_rel_field sh0 tm eapp enc s f = Ok (s', o) ->
  o = [rel_line f] /\ s' = step s enc (rel_card (snd f)) (rel_parts tm eapp (snd f)).
Proof.
  intros tm eapp enc s [n t] s' o. unfold draw_rel_field, rel_line, rel_parts, rel_card. cbn [fst snd].
  destruct t as [p|r|e|e|e|]; try (intros [= <- <-]; split; reflexivity);
    try (rewrite rel_coll_step; intros [= <- <-]; split; reflexivity).
  unfold step.
  destruct (r_path r) as [|p0 [|p1 rest]] eqn:Hp;
    try (cbn [sh_rel_guards_short_path fixed_shape]; intros [= <- <-]; split; reflexivity).
  cbn [sh_rel_target sh_rel_checks_target sh_rel_count_new sh_rel_count_again fixed_shape andb].
  destruct (has_type tm _) eqn:E; cbn [negb].
  - destruct (uvar (syms s) _) as [sy tgt]. intros [= <- <-]. split; reflexivity.
  - intros [= <- <-]. split; reflexivity.
Qed.

(* what DrawTuple prints for a field, and the symbol it relates the tuple to (if any) *)
Definition tuple_line (f:positive * fty) : list item :=
  match snd f with
  | FPrim p => [IField (fst f) (LPrim p)]
  | FList e => [IField (fst f) (LColl KList (lab e))]
  | FSet e => [IField (fst f) (LColl KSet (lab e))]
  | FSeq e => [IField (fst f) (LColl KSeq (lab e))]
  | FRef r => [IField (fst f) (LRefd (match lab (ERef r) with LN l => l | LP _ => empty_str end))]
  | FOther => []
  end.
Definition relate_parts (tm:list entity) (app:str) (path:list str) (isprim:bool) : option (list str) :=
  if isprim then None
  else let tn := join path in
       if negb (has_type tm (app ++ tn)) && (negb (is_empty_str app) || negb (has_type tm tn)) then None else Some [app; tn].
Definition tuple_parts (tm:list entity) (ign:list str) (t:fty) : option (list str) :=
  match t with
  | FPrim _ | FOther => None
  | FList e | FSet e => let '(app, path, _, isprim) := get_names e in relate_parts tm app path isprim
  | FSeq e => let '(app, path, _, isprim) := get_names e in
              if negb isprim && mem_str (join (app :: path)) ign then None else relate_parts tm app path isprim
  | FRef r => let '(app, path, _, isprim) := get_names (ERef r) in
              if mem_str (join path) ign then None else relate_parts tm app path isprim
  end.

Lemma tuple_relate_step : forall tm enc s n l app path isprim c s' o,
  tuple_relate sh0 tm enc s n l app path isprim c = Ok (s', o) ->
  o = [IField n l] /\ s' = step s enc c (relate_parts tm app path isprim).
Proof.
  intros tm enc s n l app path isprim c s' o. unfold tuple_relate, relate_parts, step.
  destruct isprim; [intros [= <- <-]; split; reflexivity|].
  destruct (negb (has_type tm (app ++ join path)) && (negb (is_empty_str app) || negb (has_type tm (join path)))).
  - intros [= <- <-]; split; reflexivity.
  - cbn [sh_tuple_count_new sh_tuple_count_again fixed_shape].
    destruct (uvar (syms s) _) as [sy tgt]. intros [= <- <-]; split; reflexivity.
Qed.

Lemma tuple_field_step : forall tm ign enc s f s' o,
  draw_tuple_field sh0 tm ign enc s f = Ok (s', o) ->
  o = tuple_line f /\ exists c, s' = step s enc c (tuple_parts tm ign (snd f)).
Proof.
  intros tm ign enc s [n t] s' o. unfold draw_tuple_field, tuple_line, tuple_parts, lab. cbn [fst snd].
  destruct t as [p|r|e|e|e|].
  - intros [= <- <-]. split; [reflexivity|exists COne; reflexivity].
  - destruct (get_names (ERef r)) as [[[app path] l] isprim].
    destruct (mem_str (join path) ign).
    + intros [= <- <-]. split; [reflexivity|exists COne; reflexivity].
    + intros H. apply tuple_relate_step in H. destruct H as [-> ->]. split; [reflexivity|exists COne; reflexivity].
  - destruct (get_names e) as [[[app path] l] isprim].
    intros H. apply tuple_relate_step in H. destruct H as [-> ->]. split; [reflexivity|exists CMany; reflexivity].
  - destruct (get_names e) as [[[app path] l] isprim].
    destruct (negb isprim && mem_str (join (app :: path)) ign).
    + intros [= <- <-]. split; [reflexivity|exists CMany; reflexivity].
    + intros H. apply tuple_relate_step in H. destruct H as [-> ->]. split; [reflexivity|exists CMany; reflexivity].
  - destruct (get_names e) as [[[app path] l] isprim].
    intros H. apply tuple_relate_step in H. destruct H as [-> ->]. split; [reflexivity|exists CMany; reflexivity].
  - intros [= <- <-]. split; [reflexivity|exists COne; reflexivity].
Qed.

(* ------------------------------------------------------------------ the invariant *)
Definition hits (sy:list str) (a b:nat) (p:str * str) : bool :=
  Nat.eqb (idx sy (fst p)) a && Nat.eqb (idx sy (snd p)) b.

Record inv (s:st) (P:list (str * str)) : Prop := {
  inv_in : forall p, In p P -> In (fst p) (syms s) /\ In (snd p) (syms s);
  inv_cnt : forall a b, cnt (rel s) (a, b) = length (filter (hits (syms s) a b) P);
  inv_ent : ent_ok (rel s)
}.

Lemma inv_init : inv init_st [].
Proof. split; [intros p []|reflexivity|intros k e c n []]. Qed.

Lemma hits_extends : forall sy sy' a b P, extends sy sy' ->
  (forall p, In p P -> In (fst p) sy /\ In (snd p) sy) ->
  filter (hits sy' a b) P = filter (hits sy a b) P.
Proof.
  intros sy sy' a b P He Hin. apply filter_ext_in. intros p Hp. unfold hits.
  destruct (Hin p Hp) as [H1 H2]. rewrite (extends_idx _ _ _ He H1), (extends_idx _ _ _ He H2). reflexivity.
Qed.

Lemma inv_extends : forall sy sy' r P, inv {| syms := sy; rel := r |} P -> extends sy sy' -> inv {| syms := sy'; rel := r |} P.
Proof.
  intros sy sy' r P [Hin Hc He] Hx. cbn [syms rel] in *. split; cbn [syms rel].
  - intros p Hp. destruct (Hin p Hp). split; eapply extends_in; eauto.
  - intros a b. rewrite Hc. rewrite (hits_extends sy sy' a b P Hx Hin). reflexivity.
  - exact He.
Qed.

Definition contrib (fk:str) (parts:option (list str)) : list (str * str) :=
  match parts with None => [] | Some ps => [(fk, sym_key ps)] end.

Lemma inv_step : forall s P fk enc c parts,
  inv s P -> In fk (syms s) -> enc = idx (syms s) fk ->
  extends (syms s) (syms (step s enc c parts)) /\ inv (step s enc c parts) (P ++ contrib fk parts).
Proof.
  intros s P fk enc c [ps|] Hinv Hfk Henc; unfold step, contrib.
  2:{ split; [apply extends_refl|rewrite app_nil_r; exact Hinv]. }
  destruct (uvar (syms s) ps) as [sy tgt] eqn:U. apply uvar_spec in U. destruct U as [Hx [Htk Htgt]].
  cbn [syms rel]. split; [exact Hx|]. destruct Hinv as [Hin Hc He]. split; cbn [syms rel].
  - intros p Hp. apply in_app_or in Hp. destruct Hp as [Hp|[<-|[]]].
    + destruct (Hin p Hp). split; eapply extends_in; eauto.
    + cbn [fst snd]. split; [eapply extends_in; eauto|exact Htk].
  - intros a b. rewrite bump_cnt, Hc, filter_app, app_length. rewrite (hits_extends _ _ a b P Hx Hin).
    f_equal. cbn [filter]. unfold hits at 1. cbn [fst snd].
    rewrite (extends_idx _ _ _ Hx Hfk), <- Henc, <- Htgt. unfold pair_eqb. cbn [fst snd].
    destruct (Nat.eqb enc a && Nat.eqb tgt b); reflexivity.
  - apply bump_ent_ok. exact He.
Qed.

(* ------------------------------------------------------------------ field loops *)
Lemma rel_fields_inv : forall tm eapp fk enc fs s P s' o,
  draw_rel_fields sh0 tm eapp enc s fs = Ok (s', o) ->
  inv s P -> In fk (syms s) -> enc = idx (syms s) fk ->
  o = map rel_line fs /\ extends (syms s) (syms s') /\
  inv s' (P ++ flat_map (fun f => contrib fk (rel_parts tm eapp (snd f))) fs).
Proof.
  intros tm eapp fk enc. induction fs as [|f fs IH]; intros s P s' o; cbn [draw_rel_fields].
  - intros [= <- <-] Hinv _ _. cbn [map flat_map]. rewrite app_nil_r. split; [reflexivity|]. split; [apply extends_refl|exact Hinv].
  - destruct (draw_rel_field sh0 tm eapp enc s f) as [[s1 o1]|] eqn:E1; [|discriminate].
    destruct (draw_rel_fields sh0 tm eapp enc s1 fs) as [[s2 o2]|] eqn:E2; [|discriminate].
    intros [= <- <-] Hinv Hfk Henc. apply rel_field_step in E1. destruct E1 as [-> ->].
    destruct (inv_step s P fk enc (rel_card (snd f)) (rel_parts tm eapp (snd f)) Hinv Hfk Henc) as [Hx Hinv1].
    specialize (IH _ _ _ _ E2 Hinv1 (extends_in _ _ _ Hx Hfk)).
    destruct IH as [-> [Hx2 Hinv2]]; [rewrite (extends_idx _ _ _ Hx Hfk); exact Henc|].
    cbn [map flat_map app]. split; [reflexivity|]. split; [eapply extends_trans; eauto|].
    rewrite app_assoc. exact Hinv2.
Qed.

Lemma tuple_fields_inv : forall tm ign fk enc fs s P s' o,
  draw_tuple_fields sh0 tm ign enc s fs = Ok (s', o) ->
  inv s P -> In fk (syms s) -> enc = idx (syms s) fk ->
  o = flat_map tuple_line fs /\ extends (syms s) (syms s') /\
  inv s' (P ++ flat_map (fun f => contrib fk (tuple_parts tm ign (snd f))) fs).
Proof.
  intros tm ign fk enc. induction fs as [|f fs IH]; intros s P s' o; cbn [draw_tuple_fields].
  - intros [= <- <-] Hinv _ _. cbn [flat_map]. rewrite app_nil_r. split; [reflexivity|]. split; [apply extends_refl|exact Hinv].
  - destruct (draw_tuple_field sh0 tm ign enc s f) as [[s1 o1]|] eqn:E1; [|discriminate].
    destruct (draw_tuple_fields sh0 tm ign enc s1 fs) as [[s2 o2]|] eqn:E2; [|discriminate].
    intros [= <- <-] Hinv Hfk Henc. apply tuple_field_step in E1. destruct E1 as [-> [c ->]].
    destruct (inv_step s P fk enc c (tuple_parts tm ign (snd f)) Hinv Hfk Henc) as [Hx Hinv1].
    specialize (IH _ _ _ _ E2 Hinv1 (extends_in _ _ _ Hx Hfk)).
    destruct IH as [-> [Hx2 Hinv2]]; [rewrite (extends_idx _ _ _ Hx Hfk); exact Henc|].
    cbn [flat_map]. split; [reflexivity|]. split; [eapply extends_trans; eauto|].
    rewrite app_assoc. exact Hinv2.
Qed.

(* ------------------------------------------------------------------ entities *)
(* the symbol under which a covered type's class is declared *)
Definition class_key (e:entity) : str :=
  match e_def e with
  | DPrim _ => sym_key [[last (e_key e) eps]]
  | _ => sym_key (split_args (e_key e))
  end.
Definition is_drawn (e:entity) : bool :=
  match e_def e with DRel _ | DTuple _ | DPrim _ | DEnum _ => true | _ => false end.
(* (class symbol, target symbol) of every relationship the code records for the type *)
Definition entity_contrib (tm:list entity) (ign:list str) (e:entity) : list (str * str) :=
  match e_def e with
  | DRel fs => flat_map (fun f => contrib (class_key e) (rel_parts tm (e_app e) (snd f))) fs
  | DTuple fs => flat_map (fun f => contrib (class_key e) (tuple_parts tm ign (snd f))) fs
  | _ => []
  end.
(* the lines of one covered type: header, one line per field, closing brace *)
Definition spec_block (sy:list str) (e:entity) : list item :=
  let a := idx sy (class_key e) in
  match e_def e with
  | DRel fs => IClass a (e_key e) HClass :: map rel_line fs ++ [IEnd]
  | DTuple fs => IClass a (e_key e) HClass :: flat_map tuple_line fs ++ [IEnd]
  | DPrim p => [IClass a (e_key e) (HPrim p); IEnd]
  | DEnum items => IClass a (e_key e) HEnum :: enum_lines items ++ [IEnd]
  | _ => []
  end.

Lemma spec_block_extends : forall sy sy' e, extends sy sy' ->
  (is_drawn e = true -> In (class_key e) sy) -> spec_block sy' e = spec_block sy e.
Proof.
  intros sy sy' e Hx Hin. unfold spec_block. unfold is_drawn in Hin.
  destruct (e_def e); try reflexivity; rewrite (extends_idx _ _ _ Hx (Hin eq_refl)); reflexivity.
Qed.

Lemma entity_inv : forall tm ign s isrel e P s' r' o,
  draw_entity sh0 tm ign s isrel e = Ok (s', r', o) -> inv s P ->
  extends (syms s) (syms s') /\ inv s' (P ++ entity_contrib tm ign e) /\
  o = spec_block (syms s') e /\ (is_drawn e = true -> In (class_key e) (syms s')).
Proof.
  intros tm ign [sy0 r0] isrel e P s' r' o. unfold draw_entity, entity_contrib, spec_block, class_key, is_drawn.
  destruct (e_def e) as [fs|fs|p|items| |] eqn:D; cbn [sh_dispatch fixed_shape find kind_matches].
  - (* table *)
    unfold draw_relation. cbn [sh_rel_key sh_rel_app fixed_shape enc_parts syms rel entity_app].
    destruct (uvar sy0 (split_args (e_key e))) as [sy enc] eqn:U. apply uvar_spec in U. destruct U as [Hx [Hk Henc]].
    destruct (draw_rel_fields sh0 tm (e_app e) enc {| syms := sy; rel := r0 |} fs) as [[s1 o1]|] eqn:E; [|discriminate].
    intros [= <- <- <-] Hinv.
    destruct (rel_fields_inv tm (e_app e) _ enc fs _ P _ _ E (inv_extends _ _ _ _ Hinv Hx) Hk Henc) as [-> [Hx2 Hinv2]].
    cbn [syms] in *. split; [eapply extends_trans; eauto|]. split; [exact Hinv2|]. split.
    + rewrite (extends_idx _ _ _ Hx2 Hk), <- Henc. reflexivity.
    + intros _. eapply extends_in; eauto.
  - (* tuple *)
    unfold draw_tuple. cbn [sh_tuple_key fixed_shape enc_parts syms rel].
    destruct (uvar sy0 (split_args (e_key e))) as [sy enc] eqn:U. apply uvar_spec in U. destruct U as [Hx [Hk Henc]].
    destruct (draw_tuple_fields sh0 tm ign enc {| syms := sy; rel := r0 |} fs) as [[s1 o1]|] eqn:E; [|discriminate].
    intros [= <- <- <-] Hinv.
    destruct (tuple_fields_inv tm ign _ enc fs _ P _ _ E (inv_extends _ _ _ _ Hinv Hx) Hk Henc) as [-> [Hx2 Hinv2]].
    cbn [syms] in *. split; [eapply extends_trans; eauto|]. split; [exact Hinv2|]. split.
    + rewrite (extends_idx _ _ _ Hx2 Hk), <- Henc. reflexivity.
    + intros _. eapply extends_in; eauto.
  - (* primitive alias *)
    unfold draw_primitive. cbn [sh_prim_key fixed_shape enc_parts syms rel].
    destruct (uvar sy0 [[last (e_key e) eps]]) as [sy enc] eqn:U. apply uvar_spec in U. destruct U as [Hx [Hk Henc]].
    intros [= <- <- <-] Hinv. cbn [syms]. split; [exact Hx|]. rewrite app_nil_r.
    split; [apply inv_extends with (sy := sy0); assumption|]. split; [rewrite <- Henc; reflexivity|intros _; exact Hk].
  - (* enum *)
    unfold draw_enum. cbn [sh_enum_key fixed_shape enc_parts syms rel].
    destruct (uvar sy0 (split_args (e_key e))) as [sy enc] eqn:U. apply uvar_spec in U. destruct U as [Hx [Hk Henc]].
    intros [= <- <- <-] Hinv. cbn [syms]. split; [exact Hx|]. rewrite app_nil_r.
    split; [apply inv_extends with (sy := sy0); assumption|]. split; [rewrite <- Henc; reflexivity|intros _; exact Hk].
  - intros [= <- <- <-] Hinv. rewrite app_nil_r. split; [apply extends_refl|]. split; [exact Hinv|]. split; [reflexivity|discriminate].
  - intros [= <- <- <-] Hinv. rewrite app_nil_r. split; [apply extends_refl|]. split; [exact Hinv|]. split; [reflexivity|discriminate].
Qed.

Notation in_view0 := (in_view ViewAppsMember).
(* the types the diagram covers, in order *)
Definition drawn (filt:option (list str)) (tm:list entity) : list entity := filter (in_view0 filt) tm.

Lemma entities_inv : forall filt tm ign es s isrel P s' r' o,
  draw_entities sh0 filt tm ign s isrel es = Ok (s', r', o) -> inv s P ->
  extends (syms s) (syms s') /\ inv s' (P ++ flat_map (entity_contrib tm ign) (drawn filt es)) /\
  o = flat_map (spec_block (syms s')) (drawn filt es) /\
  (forall e, In e (drawn filt es) -> is_drawn e = true -> In (class_key e) (syms s')).
Proof.
  intros filt tm ign. induction es as [|e es IH]; intros s isrel P s' r' o; cbn [draw_entities drawn filter].
  - intros [= <- <- <-] Hinv. cbn [flat_map]. rewrite app_nil_r. split; [apply extends_refl|]. split; [exact Hinv|]. split; [reflexivity|intros e []].
  - cbn [sh_view fixed_shape]. destruct (in_view0 filt e) eqn:V; cbn [negb].
    2:{ intros H Hinv. exact (IH _ _ _ _ _ _ H Hinv). }
    destruct (draw_entity sh0 tm ign s isrel e) as [[[s1 r1] o1]|] eqn:E1; [|discriminate].
    destruct (draw_entities sh0 filt tm ign s1 r1 es) as [[[s2 r2] o2]|] eqn:E2; [|discriminate].
    intros [= <- <- <-] Hinv.
    destruct (entity_inv _ _ _ _ _ _ _ _ _ E1 Hinv) as [Hx1 [Hinv1 [-> Hk1]]].
    destruct (IH _ _ _ _ _ _ E2 Hinv1) as [Hx2 [Hinv2 [-> Hk2]]].
    cbn [flat_map]. split; [eapply extends_trans; eauto|]. split; [rewrite app_assoc; exact Hinv2|]. split.
    + rewrite (spec_block_extends _ _ e Hx2 Hk1). reflexivity.
    + intros e' [<-|Hin] Hd; [eapply extends_in; eauto|apply Hk2; assumption].
Qed.

(* ------------------------------------------------------------------ the class section holds no relationship line *)
Lemma count_edges_none : forall o a b, Forall (fun i => match i with IEdge _ _ _ _ => False | _ => True end) o -> count_edges o a b = 0.
Proof.
  induction o as [|i o IH]; intros a b H; [reflexivity|]. inversion H as [|? ? Hi Ho]; subst.
  unfold count_edges in *. cbn [filter]. destruct i; try (apply IH; assumption). destruct Hi.
Qed.

Lemma spec_block_no_edge : forall sy e, Forall (fun i => match i with IEdge _ _ _ _ => False | _ => True end) (spec_block sy e).
Proof.
  intros sy e. unfold spec_block. destruct (e_def e) as [fs|fs|p|items| |]; repeat constructor.
  - apply Forall_app. split; [|repeat constructor]. apply Forall_forall. intros i Hi. apply in_map_iff in Hi. destruct Hi as [f [<- _]]. exact I.
  - apply Forall_app. split; [|repeat constructor]. apply Forall_forall. intros i Hi. apply in_flat_map in Hi. destruct Hi as [f [_ Hi]].
    unfold tuple_line in Hi. destruct (snd f); cbn in Hi; try destruct Hi as [<-|[]]; try exact I. destruct Hi.
  - apply Forall_app. split; [|repeat constructor]. apply Forall_forall. intros i Hi. unfold enum_lines in Hi.
    apply in_map_iff in Hi. destruct Hi as [v [<- _]]. exact I.
Qed.

Lemma blocks_no_edge : forall sy D a b, count_edges (flat_map (spec_block sy) D) a b = 0.
Proof.
  intros. apply count_edges_none. apply Forall_forall. intros i Hi. apply in_flat_map in Hi. destruct Hi as [e [_ Hi]].
  pose proof (spec_block_no_edge sy e) as F. rewrite Forall_forall in F. apply F. exact Hi.
Qed.

(* ------------------------------------------------------------------ main structure theorem *)
Theorem draw_structure : forall filt es o, draw_with sh0 filt es = Ok o ->
  exists sy r ar,
    let tm := type_map es in let D := drawn filt tm in let P := flat_map (entity_contrib tm (ignored es)) D in
    o = flat_map (spec_block sy) D ++ draw_relationship r ar /\
    (forall e, In e D -> is_drawn e = true -> In (class_key e) sy) /\
    (forall p, In p P -> In (fst p) sy /\ In (snd p) sy) /\
    (forall a b, count_edges o a b = length (filter (hits sy a b) P)).
Proof.
  intros filt es o. unfold draw_with.
  destruct (draw_entities sh0 filt (type_map es) (ignored es) init_st false (type_map es)) as [[[s ar] o1]|] eqn:E; [|discriminate].
  intros [= <-]. destruct (entities_inv _ _ _ _ _ _ _ _ _ _ E inv_init) as [_ [Hinv [-> Hk]]].
  exists (syms s), (rel s), ar. cbn zeta. cbn [app] in Hinv. destruct Hinv as [Hin Hc He].
  split; [reflexivity|]. split; [exact Hk|]. split; [exact Hin|].
  intros a b. rewrite count_edges_app, blocks_no_edge, relationship_lines by exact He. cbn [Nat.add]. apply Hc.
Qed.

(* ------------------------------------------------------------------ consequences *)
(* aliases: different symbols, different aliases *)
Lemma alias_distinct : forall sy k1 k2, In k1 sy -> In k2 sy -> k1 <> k2 -> idx sy k1 <> idx sy k2.
Proof. intros sy k1 k2 H1 H2 N E. apply N. eapply idx_inj; eauto. Qed.

Definition no_eps (k:str) : Prop := Forall (fun a => a <> eps) k.

Lemma sym_key_split : forall k, k <> [] -> no_eps k -> sym_key (split_args k) = k.
Proof.
  intros k Hne H. unfold sym_key, split_args.
  assert (F : filter (fun s => negb (is_empty_str s)) (map (fun a => [a]) k) = map (fun a => [a]) k).
  { induction H as [|a k Ha H IH]; [reflexivity|]. cbn [map filter]. unfold is_empty_str at 1, empty_str. cbn [str_eqb].
    destruct (Pos.eqb a eps) eqn:E; [apply Pos.eqb_eq in E; contradiction|]. cbn [andb negb]. f_equal.
    destruct k; [reflexivity|]. apply IH. discriminate. }
  rewrite F. unfold join. assert (C : concat (map (fun a => [a]) k) = k) by (clear; induction k; [reflexivity|cbn; f_equal; assumption]).
  rewrite C. destruct k; [contradiction|reflexivity].
Qed.

(* tables, tuples and enums are declared under their full App.Type name *)
Lemma class_key_full : forall e, (match e_def e with DPrim _ => False | _ => True end) -> e_key e <> [] -> no_eps (e_key e) -> class_key e = e_key e.
Proof.
  intros e Hd Hne H. unfold class_key. destruct (e_def e); try destruct Hd; apply sym_key_split; assumption.
Qed.
(* ... also when the name is the empty list of chunks (no Go string; kept so that no hypothesis is needed) *)
Lemma sym_key_split_inj : forall k1 k2, no_eps k1 -> no_eps k2 -> sym_key (split_args k1) = sym_key (split_args k2) -> k1 = k2.
Proof.
  intros k1 k2 H1 H2. destruct k1 as [|x1 k1]; destruct k2 as [|x2 k2]; [reflexivity| | |].
  - rewrite (sym_key_split (x2 :: k2)) by (assumption || discriminate). cbn. intros [= <- <-]. inversion H2; subst. contradiction.
  - rewrite (sym_key_split (x1 :: k1)) by (assumption || discriminate). cbn. intros [= -> ->]. inversion H1; subst. contradiction.
  - rewrite !sym_key_split by (assumption || discriminate). auto.
Qed.
Lemma class_key_inj : forall e1 e2, (match e_def e1 with DPrim _ => False | _ => True end) -> (match e_def e2 with DPrim _ => False | _ => True end) ->
  no_eps (e_key e1) -> no_eps (e_key e2) -> class_key e1 = class_key e2 -> e_key e1 = e_key e2.
Proof.
  intros e1 e2 D1 D2 N1 N2. unfold class_key. destruct (e_def e1); try destruct D1; destruct (e_def e2); try destruct D2; apply sym_key_split_inj; assumption.
Qed.

(* relationship lines between two symbols = recorded references between them *)
Lemma hits_keys : forall sy kx ky p, In kx sy -> In ky sy -> In (fst p) sy -> In (snd p) sy ->
  hits sy (idx sy kx) (idx sy ky) p = str_eqb (fst p) kx && str_eqb (snd p) ky.
Proof.
  intros sy kx ky p Hx Hy H1 H2. unfold hits.
  destruct (str_eqb (fst p) kx) eqn:E1.
  - apply str_eqb_eq in E1. rewrite E1, Nat.eqb_refl. cbn [andb].
    destruct (str_eqb (snd p) ky) eqn:E2.
    + apply str_eqb_eq in E2. rewrite E2. apply Nat.eqb_refl.
    + apply Nat.eqb_neq. apply alias_distinct; try assumption. intros EE. rewrite EE, str_eqb_refl in E2. discriminate.
  - cbn [andb]. replace (Nat.eqb (idx sy (fst p)) (idx sy kx)) with false; [reflexivity|].
    symmetry. apply Nat.eqb_neq. apply alias_distinct; try assumption. intros EE. rewrite EE, str_eqb_refl in E1. discriminate.
Qed.

Theorem edges_between_keys : forall filt es o, draw_with sh0 filt es = Ok o ->
  exists sy, let tm := type_map es in let D := drawn filt tm in let P := flat_map (entity_contrib tm (ignored es)) D in
    (forall e, In e D -> is_drawn e = true -> In (class_key e) sy) /\
    (forall p, In p P -> In (fst p) sy /\ In (snd p) sy) /\
    forall kx ky, In kx sy -> In ky sy ->
      count_edges o (idx sy kx) (idx sy ky) = length (filter (fun p => str_eqb (fst p) kx && str_eqb (snd p) ky) P).
Proof.
  intros filt es o H. destruct (draw_structure _ _ _ H) as [sy [r [ar [_ [Hk [Hin Hc]]]]]]. exists sy. cbn zeta in *.
  split; [exact Hk|]. split; [exact Hin|]. intros kx ky Hx Hy. rewrite Hc. f_equal. apply filter_ext_in.
  intros p Hp. destruct (Hin p Hp). apply hits_keys; assumption.
Qed.

(* ------------------------------------------------------------------ headline statements over `draw` (current source) *)
Lemma draw_is : draw = draw_with sh0.
Proof. unfold draw. rewrite shape_current. reflexivity. Qed.

(* classes + fields: the diagram is, for every covered type in order, its block, then relationship lines only *)
Theorem dm_blocks_exact : forall filt es o, draw filt es = Ok o ->
  exists sy r ar, o = flat_map (spec_block sy) (drawn filt (type_map es)) ++ draw_relationship r ar.
Proof.
  intros filt es o H. rewrite draw_is in H. destruct (draw_structure _ _ _ H) as [sy [r [ar [E _]]]]. exists sy, r, ar. exact E.
Qed.

(* classes: tables, tuples and enums with different App.Type names get different aliases *)
Theorem dm_classes_exact_partial : forall filt es o, draw filt es = Ok o ->
  exists sy r ar, o = flat_map (spec_block sy) (drawn filt (type_map es)) ++ draw_relationship r ar /\
    forall e1 e2, In e1 (drawn filt (type_map es)) -> In e2 (drawn filt (type_map es)) ->
      is_drawn e1 = true -> is_drawn e2 = true ->
      (match e_def e1 with DPrim _ => False | _ => True end) -> (match e_def e2 with DPrim _ => False | _ => True end) ->
      no_eps (e_key e1) -> no_eps (e_key e2) -> e_key e1 <> e_key e2 ->
      idx sy (class_key e1) <> idx sy (class_key e2).
Proof.
  intros filt es o H. rewrite draw_is in H. destruct (draw_structure _ _ _ H) as [sy [r [ar [E [Hk _]]]]]. exists sy, r, ar.
  split; [exact E|]. intros e1 e2 H1 H2 D1 D2 P1 P2 N1 N2 Hne.
  apply alias_distinct; [apply Hk; assumption|apply Hk; assumption|].
  intros EK. apply Hne. apply class_key_inj; assumption.
Qed.

Definition ex_prim_clash : list entity :=
  [ {| e_app := [2%positive]; e_name := [4%positive]; e_def := DPrim 4 |};
    {| e_app := [3%positive]; e_name := [4%positive]; e_def := DPrim 6 |} ].

(* ... but two primitive aliases with the same short name share one alias (DrawPrimitive: last token only) *)
Theorem dm_classes_exact_refuted : exists es o a n1 n2 h1 h2,
  draw None es = Ok o /\ In (IClass a n1 h1) o /\ In (IClass a n2 h2) o /\ n1 <> n2.
Proof.
  exists ex_prim_clash. eexists. exists 0, [2%positive; 4%positive], [3%positive; 4%positive], (HPrim 4), (HPrim 6).
  split; [vm_compute; reflexivity|]. split; [left; reflexivity|]. split; [right; right; left; reflexivity|discriminate].
Qed.

(* fields of tables, full (fixes C15-5, C15-7): the line of a column names its type - the primitive; the whole path
   Table.column of a foreign key (a nested table: Outer.Table.column); the application parts and the path of a
   reference that is no Table.column; Set / Sequence / List <element> for a collection column, the element named as
   DrawTuple names it.  `no_primitive` is printed only for a column without any of these types *)
Theorem dm_fields_exact : forall f,
  rel_line f = IField (fst f) (match snd f with
                               | FPrim p => LPrim p
                               | FRef r => if 2 <=? length (r_path r)
                                           then LFK (join (removelast (r_path r)) ++ last (r_path r) empty_str)
                                           else LRefd (join (r_parts r ++ r_path r))
                               | FList e => LColl KList (lab e)
                               | FSet e => LColl KSet (lab e)
                               | FSeq e => LColl KSeq (lab e)
                               | FOther => LPrim 0
                               end).
Proof.
  intros [n t]. unfold rel_line. cbn [fst snd]. destruct t as [p|r|e|e|e|]; try reflexivity.
  destruct (r_path r) as [|p0 [|p1 rest]]; reflexivity.
Qed.
(* ... and the label of a foreign key is the whole path when no element of it is empty *)
Lemma fk_label_whole_path : forall r, 2 <= length (r_path r) -> concat (removelast (r_path r)) <> [] ->
  join (removelast (r_path r)) ++ last (r_path r) empty_str = join (r_path r).
Proof.
  intros r H Hne. unfold join at 1. destruct (concat (removelast (r_path r))) as [|z l] eqn:E; [contradiction|].
  rewrite <- E. assert (G : forall (q:list str) d, q <> [] -> concat (removelast q) ++ last q d = concat q).
  { induction q as [|x q IH]; intros d Hq; [contradiction|]. destruct q as [|y q]; [cbn; rewrite app_nil_r; reflexivity|].
    change (removelast (x :: y :: q)) with (x :: removelast (y :: q)). change (last (x :: y :: q) d) with (last (y :: q) d).
    cbn [concat]. rewrite <- app_assoc, IH by discriminate. reflexivity. }
  assert (Hq : r_path r <> []) by (intros Q; rewrite Q in H; cbn in H; lia).
  pose proof (G (r_path r) empty_str Hq) as G1. rewrite G1. unfold join.
  destruct (concat (r_path r)) eqn:C; [|reflexivity].
  exfalso. apply app_eq_nil in G1. destruct G1 as [G1 _]. rewrite G1 in E. discriminate.
Qed.
Example fields_exact_example :
  rel_line (1%positive, FSet (EPrim 4)) = IField 1%positive (LColl KSet (LP 4)) /\
  rel_line (2%positive, FRef {| r_ctx := [2%positive]; r_app := None; r_parts := []; r_path := [[4%positive]; [5%positive]; [6%positive]] |})
    = IField 2%positive (LFK [4%positive; 5%positive; 6%positive]).
Proof. split; reflexivity. Qed.

(* tuple fields: the printed label names the field's type *)
Lemma ref_label_names_path : forall r, lab (ERef r) = LN (join (r_path r)) \/ exists a, lab (ERef r) = LN (a ++ join (r_path r)).
Proof.
  intro r. unfold lab, get_names. destruct (str_eqb _ (r_ctx r) || is_empty_str _); [left; reflexivity|right; eexists; reflexivity].
Qed.
Lemma prim_label : forall p, lab (EPrim p) = LP p.
Proof. reflexivity. Qed.

(* relationships: lines between two symbols = references the code resolves to that pair *)
Theorem dm_edges_exact_partial : forall filt es o, draw filt es = Ok o ->
  exists sy, let tm := type_map es in let D := drawn filt tm in let P := flat_map (entity_contrib tm (ignored es)) D in
    (forall e, In e D -> is_drawn e = true -> In (class_key e) sy) /\
    (forall p, In p P -> In (fst p) sy /\ In (snd p) sy) /\
    forall kx ky, In kx sy -> In ky sy ->
      count_edges o (idx sy kx) (idx sy ky) = length (filter (fun p => str_eqb (fst p) kx && str_eqb (snd p) ky) P).
Proof. intros filt es o H. rewrite draw_is in H. exact (edges_between_keys _ _ _ H). Qed.

(* every relationship line is backed by a recorded reference: the total is the number of recorded references *)
Lemma filter_hits_total : forall sy P, (forall p, In p P -> In (fst p) sy /\ In (snd p) sy) ->
  forall p, In p P -> hits sy (idx sy (fst p)) (idx sy (snd p)) p = true.
Proof. intros sy P H p Hp. unfold hits. rewrite !Nat.eqb_refl. reflexivity. Qed.

(* the code's resolution of a reference (fixes C15-6, C15-7): the application of the reference or of its context, then
   the WHOLE path - a path of several elements names a nested type *)
Lemma tuple_parts_whole_path : forall tm ign r,
  mem_str (join (r_path r)) ign = false ->
  is_empty_str (match r_app r with Some a => a | None => r_ctx r end) = false ->
  tuple_parts tm ign (FRef r) =
    let app := match r_app r with Some a => a | None => r_ctx r end in
    if has_type tm (app ++ join (r_path r)) then Some [app; join (r_path r)] else None.
Proof.
  intros tm ign r Hi Ha. unfold tuple_parts, get_names. rewrite Hi. unfold relate_parts.
  rewrite Ha. cbn [negb orb]. rewrite andb_true_r. destruct (has_type tm _); reflexivity.
Qed.
Lemma set_parts_whole_path : forall tm ign r,
  is_empty_str (match r_app r with Some a => a | None => r_ctx r end) = false ->
  tuple_parts tm ign (FSet (ERef r)) =
    let app := match r_app r with Some a => a | None => r_ctx r end in
    if has_type tm (app ++ join (r_path r)) then Some [app; join (r_path r)] else None.
Proof.
  intros tm ign r Ha. unfold tuple_parts, get_names. unfold relate_parts.
  rewrite Ha. cbn [negb orb]. rewrite andb_true_r. destruct (has_type tm _); reflexivity.
Qed.
Lemma sym_key_pair : forall a p0, a <> [] -> is_empty_str a = false -> is_empty_str p0 = false -> sym_key [a; p0] = a ++ p0.
Proof.
  intros a p0 Hne Ha Hp. unfold sym_key. cbn [filter]. rewrite Ha, Hp. cbn [negb].
  unfold join. cbn [concat]. rewrite app_nil_r. destruct a; [contradiction|reflexivity].
Qed.

Definition ex_nested : list entity :=
  [ {| e_app := [2%positive]; e_name := [4%positive];
       e_def := DTuple [(1%positive, FRef {| r_ctx := [2%positive]; r_app := None; r_parts := []; r_path := [[4%positive]; [5%positive]] |})] |};
    {| e_app := [2%positive]; e_name := [4%positive; 5%positive]; e_def := DTuple [] |} ].

(* (fix C15-7) a reference by a nested name (A.B inside application 2) to a type the diagram declares gets its line *)
Example ex_nested_draws : exists o,
  draw None ex_nested = Ok o /\ In (IClass 1 [2%positive; 4%positive; 5%positive] HClass) o /\ count_edges o 0 1 = 1.
Proof. eexists. split; [vm_compute; reflexivity|]. split; [right; right; right; left; reflexivity|reflexivity]. Qed.

Definition ex_prim_ref : list entity :=
  [ {| e_app := [2%positive]; e_name := [4%positive]; e_def := DPrim 4 |};
    {| e_app := [2%positive]; e_name := [5%positive];
       e_def := DTuple [(1%positive, FRef {| r_ctx := [2%positive]; r_app := None; r_parts := []; r_path := [[4%positive]] |})] |} ].

(* a reference to a primitive alias gets a line, but to an alias that declares no class *)
Theorem dm_edges_prim_alias_refuted : exists es o a b c ar,
  draw None es = Ok o /\ In (IEdge a b c ar) o /\ forall n h, ~ In (IClass b n h) o.
Proof.
  exists ex_prim_ref. eexists. exists 1, 2, COne, false.
  split; [vm_compute; reflexivity|]. split; [right; right; right; right; right; left; reflexivity|].
  intros n h Hin. cbn in Hin. repeat (destruct Hin as [Hin|Hin]; [discriminate|]). destruct Hin.
Qed.

(* non-vacuity: a module on which draw succeeds, with two references to one target counted twice *)
Definition ex_two_refs : list entity :=
  [ {| e_app := [2%positive]; e_name := [4%positive];
       e_def := DTuple [(1%positive, FRef {| r_ctx := [2%positive]; r_app := None; r_parts := []; r_path := [[5%positive]] |});
                        (2%positive, FSet (ERef {| r_ctx := [2%positive]; r_app := None; r_parts := []; r_path := [[5%positive]] |}))] |};
    {| e_app := [2%positive]; e_name := [5%positive]; e_def := DTuple [(1%positive, FPrim 4)] |};
    {| e_app := [3%positive]; e_name := [5%positive];
       e_def := DRel [(1%positive, FPrim 4);
                      (2%positive, FRef {| r_ctx := [3%positive]; r_app := None; r_parts := []; r_path := [[5%positive]; [6%positive]] |});
                      (3%positive, FRef {| r_ctx := [3%positive]; r_app := None; r_parts := []; r_path := [[5%positive]; [6%positive]] |})] |} ].
Example ex_two_refs_draws : exists o, draw None ex_two_refs = Ok o /\ count_edges o 0 1 = 2 /\ count_edges o 2 2 = 2.
Proof. eexists. split; [vm_compute; reflexivity|]. split; reflexivity. Qed.

(* ------------------------------------------------------------------ the per-application view *)
(* (fix C15-3) the filter keeps exactly the entities whose OWN application is one of the view's: the code looks the
   application up in entityApps, it no longer recovers it from the first '.'-chunk of the joined name *)
Lemma drawn_apps_exact : forall apps tm e, In e (drawn (Some apps) tm) <-> In e tm /\ In (e_app e) apps.
Proof.
  intros apps tm e. unfold drawn. rewrite filter_In. unfold in_view. rewrite existsb_exists. split; intros [Hin H]; (split; [exact Hin|]).
  - destruct H as [x [Hx Hq]]. apply str_eqb_eq in Hq. rewrite Hq. exact Hx.
  - exists (e_app e). split; [exact H|apply str_eqb_refl].
Qed.

Lemma relationship_only_edges : forall r ar i, In i (draw_relationship r ar) -> exists f t c, i = IEdge f t c ar.
Proof.
  intros r ar i H. unfold draw_relationship in H. apply in_flat_map in H. destruct H as [[[f t0] [[e c] n]] [_ H]].
  cbn [edge_lines] in H. apply repeat_spec in H. eauto.
Qed.

Lemma spec_block_class : forall sy e al n h, In (IClass al n h) (spec_block sy e) -> n = e_key e /\ is_drawn e = true.
Proof.
  intros sy e al n h. unfold spec_block, is_drawn. destruct (e_def e) as [fs|fs|p|items| |]; cbn [In].
  - intros [[= _ <- _]|H]; [split; reflexivity|]. apply in_app_or in H. destruct H as [H|[H|[]]]; [|discriminate].
    apply in_map_iff in H. destruct H as [f [H _]]. discriminate.
  - intros [[= _ <- _]|H]; [split; reflexivity|]. apply in_app_or in H. destruct H as [H|[H|[]]]; [|discriminate].
    apply in_flat_map in H. destruct H as [f [_ H]]. unfold tuple_line in H.
    destruct (snd f); cbn [In] in H; try destruct H as [H|[]]; try discriminate. destruct H.
  - intros [[= _ <- _]|[H|[]]]; [split; reflexivity|discriminate].
  - intros [[= _ <- _]|H]; [split; reflexivity|]. apply in_app_or in H. destruct H as [H|[H|[]]]; [|discriminate].
    unfold enum_lines in H. apply in_map_iff in H. destruct H as [v [H _]]. discriminate.
  - intros [].
  - intros [].
Qed.

Lemma spec_block_has_class : forall sy e, is_drawn e = true -> exists al h, In (IClass al (e_key e) h) (spec_block sy e).
Proof.
  intros sy e. unfold spec_block, is_drawn. destruct (e_def e); try discriminate; intros _; eexists; eexists; left; reflexivity.
Qed.

(* per-application view, FULL (fixes C15-3, C15-9; no hypothesis on the names): the classes of the view of the
   applications `apps` are exactly the tables, tuples, primitive aliases and enums OF THOSE APPLICATIONS - none of
   another application (however its name is spelled, with '.' or a common prefix), none missing *)
Theorem view_of_app_exact : forall apps es o, draw (Some apps) es = Ok o ->
  (forall al n h, In (IClass al n h) o ->
     exists e, In e (type_map es) /\ In (e_app e) apps /\ is_drawn e = true /\ n = e_key e) /\
  (forall e, In e (type_map es) -> In (e_app e) apps -> is_drawn e = true -> exists al h, In (IClass al (e_key e) h) o).
Proof.
  intros apps es o H. destruct (dm_blocks_exact _ _ _ H) as [sy [r [ar ->]]]. split.
  - intros al n h Hin. apply in_app_or in Hin. destruct Hin as [Hin|Hin].
    + apply in_flat_map in Hin. destruct Hin as [e [He Hb]]. apply drawn_apps_exact in He. destruct He as [He Ha].
      destruct (spec_block_class _ _ _ _ _ Hb) as [-> Hd]. exists e. repeat split; assumption.
    + apply relationship_only_edges in Hin. destruct Hin as [f [t [c Hin]]]. discriminate.
  - intros e He Ha Hd. destruct (spec_block_has_class sy e Hd) as [al [h Hin]]. exists al, h.
    apply in_or_app. left. apply in_flat_map. exists e. split; [apply drawn_apps_exact; split; assumption|exact Hin].
Qed.

(* the witnesses of the refutations of the first pass, now drawn as the property demands: an application whose name
   contains '.' (written App%2E2) has its own view, and the view of the application named like its first chunk does
   not declare its types *)
Definition ex_dotted_app : list entity :=
  [ {| e_app := [2%positive]; e_name := [4%positive]; e_def := DTuple [(1%positive, FPrim 4)] |};
    {| e_app := [2%positive; 3%positive]; e_name := [5%positive]; e_def := DTuple [(1%positive, FPrim 4)] |} ].
Example view_of_dotted_app_example :
  draw (Some [[2%positive; 3%positive]]) ex_dotted_app = Ok [IClass 0 [2%positive; 3%positive; 5%positive] HClass; IField 1%positive (LPrim 4); IEnd] /\
  draw (Some [[2%positive]]) ex_dotted_app = Ok [IClass 0 [2%positive; 4%positive] HClass; IField 1%positive (LPrim 4); IEnd].
Proof. split; vm_compute; reflexivity. Qed.

(* every field line of the view belongs to a block of that application: the whole class section is built from
   drawn (Some a), and relationship lines start at its classes only (dm_edges_exact_partial: P ranges over drawn) *)
Example view_prefix_names : exists o,
  draw (Some [[2%positive]])
       [ {| e_app := [2%positive]; e_name := [4%positive]; e_def := DTuple [(1%positive, FPrim 4)] |};
         {| e_app := [3%positive]; e_name := [4%positive]; e_def := DTuple [(1%positive, FPrim 4)] |} ] = Ok o /\
  o = [IClass 0 [2%positive; 4%positive] HClass; IField 1%positive (LPrim 4); IEnd].
Proof. eexists. split; [vm_compute; reflexivity|reflexivity]. Qed.

(* ------------------------------------------------------------------ enum items (DrawEnum, since cdeb394) *)
From Coq Require Import ZArith Permutation Sorted.

Lemma insert_item_perm : forall x l, Permutation (insert_item x l) (x :: l).
Proof.
  induction l as [|y l IH]; cbn [insert_item]; [reflexivity|].
  destruct (Z.leb (snd x) (snd y)); [reflexivity|]. rewrite IH. apply perm_swap.
Qed.
Lemma sort_items_perm : forall l, Permutation (sort_items l) l.
Proof. induction l as [|x l IH]; cbn [sort_items]; [reflexivity|]. rewrite insert_item_perm, IH. reflexivity. Qed.

(* enum items, full (repeated values included): every enumerator is listed exactly once - as a multiset the item
   lines are the enumerator names *)
Theorem enum_items_exact : forall items, Permutation (enum_lines items) (map (fun x => IItem (fst x)) items).
Proof. intro items. unfold enum_lines. apply Permutation_map. apply sort_items_perm. Qed.

Lemma enum_lines_length : forall items, length (enum_lines items) = length items.
Proof. intro items. rewrite (Permutation_length (enum_items_exact items)). apply map_length. Qed.

(* ... in the order of their values *)
Definition val_le (x y:positive * Z) : Prop := (snd x <= snd y)%Z.
Lemma insert_item_sorted : forall x l, Sorted val_le l -> Sorted val_le (insert_item x l).
Proof.
  induction l as [|y l IH]; intros H; cbn [insert_item]; [repeat constructor|].
  destruct (Z.leb (snd x) (snd y)) eqn:E.
  - constructor; [exact H|constructor; apply Z.leb_le; exact E].
  - apply Z.leb_gt in E. inversion H as [|? ? Hs Hh]; subst. constructor; [apply IH; exact Hs|].
    destruct l as [|z l]; cbn [insert_item]; [constructor; unfold val_le; lia|].
    destruct (Z.leb (snd x) (snd z)); constructor; [unfold val_le; lia|inversion Hh; assumption].
Qed.
Theorem enum_items_sorted : forall items, Sorted val_le (sort_items items).
Proof. induction items as [|x l IH]; cbn [sort_items]; [constructor|apply insert_item_sorted; exact IH]. Qed.

Example enum_items_example :
  enum_lines [(1%positive, 5%Z); (2%positive, 1%Z); (3%positive, 5%Z)] = [IItem 2%positive; IItem 1%positive; IItem 3%positive].
Proof. reflexivity. Qed.

(* ------------------------------------------------------------------ round 3 *)
(* (fix C15-4) a table of an application whose name contains '.': DrawRelation takes the table's own application for
   a local foreign key (before: the first chunk of the joined name, no such table, no line) *)
Definition ex_dotted_table : list entity :=
  [ {| e_app := [2%positive; 3%positive]; e_name := [4%positive];
       e_def := DRel [(1%positive, FPrim 4);
                      (2%positive, FRef {| r_ctx := [2%positive; 3%positive]; r_app := None; r_parts := []; r_path := [[4%positive]; [6%positive]] |})] |} ].
Example dm_edges_dotted_app_example : exists o,
  draw None ex_dotted_table = Ok o /\ In (IClass 0 [2%positive; 3%positive; 4%positive] HClass) o /\
  In (IField 2%positive (LFK [4%positive; 6%positive])) o /\ count_edges o 0 0 = 1.
Proof.
  eexists. split; [vm_compute; reflexivity|]. split; [left; reflexivity|]. split; [right; right; left; reflexivity|reflexivity].
Qed.
(* (fix C15-8) a collection column of a table is related to the type of its elements *)
Example table_collection_example : exists o,
  draw None [ {| e_app := [2%positive]; e_name := [4%positive];
                 e_def := DRel [(1%positive, FSeq (ERef {| r_ctx := [2%positive]; r_app := None; r_parts := []; r_path := [[5%positive]] |}))] |};
              {| e_app := [2%positive]; e_name := [5%positive]; e_def := DRel [(1%positive, FPrim 4)] |} ] = Ok o /\
  In (IField 1%positive (LColl KSeq (LN [5%positive]))) o /\ In (IEdge 0 1 CMany true) o /\ count_edges o 0 1 = 1.
Proof. eexists. split; [vm_compute; reflexivity|]. split; [right; left; reflexivity|]. split; [|reflexivity]. cbn. tauto. Qed.

(* cardinality labels: all lines from one class to one target carry the label of the FIRST field (in sort.Strings
   order of the field names) - a `set of B` field followed by a plain `B` field gives two lines "0..*" *)
Definition ex_card : list entity :=
  [ {| e_app := [2%positive]; e_name := [4%positive];
       e_def := DTuple [(1%positive, FSet (ERef {| r_ctx := [2%positive]; r_app := None; r_parts := []; r_path := [[5%positive]] |}));
                        (2%positive, FRef {| r_ctx := [2%positive]; r_app := None; r_parts := []; r_path := [[5%positive]] |})] |};
    {| e_app := [2%positive]; e_name := [5%positive]; e_def := DTuple [(1%positive, FPrim 4)] |} ].
Theorem dm_card_exact_refuted : exists o,
  draw None ex_card = Ok o /\ count_edges o 0 1 = 2 /\ In (IEdge 0 1 CMany false) o /\ ~ In (IEdge 0 1 COne false) o.
Proof.
  eexists. split; [vm_compute; reflexivity|]. split; [reflexivity|]. split.
  - cbn. tauto.
  - intros H. cbn in H. repeat (destruct H as [H|H]; [discriminate|]). destruct H.
Qed.
(* ... the foreign-key lines of a table carry the blank label, those of a collection column "0..*", those of a tuple
   field its own label - on first use *)
Lemma rel_step_card : forall tm eapp enc s f s' o, draw_rel_field sh0 tm eapp enc s f = Ok (s', o) ->
  s' = step s enc (rel_card (snd f)) (rel_parts tm eapp (snd f)).
Proof. intros tm eapp enc s f s' o H. apply rel_field_step in H. apply H. Qed.
