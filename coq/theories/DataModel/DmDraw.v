(* C15: the model of the CURRENT source - DmModel.draw_with applied to the shape table regenerated from
   datamodelview.go.  Kept apart from DmCurrent.v (the obligation shape_of_source = fixed_shape) so that the
   correspondence (Run.v) still evaluates - and names concrete differing diagrams - when that obligation breaks. *)
From Coq Require Import List.
Import ListNotations.
Require Import Verif.DataModel.DmShapeTypes Verif.DataModel.DmModel Verif.Gen.DmShape.

Definition draw := draw_with shape_of_source.
