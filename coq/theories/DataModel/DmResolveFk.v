(* C15: the iff-theorem for TABLE foreign keys (second pass of round 3; the first pass had it for tuple fields only).
   DrawRelation's resolution of a column reference Table.column (DmProps.rel_parts: the application of the reference or
   the table's own, then every path element but the last) equals the compiler's (DmResolve.resolve_fk) on EVERY module
   exactly when the reference has no application part, or the current application, or a namespaced one.  The context
   plays no part (DrawRelation never reads it): the in-place class of the tuple theorem does not exist here. *)
From Coq Require Import List PeanoNat PArith Bool Lia.
Import ListNotations.
Require Import Verif.DataModel.DmShapeTypes Verif.DataModel.DmModel Verif.DataModel.DmCurrent Verif.DataModel.DmProps
               Verif.DataModel.DmResolve.

Definition code_fk (es:list entity) (curr:str) (r:ref) : option str :=
  option_map sym_key (rel_parts (type_map es) curr (FRef r)).
Definition spec_fk (es:list entity) (curr:str) (r:ref) : option str :=
  match resolve_fk es curr r with
  | Some k => if has_type (type_map es) k then Some k else None
  | None => None
  end.

Definition wf_fk (curr:str) (r:ref) : Prop :=
  wf_ref curr r /\
  match r_parts r with
  | [a] => a <> curr -> a ++ join (removelast (r_path r)) <> curr ++ a
  | _ => True
  end.
Definition plain_fk (curr:str) (r:ref) : Prop :=
  match r_parts r with [a] => a = curr | _ => True end.

Lemma Forall_removelast : forall (P:str -> Prop) l, Forall P l -> Forall P (removelast l).
Proof.
  intros P. induction l as [|x l IH]; intros H; [constructor|]. inversion H as [|? ? Hx Hl]; subst.
  destruct l as [|y l]; [constructor|]. change (removelast (x :: y :: l)) with (x :: removelast (y :: l)).
  constructor; [exact Hx|apply IH; exact Hl].
Qed.
Lemma removelast_cons2 : forall (x y:str) l, removelast (x :: y :: l) = x :: removelast (y :: l).
Proof. reflexivity. Qed.

(* the table name of a path of at least two good elements is a good string *)
Lemma table_good : forall p0 p1 rest, Forall good_str (p0 :: p1 :: rest) ->
  join (removelast (p0 :: p1 :: rest)) = concat (removelast (p0 :: p1 :: rest)) /\ good_str (join (removelast (p0 :: p1 :: rest))).
Proof.
  intros p0 p1 rest H. apply join_good; [rewrite removelast_cons2; discriminate|apply Forall_removelast; exact H].
Qed.

Lemma code_fk_form : forall es curr r, wf_es es ->
  code_fk es curr r =
    match r_path r with
    | _ :: _ :: _ => let tapp := match r_app r with Some a => a | None => curr end in
                     let table := join (removelast (r_path r)) in
                     if has_type es (tapp ++ table) then Some (sym_key [tapp; table]) else None
    | _ => None
    end.
Proof.
  intros es curr r W. unfold code_fk, rel_parts. destruct (type_map_wf es W) as [-> _].
  destruct (r_path r) as [|p0 [|p1 rest]]; try reflexivity. cbn zeta.
  destruct (has_type es _); reflexivity.
Qed.

Theorem fk_resolution_agrees_plain : forall es curr r, wf_fk curr r -> plain_fk curr r -> wf_es es ->
  code_fk es curr r = spec_fk es curr r.
Proof.
  intros es curr r [Hwf _] Hpl W. rewrite (code_fk_form es curr r W). unfold spec_fk, resolve_fk.
  assert (F : fix_scope es curr r = r).
  { unfold fix_scope. unfold plain_fk in Hpl. destruct (r_parts r) as [|a [|b ps]]; try reflexivity.
    destruct (r_path r); [reflexivity|]. subst a. rewrite str_eqb_refl. reflexivity. }
  rewrite F. destruct (type_map_wf es W) as [-> _]. destruct Hwf as [Hcurr [_ [Hgood [_ Happ]]]].
  destruct (r_path r) as [|p0 [|p1 rest]] eqn:Hp; try reflexivity. cbn zeta.
  assert (EA : match r_app r with Some a => a | None => curr end = ref_app curr r /\ good_str (ref_app curr r)).
  { unfold ref_app. unfold plain_fk in Hpl. destruct (r_parts r) as [|a [|b ps]].
    - rewrite Happ. split; [reflexivity|exact Hcurr].
    - destruct Happ as [-> [Hg _]]. split; [reflexivity|exact Hg].
    - destruct Happ as [a' [-> Hg]]. split; [reflexivity|exact Hg]. }
  destruct EA as [-> Hg]. destruct (table_good p0 p1 rest Hgood) as [_ Gt].
  destruct (has_type es (ref_app curr r ++ join (removelast (p0 :: p1 :: rest)))); [|reflexivity].
  rewrite sym_key_pair; [reflexivity|apply Hg|apply is_empty_str_good; exact Hg|apply is_empty_str_good; exact Gt].
Qed.

(* an application part of one element that is not the current application: a module on which the two differ *)
Lemma fk_differs_one_part : forall curr r a, wf_fk curr r -> r_parts r = [a] -> a <> curr ->
  exists es, wf_es es /\ code_fk es curr r <> spec_fk es curr r.
Proof.
  intros curr r a [Hwf Hov3] Hparts Hne. pose proof Hwf as [[Hc _] [Hpne [Hgood [_ Happ]]]]. rewrite Hparts in Happ, Hov3.
  destruct Happ as [Ha [Hga Hov]]. destruct (Hov Hne) as [Hov1 _]. specialize (Hov3 Hne). pose proof Hga as [Hane _].
  assert (Lc : length curr > 0) by (destruct curr; [contradiction|cbn; lia]).
  destruct (r_path r) as [|p0 [|p1 rest]] eqn:Hp; [contradiction| |]; cbn [hd] in Hov1.
  - (* `a.p0` with a local table `a`: the compiler reads table a, column p0; DrawRelation sees a one-element path *)
    set (es := [tup curr a]). assert (W : wf_es es) by (apply wf_tup1; assumption).
    exists es. split; [exact W|]. rewrite (code_fk_form _ curr r W), Hp.
    assert (K1 : has_type es (a ++ p0) = false).
    { unfold es. rewrite has_type_one. apply str_eqb_neq. unfold tup, e_key. cbn [e_app e_name]. intros E. apply Hov1. symmetry. exact E. }
    assert (K2 : has_type es (curr ++ a) = true) by (apply (has_type_in es (tup curr a)); left; reflexivity).
    unfold spec_fk, resolve_fk, fix_scope. rewrite Hparts, Hp. rewrite (str_eqb_neq curr a) by (intros E; apply Hne; symmetry; exact E).
    rewrite !has_ent_has_type, K1, K2. cbn [r_app r_path ref_app removelast]. destruct (type_map_wf _ W) as [-> _].
    replace (join [a]) with a by (symmetry; apply join_single; exact Hane). rewrite K2. discriminate.
  - set (jt := join (removelast (p0 :: p1 :: rest))) in *.
    destruct (table_good p0 p1 rest Hgood) as [Jc Gt]. fold jt in Jc, Gt.
    set (es := [tup curr a; tup curr (a ++ jt)]).
    assert (W : wf_es es). { intros e [<-|[<-|[]]]; cbn; repeat split; try assumption; try discriminate. destruct a; [contradiction|discriminate]. }
    exists es. split; [exact W|]. rewrite (code_fk_form _ curr r W), Hp. cbn zeta. fold jt. rewrite Ha.
    assert (Lp : length jt >= length p0). { rewrite Jc. rewrite removelast_cons2. cbn [concat]. rewrite app_length. lia. }
    assert (K1 : has_type es (a ++ p0) = false).
    { destruct (has_type es (a ++ p0)) eqn:E; [|reflexivity]. apply has_type_length in E. destruct E as [e [[<-|[<-|[]]] Hk]]; unfold tup, e_key in Hk; cbn [e_app e_name] in Hk.
      - exfalso. apply Hov1. symmetry. exact Hk.
      - exfalso. apply (f_equal (@length atom)) in Hk. rewrite !app_length in Hk. lia. }
    assert (K1' : has_type es (a ++ jt) = false).
    { destruct (has_type es (a ++ jt)) eqn:E; [|reflexivity]. apply has_type_length in E. destruct E as [e [[<-|[<-|[]]] Hk]]; unfold tup, e_key in Hk; cbn [e_app e_name] in Hk.
      - exfalso. apply Hov3. symmetry. exact Hk.
      - exfalso. apply (f_equal (@length atom)) in Hk. rewrite !app_length in Hk. lia. }
    assert (K2 : has_type es (curr ++ a) = true) by (apply (has_type_in es (tup curr a)); left; reflexivity).
    assert (K3 : has_type es (curr ++ a ++ jt) = true) by (apply (has_type_in es (tup curr (a ++ jt))); right; left; reflexivity).
    rewrite K1'. unfold spec_fk, resolve_fk, fix_scope. rewrite Hparts, Hp. rewrite (str_eqb_neq curr a) by (intros E; apply Hne; symmetry; exact E).
    rewrite !has_ent_has_type, K1, K2. cbn [r_app r_path ref_app]. destruct (type_map_wf _ W) as [-> _].
    assert (J : join (removelast (a :: p0 :: p1 :: rest)) = a ++ jt).
    { change (removelast (a :: p0 :: p1 :: rest)) with (a :: removelast (p0 :: p1 :: rest)).
      destruct (join_good (a :: removelast (p0 :: p1 :: rest)) ltac:(discriminate)) as [J' _].
      - constructor; [exact Hga|apply Forall_removelast; exact Hgood].
      - rewrite J'. cbn [concat]. rewrite Jc. reflexivity. }
    rewrite J, K3. discriminate.
Qed.

Theorem fk_resolution_agrees_iff : forall curr r, wf_fk curr r ->
  ((forall es, wf_es es -> code_fk es curr r = spec_fk es curr r) <-> plain_fk curr r).
Proof.
  intros curr r Hwf. split.
  - intros H. unfold plain_fk. destruct (r_parts r) as [|a [|b ps]] eqn:Hparts; [exact I| |exact I].
    destruct (str_eqb a curr) eqn:E; [apply str_eqb_eq in E; exact E|].
    exfalso. destruct (fk_differs_one_part curr r a Hwf Hparts) as [es [W N]]; [intros EE; rewrite EE, str_eqb_refl in E; discriminate|].
    apply N. apply H. exact W.
  - intros Hpl es W. apply fk_resolution_agrees_plain; assumption.
Qed.

(* non-vacuity: a local key to a nested table, well-formed and plain, resolved to the declared table by both *)
Definition ex_fk : ref := {| r_ctx := [2%positive]; r_app := None; r_parts := []; r_path := [[5%positive]; [6%positive]; [7%positive]] |}.
Example ex_fk_ok : wf_fk [2%positive] ex_fk /\ plain_fk [2%positive] ex_fk /\
  code_fk [tup [2%positive] [5%positive; 6%positive]] [2%positive] ex_fk = Some [2%positive; 5%positive; 6%positive] /\
  spec_fk [tup [2%positive] [5%positive; 6%positive]] [2%positive] ex_fk = Some [2%positive; 5%positive; 6%positive].
Proof.
  split; [|split; [|split]]; try reflexivity.
  split; [|exact I]. unfold wf_ref, ex_fk. cbn. repeat split; try discriminate; repeat constructor; try discriminate.
Qed.
