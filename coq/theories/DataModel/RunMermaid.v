(* Correspondence glue for the Mermaid data-model view (C15, goal 3). *)
From Coq Require Import List PeanoNat PArith ZArith Bool.
Import ListNotations.
Require Import Verif.DataModel.DmModel Verif.DataModel.DmMermaid Verif.Base.Harness.

Definition mstr_eq_dec : forall a b:str, {a = b} + {a <> b} := list_eq_dec Pos.eq_dec.
Definition mlab_eq_dec : forall a b:mlab, {a = b} + {a <> b}.
Proof. decide equality; [apply Nat.eq_dec | apply mstr_eq_dec]. Defined.
Definition mitem_eq_dec : forall a b:mitem, {a = b} + {a <> b}.
Proof. decide equality; try apply mstr_eq_dec; try apply Pos.eq_dec; try apply mlab_eq_dec; try apply Z.eq_dec; apply Bool.bool_dec. Defined.

(* one case = (the effect of CleanString on the chunks it changes, all types in sort.Strings order of appName.typeName,
   the diagram GenerateFullDataDiagram returned, parsed back into items; None = it panicked) *)
Definition mm_case := (list (atom * atom) * list mentity * option (list mitem))%type.

Definition mm_ok (c:mm_case) : bool :=
  match c with (tbl, es, obs) =>
    match mermaid_full tbl es, obs with
    | Ok o, Some o' => if list_eq_dec mitem_eq_dec o o' then true else false
    | Panic _, None => true
    | _, _ => false
    end
  end.
