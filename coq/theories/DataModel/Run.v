(* Correspondence glue for C15. *)
From Coq Require Import List PeanoNat PArith ZArith Bool.
Import ListNotations.
Require Import Verif.DataModel.DmShapeTypes Verif.DataModel.DmModel Verif.DataModel.DmDraw Verif.DataModel.DmWrap Verif.Base.Harness.

Definition str_eq_dec : forall a b:str, {a = b} + {a <> b} := list_eq_dec Pos.eq_dec.
Definition card_eq_dec : forall a b:card, {a = b} + {a <> b}. Proof. decide equality. Defined.
Definition ckind_eq_dec : forall a b:ckind, {a = b} + {a <> b}. Proof. decide equality. Defined.
Definition lname_eq_dec : forall a b:lname, {a = b} + {a <> b}.
Proof. decide equality; [apply Nat.eq_dec | apply str_eq_dec]. Defined.
Definition flabel_eq_dec : forall a b:flabel, {a = b} + {a <> b}.
Proof. decide equality; try apply Nat.eq_dec; try apply str_eq_dec; try apply lname_eq_dec; apply ckind_eq_dec. Defined.
Definition chead_eq_dec : forall a b:chead, {a = b} + {a <> b}.
Proof. decide equality; apply Nat.eq_dec. Defined.
Definition item_eq_dec : forall a b:item, {a = b} + {a <> b}.
Proof.
  decide equality; try apply Nat.eq_dec; try apply str_eq_dec; try apply chead_eq_dec; try apply Pos.eq_dec;
    try apply flabel_eq_dec; try apply card_eq_dec; apply Bool.bool_dec.
Defined.

(* one case = (the invocation of `sysl datamodel` as DmWrap.winput, the output name looked at, all types in
   sort.Strings order, the sorted names of the files the real GenerateDataModels returned (None = error or panic),
   the diagram stored under the name looked at, parsed back into items (None = no such file / panic)) *)
Definition c15_case := (winput * outname * list entity * option (list outname) * option (list item))%type.

Fixpoint insert_pos (x:positive) (l:list positive) : list positive :=
  match l with
  | [] => [x]
  | y :: l' => if Pos.eqb x y then l else if Pos.ltb x y then x :: l else y :: insert_pos x l'
  end.
Definition sort_keys (l:list positive) : list positive := fold_right insert_pos [] l.

Definition is_ok {A} (o:outcome A) : bool := match o with Ok _ => true | Panic _ => false end.

Definition c15_ok (c:c15_case) : bool :=
  match c with (w, key, es, okeys, obs) =>
    match gen_models w with
    | None => match okeys, obs with None, None => true | _, _ => false end
    | Some m =>
        if forallb (fun kv => is_ok (draw (snd kv) es)) m          (* every view is drawn; one panic ends the command *)
        then match okeys with
             | Some ks =>
                 (if list_eq_dec Pos.eq_dec (sort_keys (wkeys m)) ks then true else false) &&
                 match wlookup key m, obs with
                 | Some filt, Some o' => match draw filt es with Ok o => if list_eq_dec item_eq_dec o o' then true else false | Panic _ => false end
                 | None, None => true
                 | _, _ => false
                 end
             | None => false
             end
        else match okeys, obs with None, None => true | _, _ => false end
    end
  end.
