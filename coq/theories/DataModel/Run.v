(* Correspondence glue for C15: one case = (Epname filter, all types in sort.Strings order, what the real
   GenerateDataView printed, parsed back into items; None = it panicked). *)
From Coq Require Import List PeanoNat PArith Bool.
Import ListNotations.
Require Import Verif.DataModel.DmShapeTypes Verif.DataModel.DmModel Verif.DataModel.DmCurrent Verif.Base.Harness.

Definition str_eq_dec : forall a b:str, {a = b} + {a <> b} := list_eq_dec Pos.eq_dec.
Definition card_eq_dec : forall a b:card, {a = b} + {a <> b}. Proof. decide equality. Defined.
Definition ckind_eq_dec : forall a b:ckind, {a = b} + {a <> b}. Proof. decide equality. Defined.
Definition lname_eq_dec : forall a b:lname, {a = b} + {a <> b}.
Proof. decide equality; [apply Nat.eq_dec | apply str_eq_dec]. Defined.
Definition flabel_eq_dec : forall a b:flabel, {a = b} + {a <> b}.
Proof. decide equality; try apply Nat.eq_dec; try apply str_eq_dec; try apply lname_eq_dec; apply ckind_eq_dec. Defined.
Definition chead_eq_dec : forall a b:chead, {a = b} + {a <> b}.
Proof. decide equality; apply Nat.eq_dec. Defined.
Definition item_eq_dec : forall a b:item, {a = b} + {a <> b}.
Proof.
  decide equality; try apply Nat.eq_dec; try apply str_eq_dec; try apply chead_eq_dec; try apply Pos.eq_dec;
    try apply flabel_eq_dec; try apply card_eq_dec; apply Bool.bool_dec.
Defined.

Definition c15_case := (option atom * list entity * option (list item))%type.

Definition c15_ok (c:c15_case) : bool :=
  match c with (filt, es, obs) =>
    match draw filt es, obs with
    | Ok o, Some o' => if list_eq_dec item_eq_dec o o' then true else false
    | Panic _, None => true
    | _, _ => false
    end
  end.
