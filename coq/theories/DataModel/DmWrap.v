(* C15 MODEL (definitions only): pkg/datamodeldiagram/datamodel.go - what `sysl datamodel` (cmd/sysl/cmd_datamodel.go:
   Execute = GenerateDataModels, then one file per entry of the returned map) draws under which output name.

     GenerateDataModels                         --direct ? ...WithPureModule : ...WithProjectMannerModule
     GenerateDataModelsWithPureModule           one GenerateDataView per application, in sort.Strings order of the map keys
     GenerateDataModelsWithProjectMannerModule  the endpoints of the project application, in sort.Strings order
     GenerateDataModel                          ONE GenerateDataView for all the applications the endpoint's action statements
                                                name (fix C15-9; before: one per statement, the last one kept)

   Output names are opaque (`outname`): `cmdutils.MakeFormatParser(Output).FmtOutput(...)` is the format parser of
   another component; the harness evaluates it and hands the result in.  The map `outmap` is the log of its
   assignments (a later assignment to the same name replaces the earlier one).  The class format (--class_format)
   reaches UniqueVarForAppName only as the Label of a cmdutils.Var that nothing reads: it is no input here.
   The value stored under a name is GenerateDataView(dataParam): the view `draw filt es` with
   filt = Some (the keys of viewApps) when dataParam.Epname, None otherwise; viewApps = JoinAppName of every element of
   dataParam.Apps, or of dataParam.App alone when Apps is empty (--direct). *)
From Coq Require Import List PArith Bool.
Import ListNotations.
Require Import Verif.DataModel.DmShapeTypes Verif.DataModel.DmModel.

Definition outname := positive.

Record wapp := {
  w_name : str;           (* JoinAppName(app.Name) of apps[appName] *)
  w_out : outname         (* FmtOutput(appName, appName, app.LongName, app.Attrs): read only when Output contains %(epname) *)
}.
Inductive wstmt :=
| WAction (target:option str)   (* stmt.Stmt is an Action; Some a iff apps[a.Action.Action] != nil, a = its JoinAppName *)
| WOther.                       (* any other statement *)
Record wep := {
  ep_out : outname;             (* outputDir: Output, or FmtOutput(Project, epname, longname, attrs) when it contains %(epname) *)
  ep_match : bool;              (* Filter == "" || regexp.MustCompile(Filter).MatchString(outputDir) *)
  ep_stmts : list wstmt
}.
Inductive winput :=
| WDirect (has_ep:bool) (output:outname) (apps:list wapp)   (* has_ep = strings.Contains(Output, "%(epname)") *)
| WProject (found:bool) (has_ep:bool) (eps:list wep).       (* found = model.GetApps()[Project] exists *)

Definition outmap := list (outname * option (list str)).

(* GenerateDataView: viewApps (app = dataParam.App, apps = dataParam.Apps) *)
Definition view_apps (app:str) (apps:list str) : list str := match apps with [] => [app] | _ => apps end.
Definition view_of (has_ep:bool) (apps:list str) : option (list str) := if has_ep then Some apps else None.

(* GenerateDataModelsWithPureModule: for _, appName := range appNames { outmap[outputDir] = v.GenerateDataView(dataParam) } *)
Definition pure_module (has_ep:bool) (output:outname) (apps:list wapp) : outmap :=
  map (fun a => (if has_ep then w_out a else output, view_of has_ep (view_apps (w_name a) []))) apps.

(* GenerateDataModel: for _, stmt := range stmts { if Action && apps[...] != nil { named = append(named, app) } };
   if len(named) == 0 { return }; outmap[outDir] = GenerateDataView({App: named[len(named)-1], Apps: named, ...}) *)
Definition named_apps (stmts:list wstmt) : list str :=
  flat_map (fun s => match s with WAction (Some a) => [a] | _ => [] end) stmts.
Definition data_model (has_ep:bool) (out:outname) (stmts:list wstmt) : outmap :=
  match named_apps stmts with
  | [] => []
  | named => [(out, view_of has_ep (view_apps (last named []) named))]
  end.

(* GenerateDataModelsWithProjectMannerModule *)
Definition project_manner (has_ep:bool) (eps:list wep) : outmap :=
  flat_map (fun e => if ep_match e then data_model has_ep (ep_out e) (ep_stmts e) else []) eps.

(* GenerateDataModels; None = the error "project not found in sysl" *)
Definition gen_models (w:winput) : option outmap :=
  match w with
  | WDirect has_ep output apps => Some (pure_module has_ep output apps)
  | WProject false _ _ => None
  | WProject true has_ep eps => Some (project_manner has_ep eps)
  end.

(* the value of outmap[k] after all assignments *)
Fixpoint wlookup (k:outname) (m:outmap) : option (option (list str)) :=
  match m with
  | [] => None
  | (k', v) :: m' => match wlookup k m' with Some x => Some x | None => if Pos.eqb k k' then Some v else None end
  end.
(* the names of the files `sysl datamodel` writes *)
Definition wkeys (m:outmap) : list outname := map fst m.
