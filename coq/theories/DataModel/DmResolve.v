(* C15: the INTENDED resolution of a type reference - the compiler's own scoping rule - as a function, and the exact
   class of references on which the data-model view's resolution (DmProps.tuple_parts: what DrawTuple looks up and
   allocates) agrees with it on every module.

   fix_scope  transliterates pkg/parse/parse.go fixTypeRefScope as a function from the written reference to the one
              the compiler keeps (it is applied by postProcess to the references of tuple and table fields, not to the
              elements of their collections, and it is idempotent);
   resolve    the type a reference means: fix_scope, then the application named by the reference or else the
              current one, then the whole path (JoinTypeRefScope);
   plain_ref  one path element of one chunk, and no application part that could also be a local type name. *)
From Coq Require Import List PeanoNat PArith Bool Lia.
Import ListNotations.
Require Import Verif.DataModel.DmShapeTypes Verif.DataModel.DmModel Verif.DataModel.DmCurrent Verif.DataModel.DmProps.

Definition has_ent (es:list entity) (k:str) : bool := existsb (fun e => str_eqb (e_key e) k) es.

Definition fix_scope (es:list entity) (curr:str) (r:ref) : ref :=
  match r_parts r with
  | [a] =>                                        (* len(appPath) == 1 *)
      match r_path r with
      | [] => r                                   (* "impossible" *)
      | p0 :: _ =>
          if str_eqb curr a then r                (* same app *)
          else if has_ent es (a ++ p0) then r     (* full type ref: mod.Apps[appName].Types[typeName] exists *)
          else if has_ent es (curr ++ a)          (* mod.Apps[currApp].Types[appName] exists: deep local ref A.B.C *)
               then {| r_ctx := r_ctx r; r_app := None; r_parts := []; r_path := a :: r_path r |}
               else r                             (* type not found *)
      end
  | _ => r                                        (* no application part: local; several: full specification *)
  end.

Definition ref_app (curr:str) (r:ref) : str := match r_app r with Some a => a | None => curr end.
Definition resolve (es:list entity) (curr:str) (r:ref) : str :=
  let r' := fix_scope es curr r in ref_app curr r' ++ join (r_path r').
(* a foreign key Table.column of a table: the last path element is the column *)
Definition resolve_fk (es:list entity) (curr:str) (r:ref) : option str :=
  let r' := fix_scope es curr r in
  match r_path r' with _ :: _ :: _ => Some (ref_app curr r' ++ join (removelast (r_path r'))) | _ => None end.

Lemma fix_scope_idempotent : forall es curr r, fix_scope es curr (fix_scope es curr r) = fix_scope es curr r.
Proof.
  intros es curr r. remember (fix_scope es curr r) as r' eqn:R. unfold fix_scope in R.
  destruct (r_parts r) as [|a [|b ps]] eqn:P; try (subst r'; unfold fix_scope; rewrite P; reflexivity).
  destruct (r_path r) as [|p0 rest] eqn:Q; [subst r'; unfold fix_scope; rewrite P, Q; reflexivity|].
  destruct (str_eqb curr a) eqn:E1; [subst r'; unfold fix_scope; rewrite P, Q, E1; reflexivity|].
  destruct (has_ent es (a ++ p0)) eqn:E2; [subst r'; unfold fix_scope; rewrite P, Q, E1, E2; reflexivity|].
  destruct (has_ent es (curr ++ a)) eqn:E3; [subst r'; reflexivity|subst r'; unfold fix_scope; rewrite P, Q, E1, E2, E3; reflexivity].
Qed.

(* ---- the two sides *)
Definition ref_of (t:fty) : option ref :=
  match t with FRef r | FSet (ERef r) | FSeq (ERef r) | FList (ERef r) => Some r | _ => None end.
(* the class symbol DrawTuple relates the field to (None: no relationship) *)
Definition code_target (es:list entity) (t:fty) : option str :=
  option_map sym_key (tuple_parts (type_map es) (ignored es) t).
(* the declared type the reference means (None: it names no type of the module) *)
Definition spec_target (es:list entity) (curr:str) (r:ref) : option str :=
  let k := resolve es curr r in if has_type (type_map es) k then Some k else None.

(* ---- well-formed inputs (what the parser produces) *)
Definition good_str (s:str) : Prop := s <> [] /\ no_eps s.
Definition wf_es (es:list entity) : Prop :=
  forall e, In e es -> e_app e <> [] /\ e_name e <> [] /\ e_def e <> DNil.
Definition wf_ref (curr:str) (r:ref) : Prop :=
  good_str curr /\ r_path r <> [] /\ Forall good_str (r_path r) /\ r_ctx r <> [] /\
  match r_parts r with
  | [] => r_app r = None
  | [a] => r_app r = Some a /\ good_str a /\ (a <> curr -> a ++ hd [] (r_path r) <> curr ++ a)
  | _ => exists a, r_app r = Some a /\ good_str a
  end.
Definition plain_ref (curr:str) (r:ref) : Prop :=
  (exists c, r_path r = [[c]]) /\
  match r_parts r with [] => r_ctx r = curr | [a] => a = curr | _ => True end.

(* ---- basic facts *)
Lemma type_map_wf : forall es, wf_es es -> type_map es = es /\ ignored es = [].
Proof.
  induction es as [|e es IH]; intros H; [split; reflexivity|].
  assert (He : is_nil e = false). { destruct (H e (or_introl eq_refl)) as [_ [_ Hd]]. unfold is_nil. destruct (e_def e); try reflexivity. contradiction. }
  destruct IH as [I1 I2]; [intros e' Hin; apply H; right; exact Hin|].
  unfold type_map, ignored in *. cbn [filter]. rewrite He. cbn [negb map]. rewrite I1, I2. split; reflexivity.
Qed.

Lemma has_type_length : forall tm k, has_type tm k = true -> exists e, In e tm /\ e_key e = k.
Proof.
  intros tm k. unfold has_type, find_type. destruct (find _ tm) as [e|] eqn:F; [|discriminate]. intros _.
  apply find_some in F. destruct F as [Hin Hk]. apply str_eqb_eq in Hk. eauto.
Qed.
Lemma has_type_in : forall tm e, In e tm -> has_type tm (e_key e) = true.
Proof.
  intros tm e Hin. unfold has_type, find_type. destruct (find _ tm) as [e'|] eqn:F; [reflexivity|].
  exfalso. apply (find_none _ _ F) in Hin. rewrite str_eqb_refl in Hin. discriminate.
Qed.
Lemma has_type_single : forall es c, wf_es es -> has_type es [c] = false.
Proof.
  intros es c H. destruct (has_type es [c]) eqn:E; [|reflexivity]. apply has_type_length in E. destruct E as [e [Hin Hk]].
  destruct (H e Hin) as [Ha [Hn _]]. unfold e_key in Hk. destruct (e_app e) as [|x [|y l]]; [contradiction| |discriminate].
  destruct (e_name e); [contradiction|discriminate].
Qed.
Lemma is_empty_str_good : forall s, good_str s -> is_empty_str s = false.
Proof.
  intros s [Hne Hn]. unfold is_empty_str, empty_str. destruct s as [|x s]; [contradiction|]. inversion Hn; subst.
  cbn [str_eqb]. destruct (Pos.eqb x eps) eqn:E; [apply Pos.eqb_eq in E; contradiction|reflexivity].
Qed.
Lemma join_length : forall ps, length (join ps) >= length (concat ps).
Proof. intro ps. unfold join. destruct (concat ps); cbn; lia. Qed.
Lemma join_single : forall p, p <> [] -> join [p] = p.
Proof. intros p H. unfold join. cbn [concat]. rewrite app_nil_r. destruct p; [contradiction|reflexivity]. Qed.

(* the resolved name is longer than the joined path of the written reference *)
Lemma resolve_longer : forall es curr r, wf_ref curr r -> length (resolve es curr r) > length (concat (r_path r)).
Proof.
  intros es curr r [[Hc _] [_ [_ [_ Hp]]]]. unfold resolve, fix_scope.
  assert (C : length curr > 0) by (destruct curr; [contradiction|cbn; lia]).
  destruct (r_parts r) as [|a [|b ps]] eqn:P.
  - unfold ref_app. rewrite Hp, app_length. pose proof (join_length (r_path r)). lia.
  - destruct Hp as [Ha [[Hane _] _]]. assert (A : length a > 0) by (destruct a; [contradiction|cbn; lia]).
    destruct (r_path r) as [|p0 rest] eqn:Q; [unfold ref_app; rewrite Ha, app_length; cbn; lia|].
    destruct (str_eqb curr a); [|destruct (has_ent es (a ++ p0)); [|destruct (has_ent es (curr ++ a))]];
      unfold ref_app; cbn [r_app r_path]; try rewrite Ha; rewrite ?app_length;
      try (rewrite <- Q; pose proof (join_length (r_path r)); rewrite Q in *; lia).
    pose proof (join_length (a :: p0 :: rest)). cbn [concat] in *. rewrite !app_length in *. lia.
  - destruct Hp as [a' [Ha [Hane _]]]. assert (A : length a' > 0) by (destruct a'; [contradiction|cbn; lia]).
    unfold ref_app. rewrite Ha, app_length. pose proof (join_length (r_path r)). lia.
Qed.

(* ---- what the code looks up, for each of the four field forms *)
Definition code_app (r:ref) : str := match r_app r with Some a => a | None => r_ctx r end.
Lemma code_target_form : forall es t r, ref_of t = Some r -> wf_es es ->
  code_target es t = option_map sym_key (relate_parts es (code_app r) (r_path r) false).
Proof.
  intros es t r Ht Hes. unfold code_target. destruct (type_map_wf es Hes) as [-> ->].
  destruct t as [p|r0|e|e|e|]; try discriminate; try (destruct e as [p|r0|]; try discriminate);
    injection Ht as ->; unfold tuple_parts, get_names, code_app; cbn [mem_str existsb negb andb]; reflexivity.
Qed.

Lemma has_ent_has_type : forall es k, has_ent es k = has_type es k.
Proof.
  intros es k. unfold has_ent, has_type, find_type. induction es as [|e es IH]; [reflexivity|].
  cbn [existsb find]. destruct (str_eqb (e_key e) k); [reflexivity|exact IH].
Qed.

Lemma has_type_one : forall e k, has_type [e] k = str_eqb (e_key e) k.
Proof. intros e k. unfold has_type, find_type. cbn [find]. destruct (str_eqb (e_key e) k); reflexivity. Qed.

Lemma fix_scope_plain : forall es curr r, plain_ref curr r -> fix_scope es curr r = r.
Proof.
  intros es curr r [[c Hp] Hparts]. unfold fix_scope. destruct (r_parts r) as [|a [|b ps]]; try reflexivity.
  rewrite Hp. subst a. rewrite str_eqb_refl. reflexivity.
Qed.

(* ---- plain references: the code's resolution is the compiler's, on every module *)
Theorem resolution_agrees_plain : forall es curr r t, wf_ref curr r -> plain_ref curr r -> ref_of t = Some r -> wf_es es ->
  code_target es t = spec_target es curr r.
Proof.
  intros es curr r t Hwf Hpl Ht Hes. rewrite (code_target_form es t r Ht Hes).
  unfold spec_target, resolve. rewrite (fix_scope_plain es curr r Hpl). destruct (type_map_wf es Hes) as [-> _].
  destruct Hpl as [[c Hp] Hparts]. destruct Hwf as [Hcurr [_ [Hgood [_ Happ]]]].
  assert (EA : code_app r = ref_app curr r /\ good_str (ref_app curr r)).
  { unfold code_app, ref_app. destruct (r_parts r) as [|a [|b ps]].
    - rewrite Happ, Hparts. split; [reflexivity|exact Hcurr].
    - destruct Happ as [-> [Hg _]]. split; [reflexivity|exact Hg].
    - destruct Happ as [a' [-> Hg]]. split; [reflexivity|exact Hg]. }
  destruct EA as [-> [Hne Hnoeps]]. rewrite Hp in *. inversion Hgood as [|? ? Hc _]; subst.
  rewrite (join_single [c]) by discriminate. unfold relate_parts.
  rewrite (has_type_single es c Hes). cbn [negb]. rewrite andb_true_r.
  destruct (has_type es (ref_app curr r ++ [c])); cbn [negb option_map]; [|reflexivity].
  rewrite sym_key_pair; [reflexivity|exact Hne|apply is_empty_str_good; split; assumption|apply is_empty_str_good; exact Hc].
Qed.

(* ---- every other reference: a module on which the two differ *)
Definition tup (a n:str) : entity := {| e_app := a; e_name := n; e_def := DTuple [] |}.
Lemma wf_tup1 : forall a n, a <> [] -> n <> [] -> wf_es [tup a n].
Proof. intros a n Ha Hn e [<-|[]]. cbn. repeat split; try assumption. discriminate. Qed.

Lemma spec_none_short : forall es curr r, wf_ref curr r -> wf_es es ->
  (forall e, In e es -> length (e_key e) <= length (concat (r_path r))) -> spec_target es curr r = None.
Proof.
  intros es curr r Hwf Hes Hlen. unfold spec_target. destruct (type_map_wf es Hes) as [-> _].
  destruct (has_type es (resolve es curr r)) eqn:E; [|reflexivity].
  apply has_type_length in E. destruct E as [e [Hin Hk]]. pose proof (Hlen e Hin) as L. rewrite Hk in L.
  pose proof (resolve_longer es curr r Hwf). lia.
Qed.

Lemma good_ne : forall s, good_str s -> s <> [].
Proof. intros s [H _]. exact H. Qed.

(* a path of several elements: DrawTuple reads path[0] as the application and path[1] as the type *)
Lemma differs_nested : forall curr r t p0 p1 rest, wf_ref curr r -> ref_of t = Some r -> r_path r = p0 :: p1 :: rest ->
  exists es, wf_es es /\ code_target es t <> spec_target es curr r.
Proof.
  intros curr r t p0 p1 rest Hwf Ht Hp. pose proof Hwf as [_ [_ [Hgood _]]]. rewrite Hp in Hgood.
  inversion Hgood as [|? ? G0 Hg']; subst. inversion Hg' as [|? ? G1 _]; subst.
  exists [tup p0 p1]. assert (W : wf_es [tup p0 p1]) by (apply wf_tup1; apply good_ne; assumption). split; [exact W|].
  rewrite (code_target_form _ t r Ht W). rewrite (spec_none_short _ curr r Hwf W).
  - rewrite Hp. unfold relate_parts. rewrite has_type_one. unfold tup, e_key. cbn [e_app e_name]. rewrite str_eqb_refl. cbn. discriminate.
  - intros e [<-|[]]. rewrite Hp. unfold tup, e_key. cbn [e_app e_name concat]. rewrite !app_length. lia.
Qed.

(* one element with a '.' inside (written with %2E): the bare lookup Types[typeName] can hit an App.Type key *)
Lemma differs_dotted : forall curr r t x y l, wf_ref curr r -> ref_of t = Some r -> r_path r = [x :: y :: l] ->
  exists es, wf_es es /\ code_target es t <> spec_target es curr r.
Proof.
  intros curr r t x y l Hwf Ht Hp.
  exists [tup [x] (y :: l)]. assert (W : wf_es [tup [x] (y :: l)]) by (apply wf_tup1; discriminate). split; [exact W|].
  rewrite (code_target_form _ t r Ht W). rewrite (spec_none_short _ curr r Hwf W).
  - rewrite Hp. unfold relate_parts. rewrite !has_type_one. unfold tup, e_key. cbn [e_app e_name app].
    rewrite (str_eqb_refl (x :: y :: l)). cbn [negb]. rewrite andb_false_r. cbn. discriminate.
  - intros e [<-|[]]. rewrite Hp. unfold tup, e_key. cbn [e_app e_name concat app]. rewrite app_nil_r. cbn. lia.
Qed.

(* a local reference whose context is not the current application (the context-free reference of an in-place tuple) *)
Lemma differs_ctx : forall curr r t c, wf_ref curr r -> ref_of t = Some r -> r_path r = [[c]] -> r_parts r = [] -> r_ctx r <> curr ->
  exists es, wf_es es /\ code_target es t <> spec_target es curr r.
Proof.
  intros curr r t c Hwf Ht Hp Hparts Hctx. pose proof Hwf as [[Hc _] [_ [_ [Hcx Happ]]]]. rewrite Hparts in Happ.
  exists [tup curr [c]]. assert (W : wf_es [tup curr [c]]) by (apply wf_tup1; [exact Hc|discriminate]). split; [exact W|].
  rewrite (code_target_form _ t r Ht W). unfold spec_target, resolve, fix_scope. rewrite Hparts. cbn beta iota zeta. destruct (type_map_wf _ W) as [-> _].
  unfold ref_app, code_app. rewrite Happ, Hp. rewrite (join_single [c]) by discriminate.
  rewrite !has_type_one. unfold relate_parts. rewrite !has_type_one. unfold tup, e_key. cbn [e_app e_name].
  rewrite str_eqb_refl. rewrite (str_eqb_neq (curr ++ [c]) (r_ctx r ++ [c])) by (intros E; apply app_inv_tail in E; apply Hctx; symmetry; exact E).
  rewrite (str_eqb_neq (curr ++ [c]) [c]) by (intros E; destruct curr as [|z [|z' curr]]; [contradiction|discriminate|discriminate]).
  cbn. discriminate.
Qed.

(* an application part of one element that is not the current application: by the compiler's rule it is an
   application (A.B) or a local type with a nested type (deep reference), depending on the module *)
Lemma differs_one_part : forall curr r t c a, wf_ref curr r -> ref_of t = Some r -> r_path r = [[c]] -> r_parts r = [a] -> a <> curr ->
  exists es, wf_es es /\ code_target es t <> spec_target es curr r.
Proof.
  intros curr r t c a Hwf Ht Hp Hparts Hne. pose proof Hwf as [[Hc _] [_ [_ [_ Happ]]]]. rewrite Hparts, Hp in Happ.
  destruct Happ as [Ha [[Hane _] Hov]]. specialize (Hov Hne). cbn [hd] in Hov.
  set (es := [tup curr a; tup curr (a ++ [c])]).
  assert (W : wf_es es). { intros e [<-|[<-|[]]]; cbn; repeat split; try assumption; try discriminate. destruct a; [contradiction|discriminate]. }
  exists es. split; [exact W|]. rewrite (code_target_form _ t r Ht W).
  assert (K1 : has_type es (a ++ [c]) = false).
  { destruct (has_type es (a ++ [c])) eqn:E; [|reflexivity]. apply has_type_length in E. destruct E as [e [[<-|[<-|[]]] Hk]]; unfold tup, e_key in Hk; cbn [e_app e_name] in Hk.
    - exfalso. apply Hov. symmetry. exact Hk.
    - exfalso. apply (f_equal (@length atom)) in Hk. rewrite !app_length in Hk. destruct curr; [contradiction|cbn in Hk; lia]. }
  assert (K2 : has_type es (curr ++ a) = true) by (apply (has_type_in es (tup curr a)); left; reflexivity).
  assert (K3 : has_type es (curr ++ a ++ [c]) = true) by (apply (has_type_in es (tup curr (a ++ [c]))); right; left; reflexivity).
  unfold spec_target, resolve, fix_scope. rewrite Hparts, Hp. rewrite (str_eqb_neq curr a) by (intros E; apply Hne; symmetry; exact E).
  rewrite !has_ent_has_type, K1, K2. cbn [r_app r_path ref_app]. destruct (type_map_wf _ W) as [-> _].
  assert (J : join [a; [c]] = a ++ [c]). { unfold join. cbn [concat]. rewrite app_nil_r. destruct a; [contradiction|reflexivity]. }
  rewrite J, K3. unfold code_app. rewrite Ha. unfold relate_parts. rewrite K1, (has_type_single es c W). cbn. discriminate.
Qed.

(* ---- the characterisation: the code resolves a reference as the compiler does ON EVERY MODULE exactly when the
   reference is plain.  The four lemmas above are the four classes of the remaining references. *)
Theorem resolution_agrees_iff : forall curr r t, wf_ref curr r -> ref_of t = Some r ->
  ((forall es, wf_es es -> code_target es t = spec_target es curr r) <-> plain_ref curr r).
Proof.
  intros curr r t Hwf Ht. split.
  - intros H. pose proof Hwf as [_ [Hpne [Hgood _]]].
    assert (X : forall es, wf_es es -> code_target es t <> spec_target es curr r -> False) by (intros es W N; apply N; apply H; exact W).
    destruct (r_path r) as [|p0 [|p1 rest]] eqn:Hp; [contradiction| |].
    + destruct p0 as [|x [|y l]].
      * inversion Hgood as [|? ? [G _] _]; subst. contradiction.
      * unfold plain_ref. rewrite Hp. split; [exists x; reflexivity|].
        destruct (r_parts r) as [|a [|b ps]] eqn:Hparts; [| |exact I].
        -- destruct (str_eqb (r_ctx r) curr) eqn:E; [apply str_eqb_eq in E; exact E|].
           exfalso. destruct (differs_ctx curr r t x Hwf Ht Hp Hparts) as [es [W N]]; [intros EE; rewrite EE, str_eqb_refl in E; discriminate|]. exact (X es W N).
        -- destruct (str_eqb a curr) eqn:E; [apply str_eqb_eq in E; exact E|].
           exfalso. destruct (differs_one_part curr r t x a Hwf Ht Hp Hparts) as [es [W N]]; [intros EE; rewrite EE, str_eqb_refl in E; discriminate|]. exact (X es W N).
      * exfalso. destruct (differs_dotted curr r t x y l Hwf Ht Hp) as [es [W N]]. exact (X es W N).
    + exfalso. destruct (differs_nested curr r t p0 p1 rest Hwf Ht Hp) as [es [W N]]. exact (X es W N).
  - intros Hpl es W. apply resolution_agrees_plain; assumption.
Qed.

(* non-vacuity: a plain reference and a module on which it resolves to a declared type; the three other shapes *)
Definition ex_plain : ref := {| r_ctx := [2%positive]; r_app := None; r_parts := []; r_path := [[5%positive]] |}.
Example ex_plain_ok : wf_ref [2%positive] ex_plain /\ plain_ref [2%positive] ex_plain /\
  wf_es [tup [2%positive] [5%positive]] /\
  code_target [tup [2%positive] [5%positive]] (FSet (ERef ex_plain)) = Some [2%positive; 5%positive] /\
  spec_target [tup [2%positive] [5%positive]] [2%positive] ex_plain = Some [2%positive; 5%positive].
Proof.
  assert (G : forall x:positive, x <> eps -> good_str [x]) by (intros x Hx; split; [discriminate|repeat constructor; exact Hx]).
  split; [|split; [|split; [|split]]].
  - unfold wf_ref, ex_plain. cbn. repeat split; try discriminate; repeat constructor; try discriminate.
  - unfold plain_ref, ex_plain. cbn. split; [exists 5%positive; reflexivity|reflexivity].
  - apply wf_tup1; discriminate.
  - reflexivity.
  - reflexivity.
Qed.
Definition ex_cross : ref := {| r_ctx := [2%positive]; r_app := Some [4%positive]; r_parts := [[4%positive]]; r_path := [[5%positive]] |}.
Example ex_cross_wf : wf_ref [2%positive] ex_cross /\ ~ plain_ref [2%positive] ex_cross.
Proof.
  split.
  - unfold wf_ref, ex_cross. cbn. repeat split; try discriminate; repeat constructor; try discriminate.
  - intros [_ H]. cbn in H. discriminate.
Qed.
