(* C15: the INTENDED resolution of a type reference - the compiler's own scoping rule - as a function, and the exact
   class of references on which the data-model view's resolution (DmProps.tuple_parts: what DrawTuple looks up and
   allocates) agrees with it on every module.  Second pass of round 3: after the fixes C15-6 (bare lookup) and C15-7
   (the whole path names the type) that class no longer depends on the path - nested names and names with '.' agree -;
   what is left are references whose APPLICATION the view reads differently (the context-free reference of an in-place
   tuple; an application part of one element that the parser did not rescope because it sits inside a collection).

   fix_scope  transliterates pkg/parse/parse.go fixTypeRefScope as a function from the written reference to the one
              the compiler keeps (it is applied by postProcess to the references of tuple and table fields, not to the
              elements of their collections, and it is idempotent);
   resolve    the type a reference means: fix_scope, then the application named by the reference or else the
              current one, then the whole path (JoinTypeRefScope);
   plain_ref  no application part that could also be a local type name (any path). *)
From Coq Require Import List PeanoNat PArith Bool Lia.
Import ListNotations.
Require Import Verif.DataModel.DmShapeTypes Verif.DataModel.DmModel Verif.DataModel.DmCurrent Verif.DataModel.DmProps.

Definition has_ent (es:list entity) (k:str) : bool := existsb (fun e => str_eqb (e_key e) k) es.

Definition fix_scope (es:list entity) (curr:str) (r:ref) : ref :=
  match r_parts r with
  | [a] =>                                        (* len(appPath) == 1 *)
      match r_path r with
      | [] => r                                   (* "impossible" *)
      | p0 :: _ =>
          if str_eqb curr a then r                (* same app *)
          else if has_ent es (a ++ p0) then r     (* full type ref: mod.Apps[appName].Types[typeName] exists *)
          else if has_ent es (curr ++ a)          (* mod.Apps[currApp].Types[appName] exists: deep local ref A.B.C *)
               then {| r_ctx := r_ctx r; r_app := None; r_parts := []; r_path := a :: r_path r |}
               else r                             (* type not found *)
      end
  | _ => r                                        (* no application part: local; several: full specification *)
  end.

Definition ref_app (curr:str) (r:ref) : str := match r_app r with Some a => a | None => curr end.
Definition resolve (es:list entity) (curr:str) (r:ref) : str :=
  let r' := fix_scope es curr r in ref_app curr r' ++ join (r_path r').
(* a foreign key Table.column of a table: the last path element is the column *)
Definition resolve_fk (es:list entity) (curr:str) (r:ref) : option str :=
  let r' := fix_scope es curr r in
  match r_path r' with _ :: _ :: _ => Some (ref_app curr r' ++ join (removelast (r_path r'))) | _ => None end.

Lemma fix_scope_idempotent : forall es curr r, fix_scope es curr (fix_scope es curr r) = fix_scope es curr r.
Proof.
  intros es curr r. remember (fix_scope es curr r) as r' eqn:R. unfold fix_scope in R.
  destruct (r_parts r) as [|a [|b ps]] eqn:P; try (subst r'; unfold fix_scope; rewrite P; reflexivity).
  destruct (r_path r) as [|p0 rest] eqn:Q; [subst r'; unfold fix_scope; rewrite P, Q; reflexivity|].
  destruct (str_eqb curr a) eqn:E1; [subst r'; unfold fix_scope; rewrite P, Q, E1; reflexivity|].
  destruct (has_ent es (a ++ p0)) eqn:E2; [subst r'; unfold fix_scope; rewrite P, Q, E1, E2; reflexivity|].
  destruct (has_ent es (curr ++ a)) eqn:E3; [subst r'; reflexivity|subst r'; unfold fix_scope; rewrite P, Q, E1, E2, E3; reflexivity].
Qed.

(* ---- the two sides *)
Definition ref_of (t:fty) : option ref :=
  match t with FRef r | FSet (ERef r) | FSeq (ERef r) | FList (ERef r) => Some r | _ => None end.
(* the class symbol DrawTuple relates the field to (None: no relationship) *)
Definition code_target (es:list entity) (t:fty) : option str :=
  option_map sym_key (tuple_parts (type_map es) (ignored es) t).
(* the declared type the reference means (None: it names no type of the module) *)
Definition spec_target (es:list entity) (curr:str) (r:ref) : option str :=
  let k := resolve es curr r in if has_type (type_map es) k then Some k else None.

(* ---- well-formed inputs (what the parser produces) *)
Definition good_str (s:str) : Prop := s <> [] /\ no_eps s.
Definition wf_es (es:list entity) : Prop :=
  forall e, In e es -> e_app e <> [] /\ e_name e <> [] /\ e_def e <> DNil.
Definition wf_ref (curr:str) (r:ref) : Prop :=
  good_str curr /\ r_path r <> [] /\ Forall good_str (r_path r) /\ r_ctx r <> [] /\
  match r_parts r with
  | [] => r_app r = None
  | [a] => r_app r = Some a /\ good_str a /\
           (a <> curr -> a ++ hd [] (r_path r) <> curr ++ a /\ a ++ join (r_path r) <> curr ++ a)
  | _ => exists a, r_app r = Some a /\ good_str a
  end.
Definition plain_ref (curr:str) (r:ref) : Prop :=
  match r_parts r with [] => r_ctx r = curr | [a] => a = curr | _ => True end.

(* ---- basic facts *)
Lemma type_map_wf : forall es, wf_es es -> type_map es = es /\ ignored es = [].
Proof.
  induction es as [|e es IH]; intros H; [split; reflexivity|].
  assert (He : is_nil e = false). { destruct (H e (or_introl eq_refl)) as [_ [_ Hd]]. unfold is_nil. destruct (e_def e); try reflexivity. contradiction. }
  destruct IH as [I1 I2]; [intros e' Hin; apply H; right; exact Hin|].
  unfold type_map, ignored in *. cbn [filter]. rewrite He. cbn [negb map]. rewrite I1, I2. split; reflexivity.
Qed.

Lemma has_type_length : forall tm k, has_type tm k = true -> exists e, In e tm /\ e_key e = k.
Proof.
  intros tm k. unfold has_type, find_type. destruct (find _ tm) as [e|] eqn:F; [|discriminate]. intros _.
  apply find_some in F. destruct F as [Hin Hk]. apply str_eqb_eq in Hk. eauto.
Qed.
Lemma has_type_in : forall tm e, In e tm -> has_type tm (e_key e) = true.
Proof.
  intros tm e Hin. unfold has_type, find_type. destruct (find _ tm) as [e'|] eqn:F; [reflexivity|].
  exfalso. apply (find_none _ _ F) in Hin. rewrite str_eqb_refl in Hin. discriminate.
Qed.
Lemma has_type_single : forall es c, wf_es es -> has_type es [c] = false.
Proof.
  intros es c H. destruct (has_type es [c]) eqn:E; [|reflexivity]. apply has_type_length in E. destruct E as [e [Hin Hk]].
  destruct (H e Hin) as [Ha [Hn _]]. unfold e_key in Hk. destruct (e_app e) as [|x [|y l]]; [contradiction| |discriminate].
  destruct (e_name e); [contradiction|discriminate].
Qed.
Lemma is_empty_str_good : forall s, good_str s -> is_empty_str s = false.
Proof.
  intros s [Hne Hn]. unfold is_empty_str, empty_str. destruct s as [|x s]; [contradiction|]. inversion Hn; subst.
  cbn [str_eqb]. destruct (Pos.eqb x eps) eqn:E; [apply Pos.eqb_eq in E; contradiction|reflexivity].
Qed.
Lemma join_length : forall ps, length (join ps) >= length (concat ps).
Proof. intro ps. unfold join. destruct (concat ps); cbn; lia. Qed.
Lemma join_single : forall p, p <> [] -> join [p] = p.
Proof. intros p H. unfold join. cbn [concat]. rewrite app_nil_r. destruct p; [contradiction|reflexivity]. Qed.

(* the resolved name is longer than the joined path of the written reference *)
Lemma resolve_longer : forall es curr r, wf_ref curr r -> length (resolve es curr r) > length (concat (r_path r)).
Proof.
  intros es curr r [[Hc _] [_ [_ [_ Hp]]]]. unfold resolve, fix_scope.
  assert (C : length curr > 0) by (destruct curr; [contradiction|cbn; lia]).
  destruct (r_parts r) as [|a [|b ps]] eqn:P.
  - unfold ref_app. rewrite Hp, app_length. pose proof (join_length (r_path r)). lia.
  - destruct Hp as [Ha [[Hane _] _]]. assert (A : length a > 0) by (destruct a; [contradiction|cbn; lia]).
    destruct (r_path r) as [|p0 rest] eqn:Q; [unfold ref_app; rewrite Ha, app_length; cbn; lia|].
    destruct (str_eqb curr a); [|destruct (has_ent es (a ++ p0)); [|destruct (has_ent es (curr ++ a))]];
      unfold ref_app; cbn [r_app r_path]; try rewrite Ha; rewrite ?app_length;
      try (rewrite <- Q; pose proof (join_length (r_path r)); rewrite Q in *; lia).
    pose proof (join_length (a :: p0 :: rest)). cbn [concat] in *. rewrite !app_length in *. lia.
  - destruct Hp as [a' [Ha [Hane _]]]. assert (A : length a' > 0) by (destruct a'; [contradiction|cbn; lia]).
    unfold ref_app. rewrite Ha, app_length. pose proof (join_length (r_path r)). lia.
Qed.

(* ---- what the code looks up, for each of the four field forms *)
Definition code_app (r:ref) : str := match r_app r with Some a => a | None => r_ctx r end.
Lemma code_target_form : forall es t r, ref_of t = Some r -> wf_es es ->
  code_target es t = option_map sym_key (relate_parts es (code_app r) (r_path r) false).
Proof.
  intros es t r Ht Hes. unfold code_target. destruct (type_map_wf es Hes) as [-> ->].
  destruct t as [p|r0|e|e|e|]; try discriminate; try (destruct e as [p|r0|]; try discriminate);
    injection Ht as ->; unfold tuple_parts, get_names, code_app; cbn [mem_str existsb negb andb]; reflexivity.
Qed.

Lemma has_ent_has_type : forall es k, has_ent es k = has_type es k.
Proof.
  intros es k. unfold has_ent, has_type, find_type. induction es as [|e es IH]; [reflexivity|].
  cbn [existsb find]. destruct (str_eqb (e_key e) k); [reflexivity|exact IH].
Qed.

Lemma has_type_one : forall e k, has_type [e] k = str_eqb (e_key e) k.
Proof. intros e k. unfold has_type, find_type. cbn [find]. destruct (str_eqb (e_key e) k); reflexivity. Qed.

Lemma fix_scope_plain : forall es curr r, plain_ref curr r -> fix_scope es curr r = r.
Proof.
  intros es curr r Hparts. unfold plain_ref in Hparts. unfold fix_scope. destruct (r_parts r) as [|a [|b ps]]; try reflexivity.
  destruct (r_path r); [reflexivity|]. subst a. rewrite str_eqb_refl. reflexivity.
Qed.

Lemma no_eps_app : forall a b, no_eps a -> no_eps b -> no_eps (a ++ b).
Proof. intros a b Ha Hb. unfold no_eps in *. apply Forall_app. split; assumption. Qed.
Lemma concat_good : forall ps, ps <> [] -> Forall good_str ps -> good_str (concat ps).
Proof.
  induction ps as [|p ps IH]; intros Hne Hg; [contradiction|]. inversion Hg as [|? ? [Hp Hn] Hg']; subst. cbn [concat].
  destruct ps as [|q ps]; [cbn [concat]; rewrite app_nil_r; split; assumption|].
  destruct (IH ltac:(discriminate) Hg') as [_ Hn']. split; [destruct p; [contradiction|discriminate]|apply no_eps_app; assumption].
Qed.
Lemma join_good : forall ps, ps <> [] -> Forall good_str ps -> join ps = concat ps /\ good_str (join ps).
Proof.
  intros ps Hne Hg. destruct (concat_good ps Hne Hg) as [Hc Hn]. unfold join.
  destruct (concat ps) eqn:E; [contradiction|]. split; [reflexivity|split; [discriminate|exact Hn]].
Qed.
Lemma join_ne : forall ps, join ps <> [].
Proof. intro ps. unfold join. destruct (concat ps); discriminate. Qed.

(* ---- plain references: the code's resolution is the compiler's, on every module and for every path *)
Theorem resolution_agrees_plain : forall es curr r t, wf_ref curr r -> plain_ref curr r -> ref_of t = Some r -> wf_es es ->
  code_target es t = spec_target es curr r.
Proof.
  intros es curr r t Hwf Hpl Ht Hes. rewrite (code_target_form es t r Ht Hes).
  unfold spec_target, resolve. rewrite (fix_scope_plain es curr r Hpl). destruct (type_map_wf es Hes) as [-> _].
  unfold plain_ref in Hpl. destruct Hwf as [Hcurr [Hpne [Hgood [_ Happ]]]].
  assert (EA : code_app r = ref_app curr r /\ good_str (ref_app curr r)).
  { unfold code_app, ref_app. destruct (r_parts r) as [|a [|b ps]].
    - rewrite Happ, Hpl. split; [reflexivity|exact Hcurr].
    - destruct Happ as [-> [Hg _]]. split; [reflexivity|exact Hg].
    - destruct Happ as [a' [-> Hg]]. split; [reflexivity|exact Hg]. }
  destruct EA as [-> Hg]. destruct (join_good _ Hpne Hgood) as [_ Gj].
  unfold relate_parts. rewrite (is_empty_str_good _ Hg). cbn [negb orb]. rewrite andb_true_r.
  destruct (has_type es (ref_app curr r ++ join (r_path r))); cbn [negb option_map]; [|reflexivity].
  rewrite sym_key_pair; [reflexivity|apply Hg|apply is_empty_str_good; exact Hg|apply is_empty_str_good; exact Gj].
Qed.

(* ---- every other reference: a module on which the two differ *)
Definition tup (a n:str) : entity := {| e_app := a; e_name := n; e_def := DTuple [] |}.
Lemma wf_tup1 : forall a n, a <> [] -> n <> [] -> wf_es [tup a n].
Proof. intros a n Ha Hn e [<-|[]]. cbn. repeat split; try assumption. discriminate. Qed.

Lemma good_ne : forall s, good_str s -> s <> [].
Proof. intros s [H _]. exact H. Qed.
Lemma str_eqb_longer : forall (c s:str), c <> [] -> str_eqb (c ++ s) s = false.
Proof.
  intros c s Hc. apply str_eqb_neq. intros E. apply (f_equal (@length atom)) in E. rewrite app_length in E.
  destruct c; [contradiction|cbn in E; lia].
Qed.

(* a local reference whose context is not the current application (the context-free reference of an in-place tuple) *)
Lemma differs_ctx : forall curr r t, wf_ref curr r -> ref_of t = Some r -> r_parts r = [] -> r_ctx r <> curr ->
  exists es, wf_es es /\ code_target es t <> spec_target es curr r.
Proof.
  intros curr r t Hwf Ht Hparts Hctx. pose proof Hwf as [[Hc _] [_ [_ [Hcx Happ]]]]. rewrite Hparts in Happ.
  set (jp := join (r_path r)).
  exists [tup curr jp]. assert (W : wf_es [tup curr jp]) by (apply wf_tup1; [exact Hc|apply join_ne]). split; [exact W|].
  rewrite (code_target_form _ t r Ht W). unfold spec_target, resolve, fix_scope. rewrite Hparts. cbn beta iota zeta. destruct (type_map_wf _ W) as [-> _].
  unfold ref_app, code_app. rewrite Happ. fold jp.
  rewrite !has_type_one. unfold relate_parts. fold jp. rewrite !has_type_one. unfold tup, e_key. cbn [e_app e_name].
  rewrite str_eqb_refl. rewrite (str_eqb_neq (curr ++ jp) (r_ctx r ++ jp)) by (intros E; apply app_inv_tail in E; apply Hctx; symmetry; exact E).
  rewrite (str_eqb_longer curr jp Hc). cbn [negb]. rewrite orb_true_r. cbn. discriminate.
Qed.

(* an application part of one element that is not the current application: by the compiler's rule it is an
   application (A.B) or a local type with a nested type (deep reference), depending on the module; the parser rescopes
   direct references, not the elements of collections *)
Lemma differs_one_part : forall curr r t a, wf_ref curr r -> ref_of t = Some r -> r_parts r = [a] -> a <> curr ->
  exists es, wf_es es /\ code_target es t <> spec_target es curr r.
Proof.
  intros curr r t a Hwf Ht Hparts Hne. pose proof Hwf as [[Hc _] [Hpne [Hgood [_ Happ]]]]. rewrite Hparts in Happ.
  destruct Happ as [Ha [Hga Hov]]. destruct (Hov Hne) as [Hov1 Hov2]. pose proof Hga as [Hane _].
  destruct (join_good _ Hpne Hgood) as [Jc Gj]. set (jp := join (r_path r)) in *.
  destruct (r_path r) as [|p0 rest] eqn:Hp; [contradiction|]. cbn [hd] in Hov1.
  set (es := [tup curr a; tup curr (a ++ jp)]).
  assert (W : wf_es es). { intros e [<-|[<-|[]]]; cbn; repeat split; try assumption; try discriminate. destruct a; [contradiction|discriminate]. }
  exists es. split; [exact W|]. rewrite (code_target_form _ t r Ht W).
  assert (Lp : length jp >= length p0). { rewrite Jc. cbn [concat]. rewrite app_length. lia. }
  assert (Lc : length curr > 0) by (destruct curr; [contradiction|cbn; lia]).
  assert (K1 : has_type es (a ++ p0) = false).
  { destruct (has_type es (a ++ p0)) eqn:E; [|reflexivity]. apply has_type_length in E. destruct E as [e [[<-|[<-|[]]] Hk]]; unfold tup, e_key in Hk; cbn [e_app e_name] in Hk.
    - exfalso. apply Hov1. symmetry. exact Hk.
    - exfalso. apply (f_equal (@length atom)) in Hk. rewrite !app_length in Hk. lia. }
  assert (K1' : has_type es (a ++ jp) = false).
  { destruct (has_type es (a ++ jp)) eqn:E; [|reflexivity]. apply has_type_length in E. destruct E as [e [[<-|[<-|[]]] Hk]]; unfold tup, e_key in Hk; cbn [e_app e_name] in Hk.
    - exfalso. apply Hov2. symmetry. exact Hk.
    - exfalso. apply (f_equal (@length atom)) in Hk. rewrite !app_length in Hk. lia. }
  assert (K2 : has_type es (curr ++ a) = true) by (apply (has_type_in es (tup curr a)); left; reflexivity).
  assert (K3 : has_type es (curr ++ a ++ jp) = true) by (apply (has_type_in es (tup curr (a ++ jp))); right; left; reflexivity).
  unfold spec_target, resolve, fix_scope. rewrite Hparts, Hp. rewrite (str_eqb_neq curr a) by (intros E; apply Hne; symmetry; exact E).
  rewrite !has_ent_has_type, K1, K2. cbn [r_app r_path ref_app]. destruct (type_map_wf _ W) as [-> _].
  assert (J : join (a :: p0 :: rest) = a ++ jp).
  { destruct (join_good (a :: p0 :: rest) ltac:(discriminate) (Forall_cons _ Hga Hgood)) as [J' _]. rewrite J'. cbn [concat]. rewrite Jc. reflexivity. }
  rewrite J, K3. unfold code_app. rewrite Ha. unfold relate_parts. fold jp. rewrite K1'. rewrite (is_empty_str_good a Hga). cbn. discriminate.
Qed.

(* ---- the characterisation: the code resolves a reference as the compiler does ON EVERY MODULE exactly when the
   reference is plain.  The two lemmas above are the two classes of the remaining references (before the fixes C15-6
   and C15-7 there were four: nested paths and names with '.' are now resolved as the compiler resolves them). *)
Theorem resolution_agrees_iff : forall curr r t, wf_ref curr r -> ref_of t = Some r ->
  ((forall es, wf_es es -> code_target es t = spec_target es curr r) <-> plain_ref curr r).
Proof.
  intros curr r t Hwf Ht. split.
  - intros H.
    assert (X : forall es, wf_es es -> code_target es t <> spec_target es curr r -> False) by (intros es W N; apply N; apply H; exact W).
    unfold plain_ref. destruct (r_parts r) as [|a [|b ps]] eqn:Hparts; [| |exact I].
    + destruct (str_eqb (r_ctx r) curr) eqn:E; [apply str_eqb_eq in E; exact E|].
      exfalso. destruct (differs_ctx curr r t Hwf Ht Hparts) as [es [W N]]; [intros EE; rewrite EE, str_eqb_refl in E; discriminate|]. exact (X es W N).
    + destruct (str_eqb a curr) eqn:E; [apply str_eqb_eq in E; exact E|].
      exfalso. destruct (differs_one_part curr r t a Hwf Ht Hparts) as [es [W N]]; [intros EE; rewrite EE, str_eqb_refl in E; discriminate|]. exact (X es W N).
  - intros Hpl es W. apply resolution_agrees_plain; assumption.
Qed.

(* non-vacuity: plain references - one element, a nested name, a name with '.' - and modules on which they resolve to
   a declared type; a cross-application reference is well-formed and not plain *)
Definition ex_plain : ref := {| r_ctx := [2%positive]; r_app := None; r_parts := []; r_path := [[5%positive]] |}.
Definition ex_plain_nested : ref := {| r_ctx := [2%positive]; r_app := None; r_parts := []; r_path := [[5%positive]; [6%positive; 7%positive]] |}.
Lemma good1 : forall x:positive, x <> eps -> good_str [x].
Proof. intros x Hx; split; [discriminate|repeat constructor; exact Hx]. Qed.
Example ex_plain_ok : wf_ref [2%positive] ex_plain /\ plain_ref [2%positive] ex_plain /\
  wf_es [tup [2%positive] [5%positive]] /\
  code_target [tup [2%positive] [5%positive]] (FSet (ERef ex_plain)) = Some [2%positive; 5%positive] /\
  spec_target [tup [2%positive] [5%positive]] [2%positive] ex_plain = Some [2%positive; 5%positive].
Proof.
  split; [|split; [|split; [|split]]].
  - unfold wf_ref, ex_plain. cbn. repeat split; try discriminate; repeat constructor; try discriminate.
  - reflexivity.
  - apply wf_tup1; discriminate.
  - reflexivity.
  - reflexivity.
Qed.
Example ex_plain_nested_ok : wf_ref [2%positive] ex_plain_nested /\ plain_ref [2%positive] ex_plain_nested /\
  code_target [tup [2%positive] [5%positive; 6%positive; 7%positive]] (FRef ex_plain_nested) = Some [2%positive; 5%positive; 6%positive; 7%positive] /\
  spec_target [tup [2%positive] [5%positive; 6%positive; 7%positive]] [2%positive] ex_plain_nested = Some [2%positive; 5%positive; 6%positive; 7%positive].
Proof.
  split; [|split; [|split]].
  - unfold wf_ref, ex_plain_nested. cbn. repeat split; try discriminate; repeat constructor; try discriminate.
  - reflexivity.
  - reflexivity.
  - reflexivity.
Qed.
Definition ex_cross : ref := {| r_ctx := [2%positive]; r_app := Some [4%positive]; r_parts := [[4%positive]]; r_path := [[5%positive]] |}.
Example ex_cross_wf : wf_ref [2%positive] ex_cross /\ ~ plain_ref [2%positive] ex_cross.
Proof.
  split.
  - unfold wf_ref, ex_cross. cbn. repeat split; try discriminate; repeat constructor; try discriminate.
  - intros H. cbn in H. discriminate.
Qed.
