(* C15 MODEL (definitions only): pkg/datamodeldiagram/datamodelview.go
     UniqueVarForAppName, getNames, DrawRelation, DrawPrimitive, DrawTuple, DrawEnum (header and item lines),
     DrawRelationship, GenerateDataView
   transliterated statement by statement, parameterised by the shape table Gen/DmShape.v.  Since the second pass of
   round 3 the model follows the code as repaired by fixes/C15-3 ... C15-9 (entityApps / viewApps, EntityViewParam.EntityApp,
   collectionOf, addRelationship, whole-path type names); the alternatives of the unrepaired code stay under their
   shape constructors (TargetAppPath, RelAppFirstToken, ViewAppEq).

   Representation of Go strings.  The code handles names only by strings.Split(s, "."),
   strings.Join(parts, "."), `a + "." + b`, equality / map lookup.  A Go string is therefore modelled
   by the list of its '.'-free chunks (`str` = what strings.Split(s, ".") returns, never []); a chunk
   (`atom`) is an opaque positive owned by the harness, 1 being the empty chunk.  With that reading
   Split is the identity, Join is concatenation (Join of no part is ""), and `s != ""` is `s <> [1]`.
   Application names (JoinAppName) are strings like any other: a name written with %2E contains '.' and is
   a list of several chunks (round 3; before, application names were single atoms).

   Abstractions (stated in notes/C15.md): Go map iteration followed by sort.Strings is replaced by the
   harness presenting entities and fields in sort.Strings order (all theorems hold for every order);
   the nested relationship map is one map keyed by the pair (from alias, to alias) - the empty inner
   maps the code creates have no output; aliases "_<n>" are the numbers n, compared as decimal strings
   where the code sorts them; the title and the PlantUML header are not modelled.  Enum items: the code sorts the
   names by (value, name); the harness presents the items in sort.Strings order of the names. *)
From Coq Require Import List PeanoNat PArith ZArith Bool Decimal.
Import ListNotations.
Require Import Verif.DataModel.DmShapeTypes.

Definition atom := positive.
Definition eps : atom := 1%positive.
Definition str := list atom.
Definition empty_str : str := [eps].

Fixpoint str_eqb (a b:str) : bool :=
  match a, b with
  | [], [] => true
  | x :: a', y :: b' => Pos.eqb x y && str_eqb a' b'
  | _, _ => false
  end.

(* strings.Join(parts, ".") *)
Definition join (parts:list str) : str := match concat parts with [] => empty_str | l => l end.
(* the variadic argument built by strings.Split(s, ".")... *)
Definition split_args (s:str) : list str := map (fun a => [a]) s.

(* ---------- input: projection of *sysl.Module read by GenerateDataView ---------- *)
Record ref := {
  r_ctx : str;                  (* JoinAppName(typeRef.Context.Appname); "" = empty_str when absent *)
  r_app : option str;           (* Some (JoinAppName ref.Appname) iff ref.Appname.Part != nil *)
  r_parts : list str;           (* ref.Appname.Part, element by element (printed by DrawRelation for a short path) *)
  r_path : list str             (* ref.Path *)
}.
(* the argument of getNames: element of a collection, or a reference field itself *)
Inductive ety := EPrim (p:nat) | ERef (r:ref) | EOther.
Inductive fty :=
| FPrim (p:nat)                 (* GetPrimitive() != NO_Primitive; p = the enum value *)
| FRef (r:ref)
| FSet (e:ety) | FSeq (e:ety) | FList (e:ety)
| FOther.                       (* no type, tuple (re-nested), map, one_of ... *)
Definition fields := list (positive * fty).         (* attrNames after sort.Strings; names opaque *)
Inductive tdef :=
| DRel (fs:fields) | DTuple (fs:fields) | DPrim (p:nat)
| DEnum (items:list (positive * Z))   (* entity.Items in sort.Strings order of the names: name, value *)
| DOther                        (* Type != nil but none of the four: union, non-primitive alias, ... *)
| DNil.                         (* Type == nil : goes to ignoredTypes *)
Record entity := { e_app : str; e_name : str; e_def : tdef }.
Definition e_key (e:entity) : str := e_app e ++ e_name e.      (* JoinAppName(app.Name) + "." + typeName *)

(* ---------- output ---------- *)
Inductive card := CBlank | CMany | COne.            (* " " | "0..*" | "1..1 " *)
Inductive ckind := KSet | KSeq | KList.
Inductive lname := LP (p:nat) | LN (s:str).
Inductive flabel :=
| LPrim (p:nat)                 (* + f : <lower-case primitive name>      (0 prints no_primitive) *)
| LRefd (l:str)                 (* + f : **l** *)
| LFK (l:str)                   (* + f : **l** <<FK>> *)
| LColl (k:ckind) (l:lname).    (* + f : **Set <l>** etc. *)
Inductive chead := HClass | HPrim (p:nat) | HEnum.
Inductive item :=
| IClass (alias:nat) (name:str) (h:chead)
| IField (f:positive) (l:flabel)
| IItem (n:positive)            (* a line of an enum block: the name of an enumerator *)
| IEnd
| IEdge (from to:nat) (c:card) (relation_arrow:bool).

Inductive outcome (A:Type) := Ok (a:A) | Panic (site:nat).
Arguments Ok {A}. Arguments Panic {A}.

(* ---------- state ---------- *)
Definition relmap := list ((nat * nat) * (nat * card * nat)).   (* (from,to) -> Entity, Relationship, Count *)
Record st := { syms : list str; rel : relmap }.

Fixpoint index_of (k:str) (l:list str) : option nat :=
  match l with
  | [] => None
  | x :: l' => if str_eqb k x then Some 0 else option_map S (index_of k l')
  end.

Definition is_empty_str (s:str) : bool := str_eqb s empty_str.
Definition sym_key (parts:list str) : str := join (filter (fun s => negb (is_empty_str s)) parts).

(* UniqueVarForAppName *)
Definition uvar (sy:list str) (parts:list str) : list str * nat :=
  let key := sym_key parts in
  match index_of key sy with
  | Some i => (sy, i)
  | None => (sy ++ [key], length sy)
  end.

Definition apply_count (op:countop) (old:nat) : nat :=
  match op with
  | CountConst n => n
  | CountInc n => old + n
  | CountKeep => old
  | UnknownCount => 0
  end.

Definition pair_eqb (a b:nat*nat) : bool := Nat.eqb (fst a) (fst b) && Nat.eqb (snd a) (snd b).

(* the `if _, mulRelation := relationshipMap[enc][target]; mulRelation {...} else {...}` statement *)
Fixpoint bump (cnew cagain:countop) (r:relmap) (k:nat*nat) (c:card) : relmap :=
  match r with
  | [] => [(k, (snd k, c, apply_count cnew 0))]
  | (k', (e', c', n')) :: r' =>
      if pair_eqb k k' then (k', (e', c', apply_count cagain n')) :: r'
      else (k', (e', c', n')) :: bump cnew cagain r' k c
  end.

(* class key per drawer *)
Definition enc_parts (kf:keyform) (e:entity) : list str :=
  match kf with
  | FullSplit => split_args (e_key e)
  | _ => [[last (e_key e) eps]]
  end.

Definition find_type (tm:list entity) (k:str) : option entity := find (fun e => str_eqb (e_key e) k) tm.
Definition has_type (tm:list entity) (k:str) : bool := match find_type tm k with Some _ => true | None => false end.
Definition mem_str (k:str) (l:list str) : bool := existsb (str_eqb k) l.

(* ---------- getNames ---------- *)
Definition get_names (e:ety) : str * list str * lname * bool :=
  match e with
  | EPrim p => (empty_str, [], LP p, true)    (* path = [label], never inspected when isPrimitiveList *)
  | ERef r =>
      let app := match r_app r with Some a => a | None => r_ctx r end in   (* `len(path) > 1` reads the still-nil result *)
      let pl := join (r_path r) in
      let label := if str_eqb app (r_ctx r) || is_empty_str app then pl else app ++ pl in
      (app, r_path r, LN label, false)
  | EOther => (empty_str, [], LN empty_str, false)
  end.

(* ---------- DrawRelation ---------- *)
(* entityApp: viewParam.EntityApp = entityApps[entityName], the application the table belongs to (fix C15-4); before,
   strings.Split(viewParam.EntityName, ".")[0] : the FIRST CHUNK of the name, which is the application only when the
   application name has no '.' *)
Definition entity_app (ra:relapp) (e:entity) : str :=
  match ra with RelAppParam => e_app e | _ => [hd eps (e_key e)] end.

(* the `if _, mulRelation := ...` statement with the counts of the current source: Count 1, then Count + 1
   (DrawRelation / DrawTuple inline, shape table) and the helper addRelationship (fix C15-8, text table) *)
Definition add_relationship (r:relmap) (k:nat*nat) (c:card) : relmap := bump (CountConst 1) (CountInc 1) r k c.

(* collectionOf + the column line of a set / sequence / list column (fixes C15-5, C15-8): listed like the same field of
   a tuple, related to the type of its elements when `appName.JoinTypePath(path)` is a type of the model *)
Definition draw_rel_coll (tm:list entity) (enc:nat) (s:st) (fname:positive) (k:ckind)
           (gn:str * list str * lname * bool) : st * list item :=
  let '(app, path, lab, isprim) := gn in
  let tn := join path in
  if negb isprim && has_type tm (app ++ tn)
  then let '(sy, tgt) := uvar (syms s) [app; tn] in
       ({| syms := sy; rel := add_relationship (rel s) (enc, tgt) CMany |}, [IField fname (LColl k lab)])
  else (s, [IField fname (LColl k lab)]).

Definition draw_rel_field (sh:shape) (tm:list entity) (eapp:str) (enc:nat) (s:st) (f:positive * fty)
  : outcome (st * list item) :=
  match snd f with
  | FRef r =>
      match r_path r with
      | p0 :: p1 :: _ =>
          let tapp := match r_app r with Some a => a | None => eapp end in
          (* targetTable := JoinTypePath(path[:len(path)-1]), column path[len(path)-1] (fix C15-7); before: Path[0], Path[1] *)
          let '(table, col) := match sh_rel_target sh with
                               | TargetAppTable => (join (removelast (r_path r)), last (r_path r) empty_str)
                               | _ => (p0, p1)
                               end in
          let tparts := match sh_rel_target sh with
                        | TargetAppTable | TargetAppPath => [tapp; table]
                        | _ => [table]
                        end in
          if sh_rel_checks_target sh && negb (has_type tm (tapp ++ table))
          then Ok (s, [IField (fst f) (LFK (table ++ col))])
          else
          let '(sy, tgt) := uvar (syms s) tparts in
          Ok ({| syms := sy; rel := bump (sh_rel_count_new sh) (sh_rel_count_again sh) (rel s) (enc, tgt) CBlank |},
              [IField (fst f) (LFK (table ++ col))])
      | short =>
          if sh_rel_guards_short_path sh
          then (* len(Path) < 2: "+ f : **<Appname.Part and Path joined by '.'>**", no relation *)
               Ok (s, [IField (fst f) (LRefd (join (r_parts r ++ short)))])
          else Panic 1           (* Path[0] / Path[1] : index out of range *)
      end
  | FPrim p => Ok (s, [IField (fst f) (LPrim p)])
  | FList e => Ok (draw_rel_coll tm enc s (fst f) KList (get_names e))
  | FSet e => Ok (draw_rel_coll tm enc s (fst f) KSet (get_names e))
  | FSeq e => Ok (draw_rel_coll tm enc s (fst f) KSeq (get_names e))
  | FOther => Ok (s, [IField (fst f) (LPrim 0)])      (* strings.ToLower(NO_Primitive.String()) *)
  end.

Fixpoint draw_rel_fields (sh:shape) (tm:list entity) (eapp:str) (enc:nat) (s:st) (fs:fields) : outcome (st * list item) :=
  match fs with
  | [] => Ok (s, [])
  | f :: fs' =>
      match draw_rel_field sh tm eapp enc s f with
      | Panic n => Panic n
      | Ok (s1, o1) =>
          match draw_rel_fields sh tm eapp enc s1 fs' with
          | Panic n => Panic n
          | Ok (s2, o2) => Ok (s2, o1 ++ o2)
          end
      end
  end.

Definition draw_relation (sh:shape) (tm:list entity) (s:st) (e:entity) (fs:fields) : outcome (st * list item) :=
  let '(sy, enc) := uvar (syms s) (enc_parts (sh_rel_key sh) e) in
  match draw_rel_fields sh tm (entity_app (sh_rel_app sh) e) enc {| syms := sy; rel := rel s |} fs with
  | Panic n => Panic n
  | Ok (s', o) => Ok (s', IClass enc (e_key e) HClass :: o ++ [IEnd])
  end.

(* ---------- DrawPrimitive ---------- *)
Definition draw_primitive (sh:shape) (s:st) (e:entity) (p:nat) : st * list item :=
  let '(sy, enc) := uvar (syms s) (enc_parts (sh_prim_key sh) e) in
  ({| syms := sy; rel := rel s |}, [IClass enc (e_key e) (HPrim p); IEnd]).

(* ---------- DrawEnum ---------- *)
(* (since cdeb394) names := the keys of entity.Items; sort.Slice(names, by (Items[name], name)); one line per name.
   The comparison is a total order on the (distinct) names, so the result does not depend on the map order: the
   harness presents the items in sort.Strings order of the names and the model sorts them stably by value. *)
Fixpoint insert_item (x:positive * Z) (l:list (positive * Z)) : list (positive * Z) :=
  match l with [] => [x] | y :: l' => if Z.leb (snd x) (snd y) then x :: l else y :: insert_item x l' end.
Fixpoint sort_items (l:list (positive * Z)) : list (positive * Z) :=
  match l with [] => [] | x :: l' => insert_item x (sort_items l') end.
(* for _, name := range names { WriteString(name + "\n") } *)
Definition enum_lines (items:list (positive * Z)) : list item := map (fun x => IItem (fst x)) (sort_items items).
Definition draw_enum (sh:shape) (s:st) (e:entity) (items:list (positive * Z)) : st * list item :=
  let '(sy, enc) := uvar (syms s) (enc_parts (sh_enum_key sh) e) in
  ({| syms := sy; rel := rel s |}, IClass enc (e_key e) HEnum :: enum_lines items ++ [IEnd]).

(* ---------- DrawTuple ---------- *)
(* the part after the switch: `if !isPrimitiveList {...} else {...}` *)
Definition tuple_relate (sh:shape) (tm:list entity) (enc:nat) (s:st) (fname:positive) (lab:flabel)
           (app:str) (path:list str) (isprim:bool) (c:card) : outcome (st * list item) :=
  if isprim then Ok (s, [IField fname lab])
  else
    (* typeName := JoinTypePath(path): the whole path names the type (fix C15-7; before: application path[0], type
       path[1] for a path of several elements, and a panic on the empty path);
       Types[appName.typeName] == nil && (appName != "" || Types[typeName] == nil) -> no relationship (fix C15-6;
       before, the bare lookup counted with any application) *)
    let tn := join path in
    if negb (has_type tm (app ++ tn)) && (negb (is_empty_str app) || negb (has_type tm tn))
    then Ok (s, [IField fname lab])
    else
      let '(sy, tgt) := uvar (syms s) [app; tn] in
      Ok ({| syms := sy; rel := bump (sh_tuple_count_new sh) (sh_tuple_count_again sh) (rel s) (enc, tgt) c |},
          [IField fname lab]).

Definition draw_tuple_field (sh:shape) (tm:list entity) (ign:list str) (enc:nat) (s:st) (f:positive * fty)
  : outcome (st * list item) :=
  match snd f with
  | FPrim p => Ok (s, [IField (fst f) (LPrim p)])
  | FList e =>
      let '(app, path, lab, isprim) := get_names e in
      tuple_relate sh tm enc s (fst f) (LColl KList lab) app path isprim CMany
  | FSet e =>
      let '(app, path, lab, isprim) := get_names e in
      tuple_relate sh tm enc s (fst f) (LColl KSet lab) app path isprim CMany
  | FSeq e =>
      let '(app, path, lab, isprim) := get_names e in
      (* fullName := JoinTypePath(append([]string{appName}, path...)); a primitive element gives ".<prim>",
         which is the name of no type of a named application *)
      if negb isprim && mem_str (join (app :: path)) ign then Ok (s, [IField (fst f) (LColl KSeq lab)])
      else tuple_relate sh tm enc s (fst f) (LColl KSeq lab) app path isprim CMany
  | FRef r =>
      let '(app, path, lab, isprim) := get_names (ERef r) in
      let l := match lab with LN l => l | LP _ => empty_str end in
      if mem_str (join path) ign then Ok (s, [IField (fst f) (LRefd l)])
      else tuple_relate sh tm enc s (fst f) (LRefd l) app path isprim COne
  | FOther => Ok (s, [])                              (* default: continue *)
  end.

Fixpoint draw_tuple_fields (sh:shape) (tm:list entity) (ign:list str) (enc:nat) (s:st) (fs:fields)
  : outcome (st * list item) :=
  match fs with
  | [] => Ok (s, [])
  | f :: fs' =>
      match draw_tuple_field sh tm ign enc s f with
      | Panic n => Panic n
      | Ok (s1, o1) =>
          match draw_tuple_fields sh tm ign enc s1 fs' with
          | Panic n => Panic n
          | Ok (s2, o2) => Ok (s2, o1 ++ o2)
          end
      end
  end.

Definition draw_tuple (sh:shape) (tm:list entity) (ign:list str) (s:st) (e:entity) (fs:fields)
  : outcome (st * list item) :=
  let '(sy, enc) := uvar (syms s) (enc_parts (sh_tuple_key sh) e) in
  match draw_tuple_fields sh tm ign enc {| syms := sy; rel := rel s |} fs with
  | Panic n => Panic n
  | Ok (s', o) => Ok (s', IClass enc (e_key e) HClass :: o ++ [IEnd])
  end.

(* ---------- DrawRelationship: sort.Strings over "_<n>" ---------- *)
Fixpoint uint_digits (u:Decimal.uint) : list nat :=
  match u with
  | Decimal.Nil => []
  | Decimal.D0 u => 0 :: uint_digits u | Decimal.D1 u => 1 :: uint_digits u | Decimal.D2 u => 2 :: uint_digits u
  | Decimal.D3 u => 3 :: uint_digits u | Decimal.D4 u => 4 :: uint_digits u | Decimal.D5 u => 5 :: uint_digits u
  | Decimal.D6 u => 6 :: uint_digits u | Decimal.D7 u => 7 :: uint_digits u | Decimal.D8 u => 8 :: uint_digits u
  | Decimal.D9 u => 9 :: uint_digits u
  end.
Definition digits (n:nat) : list nat := uint_digits (Nat.to_uint n).
Fixpoint lex_leb (a b:list nat) : bool :=
  match a, b with
  | [], _ => true
  | _ :: _, [] => false
  | x :: a', y :: b' => if Nat.ltb x y then true else if Nat.ltb y x then false else lex_leb a' b'
  end.
Definition alias_leb (a b:nat) : bool := lex_leb (digits a) (digits b).
Definition key_leb (a b:nat*nat) : bool :=
  if Nat.eqb (fst a) (fst b) then alias_leb (snd a) (snd b) else alias_leb (fst a) (fst b).

Fixpoint insert_rel (x:(nat*nat) * (nat*card*nat)) (l:relmap) : relmap :=
  match l with
  | [] => [x]
  | y :: l' => if key_leb (fst x) (fst y) then x :: l else y :: insert_rel x l'
  end.
Fixpoint sort_rel (l:relmap) : relmap := match l with [] => [] | x :: l' => insert_rel x (sort_rel l') end.

Definition edge_lines (arrow:bool) (x:(nat*nat) * (nat*card*nat)) : list item :=
  match x with ((from, _), (ent, c, n)) => repeat (IEdge from ent c arrow) n end.
Definition draw_relationship (r:relmap) (arrow:bool) : list item := flat_map (edge_lines arrow) (sort_rel r).

(* ---------- GenerateDataView ---------- *)
Definition is_nil (e:entity) : bool := match e_def e with DNil => true | _ => false end.
Definition type_map (es:list entity) : list entity := filter (fun e => negb (is_nil e)) es.
Definition ignored (es:list entity) : list str := map e_key (filter is_nil es).

Definition kind_matches (k:dkind) (d:tdef) : bool :=
  match k, d with
  | KRelation, DRel _ | KTuple, DTuple _ | KPrimitive, DPrim _ | KEnum, DEnum _ => true
  | _, _ => false
  end.

(* the per-application view keeps an entity iff this holds.  filt = Some apps : dataParam.Epname, apps = the keys of
   viewApps = JoinAppName of dataParam.Apps, or of dataParam.App alone when Apps is empty (DmWrap.view_of) *)
Definition in_view (vt:viewtest) (filt:option (list str)) (e:entity) : bool :=
  match filt with
  | None => true
  | Some apps => match vt with
                 | ViewAppsMember => existsb (str_eqb (e_app e)) apps          (* viewApps[entityApps[entityName]] *)
                 | ViewAppEq => existsb (str_eqb [hd eps (e_key e)]) apps      (* (before C15-3) strings.Split(entityName, ".")[0] == appName *)
                 | UnknownView => true
                 end
  end.

(* one entity through the if / else-if chain (branches in the order of the source) *)
Definition draw_entity (sh:shape) (tm:list entity) (ign:list str) (s:st) (isrel:bool) (e:entity)
  : outcome (st * bool * list item) :=
  match find (fun k => kind_matches k (e_def e)) (sh_dispatch sh) with
  | None => Ok (s, isrel, [])
  | Some _ =>
      match e_def e with
      | DRel fs => match draw_relation sh tm s e fs with Panic n => Panic n | Ok (s', o) => Ok (s', true, o) end
      | DTuple fs => match draw_tuple sh tm ign s e fs with Panic n => Panic n | Ok (s', o) => Ok (s', false, o) end
      | DPrim p => let '(s', o) := draw_primitive sh s e p in Ok (s', false, o)
      | DEnum items => let '(s', o) := draw_enum sh s e items in Ok (s', false, o)
      | _ => Ok (s, isrel, [])
      end
  end.

Fixpoint draw_entities (sh:shape) (filt:option (list str)) (tm:list entity) (ign:list str) (s:st) (isrel:bool)
         (es:list entity) : outcome (st * bool * list item) :=
  match es with
  | [] => Ok (s, isrel, [])
  | e :: es' =>
      if negb (in_view (sh_view sh) filt e) then draw_entities sh filt tm ign s isrel es'
      else match draw_entity sh tm ign s isrel e with
           | Panic n => Panic n
           | Ok (s1, r1, o1) =>
               match draw_entities sh filt tm ign s1 r1 es' with
               | Panic n => Panic n
               | Ok (s2, r2, o2) => Ok (s2, r2, o1 ++ o2)
               end
           end
  end.

Definition init_st : st := {| syms := []; rel := [] |}.

(* filt = Some apps : dataParam.Epname restricted to the applications apps; es = every type of every application,
   in sort.Strings order of App.Type *)
Definition draw_with (sh:shape) (filt:option (list str)) (es:list entity) : outcome (list item) :=
  let tm := type_map es in
  match draw_entities sh filt tm (ignored es) init_st false tm with
  | Panic n => Panic n
  | Ok (s, isrel, o) => Ok (o ++ draw_relationship (rel s) isrel)
  end.
