(* The obligation against the CURRENT source: the shape table regenerated from datamodelview.go equals the
   shape the theorems of DmProps.v are proved for.  Breaks (reflexivity fails) when a Draw* function changes
   the way it allocates aliases, counts references, or the per-kind dispatch. *)
From Coq Require Import List.
Import ListNotations.
Require Import Verif.DataModel.DmShapeTypes Verif.DataModel.DmModel Verif.Gen.DmShape.
Require Export Verif.DataModel.DmDraw.     (* draw: the model of the current source *)

Definition fixed_shape : shape := {|
  sh_rel_key := FullSplit; sh_prim_key := LastToken; sh_tuple_key := FullSplit; sh_enum_key := FullSplit;
  sh_rel_target := TargetAppTable; sh_rel_app := RelAppParam; sh_rel_guards_short_path := true; sh_rel_checks_target := true;
  sh_rel_count_new := CountConst 1; sh_rel_count_again := CountInc 1;
  sh_tuple_count_new := CountConst 1; sh_tuple_count_again := CountInc 1;
  sh_dispatch := [KRelation; KTuple; KPrimitive; KEnum];
  sh_view := ViewAppsMember
|}.

Lemma shape_current : shape_of_source = fixed_shape.
Proof. reflexivity. Qed.

