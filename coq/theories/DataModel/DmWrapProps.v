(* C15 PROOFS about DmWrap.gen_models: which view `sysl datamodel` stores under which output name. *)
From Coq Require Import List PArith Bool Lia.
Import ListNotations.
Require Import Verif.DataModel.DmShapeTypes Verif.DataModel.DmModel Verif.DataModel.DmWrap.

Lemma wlookup_app : forall k m1 m2, wlookup k (m1 ++ m2) = match wlookup k m2 with Some x => Some x | None => wlookup k m1 end.
Proof.
  induction m1 as [|[k' v] m1 IH]; intros m2; cbn [app wlookup]; [destruct (wlookup k m2); reflexivity|].
  rewrite IH. destruct (wlookup k m2); [reflexivity|]. reflexivity.
Qed.
Lemma wlookup_none : forall k m, ~ In k (wkeys m) -> wlookup k m = None.
Proof.
  induction m as [|[k' v] m IH]; intros H; [reflexivity|]. cbn [wlookup]. cbn [wkeys map fst In] in H.
  rewrite IH by (intros Hin; apply H; right; exact Hin).
  destruct (Pos.eqb k k') eqn:E; [apply Pos.eqb_eq in E; subst; exfalso; apply H; left; reflexivity|reflexivity].
Qed.
Lemma wlookup_in : forall k m v, wlookup k m = Some v -> In (k, v) m.
Proof.
  induction m as [|[k' v'] m IH]; intros v; cbn [wlookup]; [discriminate|].
  destruct (wlookup k m) as [x|] eqn:E.
  - intros [= <-]. right. apply IH. reflexivity.
  - destruct (Pos.eqb k k') eqn:E2; [|discriminate]. apply Pos.eqb_eq in E2. subst. intros [= <-]. left. reflexivity.
Qed.
Lemma wlookup_some_of_key : forall k m, In k (wkeys m) -> exists v, wlookup k m = Some v.
Proof.
  intros k m H. destruct (wlookup k m) as [v|] eqn:E; [eauto|].
  exfalso. revert H E. induction m as [|[k' v'] m IH]; [intros []|]. cbn [wkeys map fst In wlookup].
  destruct (wlookup k m); [discriminate|]. intros [->|H]; [rewrite Pos.eqb_refl; discriminate|]. intros _. apply IH; [exact H|reflexivity].
Qed.

(* --direct, output name without %(epname): one file, the whole-model view *)
Theorem direct_whole_model : forall output apps m, gen_models (WDirect false output apps) = Some m ->
  (forall k v, In (k, v) m -> k = output /\ v = None) /\
  (apps <> [] -> wlookup output m = Some None) /\ (apps = [] -> m = []).
Proof.
  intros output apps m [= <-]. unfold pure_module. cbn [view_of]. split; [|split].
  - intros k v H. apply in_map_iff in H. destruct H as [a [[= <- <-] _]]. split; reflexivity.
  - intros Hne. destruct apps as [|a apps]; [contradiction|]. cbn [map].
    destruct (wlookup_some_of_key output ((output, None) :: map (fun _ : wapp => (output, @None (list str))) apps)) as [v Hv]; [left; reflexivity|].
    rewrite Hv. f_equal. apply wlookup_in in Hv. destruct Hv as [[= <-]|Hv]; [reflexivity|].
    apply in_map_iff in Hv. destruct Hv as [a' [[= <-] _]]. reflexivity.
  - intros ->. reflexivity.
Qed.

(* --direct with %(epname): one file per application, holding the per-application view of exactly that application,
   provided no two applications are given the same file name *)
Lemma pure_lookup : forall output apps a, NoDup (map w_out apps) -> In a apps ->
  wlookup (w_out a) (pure_module true output apps) = Some (Some [w_name a]).
Proof.
  intros output. unfold pure_module. cbn [view_of].
  induction apps as [|b apps IH]; intros a Hnd Hin; [destruct Hin|]. cbn [map] in Hnd. inversion Hnd as [|? ? Hni Hnd']; subst.
  cbn [map wlookup]. destruct Hin as [->|Hin].
  - rewrite wlookup_none; [rewrite Pos.eqb_refl; reflexivity|].
    unfold wkeys. rewrite map_map. cbn [fst]. exact Hni.
  - rewrite (IH a Hnd' Hin). reflexivity.
Qed.
Theorem direct_per_app_exact : forall output apps m, gen_models (WDirect true output apps) = Some m ->
  NoDup (map w_out apps) ->
  (forall a, In a apps -> wlookup (w_out a) m = Some (Some [w_name a])) /\
  (forall k, In k (wkeys m) -> exists a, In a apps /\ k = w_out a).
Proof.
  intros output apps m [= <-] Hnd. split.
  - intros a Hin. apply pure_lookup; assumption.
  - intros k Hk. unfold wkeys, pure_module in Hk. rewrite map_map in Hk. cbn [fst] in Hk.
    apply in_map_iff in Hk. destruct Hk as [a [<- Hin]]. eauto.
Qed.
Example direct_per_app_example : NoDup (map w_out [ {| w_name := [2%positive]; w_out := 5%positive |}; {| w_name := [3%positive]; w_out := 6%positive |} ]).
Proof. repeat constructor; cbn; intuition discriminate. Qed.

(* project manner (fix C15-9): the file of an endpoint holds ONE view, restricted (with %(epname)) to ALL the applications
   its action statements name; an endpoint that names none writes no file *)
Lemma data_model_lookup : forall has_ep out stmts,
  wlookup out (data_model has_ep out stmts) =
    match named_apps stmts with [] => None | named => Some (view_of has_ep named) end /\
  forall k, k <> out -> wlookup k (data_model has_ep out stmts) = None.
Proof.
  intros has_ep out stmts. unfold data_model, view_apps. destruct (named_apps stmts) as [|a l]; [split; reflexivity|]. split.
  - cbn [wlookup]. rewrite Pos.eqb_refl. reflexivity.
  - intros k Hk. cbn [wlookup]. destruct (Pos.eqb k out) eqn:E; [apply Pos.eqb_eq in E; contradiction|reflexivity].
Qed.
Lemma data_model_keys : forall has_ep out stmts k, In k (wkeys (data_model has_ep out stmts)) -> k = out.
Proof.
  intros has_ep out stmts k. unfold data_model. destruct (named_apps stmts); cbn; [intros []|intros [<-|[]]; reflexivity].
Qed.

Theorem project_endpoint_exact : forall has_ep eps m e, gen_models (WProject true has_ep eps) = Some m ->
  NoDup (map ep_out eps) -> In e eps -> ep_match e = true ->
  wlookup (ep_out e) m = match named_apps (ep_stmts e) with [] => None | named => Some (view_of has_ep named) end.
Proof.
  intros has_ep eps m e [= <-]. unfold project_manner. induction eps as [|e' eps IH]; intros Hnd Hin Hm; [destruct Hin|].
  cbn [map] in Hnd. inversion Hnd as [|? ? Hni Hnd']; subst. cbn [flat_map]. rewrite wlookup_app. destruct Hin as [->|Hin].
  - rewrite Hm. rewrite wlookup_none.
    + apply data_model_lookup.
    + unfold wkeys. intros H. apply in_map_iff in H. destruct H as [[k v] [Hk H]]. cbn [fst] in Hk. subst k.
      apply in_flat_map in H. destruct H as [e2 [He2 H]]. destruct (ep_match e2); [|destruct H].
      assert (K : ep_out e = ep_out e2) by (apply (data_model_keys has_ep (ep_out e2) (ep_stmts e2)); unfold wkeys; apply in_map_iff; exists (ep_out e, v); split; [reflexivity|exact H]).
      apply Hni. rewrite K. apply in_map. exact He2.
  - rewrite (IH Hnd' Hin Hm). destruct (named_apps (ep_stmts e)); [|reflexivity].
    destruct (ep_match e'); [|reflexivity]. apply data_model_lookup. intros E. apply Hni. rewrite <- E. apply in_map. exact Hin.
Qed.

(* the applications a statement list names: every action statement naming an application of the model, in order *)
Lemma named_apps_spec : forall stmts a, In a (named_apps stmts) <-> In (WAction (Some a)) stmts.
Proof.
  intros stmts a. unfold named_apps. rewrite in_flat_map. split.
  - intros [s [Hs Hin]]. destruct s as [[b|]|]; cbn [In] in Hin; try destruct Hin as [<-|[]]; try destruct Hin. exact Hs.
  - intros H. exists (WAction (Some a)). split; [exact H|left; reflexivity].
Qed.

(* ... so an endpoint covers every application it names (the refutation of the first pass is gone): with %(epname) the
   file of a matched endpoint is the view restricted to exactly the named applications *)
Theorem project_endpoint_covers_all : forall eps m e a, gen_models (WProject true true eps) = Some m ->
  NoDup (map ep_out eps) -> In e eps -> ep_match e = true -> In (WAction (Some a)) (ep_stmts e) ->
  exists named, wlookup (ep_out e) m = Some (Some named) /\ (forall b, In b named <-> In (WAction (Some b)) (ep_stmts e)).
Proof.
  intros eps m e a Hg Hnd Hin Hm Ha. rewrite (project_endpoint_exact _ _ _ _ Hg Hnd Hin Hm).
  apply named_apps_spec in Ha. destruct (named_apps (ep_stmts e)) as [|x l] eqn:E; [destruct Ha|].
  exists (x :: l). split; [reflexivity|]. intros b. rewrite <- E. apply named_apps_spec.
Qed.
Example project_endpoint_example :
  NoDup (map ep_out [ {| ep_out := 7%positive; ep_match := true; ep_stmts := [WAction (Some [2%positive]); WOther; WAction None; WAction (Some [3%positive])] |} ]) /\
  gen_models (WProject true true [ {| ep_out := 7%positive; ep_match := true; ep_stmts := [WAction (Some [2%positive]); WOther; WAction None; WAction (Some [3%positive])] |} ])
    = Some [(7%positive, Some [[2%positive]; [3%positive]])].
Proof. split; [repeat constructor; intros []|reflexivity]. Qed.
