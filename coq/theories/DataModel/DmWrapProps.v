(* C15 PROOFS about DmWrap.gen_models: which view `sysl datamodel` stores under which output name. *)
From Coq Require Import List PArith Bool Lia.
Import ListNotations.
Require Import Verif.DataModel.DmShapeTypes Verif.DataModel.DmModel Verif.DataModel.DmWrap.

Lemma wlookup_app : forall k m1 m2, wlookup k (m1 ++ m2) = match wlookup k m2 with Some x => Some x | None => wlookup k m1 end.
Proof.
  induction m1 as [|[k' v] m1 IH]; intros m2; cbn [app wlookup]; [destruct (wlookup k m2); reflexivity|].
  rewrite IH. destruct (wlookup k m2); [reflexivity|]. reflexivity.
Qed.
Lemma wlookup_none : forall k m, ~ In k (wkeys m) -> wlookup k m = None.
Proof.
  induction m as [|[k' v] m IH]; intros H; [reflexivity|]. cbn [wlookup]. cbn [wkeys map fst In] in H.
  rewrite IH by (intros Hin; apply H; right; exact Hin).
  destruct (Pos.eqb k k') eqn:E; [apply Pos.eqb_eq in E; subst; exfalso; apply H; left; reflexivity|reflexivity].
Qed.
Lemma wlookup_in : forall k m v, wlookup k m = Some v -> In (k, v) m.
Proof.
  induction m as [|[k' v'] m IH]; intros v; cbn [wlookup]; [discriminate|].
  destruct (wlookup k m) as [x|] eqn:E.
  - intros [= <-]. right. apply IH. reflexivity.
  - destruct (Pos.eqb k k') eqn:E2; [|discriminate]. apply Pos.eqb_eq in E2. subst. intros [= <-]. left. reflexivity.
Qed.
Lemma wlookup_some_of_key : forall k m, In k (wkeys m) -> exists v, wlookup k m = Some v.
Proof.
  intros k m H. destruct (wlookup k m) as [v|] eqn:E; [eauto|].
  exfalso. revert H E. induction m as [|[k' v'] m IH]; [intros []|]. cbn [wkeys map fst In wlookup].
  destruct (wlookup k m); [discriminate|]. intros [->|H]; [rewrite Pos.eqb_refl; discriminate|]. intros _. apply IH; [exact H|reflexivity].
Qed.

(* --direct, output name without %(epname): one file, the whole-model view *)
Theorem direct_whole_model : forall output apps m, gen_models (WDirect false output apps) = Some m ->
  (forall k v, In (k, v) m -> k = output /\ v = None) /\
  (apps <> [] -> wlookup output m = Some None) /\ (apps = [] -> m = []).
Proof.
  intros output apps m [= <-]. unfold pure_module. cbn [view_of]. split; [|split].
  - intros k v H. apply in_map_iff in H. destruct H as [a [[= <- <-] _]]. split; reflexivity.
  - intros Hne. destruct apps as [|a apps]; [contradiction|]. cbn [map].
    destruct (wlookup_some_of_key output ((output, None) :: map (fun _ : wapp => (output, @None str)) apps)) as [v Hv]; [left; reflexivity|].
    rewrite Hv. f_equal. apply wlookup_in in Hv. destruct Hv as [[= <-]|Hv]; [reflexivity|].
    apply in_map_iff in Hv. destruct Hv as [a' [[= <-] _]]. reflexivity.
  - intros ->. reflexivity.
Qed.

(* --direct with %(epname): one file per application, holding the per-application view of exactly that application,
   provided no two applications are given the same file name *)
Lemma pure_lookup : forall output apps a, NoDup (map w_out apps) -> In a apps ->
  wlookup (w_out a) (pure_module true output apps) = Some (Some (w_name a)).
Proof.
  intros output. unfold pure_module. cbn [view_of].
  induction apps as [|b apps IH]; intros a Hnd Hin; [destruct Hin|]. cbn [map] in Hnd. inversion Hnd as [|? ? Hni Hnd']; subst.
  cbn [map wlookup]. destruct Hin as [->|Hin].
  - rewrite wlookup_none; [rewrite Pos.eqb_refl; reflexivity|].
    unfold wkeys. rewrite map_map. cbn [fst]. exact Hni.
  - rewrite (IH a Hnd' Hin). reflexivity.
Qed.
Theorem direct_per_app_exact : forall output apps m, gen_models (WDirect true output apps) = Some m ->
  NoDup (map w_out apps) ->
  (forall a, In a apps -> wlookup (w_out a) m = Some (Some (w_name a))) /\
  (forall k, In k (wkeys m) -> exists a, In a apps /\ k = w_out a).
Proof.
  intros output apps m [= <-] Hnd. split.
  - intros a Hin. apply pure_lookup; assumption.
  - intros k Hk. unfold wkeys, pure_module in Hk. rewrite map_map in Hk. cbn [fst] in Hk.
    apply in_map_iff in Hk. destruct Hk as [a [<- Hin]]. eauto.
Qed.
Example direct_per_app_example : NoDup (map w_out [ {| w_name := [2%positive]; w_out := 5%positive |}; {| w_name := [3%positive]; w_out := 6%positive |} ]).
Proof. repeat constructor; cbn; intuition discriminate. Qed.

(* project manner: the file of an endpoint holds the view of the LAST action statement naming an application *)
Fixpoint last_target (stmts:list wstmt) (cur:option str) : option str :=
  match stmts with
  | [] => cur
  | WAction (Some a) :: r => last_target r (Some a)
  | _ :: r => last_target r cur
  end.
Lemma data_model_lookup : forall has_ep out stmts,
  wlookup out (data_model has_ep out stmts) = option_map (view_of has_ep) (last_target stmts None) /\
  forall k, k <> out -> wlookup k (data_model has_ep out stmts) = None.
Proof.
  intros has_ep out stmts. split.
  - assert (G : forall cur, match wlookup out (data_model has_ep out stmts) with Some x => Some x | None => option_map (view_of has_ep) cur end
                          = option_map (view_of has_ep) (last_target stmts cur)).
    { induction stmts as [|s stmts IH]; intros cur; [reflexivity|]. unfold data_model in *. cbn [flat_map].
      destruct s as [[a|]|]; cbn [app last_target]; try apply IH.
      cbn [wlookup]. rewrite <- IH. destruct (wlookup out _); [reflexivity|]. rewrite Pos.eqb_refl. reflexivity. }
    specialize (G None). cbn [option_map] in G. destruct (wlookup out _) eqn:E; rewrite <- G; reflexivity.
  - intros k Hk. apply wlookup_none. unfold wkeys, data_model. intros Hin. apply in_map_iff in Hin.
    destruct Hin as [[k' v] [Hf Hin]]. cbn [fst] in Hf. subst k'. apply in_flat_map in Hin. destruct Hin as [s [_ Hin]].
    destruct s as [[a|]|]; cbn [In] in Hin; [|destruct Hin|destruct Hin].
    destruct Hin as [Hin|[]]. injection Hin as Hout _. apply Hk. symmetry. exact Hout.
Qed.

Theorem project_endpoint_partial : forall has_ep eps m e, gen_models (WProject true has_ep eps) = Some m ->
  NoDup (map ep_out eps) -> In e eps -> ep_match e = true ->
  wlookup (ep_out e) m = option_map (view_of has_ep) (last_target (ep_stmts e) None).
Proof.
  intros has_ep eps m e [= <-]. unfold project_manner. induction eps as [|e' eps IH]; intros Hnd Hin Hm; [destruct Hin|].
  cbn [map] in Hnd. inversion Hnd as [|? ? Hni Hnd']; subst. cbn [flat_map]. rewrite wlookup_app. destruct Hin as [->|Hin].
  - rewrite Hm. rewrite wlookup_none.
    + apply data_model_lookup.
    + unfold wkeys. intros H. apply in_map_iff in H. destruct H as [[k v] [Hk H]]. cbn [fst] in Hk. subst k.
      apply in_flat_map in H. destruct H as [e2 [He2 H]]. destruct (ep_match e2); [|destruct H].
      unfold data_model in H. apply in_flat_map in H. destruct H as [s [_ H]]. destruct s as [[a|]|]; cbn [In] in H; [|destruct H|destruct H].
      destruct H as [H|[]]. injection H as Hout _. apply Hni. rewrite <- Hout. apply in_map. exact He2.
  - rewrite (IH Hnd' Hin Hm). destruct (last_target (ep_stmts e) None); cbn [option_map]; [reflexivity|].
    destruct (ep_match e'); [|reflexivity]. apply data_model_lookup. intros E. apply Hni. rewrite <- E. apply in_map. exact Hin.
Qed.

(* ... so an endpoint that names two applications does not cover the first: refuted in full *)
Theorem project_endpoint_covers_all_refuted : exists eps m a b out,
  gen_models (WProject true true eps) = Some m /\
  eps = [ {| ep_out := out; ep_match := true; ep_stmts := [WAction (Some a); WAction (Some b)] |} ] /\ a <> b /\
  wlookup out m = Some (Some b) /\ forall k, wlookup k m <> Some (Some a).
Proof.
  exists [ {| ep_out := 7%positive; ep_match := true; ep_stmts := [WAction (Some [2%positive]); WAction (Some [3%positive])] |} ].
  exists [(7%positive, Some [2%positive]); (7%positive, Some [3%positive])]. exists [2%positive], [3%positive], 7%positive. split; [reflexivity|]. split; [reflexivity|]. split; [discriminate|].
  split; [reflexivity|]. intros k H. cbn [wlookup] in H. destruct (Pos.eqb k 7%positive); discriminate H.
Qed.
Example project_endpoint_example :
  NoDup (map ep_out [ {| ep_out := 7%positive; ep_match := true; ep_stmts := [WOther; WAction None; WAction (Some [2%positive])] |} ]) /\
  last_target [WOther; WAction None; WAction (Some [2%positive])] None = Some [2%positive].
Proof. split; [repeat constructor; intros []|reflexivity]. Qed.
