(* C15 PROOFS about DmMermaid.mermaid_full (the Mermaid data-model view of a whole module).

   mm_blocks_exact   the diagram is, for every type of the module in order, exactly its class header, one line per
                     listed property / enumerator value, the closing brace; then link lines only
   mm_links_exact    the links are the (owner, reference) pairs of the reference-typed properties, each pair ONCE,
                     in order of first occurrence (this view draws one link per pair, not per field)
   mm_field_listed   which properties have a line (exactly one) and which have none
   refutations       a foreign key to another application is linked to the OWN application's table; a nested name is
                     read as application + type; two enumerators with one value: one line *)
From Coq Require Import List PeanoNat PArith ZArith Bool Lia.
Import ListNotations.
Require Import Verif.DataModel.DmModel Verif.DataModel.DmMermaid.

(* ------------------------------------------------------------------ strings, links *)
Lemma mstr_eqb_eq : forall a b, str_eqb a b = true <-> a = b.
Proof.
  induction a as [|x a IH]; destruct b as [|y b]; cbn [str_eqb]; try (split; [discriminate|discriminate]).
  - split; reflexivity.
  - rewrite andb_true_iff, Pos.eqb_eq, IH. split; [intros [-> ->]; reflexivity|intros [= -> ->]; split; reflexivity].
Qed.
Lemma link_eqb_eq : forall a b, link_eqb a b = true <-> a = b.
Proof.
  intros [a1 a2] [b1 b2]. unfold link_eqb. cbn [fst snd]. rewrite andb_true_iff, !mstr_eqb_eq.
  split; [intros [-> ->]; reflexivity|intros [= -> ->]; split; reflexivity].
Qed.

Definition add_links (ls l:list link) : list link := fold_left add_link l ls.

Lemma add_link_in : forall ls p q, In q (add_link ls p) <-> In q ls \/ q = p.
Proof.
  intros ls p q. unfold add_link. destruct (existsb (link_eqb p) ls) eqn:E.
  - apply existsb_exists in E. destruct E as [x [Hx Hq]]. apply link_eqb_eq in Hq. subst x.
    split; [intros H; left; exact H|intros [H| ->]; assumption].
  - rewrite in_app_iff. cbn [In]. split; [intros [H|[<-|[]]]; [left; exact H|right; reflexivity]|intros [H| ->]; [left; exact H|right; left; reflexivity]].
Qed.
Lemma nodup_snoc : forall (l:list link) p, NoDup l -> ~ In p l -> NoDup (l ++ [p]).
Proof.
  induction l as [|x l IH]; intros p H N; cbn [app]; [constructor; [intros []|constructor]|].
  inversion H as [|? ? Hx Hl]; subst. constructor.
  - rewrite in_app_iff. cbn [In]. intros [Hin|[<-|[]]]; [contradiction|apply N; left; reflexivity].
  - apply IH; [exact Hl|intros Hin; apply N; right; exact Hin].
Qed.
Lemma add_link_nodup : forall ls p, NoDup ls -> NoDup (add_link ls p).
Proof.
  intros ls p H. unfold add_link. destruct (existsb (link_eqb p) ls) eqn:E; [exact H|].
  apply nodup_snoc; [exact H|]. intros Hin.
  assert (X : existsb (link_eqb p) ls = true) by (apply existsb_exists; exists p; split; [exact Hin|apply link_eqb_eq; reflexivity]).
  rewrite X in E. discriminate.
Qed.
Lemma add_links_in : forall l ls q, In q (add_links ls l) <-> In q ls \/ In q l.
Proof.
  induction l as [|p l IH]; intros ls q; cbn [add_links fold_left In]; [tauto|].
  change (fold_left add_link l (add_link ls p)) with (add_links (add_link ls p) l). rewrite IH, add_link_in. intuition (subst; auto).
Qed.
Lemma add_links_nodup : forall l ls, NoDup ls -> NoDup (add_links ls l).
Proof.
  induction l as [|p l IH]; intros ls H; cbn [add_links fold_left]; [exact H|].
  apply IH. apply add_link_nodup. exact H.
Qed.
Lemma add_links_app : forall ls l1 l2, add_links ls (l1 ++ l2) = add_links (add_links ls l1) l2.
Proof. intros. unfold add_links. apply fold_left_app. Qed.

(* ------------------------------------------------------------------ one property *)
Definition prop_lines (tbl:list (atom * atom)) (f:positive) (s:sprop) : list mitem :=
  match s with
  | SPrim p => if printable p then [MProp false (MLP p) f] else []
  | SRef r => [MProp false (MLR (clean tbl r)) f]
  | SColl (Some (SRef r)) => [MProp true (MLR (clean tbl r)) f]
  | SColl (Some (SPrim p)) => [MProp true (MLP p) f]
  | _ => []
  end.
Definition prop_link (owner:str) (s:sprop) : list link :=
  match s with SRef r | SColl (Some (SRef r)) => [(owner, r)] | _ => [] end.

Lemma print_prop_spec : forall tbl owner ls f s ls' o, print_prop tbl owner ls f s = Ok (ls', o) ->
  o = prop_lines tbl f s /\ ls' = add_links ls (prop_link owner s).
Proof.
  intros tbl owner ls f s ls' o. unfold print_prop, prop_lines, prop_link.
  destruct s as [p|r|[[p|r|i|]|]|]; try discriminate; intros [= <- <-]; split; reflexivity.
Qed.

Definition props_lines (tbl:list (atom * atom)) (ps:list (positive * sprop)) : list mitem :=
  flat_map (fun fs => prop_lines tbl (fst fs) (snd fs)) ps.
Definition props_links (owner:str) (ps:list (positive * sprop)) : list link :=
  flat_map (fun fs => prop_link owner (snd fs)) ps.

Lemma print_props_spec : forall tbl owner ps ls ls' o, print_props tbl owner ls ps = Ok (ls', o) ->
  o = props_lines tbl ps /\ ls' = add_links ls (props_links owner ps).
Proof.
  intros tbl owner. induction ps as [|[f s] ps IH]; intros ls ls' o; cbn [print_props].
  - intros [= <- <-]. split; reflexivity.
  - destruct (print_prop tbl owner ls f s) as [[ls1 o1]|] eqn:E1; [|discriminate].
    destruct (print_props tbl owner ls1 ps) as [[ls2 o2]|] eqn:E2; [|discriminate].
    intros [= <- <-]. apply print_prop_spec in E1. destruct E1 as [-> ->]. apply IH in E2. destruct E2 as [-> ->].
    unfold props_lines, props_links. cbn [flat_map fst snd]. split; [reflexivity|]. rewrite add_links_app. reflexivity.
Qed.

(* ------------------------------------------------------------------ classes *)
Definition cls := (mentity * list (positive * sprop))%type.
Definition body_lines (tbl:list (atom * atom)) (c:cls) : list mitem :=
  match me_def (fst c) with
  | MDTuple _ | MDRel _ => props_lines tbl (snd c)
  | MDEnum items => print_enum items
  | MDOther => []
  end.
Definition body_links (c:cls) : list link :=
  match me_def (fst c) with
  | MDTuple _ | MDRel _ => props_links (me_key (fst c)) (snd c)
  | _ => []
  end.
(* the lines of one type: header, one line per listed property / enumerator value, closing brace *)
Definition block (tbl:list (atom * atom)) (c:cls) : list mitem :=
  MClass (clean tbl (me_key (fst c))) :: body_lines tbl c ++ [MEnd].

Lemma print_body_spec : forall tbl ls e ps ls' o, print_body tbl ls e ps = Ok (ls', o) ->
  o = body_lines tbl (e, ps) /\ ls' = add_links ls (body_links (e, ps)).
Proof.
  intros tbl ls e ps ls' o. unfold print_body, body_lines, body_links. cbn [fst snd].
  destruct (me_def e) as [fs|fs|items|]; try (intros [= <- <-]; split; reflexivity); apply print_props_spec.
Qed.

Lemma print_classes_spec : forall tbl cs ls ls' o, print_classes tbl ls cs = Ok (ls', o) ->
  o = flat_map (block tbl) cs /\ ls' = add_links ls (flat_map body_links cs).
Proof.
  intros tbl. induction cs as [|[e ps] cs IH]; intros ls ls' o; cbn [print_classes].
  - intros [= <- <-]. split; reflexivity.
  - destruct (print_body tbl ls e ps) as [[ls1 o1]|] eqn:E1; [|discriminate].
    destruct (print_classes tbl ls1 cs) as [[ls2 o2]|] eqn:E2; [|discriminate].
    intros [= <- <-]. apply print_body_spec in E1. destruct E1 as [-> ->]. apply IH in E2. destruct E2 as [-> ->].
    cbn [flat_map]. unfold block at 2. cbn [fst]. split.
    + cbn [app]. rewrite <- app_assoc. reflexivity.
    + rewrite add_links_app. reflexivity.
Qed.

(* ConvertTypes keeps every type, in order, with the conversion of its own fields *)
Lemma convert_all_spec : forall es cs, convert_all es = Ok cs ->
  map fst cs = es /\ forall c, In c cs -> converted (fst c) = Ok (snd c).
Proof.
  induction es as [|e es IH]; intros cs; cbn [convert_all].
  - intros [= <-]. split; [reflexivity|intros c []].
  - destruct (converted e) as [ps|] eqn:E1; destruct (convert_all es) as [r|] eqn:E2; try discriminate.
    intros [= <-]. destruct (IH r eq_refl) as [I1 I2]. cbn [map fst]. split; [rewrite I1; reflexivity|].
    intros c [<-|Hin]; [exact E1|apply I2; exact Hin].
Qed.

Definition mk_link (tbl:list (atom * atom)) (l:link) : mitem := MLink (clean tbl (fst l)) (clean tbl (snd l)).

(* ------------------------------------------------------------------ main theorems *)
(* classes + fields, full: one block per type of the module (no other class, no other property line), then links only *)
Theorem mm_blocks_exact : forall tbl es o, mermaid_full tbl es = Ok o ->
  exists cs, convert_all es = Ok cs /\ map fst cs = es /\
    o = flat_map (block tbl) cs ++ map (mk_link tbl) (add_links [] (flat_map body_links cs)).
Proof.
  intros tbl es o. unfold mermaid_full. destruct (convert_all es) as [cs|] eqn:C; [|discriminate].
  destruct (print_classes tbl [] cs) as [[ls o1]|] eqn:P; [|discriminate]. intros [= <-].
  apply print_classes_spec in P. destruct P as [-> ->]. exists cs. split; [reflexivity|].
  split; [apply (convert_all_spec es cs C)|reflexivity].
Qed.

(* links, full for what this view draws: exactly the (owner, reference) pairs of the reference-typed properties (direct
   or inside a set / sequence / list), each pair once however many fields refer to it, none else *)
Theorem mm_links_exact : forall tbl es o, mermaid_full tbl es = Ok o ->
  exists cs ls, convert_all es = Ok cs /\
    o = flat_map (block tbl) cs ++ map (mk_link tbl) ls /\ NoDup ls /\
    forall p, In p ls <-> In p (flat_map body_links cs).
Proof.
  intros tbl es o H. destruct (mm_blocks_exact _ _ _ H) as [cs [C [_ ->]]].
  exists cs, (add_links [] (flat_map body_links cs)). split; [exact C|]. split; [reflexivity|].
  split; [apply add_links_nodup; constructor|]. intro p. rewrite add_links_in. cbn [In]. tauto.
Qed.

(* which properties are listed: exactly one line for a printable primitive, a reference, a collection of a primitive or
   of a reference; none for anything else (the primitive EMPTY, untyped fields, nested collections) *)
Definition listed (s:sprop) : bool :=
  match s with
  | SPrim p => printable p
  | SRef _ => true
  | SColl (Some (SRef _)) | SColl (Some (SPrim _)) => true
  | _ => false
  end.
Theorem mm_field_listed : forall tbl f s,
  (listed s = true -> exists c l, prop_lines tbl f s = [MProp c l f]) /\ (listed s = false -> prop_lines tbl f s = []).
Proof.
  intros tbl f s. unfold listed, prop_lines. destruct s as [p|r|[[p|r|i|]|]|]; split; intros H; try discriminate; try reflexivity;
    try (eexists; eexists; reflexivity).
  - rewrite H. eexists; eexists; reflexivity.
  - rewrite H. reflexivity.
Qed.
Example listed_any : listed (SPrim 2) = true /\ listed (SPrim 1) = false.
Proof. split; reflexivity. Qed.

(* the reference of a plain one-element path: the application of the reference, else of its context, then the name *)
Lemma reference_plain : forall r p, mr_path r = [p] ->
  reference r = (match mr_app r with Some a => a | None => match mr_ctx r with Some c => c | None => empty_str end end) ++ p.
Proof. intros r p H. unfold reference, ref_details. rewrite H. reflexivity. Qed.

(* ------------------------------------------------------------------ refutations (witnesses by vm_compute) *)
Definition mk_ctx (a:str) (p:list str) (app:option str) : mref :=
  {| mr_ctx := Some a; mr_ctx0 := Some a; mr_app := app; mr_path := p |}.

(* a foreign key to a table of ANOTHER application: convertTableRef takes the application of the context, so the link
   goes to the own application's table of that name - here a class that does not exist - and App2.U gets none *)
Definition ex_mm_fk : list mentity :=
  [ {| me_app := [2%positive]; me_name := [4%positive];
       me_def := MDRel [(1%positive, MFPrim 4); (2%positive, MFRef (mk_ctx [2%positive] [[5%positive]; [6%positive]] (Some [3%positive])))] |};
    {| me_app := [3%positive]; me_name := [5%positive]; me_def := MDRel [(1%positive, MFPrim 4)] |} ].
Theorem mm_cross_app_fk_refuted : exists o,
  mermaid_full [] ex_mm_fk = Ok o /\ In (MLink [2%positive; 4%positive] [2%positive; 5%positive]) o /\
  ~ In (MLink [2%positive; 4%positive] [3%positive; 5%positive]) o /\ ~ In (MClass [2%positive; 5%positive]) o.
Proof.
  eexists. split; [vm_compute; reflexivity|]. split; [cbn; tauto|]. split; intros H; cbn in H;
    repeat (destruct H as [H|H]; [discriminate|]); destruct H.
Qed.

(* a reference by a nested name Outer.Inner (path of two elements): GetRefDetails reads application Outer, type Inner *)
Definition ex_mm_nested : list mentity :=
  [ {| me_app := [2%positive]; me_name := [4%positive];
       me_def := MDTuple [(1%positive, MFRef (mk_ctx [2%positive] [[5%positive]; [6%positive]] None))] |};
    {| me_app := [2%positive]; me_name := [5%positive; 6%positive]; me_def := MDTuple [(1%positive, MFPrim 4)] |} ].
Theorem mm_nested_refuted : exists o,
  mermaid_full [] ex_mm_nested = Ok o /\ In (MClass [2%positive; 5%positive; 6%positive]) o /\
  In (MLink [2%positive; 4%positive] [5%positive; 6%positive]) o /\
  ~ In (MLink [2%positive; 4%positive] [2%positive; 5%positive; 6%positive]) o.
Proof.
  eexists. split; [vm_compute; reflexivity|]. split; [cbn; tauto|]. split; [cbn; tauto|].
  intros H; cbn in H; repeat (destruct H as [H|H]; [discriminate|]); destruct H.
Qed.

(* two enumerators with one value: the value -> name map of MapType keeps one of them *)
Theorem mm_enum_items_refuted :
  print_enum [(1%positive, 5%Z); (2%positive, 1%Z); (3%positive, 5%Z)] = [MItem 2%positive 1%Z; MItem 1%positive 5%Z].
Proof. reflexivity. Qed.

(* non-vacuity: a module with a plain reference, a collection of it and a second field to the same target: the class
   blocks, ONE link *)
Example ex_mm_plain : exists o,
  mermaid_full [] [ {| me_app := [2%positive]; me_name := [4%positive];
                       me_def := MDTuple [(1%positive, MFRef (mk_ctx [2%positive] [[5%positive]] None));
                                          (2%positive, MFSet (MERef (mk_ctx [2%positive] [[5%positive]] None)));
                                          (3%positive, MFPrim 2)] |};
                    {| me_app := [2%positive]; me_name := [5%positive]; me_def := MDEnum [(1%positive, 0%Z)] |} ] = Ok o /\
  o = [MClass [2%positive; 4%positive]; MProp false (MLR [2%positive; 5%positive]) 1%positive;
       MProp true (MLR [2%positive; 5%positive]) 2%positive; MProp false (MLP 2) 3%positive; MEnd;
       MClass [2%positive; 5%positive]; MItem 1%positive 0%Z; MEnd;
       MLink [2%positive; 4%positive] [2%positive; 5%positive]].
Proof. eexists. split; [vm_compute; reflexivity|reflexivity]. Qed.
