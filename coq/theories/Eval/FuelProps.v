(* C10: fuel.  [eval] counts the NESTING of evaluations, not their number: a loop over a collection evaluates its body
   with the same fuel for every element, a call evaluates the callee's body with one unit less than the call.  So the
   fuel an evaluation needs is bounded by the depth of the expression plus, for every level of view calls, the depth of
   the deepest view body - whatever the input values are.

     fits vs n e                  e and everything step evaluates below it (sub-expressions, bodies of called views)
                                  nests at most n deep
     fits_never_out_of_fuel       fits vs n e -> eval n vs sc e <> OutOfFuel, for every scope
     nonrecursive_fits            views whose calls go strictly down a rank (< k): every e fits edepth e + k * max body depth
     nonrecursive_terminates      a view set accepted by the checker [nonrec_b] (calls go to views EARLIER in the list):
                                  eval with fuel >= edepth e + length vs * max_body_depth vs never runs out of fuel,
                                  for every scope and expression: no hypothesis on fuel beyond the closed formula, none
                                  on the input *)
From Coq Require Import String List ZArith Bool Lia Arith.
Import ListNotations.
Require Import Verif.Eval.Value Verif.Eval.GoFuncs Verif.Eval.Interp Verif.Eval.Tables Verif.Eval.PureProps Verif.Gen.EvalTables.
Local Open Scope string_scope.
Local Open Scope list_scope.

Definition stmt_expr (s:stmt) : expr := match s with SLet _ e | SAssign _ e => e end.

(* what [step] hands to the sub-evaluator when it evaluates e *)
Definition children (vs:views) (e:expr) : list expr :=
  match e with
  | EName _ | ELit _ => []
  | EGetAttr a _ => [a]
  | ETransform a _ ss _ => a :: map stmt_expr ss
  | EIf c t f => [c; t; f]
  | ECall fn args => args ++ match assoc String.eqb fn vs with Some v => [v_body v] | None => [] end
  | EUn _ a => [a]
  | EBin _ l r _ => [l; r]
  | EList es | ESet es => es
  end.

Inductive fits (vs:views) : nat -> expr -> Prop :=
| fits_S n e : (forall c, In c (children vs e) -> fits vs n c) -> fits vs (S n) e.

Lemma fits_mono vs : forall n e, fits vs n e -> forall m, n <= m -> fits vs m e.
Proof.
  induction n as [|n IH]; intros e F m L; inversion F as [n' e' H]; subst.
  destruct m as [|m]; [lia|]. constructor. intros c Hc. apply (IH c (H c Hc)). lia.
Qed.

(* ---------------- no helper invents OutOfFuel ---------------- *)
Definition nf {A} (o:outcome A) : Prop := o <> OutOfFuel.

Lemma bind_nf {A B} (o:outcome A) (f:A -> outcome B) : nf o -> (forall a, nf (f a)) -> nf (bind o f).
Proof. unfold nf. destruct o; cbn [bind]; intros H K; try discriminate; [apply K | contradiction]. Qed.

Ltac nfm := repeat first
  [ discriminate
  | apply bind_nf; [|intros]
  | match goal with
    | |- nf (let '(_, _) := ?x in _) => destruct x
    | |- nf (match ?x with _ => _ end) => destruct x
    | |- nf (if ?x then _ else _) => destruct x
    end
  | progress unfold nf ].

Lemma run_goop_nf op a b : nf (run_goop op a b).
Proof. unfold run_goop. destruct op, a, b; nfm. Qed.
Lemma run_mk_nf m g : nf (run_mk m g).
Proof. unfold run_mk. destruct m, g; nfm. Qed.
Lemma set_union_nf l r : nf (set_union l r).
Proof. unfold set_union. nfm. Qed.
Lemma opaque_vfun_nf f l r : nf (opaque_vfun f l r).
Proof. unfold opaque_vfun. destruct f; try (unfold nf; discriminate); try apply set_union_nf; nfm. Qed.
Lemma apply_simple_nf f l r : nf (apply_simple f l r).
Proof.
  unfold apply_simple. destruct (body_of f); try (unfold nf; discriminate).
  - apply bind_nf; [apply run_goop_nf|intros; apply run_mk_nf].
  - apply opaque_vfun_nf.
Qed.
Lemma apply_vfun_nf f l r : nf (apply_vfun f l r).
Proof.
  unfold apply_vfun. destruct (body_of f); try apply apply_simple_nf.
  apply bind_nf; [apply apply_simple_nf|intros; unfold nf; discriminate].
Qed.
Lemma apply_ufun_nf f v : nf (apply_ufun f v).
Proof.
  unfold apply_ufun, unary_neg, unary_single, unary_string. destruct f; nfm.
Qed.
Lemma from_reflect_nf r : nf (from_reflect r).
Proof. unfold from_reflect. nfm. Qed.
Lemma go_func_nf fn avs : nf (go_func fn avs).
Proof. unfold go_func. nfm; apply from_reflect_nf. Qed.
Lemma after_iteration_nf k sv saved sc : nf (after_iteration k sv saved sc).
Proof. unfold after_iteration. destruct k; unfold nf; discriminate. Qed.
Lemma append_with_nf k coll v : nf (append_with k coll v).
Proof. unfold append_with. destruct k; unfold nf; discriminate. Qed.
Lemma keep_where_nf l r : nf (keep_where l r). Proof. unfold nf, keep_where. discriminate. Qed.
Lemma keep_result_nf l r : nf (keep_result l r). Proof. unfold nf, keep_result. discriminate. Qed.
Lemma keep_setmap_nf l r : nf (keep_setmap l r). Proof. unfold keep_setmap. nfm. Qed.

Section Step.
Variable ev : evaluator.
Definition nfe (e:expr) : Prop := forall sc, nf (ev sc e).

Lemma eval_seq_nf es : (forall c, In c es -> nfe c) -> forall sc, nf (eval_seq ev es sc).
Proof.
  induction es as [|e es IH]; intros H sc; cbn [eval_seq]; [unfold nf; discriminate|].
  apply bind_nf; [apply H; left; reflexivity|]. intros [v sc1].
  apply bind_nf; [apply IH; intros c Hc; apply H; right; exact Hc|]. intros [vs' sc2]. unfold nf. discriminate.
Qed.

Lemma iter_rhs_nf sv rhs keep : nfe rhs -> (forall l r, nf (keep l r)) -> forall xs sc, nf (iter_rhs ev sv rhs keep xs sc).
Proof.
  intros Hr Hk. induction xs as [|x xs IH]; intros sc; cbn [iter_rhs]; [unfold nf; discriminate|].
  apply bind_nf; [apply Hr|]. intros [r sc1]. apply bind_nf; [apply Hk|]. intros out.
  apply bind_nf; [apply IH|]. intros [rest sc2]. unfold nf. discriminate.
Qed.

Lemma apply_efun_nf f sc lhs sv rhs : nfe rhs -> nf (apply_efun ev f sc lhs sv rhs).
Proof.
  intros Hr.
  assert (I1 : forall xs s, nf (iter_rhs ev sv rhs keep_result xs s)) by (apply iter_rhs_nf; [exact Hr|apply keep_result_nf]).
  assert (I2 : forall xs s, nf (iter_rhs ev sv rhs keep_where xs s)) by (apply iter_rhs_nf; [exact Hr|apply keep_where_nf]).
  assert (I3 : forall xs s, nf (iter_rhs ev sv rhs keep_setmap xs s)) by (apply iter_rhs_nf; [exact Hr|apply keep_setmap_nf]).
  unfold apply_efun.
  destruct f; repeat first
    [ discriminate
    | apply I1 | apply I2 | apply I3
    | apply bind_nf; [|intros]
    | match goal with
      | |- nf (let '(_, _) := ?x in _) => destruct x
      | |- nf (match ?x with _ => _ end) => destruct x
      | |- nf (if ?x then _ else _) => destruct x
      end
    | progress unfold nf ].
Qed.

Lemma eval_stmts_nf ss : (forall s, In s ss -> nfe (stmt_expr s)) -> forall result sc, nf (eval_stmts ev ss result sc).
Proof.
  induction ss as [|s ss IH]; intros H result sc; cbn [eval_stmts]; [unfold nf; discriminate|].
  assert (Hs : nfe (stmt_expr s)) by (apply H; left; reflexivity).
  assert (IH' : forall result sc, nf (eval_stmts ev ss result sc)) by (apply IH; intros s' Hs'; apply H; right; exact Hs').
  destruct s as [x e|x e]; cbn [stmt_expr] in Hs.
  - apply bind_nf; [apply Hs|]. intros [r sc1]. destruct (String.eqb x log_string); [unfold nf; discriminate|apply IH'].
  - apply bind_nf; [apply Hs|]. intros [r sc1]. apply IH'.
Qed.

Lemma eval_transform_stmts_nf ss : (forall s, In s ss -> nfe (stmt_expr s)) -> forall sc, nf (eval_transform_stmts ev ss sc).
Proof.
  intros H sc. unfold eval_transform_stmts. apply bind_nf; [apply eval_stmts_nf; exact H|].
  intros [result sc1]. destruct (sget implied_result sc1); unfold nf; discriminate.
Qed.

Lemma transform_loop_nf k sv ss : (forall s, In s ss -> nfe (stmt_expr s)) -> forall xs acc sc, nf (transform_loop ev k sv ss xs acc sc).
Proof.
  intros H. induction xs as [|x xs IH]; intros acc sc; cbn [transform_loop]; [unfold nf; discriminate|].
  apply bind_nf; [apply eval_transform_stmts_nf; exact H|]. intros [r sc1].
  apply bind_nf; [apply append_with_nf|]. intros acc'. apply IH.
Qed.

Lemma eval_transform_nf sc arg sv ss ty : nfe arg -> (forall s, In s ss -> nfe (stmt_expr s)) -> nf (eval_transform ev sc arg sv ss ty).
Proof.
  intros Ha Hs.
  assert (L : forall k xs acc s, nf (transform_loop ev k sv ss xs acc s)) by (intros; apply transform_loop_nf; exact Hs).
  assert (T : forall s, nf (eval_transform_stmts ev ss s)) by (intros; apply eval_transform_stmts_nf; exact Hs).
  unfold eval_transform. destruct (is_dot_name arg); [unfold nf; discriminate|].
  apply bind_nf; [apply Ha|]. intros [argv sc0].
  repeat first
    [ discriminate
    | apply L | apply T | apply after_iteration_nf
    | apply bind_nf; [|intros]
    | match goal with
      | |- nf (let '(_, _) := ?x in _) => destruct x
      | |- nf (match ?x with _ => _ end) => destruct x
      | |- nf (if ?x then _ else _) => destruct x
      end
    | progress unfold nf ].
Qed.

Lemma eval_get_attr_nf sc arg attr : nfe arg -> nf (eval_get_attr ev sc arg attr).
Proof. intros Ha. unfold eval_get_attr. apply bind_nf; [apply Ha|]. intros [a sc1]. nfm. Qed.

Lemma eval_default_nf op sc lhs rhs : nfe lhs -> nfe rhs -> nf (eval_default ev op sc lhs rhs).
Proof.
  intros Hl Hr. unfold eval_default. apply bind_nf; [apply Hl|]. intros [l sc1]. apply bind_nf; [apply Hr|]. intros [r sc2].
  destruct (assoc key3_eqb (op, kind_of l, kind_of r) value_functions); [|unfold nf; discriminate].
  apply bind_nf; [apply apply_vfun_nf|]. intros. unfold nf. discriminate.
Qed.

Lemma eval_binexpr_nf sc op lhs rhs sv : nfe lhs -> nfe rhs -> nf (eval_binexpr ev sc op lhs rhs sv).
Proof.
  intros Hl Hr. unfold eval_binexpr. destruct (assoc binop_eqb op strategy_table) as [[]|]; try (unfold nf; discriminate).
  - apply eval_default_nf; assumption.
  - destruct (negb (binop_eqb op OpNE)); [unfold nf; discriminate|].
    apply bind_nf; [apply eval_default_nf; assumption|]. intros [v sc1]. unfold unary_neg. nfm.
  - apply bind_nf; [apply Hl|]. intros [l sc1]. destruct (contained_kind l); [|unfold nf; discriminate].
    destruct (assoc key3_eqb (op, kind_of l, v) expr_functions); [|unfold nf; discriminate].
    apply bind_nf; [apply apply_efun_nf; exact Hr|]. intros [r sc2].
    apply bind_nf; [apply after_iteration_nf|]. intros. unfold nf. discriminate.
Qed.

Lemma eval_call_nf vs sc fn args :
  (forall c, In c args -> nfe c) -> (forall v, assoc String.eqb fn vs = Some v -> nfe (v_body v)) ->
  nf (eval_call ev vs sc fn args).
Proof.
  intros Ha Hb. rewrite eval_call_eq.
  assert (S1 : forall s, nf (eval_seq ev args s)) by (apply eval_seq_nf; exact Ha).
  destruct (assoc String.eqb fn vs) as [v|].
  - destruct (negb (Nat.eqb (List.length (v_params v)) (List.length args))); [unfold nf; discriminate|].
    apply bind_nf; [apply S1|]. intros [avs sc1]. apply bind_nf; [apply (Hb v eq_refl)|]. intros [r ?]. unfold nf. discriminate.
  - destruct (is_dot_func fn) as [f|].
    + unfold call_dot. destruct (String.eqb f "count"); [|unfold nf; discriminate].
      destruct args as [|a args']; [unfold nf; discriminate|].
      apply bind_nf; [apply Ha; left; reflexivity|]. intros [c sc1]. nfm.
    + unfold call_go_func. apply bind_nf; [apply S1|]. intros [avs sc1].
      apply bind_nf; [apply go_func_nf|]. intros. unfold nf. discriminate.
Qed.

(* one level: if nothing step evaluates below e runs out of fuel, step does not either *)
Lemma step_nf vs sc e : (forall c, In c (children vs e) -> nfe c) -> nf (step ev vs sc e).
Proof.
  intros H. destruct e; cbn [step]; cbn [children] in H.
  - nfm.
  - unfold nf. discriminate.
  - apply eval_get_attr_nf. apply H. left. reflexivity.
  - apply eval_transform_nf.
    + apply H. left. reflexivity.
    + intros s Hs. apply H. right. apply in_map. exact Hs.
  - apply bind_nf; [apply H; left; reflexivity|]. intros [cv sc1].
    destruct (getB cv); apply H; cbn [In]; auto.
  - apply eval_call_nf.
    + intros c Hc. apply H. apply in_or_app. left. exact Hc.
    + intros v Hv. apply H. apply in_or_app. right. rewrite Hv. left. reflexivity.
  - apply bind_nf; [apply H; left; reflexivity|]. intros [v sc1].
    destruct (assoc unop_eqb op unary_functions); [|unfold nf; discriminate].
    apply bind_nf; [apply apply_ufun_nf|]. intros. unfold nf. discriminate.
  - apply eval_binexpr_nf; apply H; cbn [In]; auto.
  - apply bind_nf; [apply eval_seq_nf; exact H|]. intros [vs' sc1]. unfold nf. discriminate.
  - apply bind_nf; [apply eval_seq_nf; exact H|]. intros [vs' sc1]. unfold nf. discriminate.
Qed.
End Step.

Theorem fits_never_out_of_fuel : forall vs n e, fits vs n e -> forall sc, eval n vs sc e <> OutOfFuel.
Proof.
  intros vs. induction n as [|n IH]; intros e F sc; inversion F as [n' e' H]; subst.
  cbn [eval]. apply step_nf. intros c Hc sc'. apply IH. apply H. exact Hc.
Qed.

(* ---------------- a closed form for views that are not recursive ---------------- *)
Fixpoint edepth (e:expr) : nat :=
  S (match e with
     | EName _ | ELit _ => 0
     | EGetAttr a _ => edepth a
     | ETransform a _ ss _ =>
         Nat.max (edepth a) ((fix go (ss:list stmt) : nat := match ss with [] => 0 | s :: r => Nat.max (sdepth s) (go r) end) ss)
     | EIf c t f => Nat.max (edepth c) (Nat.max (edepth t) (edepth f))
     | ECall _ args => (fix go (es:list expr) : nat := match es with [] => 0 | a :: r => Nat.max (edepth a) (go r) end) args
     | EUn _ a => edepth a
     | EBin _ l r _ => Nat.max (edepth l) (edepth r)
     | EList es | ESet es => (fix go (es:list expr) : nat := match es with [] => 0 | a :: r => Nat.max (edepth a) (go r) end) es
     end)
with sdepth (s:stmt) : nat := match s with SLet _ e | SAssign _ e => edepth e end.

Definition max_depth (es:list expr) : nat := fold_right (fun e m => Nat.max (edepth e) m) 0 es.
Lemma max_depth_in es : forall c, In c es -> edepth c <= max_depth es.
Proof.
  induction es as [|e es IH]; intros c H; [destruct H|]. destruct H as [<-|H]; cbn [max_depth fold_right]; [lia|].
  specialize (IH c H). unfold max_depth in IH. lia.
Qed.

(* the syntactic children (everything in [children] but the callee's body) *)
Definition subexprs (e:expr) : list expr := children [] e.
Lemma max_depth_go es :
  (fix go (es:list expr) : nat := match es with [] => 0 | a :: r => Nat.max (edepth a) (go r) end) es = max_depth es.
Proof. induction es as [|a r IH]; [reflexivity|]. cbn [max_depth fold_right]. rewrite IH. reflexivity. Qed.
Lemma max_depth_stmts ss :
  (fix go (ss:list stmt) : nat := match ss with [] => 0 | s :: r => Nat.max (sdepth s) (go r) end) ss = max_depth (map stmt_expr ss).
Proof. induction ss as [|s r IH]; [reflexivity|]. cbn [map max_depth fold_right]. rewrite IH. destruct s; reflexivity. Qed.
Lemma edepth_subexprs e : edepth e = S (max_depth (subexprs e)).
Proof.
  destruct e; cbn [edepth subexprs children assoc app]; rewrite ?app_nil_r, ?max_depth_go, ?max_depth_stmts;
    cbn [max_depth fold_right]; try reflexivity; lia.
Qed.
Lemma edepth_child e c : In c (subexprs e) -> edepth c < edepth e.
Proof. intros H. rewrite (edepth_subexprs e). pose proof (max_depth_in _ _ H). lia. Qed.

(* the names called anywhere in an expression *)
Fixpoint calls (e:expr) : list string :=
  match e with
  | EName _ | ELit _ => []
  | EGetAttr a _ => calls a
  | ETransform a _ ss _ =>
      calls a ++ (fix go (ss:list stmt) : list string := match ss with [] => [] | s :: r => scalls s ++ go r end) ss
  | EIf c t f => calls c ++ calls t ++ calls f
  | ECall fn args => fn :: (fix go (es:list expr) : list string := match es with [] => [] | a :: r => calls a ++ go r end) args
  | EUn _ a => calls a
  | EBin _ l r _ => calls l ++ calls r
  | EList es | ESet es => (fix go (es:list expr) : list string := match es with [] => [] | a :: r => calls a ++ go r end) es
  end
with scalls (s:stmt) : list string := match s with SLet _ e | SAssign _ e => calls e end.

Lemma calls_go es :
  (fix go (es:list expr) : list string := match es with [] => [] | a :: r => calls a ++ go r end) es = flat_map calls es.
Proof. induction es as [|a r IH]; [reflexivity|]. cbn [flat_map]. rewrite IH. reflexivity. Qed.
Lemma calls_stmts ss :
  (fix go (ss:list stmt) : list string := match ss with [] => [] | s :: r => scalls s ++ go r end) ss = flat_map calls (map stmt_expr ss).
Proof. induction ss as [|s r IH]; [reflexivity|]. cbn [map flat_map]. rewrite IH. destruct s; reflexivity. Qed.
Lemma calls_subexprs e : incl (flat_map calls (subexprs e)) (calls e).
Proof.
  destruct e; cbn [calls subexprs children assoc app]; rewrite ?app_nil_r, ?calls_go, ?calls_stmts; cbn [flat_map];
    rewrite ?app_nil_r; try apply incl_refl.
  apply incl_tl. apply incl_refl.
Qed.
Lemma calls_child e c : In c (subexprs e) -> incl (calls c) (calls e).
Proof. intros H g Hg. apply calls_subexprs. apply in_flat_map. exists c. split; assumption. Qed.

Lemma children_split vs e c : In c (children vs e) ->
  In c (subexprs e) \/ exists fn args v, e = ECall fn args /\ assoc String.eqb fn vs = Some v /\ c = v_body v.
Proof.
  intros H. destruct e; try (left; exact H).
  cbn [children] in H. apply in_app_or in H. destruct H as [H|H].
  - left. cbn [subexprs children assoc]. rewrite app_nil_r. exact H.
  - right. destruct (assoc String.eqb fn vs) as [v|] eqn:E; [|destruct H]. destruct H as [<-|[]]. exists fn, args, v. auto.
Qed.

(* calls go strictly down a rank: no view reaches itself *)
Definition ranked (vs:views) (rank:string -> nat) : Prop :=
  forall name v, assoc String.eqb name vs = Some v ->
  forall g w, In g (calls (v_body v)) -> assoc String.eqb g vs = Some w -> rank g < rank name.

Definition max_body_depth (vs:views) : nat := max_depth (map (fun p => v_body (snd p)) vs).

Lemma assoc_in {V} k (t:list (string * V)) v : assoc String.eqb k t = Some v -> exists k', String.eqb k k' = true /\ In (k', v) t.
Proof.
  induction t as [|[k' v'] t IH]; cbn [assoc]; [discriminate|]. destruct (String.eqb k k') eqn:E.
  - intros [= <-]. exists k'. split; [exact E|left; reflexivity].
  - intros H. destruct (IH H) as [k'' [E' I']]. exists k''. split; [exact E'|right; exact I'].
Qed.

Lemma body_depth_le vs name v : assoc String.eqb name vs = Some v -> edepth (v_body v) <= max_body_depth vs.
Proof.
  intros H. destruct (assoc_in _ _ _ H) as [k' [_ I']]. apply max_depth_in.
  apply (in_map (fun p => v_body (snd p)) _ _ I').
Qed.

Lemma nonrecursive_fits_gen vs rank : ranked vs rank ->
  forall k m e, edepth e <= m ->
  (forall g w, In g (calls e) -> assoc String.eqb g vs = Some w -> rank g < k) ->
  fits vs (m + k * max_body_depth vs) e.
Proof.
  intros R. induction k as [|k IHk].
  - (* no call of a view at all *)
    induction m as [|m IHm]; intros e D C.
    + pose proof (edepth_subexprs e). lia.
    + cbn [Nat.add]. constructor. intros c Hc. destruct (children_split _ _ _ Hc) as [Hs|[fn [args [v [-> [Hv ->]]]]]].
      * apply IHm; [pose proof (edepth_child _ _ Hs); lia|]. intros g w Hg Hw. apply (C g w); [apply (calls_child _ _ Hs); exact Hg|exact Hw].
      * exfalso. specialize (C fn v (or_introl eq_refl) Hv). lia.
  - induction m as [|m IHm]; intros e D C.
    + pose proof (edepth_subexprs e). lia.
    + cbn [Nat.add]. constructor. intros c Hc. destruct (children_split _ _ _ Hc) as [Hs|[fn [args [v [-> [Hv ->]]]]]].
      * apply IHm; [pose proof (edepth_child _ _ Hs); lia|]. intros g w Hg Hw. apply (C g w); [apply (calls_child _ _ Hs); exact Hg|exact Hw].
      * (* the body of a called view: rank fn <= k, its own calls have a rank below that *)
        assert (Hr : rank fn < S k) by (apply (C fn v); [left; reflexivity|exact Hv]).
        apply (fits_mono vs (max_body_depth vs + k * max_body_depth vs)); [|lia].
        apply IHk; [exact (body_depth_le _ _ _ Hv)|].
        intros g w Hg Hw. pose proof (R fn v Hv g w Hg Hw). lia.
Qed.

Theorem nonrecursive_fits : forall vs rank k, ranked vs rank ->
  (forall name v, assoc String.eqb name vs = Some v -> rank name < k) ->
  forall e, fits vs (edepth e + k * max_body_depth vs) e.
Proof. intros vs rank k R B e. apply (nonrecursive_fits_gen vs rank R); [lia|]. intros g w _ Hw. exact (B g w Hw). Qed.

(* an executable test of non-recursiveness: every view calls only views that stand EARLIER in the list (position of the
   first binding of the name, the one evalCall finds) *)
Fixpoint pos (name:string) (vs:views) : nat :=
  match vs with
  | [] => 0
  | (k, _) :: r => if String.eqb name k then 0 else S (pos name r)
  end.
Definition nonrec_b (vs:views) : bool :=
  forallb (fun p => forallb (fun g => match assoc String.eqb g vs with
                                      | Some _ => Nat.ltb (pos g vs) (pos (fst p) vs)
                                      | None => true
                                      end) (calls (v_body (snd p)))) vs.

Lemma pos_lt name vs v : assoc String.eqb name vs = Some v -> pos name vs < List.length vs.
Proof.
  induction vs as [|[k w] r IH]; cbn [assoc pos List.length]; [discriminate|].
  destruct (String.eqb name k); [lia|]. intros H. specialize (IH H). lia.
Qed.

Lemma pos_eqb a b vs : String.eqb a b = true -> pos a vs = pos b vs.
Proof. intros E. apply String.eqb_eq in E. subst. reflexivity. Qed.

Lemma nonrec_ranked vs : nonrec_b vs = true -> ranked vs (fun n => pos n vs).
Proof.
  intros H name v Hv g w Hg Hw. unfold nonrec_b in H. rewrite forallb_forall in H.
  destruct (assoc_in _ _ _ Hv) as [k' [E I']]. specialize (H (k', v) I'). cbn [fst snd] in H.
  rewrite forallb_forall in H. specialize (H g Hg). rewrite Hw in H. apply Nat.ltb_lt in H.
  rewrite (pos_eqb _ _ vs E). exact H.
Qed.

Definition fuel_bound (vs:views) (e:expr) : nat := edepth e + List.length vs * max_body_depth vs.

(* evaluation of an expression over non-recursive views terminates for every input: no hypothesis on the scope, the
   values, or the fuel beyond the closed formula *)
Theorem nonrecursive_terminates : forall vs, nonrec_b vs = true ->
  forall e sc fuel, fuel_bound vs e <= fuel -> eval fuel vs sc e <> OutOfFuel.
Proof.
  intros vs H e sc fuel L. apply fits_never_out_of_fuel. apply (fits_mono vs (fuel_bound vs e)); [|exact L].
  apply (nonrecursive_fits vs (fun n => pos n vs) (List.length vs) (nonrec_ranked vs H)).
  intros name v Hv. exact (pos_lt _ _ _ Hv).
Qed.

Theorem nonrecursive_view_terminates : forall vs name v, nonrec_b vs = true -> assoc String.eqb name vs = Some v ->
  forall sc, exists r, evaluate_view (fuel_bound vs (v_body v)) vs name sc = r /\ r <> OutOfFuel.
Proof.
  intros vs name v H Hv sc. eexists. split; [reflexivity|]. unfold evaluate_view. rewrite Hv.
  apply nonrecursive_terminates; [exact H|lia].
Qed.

(* the bound is about nesting only: a recursive view set is rejected by the checker, and the self-recursive view below
   runs out of any fuel on the argument that never reaches its base case *)
Definition loop_views : views := [("L", {| v_params := ["n"]; v_body := ECall "L" [EName "n"] |})].
Example recursive_rejected : nonrec_b loop_views = false.
Proof. reflexivity. Qed.
Theorem recursive_view_runs_out : forall fuel sc, eval fuel loop_views sc (ECall "L" [ELit (VInt 0)]) = OutOfFuel.
Proof.
  assert (G : forall fuel sc e, (e = ECall "L" [ELit (VInt 0)] \/ e = ECall "L" [EName "n"]) -> sget "n" sc = Some (VInt 0) \/ e = ECall "L" [ELit (VInt 0)] ->
              eval fuel loop_views sc e = OutOfFuel).
  { induction fuel as [|fuel IH]; intros sc e He Hs; [reflexivity|].
    destruct He as [-> | ->]; cbn [eval step]; rewrite eval_call_eq;
      cbn [assoc loop_views String.eqb Ascii.eqb Bool.eqb v_params v_body List.length Nat.eqb negb eval_seq].
    - destruct fuel as [|f]; [reflexivity|].
      change (eval (S f) loop_views sc (ELit (VInt 0))) with (@Ok (value * scope) (VInt 0, sc)). cbn [bind bind_params].
      rewrite (IH _ (ECall "L" [EName "n"])); [reflexivity|right; reflexivity|left; reflexivity].
    - destruct Hs as [Hs|Hs]; [|discriminate].
      destruct fuel as [|f]; [reflexivity|].
      replace (eval (S f) loop_views sc (EName "n")) with (@Ok (value * scope) (VInt 0, sc)) by (cbn [eval step]; rewrite Hs; reflexivity).
      cbn [bind bind_params].
      rewrite (IH _ (ECall "L" [EName "n"])); [reflexivity|right; reflexivity|left; reflexivity]. }
  intros fuel sc. apply G; [left; reflexivity|right; reflexivity].
Qed.

(* Example: a non-trivial view set meets the hypothesis, and the bound is a number *)
Definition fuel_views : views :=
  [("H", {| v_params := ["a"]; v_body := ETransform (EName "a") "." [SAssign "f" (EBin OpADD (EName ".") (ELit (VInt 1)) "")] TyOther |});
   ("G", {| v_params := ["b"]; v_body := EGetAttr (ECall "H" [EBin OpMUL (EName "b") (ELit (VInt 2)) ""]) "f" |});
   ("main", {| v_params := ["p0"];
               v_body := ETransform (EName "p0") "." [SAssign "xs" (ETransform (EList [ELit (VInt 1); ELit (VInt 2)]) "x" [SAssign "y" (ECall "G" [EName "x"])] TyOther)] TyOther |})].
Example fuel_views_nonrecursive : nonrec_b fuel_views = true /\ fuel_bound fuel_views (ECall "main" [ELit (VInt 0)]) = 14%nat.
Proof. split; reflexivity. Qed.
Example fuel_views_run :
  match eval (fuel_bound fuel_views (ECall "main" [ELit (VInt 0)])) fuel_views [] (ECall "main" [ELit (VInt 0)]) with
  | Ok (v, _) => value_eqb v (VMap [("xs", VList [VMap [("y", VInt 3)]; VMap [("y", VInt 5)]])])
  | _ => false
  end = true.
Proof. vm_compute. reflexivity. Qed.
