(* C10: obligations against the source as it is NOW (Gen/EvalTables.v is regenerated from pkg/eval on every run).
   Each lemma is closed by computation; it stops checking when the source changes shape. *)
From Coq Require Import String List Bool.
Import ListNotations.
Require Import Verif.Eval.Value Verif.Eval.Interp Verif.Gen.EvalTables.
Local Open Scope string_scope.
Local Open Scope list_scope.

(* concat builds its result in fresh storage: this is what justifies values without storage identity *)
Lemma concat_copies : concat_shape = ConcatCopy.
Proof. reflexivity. Qed.

(* where / flatten delete their scope variable and put back the binding it had before *)
Lemma where_flatten_restores : where_flatten_scopevar = SvDeleteThenRestore.
Proof. reflexivity. Qed.

(* so do transforms (fixes/C10-2) *)
Lemma transform_restores : transform_scopevar = SvDeleteThenRestore.
Proof. reflexivity. Qed.

Lemma set_appender_dedups : set_transform_appender = AppIfAbsent.
Proof. reflexivity. Qed.
Lemma list_appender_appends : list_transform_appender = AppAlways.
Proof. reflexivity. Qed.

Lemma make_key_order : make_key_is_op_lhs_rhs = true.
Proof. reflexivity. Qed.

(* every table entry names a function the model knows *)
Definition efun_known (f:efun) : bool := match f with G_unknown => false | _ => true end.
Definition ufun_known (f:ufun) : bool := match f with U_unknown => false | _ => true end.
Definition strategy_known (s:strategy) : bool := match s with SUnknown => false | _ => true end.
Lemma tables_known :
  forallb (fun p => negb (vfun_eqb (snd p) F_unknown)) value_functions
  && forallb (fun p => efun_known (snd p)) expr_functions
  && forallb (fun p => ufun_known (snd p)) unary_functions
  && forallb (fun p => strategy_known (snd p)) strategy_table = true.
Proof. reflexivity. Qed.

(* the operators of the property statement are dispatched the way the theorems of EvalProps.v assume *)
Lemma strategies :
  map (fun o => assoc binop_eqb o strategy_table)
      [OpADD; OpSUB; OpMUL; OpDIV; OpMOD; OpEQ; OpNE; OpLT; OpLE; OpGT; OpGE; OpAND; OpIN; OpNOT_IN; OpBITOR; OpWHERE; OpFLATTEN]
  = [Some SDefault; Some SDefault; Some SDefault; Some SDefault; Some SDefault; Some SDefault; Some SNegate;
     Some SDefault; Some SDefault; Some SDefault; Some SDefault; Some SDefault; Some SDefault; Some SDefault;
     Some SDefault; Some SLhsOverRhs; Some SLhsOverRhs].
Proof. reflexivity. Qed.

(* where is available for lists and sets of every element kind of the model (fixes/C10-3) *)
Lemma where_rows :
  forallb (fun k => match assoc key3_eqb (OpWHERE, KList, k) expr_functions with Some G_whereList => true | _ => false end)
          [KNoArg; KBool; KInt; KFloat; KString; KList; KSet; KMap; KNull]
  && forallb (fun k => match assoc key3_eqb (OpWHERE, KSet, k) expr_functions with Some G_whereSet => true | _ => false end)
          [KNoArg; KBool; KInt; KFloat; KString; KList; KSet; KMap; KNull] = true.
Proof. reflexivity. Qed.

(* ---- call resolution ---- *)
(* evalCall looks a name up among the application's views FIRST, then among the "."-builtins, and hands it to the
   native helper table only when neither knows it *)
Lemma call_order_views_first : call_order = [CallView; CallDot; CallGoFunc].
Proof. reflexivity. Qed.
(* a called view's body runs in a fresh scope holding only its parameters *)
Lemma call_scope_fresh : call_scope = CsFresh.
Proof. reflexivity. Qed.

Lemma eval_call_eq : forall ev vs sc fn args,
  eval_call ev vs sc fn args =
  match assoc String.eqb fn vs with
  | Some v =>
      if negb (Nat.eqb (List.length (v_params v)) (List.length args)) then Ok (VNil, sc)
      else
        '(avs, sc1) <- eval_seq ev args sc ;;
        '(r, _) <- ev (bind_params (v_params v) avs []) (v_body v) ;;
        Ok (r, sc1)
  | None =>
      match is_dot_func fn with
      | Some f => call_dot ev sc f args
      | None => call_go_func ev sc fn args
      end
  end.
Proof.
  intros. unfold eval_call. rewrite call_order_views_first. cbn [resolve_call].
  destruct (assoc String.eqb fn vs); [unfold call_view; rewrite call_scope_fresh|]; reflexivity.
Qed.

(* the helper table has the 21 names the model knows an implementation (or "not modelled") for, each bound to a known
   Go function with known argument types *)
Definition gimpl_known (f:gimpl) : bool := match f with I_unknown => false | _ => true end.
Definition gty_known (t:gty) : bool := match t with GtUnknown => false | _ => true end.
Lemma go_func_map_known :
  forallb (fun p => match snd p with (f, ts, t) => gimpl_known f && forallb gty_known ts && gty_known t end) go_func_map = true.
Proof. reflexivity. Qed.

(* a helper whose result is an empty slice: reflectToValue tests the length before it looks at element 0 (fixes/C10-4) *)
Lemma slice_result_guarded : slice_result_guard = SliceLenGuarded.
Proof. reflexivity. Qed.

(* no function of exprEval.go assigns to the body type of a view: the module passed to EvaluateView is not written to
   (fixes/C10-5; the model's program is a Gallina value, so this is the whole of "the module is unchanged") *)
Lemma module_not_written : eval_writes_view_type = false.
Proof. reflexivity. Qed.

(* ---- the evaluator keeps no state from one evaluation of an expression node to the next ----
   Everything that could carry such state, as the source has it NOW: the fields of exprEval (the application, read only;
   the expression stack, pushed and popped around each evaluation and read by the logger; the logger; the debugger hook,
   assigned when the debugger is switched on or fails), the package-level variables (the dispatch tables and the helper
   table: never written), the expression tree of the shared module (never assigned to: NegateBinExprStrategy works on a
   copy of the node), and every map any function writes to (the Scope, under the reviewed keys below: let names, scope
   variables, ".", parameters, the template result name; local sets of the union helpers; the items of values under
   construction).  A cache keyed by node would be a new field, a written package variable, a write into the tree or a
   map of another class: each breaks this lemma. *)
Definition map_write_ok (c:map_write_class) : bool :=
  match c with MwScope | MwLocal | MwParamMap | MwValueItems => true | _ => false end.
Lemma eval_keeps_no_per_node_state :
  expr_eval_fields = [("txApp", FuRead); ("exprStack", FuStack); ("logger", FuRead); ("dbg", FuWritten ["EvaluateApp"; "exprEval.eval"])]
  /\ forallb (fun p => match snd p with PvNeverWritten => true | PvWritten _ => false end) eval_package_vars = true
  /\ eval_ast_writes = []
  /\ forallb (fun w => map_write_ok (snd w)) eval_map_writes = true
  /\ eval_scope_keys = ["""."""; "binexpr.Scopevar"; "k"; "name"; "params[i].Name"; "parse.TemplateImpliedResult"; "scopeVar";
                        "ss.Let.Name"; "x.Name"; "x.Transform.Scopevar"].
Proof. repeat split; reflexivity. Qed.
