(* C10: obligations against the source as it is NOW (Gen/EvalTables.v is regenerated from pkg/eval on every run).
   Each lemma is closed by computation; it stops checking when the source changes shape. *)
From Coq Require Import String List Bool.
Import ListNotations.
Require Import Verif.Eval.Value Verif.Eval.Interp Verif.Gen.EvalTables.

(* concat builds its result in fresh storage: this is what justifies values without storage identity *)
Lemma concat_copies : concat_shape = ConcatCopy.
Proof. reflexivity. Qed.

(* where / flatten delete their scope variable and put back the binding it had before *)
Lemma where_flatten_restores : where_flatten_scopevar = SvDeleteThenRestore.
Proof. reflexivity. Qed.

(* so do transforms (fixes/C10-2) *)
Lemma transform_restores : transform_scopevar = SvDeleteThenRestore.
Proof. reflexivity. Qed.

Lemma set_appender_dedups : set_transform_appender = AppIfAbsent.
Proof. reflexivity. Qed.
Lemma list_appender_appends : list_transform_appender = AppAlways.
Proof. reflexivity. Qed.

Lemma make_key_order : make_key_is_op_lhs_rhs = true.
Proof. reflexivity. Qed.

(* every table entry names a function the model knows *)
Definition efun_known (f:efun) : bool := match f with G_unknown => false | _ => true end.
Definition ufun_known (f:ufun) : bool := match f with U_unknown => false | _ => true end.
Definition strategy_known (s:strategy) : bool := match s with SUnknown => false | _ => true end.
Lemma tables_known :
  forallb (fun p => negb (vfun_eqb (snd p) F_unknown)) value_functions
  && forallb (fun p => efun_known (snd p)) expr_functions
  && forallb (fun p => ufun_known (snd p)) unary_functions
  && forallb (fun p => strategy_known (snd p)) strategy_table = true.
Proof. reflexivity. Qed.

(* the operators of the property statement are dispatched the way the theorems of EvalProps.v assume *)
Lemma strategies :
  map (fun o => assoc binop_eqb o strategy_table)
      [OpADD; OpSUB; OpMUL; OpDIV; OpMOD; OpEQ; OpNE; OpLT; OpLE; OpGT; OpGE; OpAND; OpIN; OpNOT_IN; OpBITOR; OpWHERE; OpFLATTEN]
  = [Some SDefault; Some SDefault; Some SDefault; Some SDefault; Some SDefault; Some SDefault; Some SNegate;
     Some SDefault; Some SDefault; Some SDefault; Some SDefault; Some SDefault; Some SDefault; Some SDefault;
     Some SDefault; Some SLhsOverRhs; Some SLhsOverRhs].
Proof. reflexivity. Qed.

(* where is available for lists and sets of every element kind of the model (fixes/C10-3) *)
Lemma where_rows :
  forallb (fun k => match assoc key3_eqb (OpWHERE, KList, k) expr_functions with Some G_whereList => true | _ => false end)
          [KNoArg; KBool; KInt; KFloat; KString; KList; KSet; KMap; KNull]
  && forallb (fun k => match assoc key3_eqb (OpWHERE, KSet, k) expr_functions with Some G_whereSet => true | _ => false end)
          [KNoArg; KBool; KInt; KFloat; KString; KList; KSet; KMap; KNull] = true.
Proof. reflexivity. Qed.
