(* C10: dispatch per EVALUATION, not per node.  The function the evaluator applies to a binary expression is looked up
   from (operator, kind of the evaluated left operand, kind of the evaluated right operand) every time the expression is
   evaluated: nothing else - not the node, not an earlier evaluation of it, not the operand VALUES - enters the choice.
   The model is a pure function, so "nothing is remembered" is true of it by construction; what ties that to the code
   is Tables.eval_keeps_no_per_node_state (regenerated classification of every field of exprEval, every package variable,
   every write into the expression tree and every map written to) and the dispatch:* streams of the correspondence. *)
From Coq Require Import String List ZArith Bool.
Import ListNotations.
Require Import Verif.Eval.Value Verif.Eval.GoFuncs Verif.Eval.Interp Verif.Eval.Tables Verif.Eval.PureProps Verif.Eval.SemProps Verif.Gen.EvalTables.
Local Open Scope string_scope.
Local Open Scope list_scope.

(* the two-value function chosen for `l op r` / the iteration function chosen for `l op(sv: rhs)` / the unary function *)
Definition select_vfun (op:binop) (l r:value) : option vfun := assoc key3_eqb (op, kind_of l, kind_of r) value_functions.
Definition select_efun (op:binop) (l:value) : option efun :=
  match contained_kind l with Some ck => assoc key3_eqb (op, kind_of l, ck) expr_functions | None => None end.
Definition select_ufun (op:unop) : option ufun := assoc unop_eqb op unary_functions.

(* THE theorem: the choice is a function of the operator and the kinds of the two evaluated operands, nothing else *)
Theorem dispatch_depends_on_operand_kinds_only : forall op l r l' r',
  kind_of l = kind_of l' -> kind_of r = kind_of r' -> select_vfun op l r = select_vfun op l' r'.
Proof. intros op l r l' r' El Er. unfold select_vfun. rewrite El, Er. reflexivity. Qed.

Theorem iteration_dispatch_depends_on_kinds_only : forall op l l',
  kind_of l = kind_of l' -> contained_kind l = contained_kind l' -> select_efun op l = select_efun op l'.
Proof. intros op l l' Ek Ec. unfold select_efun. rewrite Ek, Ec. reflexivity. Qed.

(* ... and it is made at EVERY evaluation: whatever the sub-evaluator, the scope the node is evaluated in (so also for the
   second, third ... evaluation of one node, whatever went before) and the operand expressions, the value is the chosen
   function applied to what the two operands evaluated to THIS time *)
Theorem default_dispatch_per_evaluation : forall ev op sc lhs rhs l sc1 r sc2,
  ev sc lhs = Ok (l, sc1) -> ev sc1 rhs = Ok (r, sc2) ->
  eval_default ev op sc lhs rhs =
  match select_vfun op l r with
  | Some f => v <- apply_vfun f l r ;; Ok (v, sc2)
  | None => Panic
  end.
Proof. intros ev op sc lhs rhs l sc1 r sc2 Hl Hr. unfold eval_default, select_vfun. rewrite Hl. cbn [bind]. rewrite Hr. reflexivity. Qed.

(* at the level of evalBinExpr, for the operators dispatched by DefaultBinExprStrategy *)
Theorem binexpr_dispatch_per_evaluation : forall ev op sc lhs rhs sv l sc1 r sc2,
  assoc binop_eqb op strategy_table = Some SDefault ->
  ev sc lhs = Ok (l, sc1) -> ev sc1 rhs = Ok (r, sc2) ->
  eval_binexpr ev sc op lhs rhs sv =
  match select_vfun op l r with
  | Some f => v <- apply_vfun f l r ;; Ok (v, sc2)
  | None => Panic
  end.
Proof.
  intros ev op sc lhs rhs sv l sc1 r sc2 Hs Hl Hr. unfold eval_binexpr. rewrite Hs.
  exact (default_dispatch_per_evaluation ev op sc lhs rhs l sc1 r sc2 Hl Hr).
Qed.

(* `!=` is `==` looked up afresh, then negated *)
Theorem ne_dispatch_per_evaluation : forall ev sc lhs rhs sv l sc1 r sc2,
  ev sc lhs = Ok (l, sc1) -> ev sc1 rhs = Ok (r, sc2) ->
  eval_binexpr ev sc OpNE lhs rhs sv =
  match select_vfun OpEQ l r with
  | Some f => v <- apply_vfun f l r ;; n <- unary_neg v ;; Ok (n, sc2)
  | None => Panic
  end.
Proof.
  intros ev sc lhs rhs sv l sc1 r sc2 Hl Hr. unfold eval_binexpr.
  replace (assoc binop_eqb OpNE strategy_table) with (Some SNegate) by reflexivity.
  cbn [binop_eqb negb]. rewrite (default_dispatch_per_evaluation ev OpEQ sc lhs rhs l sc1 r sc2 Hl Hr).
  destruct (select_vfun OpEQ l r); [|reflexivity]. destruct (apply_vfun v l r); reflexivity.
Qed.

(* where / flatten: the iteration function is chosen from the kind of the evaluated collection and of its first element *)
Theorem iteration_dispatch_per_evaluation : forall ev op sc lhs rhs sv l sc1,
  assoc binop_eqb op strategy_table = Some SLhsOverRhs ->
  ev sc lhs = Ok (l, sc1) ->
  eval_binexpr ev sc op lhs rhs sv =
  match select_efun op l with
  | Some f => '(r, sc2) <- apply_efun ev f sc1 l sv rhs ;;
              sc3 <- after_iteration where_flatten_scopevar sv (sget sv sc1) sc2 ;; Ok (r, sc3)
  | None => Panic
  end.
Proof.
  intros ev op sc lhs rhs sv l sc1 Hs Hl. unfold eval_binexpr, select_efun. rewrite Hs, Hl. cbn [bind].
  destruct (contained_kind l); reflexivity.
Qed.

(* a unary operator: the table is keyed by the operator alone; unaryNeg switches on the kind of the evaluated operand *)
Theorem unary_dispatch_per_evaluation : forall ev vs sc op arg v sc1,
  ev sc arg = Ok (v, sc1) ->
  step ev vs sc (EUn op arg) = match select_ufun op with Some f => r <- apply_ufun f v ;; Ok (r, sc1) | None => Panic end.
Proof. intros ev vs sc op arg v sc1 H. cbn [step]. rewrite H. reflexivity. Qed.

Theorem unary_neg_by_kind : forall v,
  unary_neg v = match kind_of v with
                | KInt => Ok (VInt (wrap64 (- getI v)))
                | KBool => Ok (VBool (negb (getB v)))
                | _ => Panic
                end.
Proof. destruct v; reflexivity. Qed.

(* the consequence the seeded regression violated: ONE node evaluated twice, in any two scopes, by any evaluator; when
   the operands evaluate to the same two values both times the results agree, and when they evaluate to values of other
   kinds the second evaluation is what a FRESH node with those operands gives - the first evaluation leaves no trace *)
Theorem same_node_same_operands_same_value : forall ev op lhs rhs sv sc sc' l r sc1 sc2 sc1' sc2',
  assoc binop_eqb op strategy_table = Some SDefault ->
  ev sc lhs = Ok (l, sc1) -> ev sc1 rhs = Ok (r, sc2) ->
  ev sc' lhs = Ok (l, sc1') -> ev sc1' rhs = Ok (r, sc2') ->
  match eval_binexpr ev sc op lhs rhs sv, eval_binexpr ev sc' op lhs rhs sv with
  | Ok (v, _), Ok (v', _) => v = v'
  | Panic, Panic | Unmodelled, Unmodelled | OutOfFuel, OutOfFuel => True
  | _, _ => False
  end.
Proof.
  intros ev op lhs rhs sv sc sc' l r sc1 sc2 sc1' sc2' Hs A B C D.
  rewrite (binexpr_dispatch_per_evaluation ev op sc lhs rhs sv l sc1 r sc2 Hs A B).
  rewrite (binexpr_dispatch_per_evaluation ev op sc' lhs rhs sv l sc1' r sc2' Hs C D).
  destruct (select_vfun op l r); [|exact I]. destruct (apply_vfun v l r); cbn [bind]; try exact I. reflexivity.
Qed.

Theorem node_value_is_literal_value : forall ev op lhs rhs sv sc l r sc1 sc2,
  assoc binop_eqb op strategy_table = Some SDefault ->
  (forall s v, ev s (ELit v) = Ok (v, s)) ->
  ev sc lhs = Ok (l, sc1) -> ev sc1 rhs = Ok (r, sc2) ->
  match eval_binexpr ev sc op lhs rhs sv, eval_binexpr ev sc op (ELit l) (ELit r) sv with
  | Ok (v, _), Ok (v', _) => v = v'
  | Panic, Panic | Unmodelled, Unmodelled | OutOfFuel, OutOfFuel => True
  | _, _ => False
  end.
Proof.
  intros ev op lhs rhs sv sc l r sc1 sc2 Hs Hlit A B.
  rewrite (binexpr_dispatch_per_evaluation ev op sc lhs rhs sv l sc1 r sc2 Hs A B).
  rewrite (binexpr_dispatch_per_evaluation ev op sc (ELit l) (ELit r) sv l sc r sc Hs (Hlit _ _) (Hlit _ _)).
  destruct (select_vfun op l r); [|exact I]. destruct (apply_vfun v l r); cbn [bind]; try exact I. reflexivity.
Qed.

(* the hypothesis on literals holds of the evaluator itself *)
Lemma eval_literal n vs s v : eval (S n) vs s (ELit v) = Ok (v, s).
Proof. reflexivity. Qed.

(* ---- the rows of `==` the x.note == null family goes through (computed through the regenerated tables) ---- *)
Lemma eq_null_rows :
  select_vfun OpEQ (VStr "n") VNull = Some F_cmpNullFalse /\ select_vfun OpEQ VNull VNull = Some F_cmpNullTrue
  /\ select_vfun OpEQ (VInt 1) VNull = Some F_cmpNullFalse /\ select_vfun OpEQ VNull (VStr "") = Some F_cmpNullFalse
  /\ select_vfun OpEQ VNull (VInt 0) = Some F_cmpNullFalse /\ select_vfun OpEQ (VList []) VNull = Some F_cmpListNull.
Proof. repeat split; reflexivity. Qed.

Theorem sem_eq_null : forall ev sc lhs rhs sv l sc1 r sc2,
  ev sc lhs = Ok (l, sc1) -> ev sc1 rhs = Ok (r, sc2) ->
  (kind_of l = KNull /\ kind_of r = KNull -> eval_binexpr ev sc OpEQ lhs rhs sv = Ok (VBool true, sc2)) /\
  ((kind_of l = KString \/ kind_of l = KInt \/ kind_of l = KList) /\ kind_of r = KNull ->
     eval_binexpr ev sc OpEQ lhs rhs sv = Ok (VBool false, sc2)) /\
  (kind_of l = KNull /\ (kind_of r = KString \/ kind_of r = KInt) -> eval_binexpr ev sc OpEQ lhs rhs sv = Ok (VBool false, sc2)).
Proof.
  intros ev sc lhs rhs sv l sc1 r sc2 A B.
  assert (Hs : assoc binop_eqb OpEQ strategy_table = Some SDefault) by reflexivity.
  rewrite (binexpr_dispatch_per_evaluation ev OpEQ sc lhs rhs sv l sc1 r sc2 Hs A B). unfold select_vfun.
  repeat split.
  - intros [El Er]. rewrite El, Er. reflexivity.
  - intros [[El|[El|El]] Er]; rewrite El, Er; reflexivity.
  - intros [El [Er|Er]]; rewrite El, Er; reflexivity.
Qed.

(* TEST (vm_compute over one sample, not a theorem): `x.note == null` over records whose note is a string, null, a
   string - one node, three evaluations, kinds (string, null), (null, null), (string, null) *)
Definition note_null_view : expr :=
  ETransform (EName "p0") "." [
    SLet "recs" (ELit (VList [VMap [("note", VStr "n")]; VMap [("note", VNull)]; VMap [("note", VStr "m")]]));
    SAssign "out" (ETransform (EName "recs") "x" [SAssign "blank" (EBin OpEQ (EGetAttr (EName "x") "note") (ELit VNull) "")] TyOther)
  ] TyOther.
Example note_null_sample :
  match eval 10 [] [("p0", VInt 0)] note_null_view with
  | Ok (v, _) => value_eqb v (VMap [("out", VList [VMap [("blank", VBool false)]; VMap [("blank", VBool true)]; VMap [("blank", VBool false)]])])
  | _ => false
  end = true.
Proof. vm_compute. reflexivity. Qed.

(* Example: the hypotheses of same_node_same_operands_same_value are met by a concrete evaluator and node *)
Example same_node_instance :
  let ev := eval 5 [] in
  assoc binop_eqb OpADD strategy_table = Some SDefault /\
  ev [("a", VInt 1)] (EName "a") = Ok (VInt 1, [("a", VInt 1)]) /\
  ev [("a", VInt 1); ("b", VStr "s")] (EName "a") = Ok (VInt 1, [("a", VInt 1); ("b", VStr "s")]).
Proof. repeat split; reflexivity. Qed.

(* ---- a `set of` transform over the entries of a MAP keeps equal results (the real code does: known finding
   set-transform-over-map-keeps-duplicates; over a list or a set the set appender drops them) ---- *)
Theorem set_typed_transform_no_duplicates : forall ev sc arg sv ss v sc' xs sc0,
  is_dot_name arg = false ->
  (ev sc arg = Ok (VList xs, sc0) \/ ev sc arg = Ok (VSet xs, sc0)) ->
  eval_transform ev sc arg sv ss TySet = Ok (v, sc') ->
  exists out, v = VSet out /\ NoDup out.
Proof.
  intros ev sc arg sv ss v sc' xs sc0 Hd Ha H. unfold eval_transform in H. rewrite Hd in H.
  destruct Ha as [Ha|Ha]; rewrite Ha in H; cbn [bind] in H; inv_bind H; destruct a as [out sc1]; inv_bind H;
    injection H as <- _; exists out; (split; [reflexivity|]);
    exact (set_transform_no_duplicates _ _ _ _ _ _ _ _ Ha0 (NoDup_nil _)).
Qed.

Theorem set_typed_transform_over_map_refuted :
  exists fuel vs sc e out sc', eval fuel vs sc e = Ok (VSet out, sc') /\ ~ NoDup out.
Proof.
  exists 5%nat, [], [],
    (ETransform (ELit (VMap [("a", VInt 1); ("b", VInt 2)])) "e" [SAssign "big" (EBin OpGT (EGetAttr (EName "e") "value") (ELit (VInt 9)) "")] TySet),
    [VMap [("big", VBool false)]; VMap [("big", VBool false)]], [].
  split; [vm_compute; reflexivity|].
  intros ND. inversion ND as [|x l Hn _]; subst. apply Hn. left. reflexivity.
Qed.
