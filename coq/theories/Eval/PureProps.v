(* C10: purity of the evaluator model.  Every variable bound before an evaluation is bound to the same value
   afterwards, unless the program itself re-binds that very name with a `let` (the Go code has one shared Scope map
   and never un-does a let: see eval_pure_let_refuted).  Scope variables of where / flatten / transforms need no
   such hypothesis: they are deleted and the previous binding is put back (Tables.where_flatten_restores,
   Tables.transform_restores - obligations against the current source). *)
From Coq Require Import String List ZArith Bool Ascii.
Import ListNotations.
Require Import Verif.Eval.Value Verif.Eval.Interp Verif.Eval.Tables Verif.Gen.EvalTables.
Local Open Scope string_scope.
Local Open Scope list_scope.

(* ---- names bound by a `let` anywhere in an expression (not in the views it calls: a call evaluates the
        callee in a scope of its own, which is dropped) ---- *)
Fixpoint lets (e:expr) : list string :=
  match e with
  | EName _ | ELit _ => []
  | EGetAttr a _ => lets a
  | ETransform a _ ss _ =>
      lets a ++ (fix go (ss:list stmt) : list string :=
                   match ss with
                   | [] => []
                   | s :: r => lets_stmt s ++ go r
                   end) ss
  | EIf c t f => lets c ++ lets t ++ lets f
  | ECall _ args => (fix go (es:list expr) : list string := match es with [] => [] | a :: r => lets a ++ go r end) args
  | EUn _ a => lets a
  | EBin _ l r _ => lets l ++ lets r
  | EList es | ESet es => (fix go (es:list expr) : list string := match es with [] => [] | a :: r => lets a ++ go r end) es
  end
with lets_stmt (s:stmt) : list string :=
  match s with
  | SLet x e => x :: lets e
  | SAssign _ e => lets e
  end.

Definition lets_list (es:list expr) : list string := flat_map lets es.
Definition lets_stmts (ss:list stmt) : list string := flat_map lets_stmt ss.

Lemma lets_transform a sv ss ty : lets (ETransform a sv ss ty) = lets a ++ lets_stmts ss.
Proof. reflexivity. Qed.
Lemma lets_call fn args : lets (ECall fn args) = lets_list args.
Proof. reflexivity. Qed.
Lemma lets_elist es : lets (EList es) = lets_list es.
Proof. reflexivity. Qed.
Lemma lets_eset es : lets (ESet es) = lets_list es.
Proof. reflexivity. Qed.

(* ---- scopes ---- *)
Lemma sget_sdel_eq x sc : sget x (sdel x sc) = None.
Proof.
  unfold sget, sdel. induction sc as [|[k v] sc IH]; cbn [filter assoc fst]; [reflexivity|].
  destruct (String.eqb k x) eqn:E; cbn [negb]; [exact IH|].
  cbn [assoc]. rewrite String.eqb_sym, E. exact IH.
Qed.
Lemma sget_sdel_neq x y sc : x <> y -> sget x (sdel y sc) = sget x sc.
Proof.
  intros N. unfold sget, sdel. induction sc as [|[k v] sc IH]; cbn [filter assoc fst]; [reflexivity|].
  destruct (String.eqb k y) eqn:E; cbn [negb].
  - apply String.eqb_eq in E. subst k. destruct (String.eqb x y) eqn:E2; [apply String.eqb_eq in E2; contradiction|]. exact IH.
  - cbn [assoc]. destruct (String.eqb x k); [reflexivity|exact IH].
Qed.
Lemma sget_sset_eq x v sc : sget x (sset x v sc) = Some v.
Proof. unfold sget, sset. cbn [assoc]. rewrite String.eqb_refl. reflexivity. Qed.
Lemma sget_sset_neq x y v sc : x <> y -> sget x (sset y v sc) = sget x sc.
Proof.
  intros N. unfold sset. unfold sget at 1. cbn [assoc].
  destruct (String.eqb x y) eqn:E; [apply String.eqb_eq in E; contradiction|]. apply sget_sdel_neq. exact N.
Qed.

Lemma bind_ok {A B} (o:outcome A) (f:A -> outcome B) b : bind o f = Ok b -> exists a, o = Ok a /\ f a = Ok b.
Proof. destruct o; cbn [bind]; try discriminate. intros H. eexists. split; [reflexivity|exact H]. Qed.

Ltac inv_bind H :=
  let a := fresh "a" in let Ha := fresh "Ha" in
  apply bind_ok in H; destruct H as [a [Ha H]].

(* what after_iteration does, for the shape the current source has *)
Lemma after_iteration_restore sv saved sc sc' x :
  after_iteration SvDeleteThenRestore sv saved sc = Ok sc' ->
  sget x sc' = if String.eqb x sv then saved else sget x sc.
Proof.
  cbn [after_iteration]. intros [= <-].
  destruct (String.eqb x sv) eqn:E.
  - apply String.eqb_eq in E. subst x. destruct saved; [apply sget_sset_eq|apply sget_sdel_eq].
  - apply String.eqb_neq in E. destruct saved; [rewrite sget_sset_neq by exact E|]; apply sget_sdel_neq; exact E.
Qed.

(* side condition on the variable: the template-result name "__$" is deleted by every transform body that finds it
   bound, so it is preserved only when it is unbound to begin with (it then stays unbound) *)
Definition okx (x:string) (sc:scope) : Prop := x = implied_result -> sget implied_result sc = None.
Lemma okx_neq x sc : x <> implied_result -> okx x sc.
Proof. intros N Q. contradiction. Qed.
Lemma carry x sc sc1 : sget x sc1 = sget x sc -> okx x sc -> okx x sc1.
Proof. intros E N Q. subst x. rewrite E. exact (N eq_refl). Qed.

Definition preserves (ev:evaluator) : Prop :=
  forall sc e v sc' x, ev sc e = Ok (v, sc') -> ~ In x (lets e) -> okx x sc -> sget x sc' = sget x sc.

Section Step.
Variable ev : evaluator.
Hypothesis Hev : preserves ev.

Lemma seq_preserves es : forall sc vs sc' x,
  eval_seq ev es sc = Ok (vs, sc') -> ~ In x (lets_list es) -> okx x sc -> sget x sc' = sget x sc.
Proof.
  induction es as [|e es IH]; intros sc vs sc' x H N1 N2; cbn [eval_seq] in H.
  - injection H as _ <-. reflexivity.
  - inv_bind H. destruct a as [v sc1]. inv_bind H. destruct a as [vs' sc2]. injection H as _ <-.
    cbn [lets_list flat_map] in N1. rewrite in_app_iff in N1.
    assert (E1 : sget x sc1 = sget x sc) by (apply (Hev _ _ _ _ _ Ha); tauto).
    rewrite (IH _ _ _ _ Ha0) by (try tauto; exact (carry _ _ _ E1 N2)). exact E1.
Qed.

Lemma iter_preserves sv rhs keep xs : forall sc out sc' x,
  iter_rhs ev sv rhs keep xs sc = Ok (out, sc') -> x <> sv -> ~ In x (lets rhs) -> okx x sc ->
  sget x sc' = sget x sc.
Proof.
  induction xs as [|l xs IH]; intros sc out sc' x H Nsv N1 N2; cbn [iter_rhs] in H.
  - injection H as _ <-. reflexivity.
  - inv_bind H. destruct a as [r sc1]. inv_bind H. inv_bind H. destruct a0 as [rest sc2]. injection H as _ <-.
    assert (E0 : sget x (sset sv l sc) = sget x sc) by (apply sget_sset_neq; exact Nsv).
    assert (E1 : sget x sc1 = sget x sc) by (rewrite (Hev _ _ _ _ _ Ha N1 (carry _ _ _ E0 N2)); exact E0).
    rewrite (IH _ _ _ _ Ha1 Nsv N1 (carry _ _ _ E1 N2)). exact E1.
Qed.

Lemma stmts_preserves ss : forall result sc result' sc' x,
  eval_stmts ev ss result sc = Ok (result', sc') -> ~ In x (lets_stmts ss) -> okx x sc -> sget x sc' = sget x sc.
Proof.
  induction ss as [|s ss IH]; intros result sc result' sc' x H N1 N2; cbn [eval_stmts] in H.
  - injection H as _ <-. reflexivity.
  - cbn [lets_stmts flat_map] in N1. rewrite in_app_iff in N1. destruct s as [y e|y e]; cbn [lets_stmt] in N1.
    + inv_bind H. destruct a as [r sc1]. destruct (String.eqb y log_string); [discriminate|].
      cbn [In] in N1.
      assert (E1 : sget x sc1 = sget x sc) by (apply (Hev _ _ _ _ _ Ha); tauto).
      assert (E2 : sget x (sset y r sc1) = sget x sc) by (rewrite sget_sset_neq by (intros ->; tauto); exact E1).
      rewrite (IH _ _ _ _ _ H) by (try tauto; exact (carry _ _ _ E2 N2)). exact E2.
    + inv_bind H. destruct a as [r sc1].
      assert (E1 : sget x sc1 = sget x sc) by (apply (Hev _ _ _ _ _ Ha); tauto).
      rewrite (IH _ _ _ _ _ H) by (try tauto; exact (carry _ _ _ E1 N2)). exact E1.
Qed.

Lemma tstmts_preserves ss sc r sc' x :
  eval_transform_stmts ev ss sc = Ok (r, sc') -> ~ In x (lets_stmts ss) -> okx x sc -> sget x sc' = sget x sc.
Proof.
  unfold eval_transform_stmts. intros H N1 N2. inv_bind H. destruct a as [result sc1].
  pose proof (stmts_preserves _ _ _ _ _ _ Ha N1 N2) as E1.
  destruct (sget implied_result sc1) eqn:I; injection H as _ <-; [|exact E1].
  destruct (string_dec x implied_result) as [Q|Q].
  - subst x. rewrite sget_sdel_eq. symmetry. exact (N2 eq_refl).
  - rewrite sget_sdel_neq by exact Q. exact E1.
Qed.

Lemma loop_preserves k sv ss xs : forall acc sc out sc' x,
  transform_loop ev k sv ss xs acc sc = Ok (out, sc') -> x <> sv -> ~ In x (lets_stmts ss) -> okx x sc ->
  sget x sc' = sget x sc.
Proof.
  induction xs as [|x0 xs IH]; intros acc sc out sc' x H Nsv N1 N2; cbn [transform_loop] in H.
  - injection H as _ <-. reflexivity.
  - inv_bind H. destruct a as [r sc1]. inv_bind H.
    assert (E0 : sget x (sset sv x0 sc) = sget x sc) by (apply sget_sset_neq; exact Nsv).
    assert (E1 : sget x sc1 = sget x sc) by (rewrite (tstmts_preserves _ _ _ _ _ Ha N1 (carry _ _ _ E0 N2)); exact E0).
    rewrite (IH _ _ _ _ _ H Nsv N1 (carry _ _ _ E1 N2)). exact E1.
Qed.

Lemma efun_preserves f sc lhs sv rhs r sc' x :
  apply_efun ev f sc lhs sv rhs = Ok (r, sc') -> x <> sv -> ~ In x (lets rhs) -> okx x sc ->
  sget x sc' = sget x sc.
Proof.
  intros H Nsv N1 N2.
  assert (FLAT : forall (outer inner:value -> option (list value)) (mkv:list value -> value),
    match outer lhs with
    | None => Panic
    | Some xs =>
        match flat_inner inner xs with
        | Some ys => '(out, sc1) <- iter_rhs ev sv rhs keep_result ys sc ;; Ok (mkv out, sc1)
        | None => '(out, sc1) <- iter_rhs ev sv rhs keep_result (flat_prefix inner xs) sc ;; Panic
        end
    end = Ok (r, sc') -> sget x sc' = sget x sc).
  { intros outer inner mkv HF. destruct (outer lhs) as [xs|]; [|discriminate].
    destruct (flat_inner inner xs).
    - inv_bind HF. destruct a as [out sc1]. injection HF as _ <-. apply (iter_preserves _ _ _ _ _ _ _ _ Ha Nsv N1 N2).
    - inv_bind HF. destruct a as [out sc1]. discriminate. }
  destruct f; cbn [apply_efun] in H; try discriminate; try (apply (FLAT _ _ _ H)).
  - destruct lhs; try discriminate. inv_bind H. destruct a as [out sc1]. injection H as _ <-. apply (iter_preserves _ _ _ _ _ _ _ _ Ha Nsv N1 N2).
  - destruct lhs; try discriminate. destruct (all_maps l).
    + inv_bind H. destruct a as [out sc1]. injection H as _ <-. apply (iter_preserves _ _ _ _ _ _ _ _ Ha Nsv N1 N2).
    + inv_bind H. destruct a as [out sc1]. discriminate.
  - destruct lhs; try discriminate. inv_bind H. destruct a as [out sc1]. injection H as _ <-. apply (iter_preserves _ _ _ _ _ _ _ _ Ha Nsv N1 N2).
  - destruct lhs; try discriminate. inv_bind H. destruct a as [out sc1]. injection H as _ <-. apply (iter_preserves _ _ _ _ _ _ _ _ Ha Nsv N1 N2).
  - destruct lhs; try discriminate. inv_bind H. destruct a as [out sc1]. injection H as _ <-. apply (iter_preserves _ _ _ _ _ _ _ _ Ha Nsv N1 N2).
Qed.

(* the end of a transform: scope variable and "." *)
Lemma transform_finish sv sc0 sc1 sc2 x :
  (sc1' <- after_iteration transform_scopevar sv (sget sv sc0) sc1 ;;
   Ok (match sget "." sc0 with Some v => sset "." v sc1' | None => sc1' end)) = Ok sc2 ->
  (x <> sv -> sget x sc1 = sget x sc0) ->
  sget x sc2 = sget x sc0.
Proof.
  rewrite transform_restores. intros H P. inv_bind H. injection H as <-.
  pose proof (after_iteration_restore _ _ _ _ x Ha) as R.
  assert (Q : sget x a = sget x sc0).
  { rewrite R. destruct (String.eqb x sv) eqn:E; [apply String.eqb_eq in E; subst x; reflexivity|].
    apply String.eqb_neq in E. exact (P E). }
  destruct (sget "." sc0) eqn:D; [|exact Q].
  destruct (String.eqb x ".") eqn:E.
  - apply String.eqb_eq in E. subst x. rewrite sget_sset_eq. symmetry. exact D.
  - apply String.eqb_neq in E. rewrite sget_sset_neq by exact E. exact Q.
Qed.

Lemma transform_preserves sc arg sv ss ty v sc' x :
  eval_transform ev sc arg sv ss ty = Ok (v, sc') -> ~ In x (lets arg ++ lets_stmts ss) -> okx x sc ->
  sget x sc' = sget x sc.
Proof.
  intros H N1 N2. rewrite in_app_iff in N1. unfold eval_transform in H.
  destruct (is_dot_name arg); [injection H as _ <-; reflexivity|].
  inv_bind H. destruct a as [argv sc0]. cbv zeta in H.
  assert (E0 : sget x sc0 = sget x sc) by (apply (Hev _ _ _ _ _ Ha); tauto).
  rewrite <- E0. pose proof (carry _ _ _ E0 N2) as N3.
  assert (LOOP : forall k xs out sc1 sc2,
    transform_loop ev k sv ss xs [] sc0 = Ok (out, sc1) ->
    (sc1' <- after_iteration transform_scopevar sv (sget sv sc0) sc1 ;;
     Ok (match sget "." sc0 with Some v => sset "." v sc1' | None => sc1' end)) = Ok sc2 ->
    sget x sc2 = sget x sc0).
  { intros k xs out sc1 sc2 HL HF. apply (transform_finish _ _ _ _ _ HF).
    intros Nsv. apply (loop_preserves _ _ _ _ _ _ _ _ _ HL Nsv); tauto. }
  assert (ONE : forall (a:value) r sc1 sc2,
    eval_transform_stmts ev ss (sset sv a sc0) = Ok (r, sc1) ->
    (sc1' <- after_iteration transform_scopevar sv (sget sv sc0) sc1 ;;
     Ok (match sget "." sc0 with Some v => sset "." v sc1' | None => sc1' end)) = Ok sc2 ->
    sget x sc2 = sget x sc0).
  { intros a r sc1 sc2 HS HF. apply (transform_finish _ _ _ _ _ HF).
    intros Nsv. assert (E1 : sget x (sset sv a sc0) = sget x sc0) by (apply sget_sset_neq; exact Nsv).
    rewrite (tstmts_preserves _ _ _ _ _ HS) by (try tauto; exact (carry _ _ _ E1 N3)). exact E1. }
  destruct argv as [| b | z | s | | l | l | m]; try discriminate.
  - inv_bind H. destruct a as [r sc1]. inv_bind H. injection H as _ <-. apply (ONE _ _ _ _ Ha0 Ha1).
  - inv_bind H. destruct a as [r sc1]. inv_bind H. injection H as _ <-. apply (ONE _ _ _ _ Ha0 Ha1).
  - inv_bind H. destruct a as [r sc1]. inv_bind H. injection H as _ <-. apply (ONE _ _ _ _ Ha0 Ha1).
  - inv_bind H. destruct a as [r sc1]. inv_bind H. injection H as _ <-. apply (ONE _ _ _ _ Ha0 Ha1).
  - destruct ty; try discriminate; inv_bind H; destruct a as [out sc1]; inv_bind H; injection H as _ <-; apply (LOOP _ _ _ _ _ Ha0 Ha1).
  - destruct ty; try discriminate; inv_bind H; destruct a as [out sc1]; inv_bind H; injection H as _ <-; apply (LOOP _ _ _ _ _ Ha0 Ha1).
  - destruct (negb (String.eqb sv ".")).
    + inv_bind H. destruct a as [out sc1]. inv_bind H. injection H as _ <-. apply (LOOP _ _ _ _ _ Ha0 Ha1).
    + inv_bind H. destruct a as [r sc1]. inv_bind H. injection H as _ <-. apply (ONE _ _ _ _ Ha0 Ha1).
Qed.

Lemma step_preserves vs : preserves (step ev vs).
Proof.
  intros sc e v sc' x H N1 N2. destruct e; cbn [step] in H.
  - (* EName *)
    destruct (sget x0 sc); [injection H as _ <-; reflexivity|].
    destruct (String.eqb x0 implied_result || String.eqb x0 log_string); [discriminate|]. injection H as _ <-. reflexivity.
  - injection H as _ <-. reflexivity.
  - (* EGetAttr *)
    unfold eval_get_attr in H. inv_bind H. destruct a as [a sc1]. cbn [lets] in N1.
    rewrite <- (Hev _ _ _ _ _ Ha N1 N2).
    destruct a; try discriminate.
    destruct (is_internal_map m).
    + destruct (String.eqb attr "value" || String.eqb attr "key"); [injection H as _ <-; reflexivity|].
      destruct (map_get "value" m) as [[]|]; try discriminate. injection H as _ <-. reflexivity.
    + injection H as _ <-. reflexivity.
  - (* ETransform *)
    rewrite lets_transform in N1. apply (transform_preserves _ _ _ _ _ _ _ _ H N1 N2).
  - (* EIf *)
    inv_bind H. destruct a as [cv sc1]. cbn [lets] in N1. rewrite !in_app_iff in N1.
    assert (E1 : sget x sc1 = sget x sc) by (apply (Hev _ _ _ _ _ Ha); tauto).
    rewrite <- E1. pose proof (carry _ _ _ E1 N2) as N3.
    destruct (getB cv); apply (Hev _ _ _ _ _ H); tauto.
  - (* ECall *)
    rewrite lets_call in N1. rewrite eval_call_eq in H.
    destruct (assoc String.eqb fn vs) as [vw|].
    + destruct (negb (Nat.eqb (List.length (v_params vw)) (List.length args))); [injection H as _ <-; reflexivity|].
      inv_bind H. destruct a as [avs sc1]. inv_bind H. destruct a as [r sc2]. injection H as _ <-.
      apply (seq_preserves _ _ _ _ _ Ha N1 N2).
    + destruct (is_dot_func fn) as [f|].
      * unfold call_dot in H. destruct (String.eqb f "count"); [|discriminate].
        destruct args as [|a0 args]; [discriminate|].
        inv_bind H. destruct a as [c sc1]. cbn [lets_list flat_map] in N1. rewrite in_app_iff in N1.
        rewrite <- (Hev _ _ _ _ _ Ha) by tauto.
        destruct c; try discriminate; injection H as _ <-; reflexivity.
      * unfold call_go_func in H. inv_bind H. destruct a as [avs sc1]. inv_bind H. injection H as _ <-.
        apply (seq_preserves _ _ _ _ _ Ha N1 N2).
  - (* EUn *)
    inv_bind H. destruct a as [v1 sc1]. cbn [lets] in N1.
    rewrite <- (Hev _ _ _ _ _ Ha N1 N2).
    destruct (assoc unop_eqb op unary_functions); [|discriminate]. inv_bind H. injection H as _ <-. reflexivity.
  - (* EBin *)
    cbn [lets] in N1. rewrite in_app_iff in N1. unfold eval_binexpr in H.
    assert (DEF : forall op' v' sc'', eval_default ev op' sc e1 e2 = Ok (v', sc'') -> sget x sc'' = sget x sc).
    { intros op' v' sc'' HD. unfold eval_default in HD. inv_bind HD. destruct a as [l sc1]. inv_bind HD. destruct a as [r sc2].
      destruct (assoc key3_eqb (op', kind_of l, kind_of r) value_functions); [|discriminate].
      inv_bind HD. injection HD as _ <-.
      assert (E1 : sget x sc1 = sget x sc) by (apply (Hev _ _ _ _ _ Ha); tauto).
      rewrite (Hev _ _ _ _ _ Ha0) by (try tauto; exact (carry _ _ _ E1 N2)). exact E1. }
    destruct (assoc binop_eqb op strategy_table) as [[]|]; try discriminate.
    + apply (DEF _ _ _ H).
    + destruct (negb (binop_eqb op OpNE)); [discriminate|]. inv_bind H. destruct a as [v1 sc1]. inv_bind H. injection H as _ <-.
      apply (DEF _ _ _ Ha).
    + inv_bind H. destruct a as [l sc1]. destruct (contained_kind l) as [ck|]; [|discriminate].
      destruct (assoc key3_eqb (op, kind_of l, ck) expr_functions) as [f|]; [|discriminate].
      inv_bind H. destruct a as [r sc2]. inv_bind H. injection H as _ <-.
      rewrite where_flatten_restores in Ha1.
      rewrite (after_iteration_restore _ _ _ _ x Ha1).
      assert (E1 : sget x sc1 = sget x sc) by (apply (Hev _ _ _ _ _ Ha); tauto).
      destruct (String.eqb x scopevar) eqn:E.
      * apply String.eqb_eq in E. subst x. exact E1.
      * apply String.eqb_neq in E. rewrite (efun_preserves _ _ _ _ _ _ _ _ Ha0 E) by (try tauto; exact (carry _ _ _ E1 N2)). exact E1.
  - (* EList *)
    rewrite lets_elist in N1. inv_bind H. destruct a as [vs' sc1]. injection H as _ <-. apply (seq_preserves _ _ _ _ _ Ha N1 N2).
  - (* ESet *)
    rewrite lets_eset in N1. inv_bind H. destruct a as [vs' sc1]. injection H as _ <-. apply (seq_preserves _ _ _ _ _ Ha N1 N2).
Qed.
End Step.

Lemma eval_preserves_gen fuel vs : preserves (eval fuel vs).
Proof.
  induction fuel as [|n IH]; [intros sc e v sc' x H; discriminate|].
  cbn [eval]. apply step_preserves. exact IH.
Qed.
Lemma eval_preserves fuel vs : forall sc e v sc' x,
  eval fuel vs sc e = Ok (v, sc') -> ~ In x (lets e) -> x <> implied_result -> sget x sc' = sget x sc.
Proof. intros sc e v sc' x H N1 N2. exact (eval_preserves_gen fuel vs _ _ _ _ _ H N1 (okx_neq _ _ N2)). Qed.

(* ================= headline statements ================= *)

(* Every variable bound before the evaluation is bound to the same value afterwards, unless the expression itself
   contains a `let` of that very name.  No hypothesis on scope variables of where / flatten / transforms, none on
   the views called.  ("__$" is the template-result name, outside the modelled fragment.) *)
Theorem eval_pure : forall fuel vs sc e v sc' x val,
  eval fuel vs sc e = Ok (v, sc') -> sget x sc = Some val -> ~ In x (lets e) -> x <> implied_result ->
  sget x sc' = Some val.
Proof. intros fuel vs sc e v sc' x val H B N1 N2. rewrite (eval_preserves fuel vs _ _ _ _ _ H N1 N2). exact B. Qed.

(* ... and a variable that was unbound is not left bound (nothing but lets leaks) *)
Theorem eval_no_leak : forall fuel vs sc e v sc' x,
  eval fuel vs sc e = Ok (v, sc') -> sget x sc = None -> ~ In x (lets e) -> x <> implied_result -> sget x sc' = None.
Proof. intros fuel vs sc e v sc' x H B N1 N2. rewrite (eval_preserves fuel vs _ _ _ _ _ H N1 N2). exact B. Qed.

Theorem evaluate_view_pure : forall fuel vs name vw sc v sc' x val,
  assoc String.eqb name vs = Some vw ->
  evaluate_view fuel vs name sc = Ok (v, sc') -> sget x sc = Some val -> ~ In x (lets (v_body vw)) -> x <> implied_result ->
  sget x sc' = Some val.
Proof.
  intros fuel vs name vw sc v sc' x val L H B N1 N2. unfold evaluate_view in H. rewrite L in H.
  exact (eval_pure _ _ _ _ _ _ _ _ H B N1 N2).
Qed.

(* where / flatten: whatever the right-hand side does (even a `let` of the scope variable's name), the scope
   variable ends up bound to what it was bound to when the iteration started - for any evaluator of the
   sub-expressions *)
Theorem where_restores_local : forall ev sc op l r sv v sc',
  assoc binop_eqb op strategy_table = Some SLhsOverRhs ->
  eval_binexpr ev sc op l r sv = Ok (v, sc') ->
  exists lv sc1, ev sc l = Ok (lv, sc1) /\ sget sv sc' = sget sv sc1.
Proof.
  intros ev sc op l r sv v sc' S H. unfold eval_binexpr in H. rewrite S in H.
  inv_bind H. destruct a as [lv sc1]. exists lv, sc1. split; [exact Ha|].
  destruct (contained_kind lv) as [ck|]; [|discriminate].
  destruct (assoc key3_eqb (op, kind_of lv, ck) expr_functions) as [f|]; [|discriminate].
  inv_bind H. destruct a as [r0 sc2]. inv_bind H. injection H as _ <-.
  rewrite where_flatten_restores in Ha1. rewrite (after_iteration_restore _ _ _ _ sv Ha1), String.eqb_refl. reflexivity.
Qed.

Theorem where_restores : forall fuel vs sc op l r sv v sc',
  assoc binop_eqb op strategy_table = Some SLhsOverRhs ->
  eval fuel vs sc (EBin op l r sv) = Ok (v, sc') -> ~ In sv (lets l) -> sv <> implied_result ->
  sget sv sc' = sget sv sc.
Proof.
  intros fuel vs sc op l r sv v sc' S H N1 N2. destruct fuel as [|n]; [discriminate|]. cbn [eval step] in H.
  destruct (where_restores_local _ _ _ _ _ _ _ _ S H) as [lv [sc1 [HL ->]]].
  exact (eval_preserves n vs _ _ _ _ _ HL N1 N2).
Qed.

(* transforms: the same (since fixes/C10-2) *)
Theorem transform_restores_scopevar : forall ev sc arg sv ss ty v sc',
  is_dot_name arg = false ->
  eval_transform ev sc arg sv ss ty = Ok (v, sc') ->
  exists av sc0, ev sc arg = Ok (av, sc0) /\ sget sv sc' = sget sv sc0.
Proof.
  intros ev sc arg sv ss ty v sc' ND H. unfold eval_transform in H. rewrite ND in H.
  inv_bind H. destruct a as [argv sc0]. exists argv, sc0. split; [exact Ha|]. cbv zeta in H.
  assert (FIN : forall sc1 sc2,
    (sc1' <- after_iteration transform_scopevar sv (sget sv sc0) sc1 ;;
     Ok (match sget "." sc0 with Some v => sset "." v sc1' | None => sc1' end)) = Ok sc2 -> sget sv sc2 = sget sv sc0).
  { intros sc1 sc2 HF. apply (transform_finish _ _ _ _ _ HF). intros N. contradiction. }
  destruct argv as [| b | z | s | | l | l | m]; try discriminate;
    try (inv_bind H; destruct a as [r sc1]; inv_bind H; injection H as _ <-; apply (FIN _ _ Ha1)).
  - destruct ty; try discriminate; inv_bind H; destruct a as [out sc1]; inv_bind H; injection H as _ <-; apply (FIN _ _ Ha1).
  - destruct ty; try discriminate; inv_bind H; destruct a as [out sc1]; inv_bind H; injection H as _ <-; apply (FIN _ _ Ha1).
  - destruct (negb (String.eqb sv ".")); inv_bind H; destruct a as [out sc1]; inv_bind H; injection H as _ <-; apply (FIN _ _ Ha1).
Qed.

(* why Tables.transform_restores is needed: with the code as it was before fixes/C10-2 (delete, no restore) a
   bound variable of the scope variable's name is lost *)
Lemma delete_only_loses_binding : forall sv v sc sc',
  after_iteration SvDeleteOnly sv (Some v) sc = Ok sc' -> sget sv sc' = None.
Proof. intros sv v sc sc'. cbn [after_iteration]. intros [= <-]. apply sget_sdel_eq. Qed.

(* The hypothesis of eval_pure is needed: a `let` of a name that is already bound (here the parameter p1)
   replaces that binding in the caller's scope - the real code does the same (known finding). *)
Definition let_rebind_view : expr :=
  ETransform (EName "p0") "." [SLet "p1" (ELit (VInt 5)); SAssign "a" (EName "p1")] TyOther.
Theorem eval_pure_let_refuted :
  exists fuel vs sc e v sc' x val,
    eval fuel vs sc e = Ok (v, sc') /\ sget x sc = Some val /\ x <> implied_result /\ sget x sc' <> Some val.
Proof.
  exists 5, [], [("p0", VInt 0); ("p1", VInt 1)], let_rebind_view, (VMap [("a", VInt 5)]),
         [("p1", VInt 5); ("p0", VInt 0)], "p1", (VInt 1).
  split; [vm_compute; reflexivity|]. split; [reflexivity|]. split; [discriminate|]. vm_compute. discriminate.
Qed.

(* non-vacuity of eval_pure / where_restores: a where whose scope variable is the name of a bound variable, which
   is read again afterwards *)
Definition shadow_where : expr :=
  EBin OpWHERE (ELit (VList [VStr "a"; VStr "b"])) (EBin OpNE (EName "v") (ELit (VStr "a")) "") "v".
Example eval_pure_applies :
  eval 5 [] [("v", VStr "outer")] shadow_where = Ok (VList [VStr "b"], [("v", VStr "outer")])
  /\ ~ In "v" (lets shadow_where) /\ assoc binop_eqb OpWHERE strategy_table = Some SLhsOverRhs.
Proof. split; [vm_compute; reflexivity|]. split; [cbn; tauto|reflexivity]. Qed.
Example transform_restores_applies :
  eval 5 [] [("v", VStr "outer")]
       (ETransform (ELit (VList [VStr "a"])) "v" [SAssign "f" (EName "v")] TyOther)
  = Ok (VList [VMap [("f", VStr "a")]], [("v", VStr "outer")]).
Proof. vm_compute. reflexivity. Qed.

(* ---- the caller's scope as a whole (second pass) ----
   After EvaluateView every variable the caller had bound is bound to the same value, provided no `let` of the view's
   own body takes the name of a variable the caller has bound - exactly the carve-out of the known finding
   caller-binding-rebound-by-let (the other known finding, a nested let replacing an outer let, happens between lets of
   the body and never touches a caller variable: it needs no carve-out here).  Values being pure, "bound to the same
   value" is the deep comparison the oracle makes. *)
Theorem evaluate_view_pure_full : forall fuel vs name vw sc v sc',
  assoc String.eqb name vs = Some vw ->
  evaluate_view fuel vs name sc = Ok (v, sc') ->
  (forall x, In x (lets (v_body vw)) -> sget x sc = None) ->
  sget implied_result sc = None ->
  forall x val, sget x sc = Some val -> sget x sc' = Some val.
Proof.
  intros fuel vs name vw sc v sc' Hv H NL NI x val B. unfold evaluate_view in H. rewrite Hv in H.
  apply (eval_pure fuel vs sc (v_body vw) v sc' x val H B).
  - intros I. rewrite (NL x I) in B. discriminate.
  - intros ->. rewrite NI in B. discriminate.
Qed.

Example evaluate_view_pure_full_applies :
  let vs := [("main", {| v_params := ["p0"; "xs"];
                         v_body := ETransform (EName "p0") "." [SLet "q" (EBin OpWHERE (EName "xs") (EBin OpGT (EName "p0") (ELit (VInt 1)) "") "p0");
                                                                 SAssign "kept" (EName "q")] TyOther |})] in
  let sc := [("p0", VInt 7); ("xs", VList [VInt 1; VInt 2; VInt 3])] in
  (forall x, In x (lets (ETransform (EName "p0") "." [SLet "q" (EBin OpWHERE (EName "xs") (EBin OpGT (EName "p0") (ELit (VInt 1)) "") "p0");
                                                       SAssign "kept" (EName "q")] TyOther)) -> sget x sc = None) /\
  exists v sc', evaluate_view 10 vs "main" sc = Ok (v, sc') /\ sget "p0" sc' = Some (VInt 7).
Proof.
  cbn zeta. split.
  - intros x [<-|[]]. reflexivity.
  - eexists _, _. split; [vm_compute; reflexivity|reflexivity].
Qed.
