(* C10 model, part 1b: the native Go helpers a transform may call (pkg/eval/goFuncs.go): the gate in front of them
   (isValueExpectedType / valueToReflectValue / reflectToValue, transliterated) and the helpers themselves on byte
   strings.  Definitions only.

   Helpers that work on bytes in Go (Contains, HasPrefix, HasSuffix, TrimPrefix, TrimSuffix, Join, LastIndex, Count and
   Split with a non-empty separator) are modelled for every string.  Helpers whose Go semantics are by Unicode code point
   (ToUpper, ToLower, ToTitle, TrimSpace, Trim, TrimLeft, TrimRight, Fields, Count / Split with an empty separator) are
   modelled on ASCII strings only and answer [None] (= Unmodelled) otherwise.  Not modelled at all: MatchString,
   FindAllString (regular expressions), Title (golang.org/x/text/cases), Replace. *)
From Coq Require Import String List ZArith Bool Ascii Arith.
Import ListNotations.
Require Import Verif.Eval.Value.
Local Open Scope string_scope.
Local Open Scope list_scope.

(* a reflect.Value of the kinds the helper table uses *)
Inductive harg := HS (s:string) | HI (z:Z) | HB (b:bool) | HL (l:list string).

(* ---- byte-string toolkit ---- *)
Definition slen (s:string) : nat := String.length s.
Fixpoint sdrop (n:nat) (s:string) : string :=
  match n, s with O, _ => s | S n', String _ r => sdrop n' r | _, EmptyString => EmptyString end.
Definition has_prefix (s p:string) : bool := String.prefix p s.
Definition has_suffix (s p:string) : bool := Nat.leb (slen p) (slen s) && String.eqb (sdrop (slen s - slen p) s) p.
Fixpoint stake (n:nat) (s:string) : string :=
  match n, s with O, _ => EmptyString | S n', String c r => String c (stake n' r) | _, EmptyString => EmptyString end.
Fixpoint contains (s sub:string) : bool :=
  String.prefix sub s || match s with String _ r => contains r sub | EmptyString => false end.
(* non-overlapping occurrences, leftmost first (sub non-empty) *)
Fixpoint count_from (skip:nat) (s sub:string) : nat :=
  match s with
  | EmptyString => 0
  | String _ r =>
      match skip with
      | S k => count_from k r sub
      | O => if String.prefix sub s then S (count_from (slen sub - 1) r sub) else count_from 0 r sub
      end
  end.
Fixpoint last_index_from (i:nat) (s sub:string) (best:Z) : Z :=
  let best' := if String.prefix sub s then Z.of_nat i else best in
  match s with EmptyString => best' | String _ r => last_index_from (S i) r sub best' end.
Definition snoc (s:string) (c:ascii) : string := (s ++ String c EmptyString)%string.
(* strings.Split with a non-empty separator *)
Fixpoint split_go (skip:nat) (s sep cur:string) : list string :=
  match s with
  | EmptyString => [cur]
  | String c r =>
      match skip with
      | S k => split_go k r sep cur
      | O => if String.prefix sep s then cur :: split_go (slen sep - 1) r sep EmptyString else split_go 0 r sep (snoc cur c)
      end
  end.
Fixpoint explode (s:string) : list string :=
  match s with EmptyString => [] | String c r => String c EmptyString :: explode r end.

Definition is_ascii_char (c:ascii) : bool := Nat.ltb (nat_of_ascii c) 128.
Fixpoint is_ascii (s:string) : bool := match s with EmptyString => true | String c r => is_ascii_char c && is_ascii r end.
Fixpoint smap (f:ascii -> ascii) (s:string) : string := match s with EmptyString => EmptyString | String c r => String (f c) (smap f r) end.
Definition upper_char (c:ascii) : ascii :=
  let n := nat_of_ascii c in if Nat.leb 97 n && Nat.leb n 122 then ascii_of_nat (n - 32) else c.
Definition lower_char (c:ascii) : ascii :=
  let n := nat_of_ascii c in if Nat.leb 65 n && Nat.leb n 90 then ascii_of_nat (n + 32) else c.
(* '\t' '\n' '\v' '\f' '\r' ' ' *)
Definition is_space (c:ascii) : bool := let n := nat_of_ascii c in (Nat.leb 9 n && Nat.leb n 13) || Nat.eqb n 32.
Fixpoint trim_left_by (p:ascii -> bool) (s:string) : string :=
  match s with EmptyString => EmptyString | String c r => if p c then trim_left_by p r else s end.
Fixpoint trim_right_by (p:ascii -> bool) (s:string) : string :=
  match s with
  | EmptyString => EmptyString
  | String c r => let r' := trim_right_by p r in if String.eqb r' EmptyString && p c then EmptyString else String c r'
  end.
Fixpoint in_cutset (cut:string) (c:ascii) : bool :=
  match cut with EmptyString => false | String d r => Ascii.eqb c d || in_cutset r c end.
Fixpoint fields_go (s cur:string) : list string :=
  match s with
  | EmptyString => if String.eqb cur EmptyString then [] else [cur]
  | String c r =>
      if is_space c then (if String.eqb cur EmptyString then fields_go r EmptyString else cur :: fields_go r EmptyString)
      else fields_go r (snoc cur c)
  end.

(* ---- the helpers: [None] = outside the model ---- *)
Definition go_impl (f:gimpl) (args:list harg) : option harg :=
  match f, args with
  | I_strings_Contains, [HS s; HS sub] => Some (HB (contains s sub))
  | I_strings_HasPrefix, [HS s; HS p] => Some (HB (has_prefix s p))
  | I_strings_HasSuffix, [HS s; HS p] => Some (HB (has_suffix s p))
  | I_strings_TrimPrefix, [HS s; HS p] => Some (HS (if has_prefix s p then sdrop (slen p) s else s))
  | I_strings_TrimSuffix, [HS s; HS p] => Some (HS (if has_suffix s p then stake (slen s - slen p) s else s))
  | I_strings_Join, [HL l; HS sep] => Some (HS (join sep l))
  | I_strings_LastIndex, [HS s; HS sub] => Some (HI (last_index_from 0 s sub (-1)))
  | I_strings_Count, [HS s; HS sub] =>
      if String.eqb sub EmptyString then (if is_ascii s then Some (HI (Z.of_nat (slen s + 1))) else None)
      else Some (HI (Z.of_nat (count_from 0 s sub)))
  | I_strings_Split, [HS s; HS sep] =>
      if String.eqb sep EmptyString then (if is_ascii s then Some (HL (explode s)) else None)
      else Some (HL (split_go 0 s sep EmptyString))
  | I_strings_ToUpper, [HS s] => if is_ascii s then Some (HS (smap upper_char s)) else None
  | I_strings_ToTitle, [HS s] => if is_ascii s then Some (HS (smap upper_char s)) else None
  | I_strings_ToLower, [HS s] => if is_ascii s then Some (HS (smap lower_char s)) else None
  | I_strings_TrimSpace, [HS s] => if is_ascii s then Some (HS (trim_right_by is_space (trim_left_by is_space s))) else None
  | I_strings_Trim, [HS s; HS cut] =>
      if is_ascii s && is_ascii cut then Some (HS (trim_right_by (in_cutset cut) (trim_left_by (in_cutset cut) s))) else None
  | I_strings_TrimLeft, [HS s; HS cut] => if is_ascii s && is_ascii cut then Some (HS (trim_left_by (in_cutset cut) s)) else None
  | I_strings_TrimRight, [HS s; HS cut] => if is_ascii s && is_ascii cut then Some (HS (trim_right_by (in_cutset cut) s)) else None
  | I_strings_Fields, [HS s] => if is_ascii s then Some (HL (fields_go s EmptyString)) else None
  | _, _ => None
  end.

(* ---- the gate (goFuncs.go) ---- *)
Inductive prim := PBool | PInt | PFloat | PString.
Definition prim_eqb (a b:prim) : bool :=
  match a, b with PBool,PBool | PInt,PInt | PFloat,PFloat | PString,PString => true | _, _ => false end.
(* valueTypeToPrimitiveType *)
Definition prim_of_kind (k:vkind) : option prim :=
  match k with KBool => Some PBool | KInt => Some PInt | KFloat => Some PFloat | KString => Some PString | _ => None end.
(* t.GetPrimitive() of the four types of the table: NO_Primitive for the list type *)
Definition prim_of_gty (t:gty) : option prim :=
  match t with GtString => Some PString | GtInt => Some PInt | GtBool => Some PBool | _ => None end.
(* t.GetList().Type of the list type *)
Definition elem_of_gty (t:gty) : option gty := match t with GtListString => Some GtString | _ => None end.

(* isValueExpectedType against a type without an element type of its own (a primitive): the recursion of the Go code
   ends here because the only list type of the table is a list of strings *)
Definition expected_flat (v:value) (t:gty) : bool :=
  match prim_of_kind (kind_of v), prim_of_gty t with
  | Some p, Some q => prim_eqb p q
  | _, _ =>
      match v with
      | VList [] | VSet [] => true
      | _ => false            (* t.GetList() == nil for a primitive t; a set type does not occur in the table *)
      end
  end.
Definition expected (v:value) (t:gty) : bool :=
  match prim_of_kind (kind_of v), prim_of_gty t with
  | Some p, Some q => prim_eqb p q
  | _, _ =>
      match v with
      | VList [] | VSet [] => true
      | VList (x :: _) | VSet (x :: _) => match elem_of_gty t with Some te => expected_flat x te | None => false end
      | _ => false
      end
  end.

(* valueToReflectValue, for a value that passed the gate *)
Definition to_reflect (v:value) (t:gty) : option harg :=
  match t with
  | GtBool => Some (HB (getB v))
  | GtInt => Some (HI (getI v))
  | GtString => Some (HS (getS v))
  | GtListString => match v with VList l | VSet l => Some (HL (map getS l)) | _ => None end
  | GtUnknown => None
  end.

Fixpoint convert_args (vs:list value) (ts:list gty) : option (option (list harg)) :=
  (* None = outside the model; Some None = some argument is not of the expected type (the call yields nil) *)
  match vs, ts with
  | [], [] => Some (Some [])
  | v :: vs', t :: ts' =>
      if expected v t then
        match to_reflect v t, convert_args vs' ts' with
        | Some h, Some (Some hs) => Some (Some (h :: hs))
        | Some _, Some None => Some None
        | _, _ => None
        end
      else Some None
  | _, _ => Some None
  end.
