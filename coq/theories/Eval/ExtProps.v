(* C10: the evaluator model only looks a scope up - scopes that bind the same names to the same values give the
   same value and equivalent scopes - and, with purity, this makes the scope threading of where / flatten /
   list transforms invisible for let-free bodies: where IS filter, flatten IS concat-map, a list transform IS map,
   each element being evaluated in the ORIGINAL scope. *)
From Coq Require Import String List ZArith Bool Ascii.
Import ListNotations.
Require Import Verif.Eval.Value Verif.Eval.Interp Verif.Eval.Tables Verif.Eval.PureProps Verif.Eval.SemProps Verif.Gen.EvalTables.
Local Open Scope string_scope.
Local Open Scope list_scope.

Definition sc_eq (a b:scope) : Prop := forall x, sget x a = sget x b.
Lemma sc_eq_refl a : sc_eq a a. Proof. intros x. reflexivity. Qed.
Lemma sc_eq_sym a b : sc_eq a b -> sc_eq b a. Proof. intros E x. symmetry. apply E. Qed.
Lemma sc_eq_trans a b c : sc_eq a b -> sc_eq b c -> sc_eq a c. Proof. intros E F x. rewrite E. apply F. Qed.

Lemma sset_eq x v a b : sc_eq a b -> sc_eq (sset x v a) (sset x v b).
Proof.
  intros E y. destruct (string_dec y x) as [->|N]; [rewrite !sget_sset_eq; reflexivity|].
  rewrite !sget_sset_neq by exact N. apply E.
Qed.
Lemma sdel_eq x a b : sc_eq a b -> sc_eq (sdel x a) (sdel x b).
Proof.
  intros E y. destruct (string_dec y x) as [->|N]; [rewrite !sget_sdel_eq; reflexivity|].
  rewrite !sget_sdel_neq by exact N. apply E.
Qed.

Definition oeq {A} (o1 o2:outcome (A * scope)) : Prop :=
  match o1, o2 with
  | Ok (x, a), Ok (y, b) => x = y /\ sc_eq a b
  | Panic, Panic | OutOfFuel, OutOfFuel | Unmodelled, Unmodelled => True
  | _, _ => False
  end.
Definition oeqs (o1 o2:outcome scope) : Prop :=
  match o1, o2 with
  | Ok a, Ok b => sc_eq a b
  | Panic, Panic | OutOfFuel, OutOfFuel | Unmodelled, Unmodelled => True
  | _, _ => False
  end.

Lemma oeq_ok {A} (x:A) a b : sc_eq a b -> oeq (Ok (x, a)) (Ok (x, b)).
Proof. intros E. split; [reflexivity|exact E]. Qed.
Lemma oeq_bind {A B} (o1 o2:outcome (A * scope)) (f g:A * scope -> outcome (B * scope)) :
  oeq o1 o2 -> (forall x a b, sc_eq a b -> oeq (f (x, a)) (g (x, b))) -> oeq (bind o1 f) (bind o2 g).
Proof. destruct o1 as [[x a]| | |], o2 as [[y b]| | |]; cbn; try tauto. intros [-> E] H. apply H, E. Qed.
Lemma oeq_bind_same {A B} (o:outcome A) (f g:A -> outcome (B * scope)) :
  (forall x, oeq (f x) (g x)) -> oeq (bind o f) (bind o g).
Proof. destruct o; cbn; auto. Qed.
Lemma oeqs_bind {B} (o1 o2:outcome scope) (f g:scope -> outcome (B * scope)) :
  oeqs o1 o2 -> (forall a b, sc_eq a b -> oeq (f a) (g b)) -> oeq (bind o1 f) (bind o2 g).
Proof. destruct o1, o2; cbn; try tauto. intros E H. apply H, E. Qed.

Lemma after_iteration_ext k sv saved a b : sc_eq a b -> oeqs (after_iteration k sv saved a) (after_iteration k sv saved b).
Proof. intros E. destruct k, saved; cbn; auto using sset_eq, sdel_eq. Qed.

Definition ext (ev:evaluator) : Prop := forall a b e, sc_eq a b -> oeq (ev a e) (ev b e).

Ltac fin := first [exact I | apply oeq_ok; assumption | (split; [reflexivity|assumption])].

Section Ext.
Variable ev : evaluator.
Hypothesis Hext : ext ev.

Lemma seq_ext es : forall a b, sc_eq a b -> oeq (eval_seq ev es a) (eval_seq ev es b).
Proof.
  induction es as [|e es IH]; intros a b E; cbn [eval_seq]; [fin|].
  apply oeq_bind; [apply Hext; exact E|]. intros v a1 b1 E1. cbn beta iota.
  apply oeq_bind; [apply IH; exact E1|]. intros vs a2 b2 E2. cbn beta iota. fin.
Qed.

Lemma iter_ext sv rhs keep xs : forall a b, sc_eq a b -> oeq (iter_rhs ev sv rhs keep xs a) (iter_rhs ev sv rhs keep xs b).
Proof.
  induction xs as [|l xs IH]; intros a b E; cbn [iter_rhs]; [fin|].
  apply oeq_bind; [apply Hext, sset_eq; exact E|]. intros r a1 b1 E1. cbn beta iota.
  apply oeq_bind_same. intros out.
  apply oeq_bind; [apply IH; exact E1|]. intros rest a2 b2 E2. cbn beta iota. fin.
Qed.

Lemma stmts_ext ss : forall result a b, sc_eq a b -> oeq (eval_stmts ev ss result a) (eval_stmts ev ss result b).
Proof.
  induction ss as [|s ss IH]; intros result a b E; cbn [eval_stmts]; [fin|].
  destruct s as [y e|y e].
  - apply oeq_bind; [apply Hext; exact E|]. intros r a1 b1 E1. cbn beta iota.
    destruct (String.eqb y log_string); [fin|]. apply IH, sset_eq, E1.
  - apply oeq_bind; [apply Hext; exact E|]. intros r a1 b1 E1. cbn beta iota. apply IH, E1.
Qed.

Lemma tstmts_ext ss a b : sc_eq a b -> oeq (eval_transform_stmts ev ss a) (eval_transform_stmts ev ss b).
Proof.
  intros E. unfold eval_transform_stmts.
  apply oeq_bind; [apply stmts_ext; exact E|]. intros result a1 b1 E1. cbn beta iota.
  rewrite <- (E1 implied_result). destruct (sget implied_result a1); [apply oeq_ok, sdel_eq, E1|fin].
Qed.

Lemma loop_ext k sv ss xs : forall acc a b, sc_eq a b ->
  oeq (transform_loop ev k sv ss xs acc a) (transform_loop ev k sv ss xs acc b).
Proof.
  induction xs as [|x xs IH]; intros acc a b E; cbn [transform_loop]; [fin|].
  apply oeq_bind; [apply tstmts_ext, sset_eq; exact E|]. intros r a1 b1 E1. cbn beta iota.
  apply oeq_bind_same. intros acc'. apply IH, E1.
Qed.

Lemma efun_ext f lhs sv rhs a b : sc_eq a b -> oeq (apply_efun ev f a lhs sv rhs) (apply_efun ev f b lhs sv rhs).
Proof.
  intros E.
  assert (IT : forall keep xs (mkv:list value -> value),
    oeq ('(out, sc1) <- iter_rhs ev sv rhs keep xs a ;; Ok (mkv out, sc1))
        ('(out, sc1) <- iter_rhs ev sv rhs keep xs b ;; Ok (mkv out, sc1))).
  { intros keep xs mkv. apply oeq_bind; [apply iter_ext; exact E|]. intros out a1 b1 E1. cbn beta iota. fin. }
  assert (ITP : forall keep xs,
    oeq (A:=value) ('(out, sc1) <- iter_rhs ev sv rhs keep xs a ;; Panic)
        ('(out, sc1) <- iter_rhs ev sv rhs keep xs b ;; Panic)).
  { intros keep xs. apply oeq_bind; [apply iter_ext; exact E|]. intros out a1 b1 E1. cbn beta iota. fin. }
  assert (FLAT : forall (outer inner:value -> option (list value)) (mkv:list value -> value),
    oeq (match outer lhs with
         | None => Panic
         | Some xs =>
             match flat_inner inner xs with
             | Some ys => '(out, sc1) <- iter_rhs ev sv rhs keep_result ys a ;; Ok (mkv out, sc1)
             | None => '(out, sc1) <- iter_rhs ev sv rhs keep_result (flat_prefix inner xs) a ;; Panic
             end
         end)
        (match outer lhs with
         | None => Panic
         | Some xs =>
             match flat_inner inner xs with
             | Some ys => '(out, sc1) <- iter_rhs ev sv rhs keep_result ys b ;; Ok (mkv out, sc1)
             | None => '(out, sc1) <- iter_rhs ev sv rhs keep_result (flat_prefix inner xs) b ;; Panic
             end
         end)).
  { intros outer inner mkv. destruct (outer lhs) as [xs|]; [|fin]. destruct (flat_inner inner xs); [apply IT|apply ITP]. }
  destruct f; cbn [apply_efun]; try apply FLAT; try fin.
  - destruct lhs; try fin. apply IT.
  - destruct lhs; try fin. destruct (all_maps l); [apply IT|apply ITP].
  - destruct lhs; try fin. apply IT.
  - destruct lhs; try fin. apply (IT keep_where _ (fun out => VMap (pairs_to_map out))).
  - destruct lhs; try fin. apply IT.
Qed.

Lemma finish_ext sv saved (dot:option value) a b : sc_eq a b ->
  oeqs (sc1 <- after_iteration transform_scopevar sv saved a ;; Ok (match dot with Some v => sset "." v sc1 | None => sc1 end))
       (sc1 <- after_iteration transform_scopevar sv saved b ;; Ok (match dot with Some v => sset "." v sc1 | None => sc1 end)).
Proof.
  intros E. pose proof (after_iteration_ext transform_scopevar sv saved a b E) as H.
  destruct (after_iteration transform_scopevar sv saved a), (after_iteration transform_scopevar sv saved b); cbn in *; try tauto.
  destruct dot; [apply sset_eq, H|exact H].
Qed.

Lemma transform_ext arg sv ss ty a b : sc_eq a b -> oeq (eval_transform ev a arg sv ss ty) (eval_transform ev b arg sv ss ty).
Proof.
  intros E. unfold eval_transform. destruct (is_dot_name arg); [fin|].
  apply oeq_bind; [apply Hext; exact E|]. intros argv a0 b0 E0. cbn beta iota zeta.
  rewrite <- (E0 sv), <- (E0 ".").
  assert (FIN : forall (mk:list value -> value) out a1 b1, sc_eq a1 b1 ->
    oeq (sc2 <- (sc1 <- after_iteration transform_scopevar sv (sget sv a0) a1 ;;
                 Ok (match sget "." a0 with Some v => sset "." v sc1 | None => sc1 end)) ;; Ok (mk out, sc2))
        (sc2 <- (sc1 <- after_iteration transform_scopevar sv (sget sv a0) b1 ;;
                 Ok (match sget "." a0 with Some v => sset "." v sc1 | None => sc1 end)) ;; Ok (mk out, sc2))).
  { intros mk out a1 b1 E1. apply oeqs_bind; [apply finish_ext; exact E1|]. intros a2 b2 E2. fin. }
  assert (LOOP : forall k xs (mk:list value -> value),
    oeq ('(out, sc1) <- transform_loop ev k sv ss xs [] a0 ;;
         sc2 <- (sc1' <- after_iteration transform_scopevar sv (sget sv a0) sc1 ;;
                 Ok (match sget "." a0 with Some v => sset "." v sc1' | None => sc1' end)) ;; Ok (mk out, sc2))
        ('(out, sc1) <- transform_loop ev k sv ss xs [] b0 ;;
         sc2 <- (sc1' <- after_iteration transform_scopevar sv (sget sv a0) sc1 ;;
                 Ok (match sget "." a0 with Some v => sset "." v sc1' | None => sc1' end)) ;; Ok (mk out, sc2))).
  { intros k xs mk. apply oeq_bind; [apply loop_ext; exact E0|]. intros out a1 b1 E1. cbn beta iota. apply (FIN mk out _ _ E1). }
  assert (ONE : forall (x:value),
    oeq ('(r, sc1) <- eval_transform_stmts ev ss (sset sv x a0) ;;
         sc2 <- (sc1' <- after_iteration transform_scopevar sv (sget sv a0) sc1 ;;
                 Ok (match sget "." a0 with Some v => sset "." v sc1' | None => sc1' end)) ;; Ok (r, sc2))
        ('(r, sc1) <- eval_transform_stmts ev ss (sset sv x b0) ;;
         sc2 <- (sc1' <- after_iteration transform_scopevar sv (sget sv a0) sc1 ;;
                 Ok (match sget "." a0 with Some v => sset "." v sc1' | None => sc1' end)) ;; Ok (r, sc2))).
  { intros x. apply oeq_bind; [apply tstmts_ext, sset_eq; exact E0|]. intros r a1 b1 E1. cbn beta iota.
    apply (FIN (fun _ => r) [] _ _ E1). }
  destruct argv as [| bb | z | s | | l | l | m]; try fin; try apply ONE.
  - destruct ty; try fin; apply LOOP.
  - destruct ty; try fin; apply LOOP.
  - destruct (negb (String.eqb sv ".")); [|apply ONE].
    destruct ty; apply (LOOP AppAlways _ VList) || apply (LOOP AppAlways _ VSet).
Qed.

Lemma step_ext vs : ext (step ev vs).
Proof.
  intros a b e E. destruct e; cbn [step].
  - rewrite <- (E x). destruct (sget x a); [fin|]. destruct (String.eqb x implied_result || String.eqb x log_string); fin.
  - fin.
  - unfold eval_get_attr. apply oeq_bind; [apply Hext; exact E|]. intros x a1 b1 E1. cbn beta iota.
    destruct x; try fin. destruct (is_internal_map m).
    + destruct (String.eqb attr "value" || String.eqb attr "key"); [fin|].
      destruct (map_get "value" m) as [[]|]; fin.
    + fin.
  - apply transform_ext, E.
  - apply oeq_bind; [apply Hext; exact E|]. intros cv a1 b1 E1. cbn beta iota. destruct (getB cv); apply Hext, E1.
  - rewrite !eval_call_eq. destruct (assoc String.eqb fn vs) as [vw|].
    + destruct (negb (Nat.eqb (List.length (v_params vw)) (List.length args))); [fin|].
      apply oeq_bind; [apply seq_ext; exact E|]. intros avs a1 b1 E1. cbn beta iota.
      destruct (ev (bind_params (v_params vw) avs []) (v_body vw)) as [[r s]| | |]; cbn [bind]; fin.
    + destruct (is_dot_func fn) as [f|].
      * unfold call_dot. destruct (String.eqb f "count"); [|fin].
        destruct args as [|a0 args]; [fin|].
        apply oeq_bind; [apply Hext; exact E|]. intros c a1 b1 E1. cbn beta iota. destruct c; fin.
      * unfold call_go_func. apply oeq_bind; [apply seq_ext; exact E|]. intros avs a1 b1 E1. cbn beta iota.
        apply oeq_bind_same. intros r. fin.
  - apply oeq_bind; [apply Hext; exact E|]. intros v a1 b1 E1. cbn beta iota.
    destruct (assoc unop_eqb op unary_functions); [|fin]. apply oeq_bind_same. intros r. fin.
  - unfold eval_binexpr.
    assert (DEF : forall op', oeq (eval_default ev op' a e1 e2) (eval_default ev op' b e1 e2)).
    { intros op'. unfold eval_default. apply oeq_bind; [apply Hext; exact E|]. intros l a1 b1 E1. cbn beta iota.
      apply oeq_bind; [apply Hext; exact E1|]. intros r a2 b2 E2. cbn beta iota.
      destruct (assoc key3_eqb (op', kind_of l, kind_of r) value_functions); [|fin]. apply oeq_bind_same. intros v0. fin. }
    destruct (assoc binop_eqb op strategy_table) as [[]|]; try fin.
    + apply DEF.
    + destruct (negb (binop_eqb op OpNE)); [fin|].
      apply oeq_bind; [apply DEF|]. intros v a1 b1 E1. cbn beta iota. apply oeq_bind_same. intros n. fin.
    + apply oeq_bind; [apply Hext; exact E|]. intros l a1 b1 E1. cbn beta iota.
      destruct (contained_kind l) as [ck|]; [|fin].
      destruct (assoc key3_eqb (op, kind_of l, ck) expr_functions) as [f|]; [|fin].
      apply oeq_bind; [apply efun_ext; exact E1|]. intros r a2 b2 E2. cbn beta iota.
      rewrite <- (E1 scopevar).
      apply oeqs_bind; [apply after_iteration_ext; exact E2|]. intros a3 b3 E3. fin.
  - apply oeq_bind; [apply seq_ext; exact E|]. intros vs' a1 b1 E1. cbn beta iota. fin.
  - apply oeq_bind; [apply seq_ext; exact E|]. intros vs' a1 b1 E1. cbn beta iota. fin.
Qed.
End Ext.

Theorem eval_ext fuel vs : ext (eval fuel vs).
Proof.
  induction fuel as [|n IH]; [intros a b e E; exact I|]. cbn [eval]. apply step_ext. exact IH.
Qed.

(* ================= the scope threading is invisible for let-free bodies ================= *)
Section Invisible.
Variable ev : evaluator.
Hypothesis Hext : ext ev.
Hypothesis Hpres : preserves ev.

(* the value of [rhs] with the scope variable bound to x in the scope [sc] the iteration STARTED from *)
Definition val_in (sv:string) (rhs:expr) (sc:scope) (x:value) : option value :=
  match ev (sset sv x sc) rhs with Ok (r, _) => Some r | _ => None end.
Definition val_or (sv:string) (rhs:expr) (sc:scope) (x:value) : value :=
  match val_in sv rhs sc x with Some r => r | None => VNil end.
Definition holds (sv:string) (rhs:expr) (sc:scope) (x:value) : bool := getB (val_or sv rhs sc x).

(* the scope of a later iteration differs from the original one at most at the scope variable *)
Definition inv (sv:string) (sc cur:scope) : Prop := forall y, y <> sv -> sget y cur = sget y sc.

Lemma one_iteration sv rhs sc cur x r sc1 :
  lets rhs = [] -> sget implied_result sc = None -> inv sv sc cur ->
  ev (sset sv x cur) rhs = Ok (r, sc1) ->
  val_in sv rhs sc x = Some r /\ inv sv sc sc1.
Proof.
  intros NL NI I H.
  assert (EQ : sc_eq (sset sv x cur) (sset sv x sc)).
  { intros y. destruct (string_dec y sv) as [->|N]; [rewrite !sget_sset_eq; reflexivity|].
    rewrite !sget_sset_neq by exact N. exact (I y N). }
  split.
  - pose proof (Hext _ _ rhs EQ) as O. rewrite H in O. unfold val_in.
    destruct (ev (sset sv x sc) rhs) as [[r' s']| | |]; cbn in O; try contradiction. destruct O as [-> _]. reflexivity.
  - intros y N.
    assert (OK : okx y (sset sv x cur)).
    { intros Q. subst y. rewrite sget_sset_neq by exact N. rewrite (I _ N). exact NI. }
    rewrite (Hpres _ _ _ _ y H) by (try exact OK; rewrite NL; intros []).
    rewrite sget_sset_neq by exact N. exact (I y N).
Qed.

Lemma where_original sv rhs sc xs : lets rhs = [] -> sget implied_result sc = None ->
  forall cur out sc', inv sv sc cur ->
  iter_rhs ev sv rhs keep_where xs cur = Ok (out, sc') ->
  out = filter (holds sv rhs sc) xs /\ Forall (fun x => val_in sv rhs sc x <> None) xs /\ inv sv sc sc'.
Proof.
  intros NL NI. induction xs as [|x xs IH]; intros cur out sc' I H; cbn [iter_rhs] in H.
  - injection H as <- <-. repeat split; [constructor|exact I].
  - inv_bind H. destruct a as [r sc1]. inv_bind H. inv_bind H. destruct a0 as [rest sc2]. injection H as <- <-.
    destruct (one_iteration _ _ _ _ _ _ _ NL NI I Ha) as [V I1].
    destruct (IH _ _ _ I1 Ha1) as [-> [F I2]]. cbn [keep_where] in Ha0. injection Ha0 as <-.
    split; [|split; [constructor; [cbn beta; rewrite V; discriminate|exact F]|exact I2]].
    cbn [filter]. change (holds sv rhs sc x) with (getB (val_or sv rhs sc x)). unfold val_or. rewrite V. destruct (getB r); reflexivity.
Qed.

Lemma results_original sv rhs sc xs : lets rhs = [] -> sget implied_result sc = None ->
  forall cur out sc', inv sv sc cur ->
  iter_rhs ev sv rhs keep_result xs cur = Ok (out, sc') ->
  out = map (val_or sv rhs sc) xs /\ Forall (fun x => val_in sv rhs sc x <> None) xs /\ inv sv sc sc'.
Proof.
  intros NL NI. induction xs as [|x xs IH]; intros cur out sc' I H; cbn [iter_rhs] in H.
  - injection H as <- <-. repeat split; [constructor|exact I].
  - inv_bind H. destruct a as [r sc1]. inv_bind H. inv_bind H. destruct a0 as [rest sc2]. injection H as <- <-.
    destruct (one_iteration _ _ _ _ _ _ _ NL NI I Ha) as [V I1].
    destruct (IH _ _ _ I1 Ha1) as [-> [F I2]]. cbn [keep_result] in Ha0. injection Ha0 as <-.
    split; [|split; [constructor; [cbn beta; rewrite V; discriminate|exact F]|exact I2]].
    cbn [map app]. change (val_or sv rhs sc x) with (match val_in sv rhs sc x with Some r0 => r0 | None => VNil end). rewrite V. reflexivity.
Qed.

Lemma inv_refl sv sc : inv sv sc sc. Proof. intros y _. reflexivity. Qed.

(* ---- transform bodies ---- *)
Definition body_in (sv:string) (ss:list stmt) (sc:scope) (x:value) : option value :=
  match eval_transform_stmts ev ss (sset sv x sc) with Ok (r, _) => Some r | _ => None end.
Definition body_or (sv:string) (ss:list stmt) (sc:scope) (x:value) : value :=
  match body_in sv ss sc x with Some r => r | None => VNil end.

Lemma loop_original sv ss sc xs : lets_stmts ss = [] -> sget implied_result sc = None ->
  forall cur acc out sc', inv sv sc cur ->
  transform_loop ev AppAlways sv ss xs acc cur = Ok (out, sc') ->
  out = acc ++ map (body_or sv ss sc) xs /\ Forall (fun x => body_in sv ss sc x <> None) xs.
Proof.
  intros NL NI. induction xs as [|x xs IH]; intros cur acc out sc' I H; cbn [transform_loop] in H.
  - injection H as <- _. rewrite app_nil_r. split; [reflexivity|constructor].
  - inv_bind H. destruct a as [r sc1]. inv_bind H. cbn [append_with] in Ha0. injection Ha0 as <-.
    assert (EQ : sc_eq (sset sv x cur) (sset sv x sc)).
    { intros y. destruct (string_dec y sv) as [->|N]; [rewrite !sget_sset_eq; reflexivity|].
      rewrite !sget_sset_neq by exact N. exact (I y N). }
    assert (V : body_in sv ss sc x = Some r).
    { pose proof (tstmts_ext ev Hext ss _ _ EQ) as O. rewrite Ha in O. unfold body_in.
      destruct (eval_transform_stmts ev ss (sset sv x sc)) as [[r' s']| | |]; cbn in O; try contradiction.
      destruct O as [-> _]. reflexivity. }
    assert (I1 : inv sv sc sc1).
    { intros y N.
      assert (OK : okx y (sset sv x cur)).
      { intros Q. subst y. rewrite sget_sset_neq by exact N. rewrite (I _ N). exact NI. }
      rewrite (tstmts_preserves ev Hpres _ _ _ _ y Ha) by (try exact OK; rewrite NL; intros []).
      rewrite sget_sset_neq by exact N. exact (I y N). }
    destruct (IH _ _ _ _ I1 H) as [-> F]. split.
    + rewrite <- app_assoc. cbn [map app]. change (body_or sv ss sc x) with (match body_in sv ss sc x with Some r0 => r0 | None => VNil end). rewrite V. reflexivity.
    + constructor; [cbn beta; rewrite V; discriminate|exact F].
Qed.
End Invisible.

(* ================= headline statements, at eval ================= *)
Definition holds_at (n:nat) (vs:views) (sv:string) (rhs:expr) (sc:scope) (x:value) : bool := holds (eval n vs) sv rhs sc x.
Definition value_at (n:nat) (vs:views) (sv:string) (rhs:expr) (sc:scope) (x:value) : value := val_or (eval n vs) sv rhs sc x.
Definition record_at (n:nat) (vs:views) (sv:string) (ss:list stmt) (sc:scope) (x:value) : value := body_or (eval n vs) sv ss sc x.

Lemma binexpr_lhs ev sc op l r sv v sc' lv sc1 :
  assoc binop_eqb op strategy_table = Some SLhsOverRhs ->
  eval_binexpr ev sc op l r sv = Ok (v, sc') -> ev sc l = Ok (lv, sc1) ->
  exists ck f sc2, contained_kind lv = Some ck /\ assoc key3_eqb (op, kind_of lv, ck) expr_functions = Some f
                   /\ apply_efun ev f sc1 lv sv r = Ok (v, sc2).
Proof.
  intros S H HL. unfold eval_binexpr in H. rewrite S, HL in H. cbn [bind] in H.
  destruct (contained_kind lv) as [ck|]; [|discriminate].
  destruct (assoc key3_eqb (op, kind_of lv, ck) expr_functions) as [f|] eqn:F; [|discriminate].
  inv_bind H. destruct a as [r0 sc2]. inv_bind H. injection H as <- _. exists ck, f, sc2. repeat split; assumption.
Qed.

(* `xs where(v: p)` is List.filter with p evaluated, for each element, in the scope the where started from - for a
   let-free p (and "__$", the template-result name, unbound) *)
Theorem where_is_filter : forall n vs sc l r sv v sc' xs sc1,
  eval (S n) vs sc (EBin OpWHERE l r sv) = Ok (v, sc') ->
  eval n vs sc l = Ok (VList xs, sc1) -> lets r = [] -> sget implied_result sc1 = None ->
  v = VList (filter (holds_at n vs sv r sc1) xs).
Proof.
  intros n vs sc l r sv v sc' xs sc1 H HL NL NI. cbn [eval step] in H.
  destruct (binexpr_lhs (eval n vs) sc OpWHERE l r sv v sc' _ sc1 eq_refl H HL) as [ck [f [sc2 [CK [F A]]]]].
  assert (f = G_whereList) as ->.
  { cbn [kind_of] in F. destruct ck; vm_compute in F; congruence. }
  cbn [apply_efun] in A. inv_bind A. destruct a as [out s]. injection A as <- _.
  destruct (where_original _ (eval_ext n vs) (eval_preserves_gen n vs) sv r sc1 xs NL NI _ _ _ (inv_refl _ _) Ha) as [-> _].
  reflexivity.
Qed.

Theorem where_set_is_filter : forall n vs sc l r sv v sc' xs sc1,
  eval (S n) vs sc (EBin OpWHERE l r sv) = Ok (v, sc') ->
  eval n vs sc l = Ok (VSet xs, sc1) -> lets r = [] -> sget implied_result sc1 = None ->
  v = VSet (filter (holds_at n vs sv r sc1) xs).
Proof.
  intros n vs sc l r sv v sc' xs sc1 H HL NL NI. cbn [eval step] in H.
  destruct (binexpr_lhs (eval n vs) sc OpWHERE l r sv v sc' _ sc1 eq_refl H HL) as [ck [f [sc2 [CK [F A]]]]].
  assert (f = G_whereSet) as ->.
  { cbn [kind_of] in F. destruct ck; vm_compute in F; congruence. }
  cbn [apply_efun] in A. inv_bind A. destruct a as [out s]. injection A as <- _.
  destruct (where_original _ (eval_ext n vs) (eval_preserves_gen n vs) sv r sc1 xs NL NI _ _ _ (inv_refl _ _) Ha) as [-> _].
  reflexivity.
Qed.

Lemma map_concat_flat_map {A B} (f:A -> B) ls : map f (concat ls) = flat_map (fun xs => map f xs) ls.
Proof. induction ls as [|xs ls IH]; cbn [concat flat_map map]; [reflexivity|]. rewrite map_app, IH. reflexivity. Qed.

(* `xss flatten(v: e)` over a list of lists is concat-map *)
Theorem flatten_is_concat_map : forall n vs sc l r sv v sc' ls sc1,
  eval (S n) vs sc (EBin OpFLATTEN l r sv) = Ok (v, sc') ->
  eval n vs sc l = Ok (VList (map VList ls), sc1) -> lets r = [] -> sget implied_result sc1 = None ->
  v = VList (flat_map (fun xs => map (value_at n vs sv r sc1) xs) ls).
Proof.
  intros n vs sc l r sv v sc' ls sc1 H HL NL NI. cbn [eval step] in H.
  destruct (binexpr_lhs (eval n vs) sc OpFLATTEN l r sv v sc' _ sc1 eq_refl H HL) as [ck [f [sc2 [CK [F A]]]]].
  assert (f = G_flattenListList) as ->.
  { cbn [kind_of] in F. destruct ls as [|x ls]; cbn in CK; injection CK as <-; vm_compute in F; congruence. }
  cbn [apply_efun elems_list] in A. rewrite flat_inner_lists in A.
  inv_bind A. destruct a as [out s]. injection A as <- _.
  destruct (results_original _ (eval_ext n vs) (eval_preserves_gen n vs) sv r sc1 _ NL NI _ _ _ (inv_refl _ _) Ha) as [-> _].
  f_equal. apply map_concat_flat_map.
Qed.

(* a transform over a list with a let-free body is map *)
Theorem list_transform_is_map : forall n vs sc arg sv ss v sc' xs sc0,
  eval (S n) vs sc (ETransform arg sv ss TyOther) = Ok (v, sc') -> is_dot_name arg = false ->
  eval n vs sc arg = Ok (VList xs, sc0) -> lets_stmts ss = [] -> sget implied_result sc0 = None ->
  v = VList (map (record_at n vs sv ss sc0) xs).
Proof.
  intros n vs sc arg sv ss v sc' xs sc0 H ND HA NL NI. cbn [eval step] in H. unfold eval_transform in H.
  rewrite ND, HA in H. cbn [bind] in H. cbv zeta in H. rewrite list_appender_appends in H.
  inv_bind H. destruct a as [out s]. inv_bind H. injection H as <- _.
  destruct (loop_original _ (eval_ext n vs) (eval_preserves_gen n vs) sv ss sc0 xs NL NI _ _ _ _ (inv_refl _ _) Ha) as [-> _].
  reflexivity.
Qed.

(* non-vacuity: the three statements apply to running programs *)
Example where_is_filter_applies :
  eval 6 [] [("v", VStr "outer"); ("k", VInt 2)]
       (EBin OpWHERE (ELit (VList [VInt 1; VInt 5; VInt 3])) (EBin OpGT (EName "v") (EName "k") "") "v")
  = Ok (VList [VInt 5; VInt 3], [("v", VStr "outer"); ("k", VInt 2)]).
Proof. vm_compute. reflexivity. Qed.

(* ================= purity as repeatability (deepen round 3) ================= *)
(* an expression without a `let` of its own (its callees may have any: they run in their own scope) leaves the scope,
   as a map, exactly as it found it - nested transforms, where / flatten, recursive views included *)
Theorem eval_let_free_scope : forall fuel vs sc e v sc',
  eval fuel vs sc e = Ok (v, sc') -> lets e = [] -> sget implied_result sc = None -> sc_eq sc' sc.
Proof.
  intros fuel vs sc e v sc' H L N x.
  apply (eval_preserves_gen fuel vs _ _ _ _ x H); [rewrite L; intros []|intros _; exact N].
Qed.

(* ... so evaluating it a second time, in the scope the first evaluation left, gives the same value and the same scope:
   in particular a view called twice with the same (let-free) arguments *)
Theorem eval_twice : forall fuel vs sc e v sc',
  eval fuel vs sc e = Ok (v, sc') -> lets e = [] -> sget implied_result sc = None ->
  exists sc'', eval fuel vs sc' e = Ok (v, sc'') /\ sc_eq sc'' sc.
Proof.
  intros fuel vs sc e v sc' H L N. pose proof (eval_let_free_scope _ _ _ _ _ _ H L N) as E.
  pose proof (eval_ext fuel vs sc' sc e E) as X. rewrite H in X.
  destruct (eval fuel vs sc' e) as [[v2 s2]| | |]; cbn in X; try contradiction.
  destruct X as [-> S]. exists s2. split; [reflexivity|]. intros x. rewrite S. apply E.
Qed.

Theorem call_twice : forall fuel vs sc fn args v sc',
  eval fuel vs sc (ECall fn args) = Ok (v, sc') -> lets_list args = [] -> sget implied_result sc = None ->
  exists sc'', eval fuel vs sc' (ECall fn args) = Ok (v, sc'') /\ sc_eq sc'' sc.
Proof. intros fuel vs sc fn args v sc' H L N. apply (eval_twice _ _ _ _ _ _ H); [rewrite lets_call; exact L|exact N]. Qed.
