(* C10: evaluation of well-typed expressions never panics - PARTIAL version.

   Intended headline (DESIGN.md): eval_total_on_typed - well-typed view bodies never reach Panic.
   Proved here: eval_total_on_typed_partial, for the let-free expression fragment
     names, literals, if, integer + - * and comparisons, string concatenation / equality, boolean and / equality /
     negation, list and set literals, list concatenation (list|list, list|set), set union of int / string sets,
     string membership in lists and sets, count, where over lists and sets and flatten over lists/sets of lists/sets
     (scope variable typed in the body), != , division and remainder by a non-zero literal.
   Missing from the full statement: transforms (records, lets, `set of` results), attribute access, calls to other
   views, flatten over maps, division by a computed divisor, unary string.  For those the property is tied by the
   correspondence run only. *)
From Coq Require Import String List ZArith Bool Ascii Lia.
Import ListNotations.
Require Import Verif.Eval.Value Verif.Eval.Interp Verif.Eval.Tables Verif.Eval.PureProps Verif.Eval.SemProps Verif.Gen.EvalTables.
Local Open Scope string_scope.
Local Open Scope list_scope.

Inductive ty := TInt | TStr | TBool | TList (t:ty) | TSet (t:ty).

Fixpoint vtyped (v:value) (t:ty) {struct v} : bool :=
  match v, t with
  | VInt _, TInt => true
  | VStr _, TStr => true
  | VBool _, TBool => true
  | VList l, TList t' => forallb (fun x => vtyped x t') l
  | VSet l, TSet t' => forallb (fun x => vtyped x t') l
  | _, _ => false
  end.

Definition tenv := list (string * ty).
Definition tlookup (x:string) (G:tenv) : option ty := assoc String.eqb x G.

Inductive arith_op : binop -> Prop := A_add : arith_op OpADD | A_sub : arith_op OpSUB | A_mul : arith_op OpMUL.
Inductive cmp_op : binop -> Prop := C_lt : cmp_op OpLT | C_le : cmp_op OpLE | C_gt : cmp_op OpGT | C_ge : cmp_op OpGE | C_eq : cmp_op OpEQ.
Inductive elem_ty : ty -> Prop := E_int : elem_ty TInt | E_str : elem_ty TStr.

Inductive has_type : tenv -> expr -> ty -> Prop :=
| T_Name G x t : tlookup x G = Some t -> has_type G (EName x) t
| T_Lit G v t : vtyped v t = true -> has_type G (ELit v) t
| T_If G c a b t : has_type G c TBool -> has_type G a t -> has_type G b t -> has_type G (EIf c a b) t
| T_Arith G op l r sv : arith_op op -> has_type G l TInt -> has_type G r TInt -> has_type G (EBin op l r sv) TInt
| T_Cmp G op l r sv : cmp_op op -> has_type G l TInt -> has_type G r TInt -> has_type G (EBin op l r sv) TBool
| T_StrConcat G l r sv : has_type G l TStr -> has_type G r TStr -> has_type G (EBin OpADD l r sv) TStr
| T_StrEq G l r sv : has_type G l TStr -> has_type G r TStr -> has_type G (EBin OpEQ l r sv) TBool
| T_BoolEq G l r sv : has_type G l TBool -> has_type G r TBool -> has_type G (EBin OpEQ l r sv) TBool
| T_And G l r sv : has_type G l TBool -> has_type G r TBool -> has_type G (EBin OpAND l r sv) TBool
| T_NegInt G a : has_type G a TInt -> has_type G (EUn UoNEG a) TInt
| T_NegBool G a : has_type G a TBool -> has_type G (EUn UoNEG a) TBool
| T_ListLit G es t : has_types G es t -> has_type G (EList es) (TList t)
| T_SetLit G es t : has_types G es t -> has_type G (ESet es) (TSet t)
| T_Concat G l r sv t : has_type G l (TList t) -> has_type G r (TList t) -> has_type G (EBin OpBITOR l r sv) (TList t)
| T_ConcatSet G l r sv t : has_type G l (TList t) -> has_type G r (TSet t) -> has_type G (EBin OpBITOR l r sv) (TList t)
| T_Union G l r sv t : elem_ty t -> has_type G l (TSet t) -> has_type G r (TSet t) -> has_type G (EBin OpBITOR l r sv) (TSet t)
| T_InList G l r sv t : has_type G l TStr -> has_type G r (TList t) -> has_type G (EBin OpIN l r sv) TBool
| T_InSet G l r sv t : has_type G l TStr -> has_type G r (TSet t) -> has_type G (EBin OpIN l r sv) TBool
| T_CountList G a t : has_type G a (TList t) -> has_type G (ECall ".count" [a]) TInt
| T_CountSet G a t : has_type G a (TSet t) -> has_type G (ECall ".count" [a]) TInt
| T_WhereList G l r sv t : has_type G l (TList t) -> has_type ((sv, t) :: G) r TBool -> has_type G (EBin OpWHERE l r sv) (TList t)
| T_WhereSet G l r sv t : has_type G l (TSet t) -> has_type ((sv, t) :: G) r TBool -> has_type G (EBin OpWHERE l r sv) (TSet t)
| T_NeInt G l r sv : has_type G l TInt -> has_type G r TInt -> has_type G (EBin OpNE l r sv) TBool
| T_NeStr G l r sv : has_type G l TStr -> has_type G r TStr -> has_type G (EBin OpNE l r sv) TBool
| T_NeBool G l r sv : has_type G l TBool -> has_type G r TBool -> has_type G (EBin OpNE l r sv) TBool
| T_DivLit G l z sv : z <> 0%Z -> has_type G l TInt -> has_type G (EBin OpDIV l (ELit (VInt z)) sv) TInt
| T_ModLit G l z sv : z <> 0%Z -> has_type G l TInt -> has_type G (EBin OpMOD l (ELit (VInt z)) sv) TInt
| T_FlattenLL G l r sv t u : has_type G l (TList (TList t)) -> has_type ((sv, t) :: G) r u -> has_type G (EBin OpFLATTEN l r sv) (TList u)
| T_FlattenLS G l r sv t u : has_type G l (TList (TSet t)) -> has_type ((sv, t) :: G) r u -> has_type G (EBin OpFLATTEN l r sv) (TList u)
| T_FlattenSL G l r sv t u : has_type G l (TSet (TList t)) -> has_type ((sv, t) :: G) r u -> has_type G (EBin OpFLATTEN l r sv) (TSet u)
| T_FlattenSS G l r sv t u : has_type G l (TSet (TSet t)) -> has_type ((sv, t) :: G) r u -> has_type G (EBin OpFLATTEN l r sv) (TSet u)
with has_types : tenv -> list expr -> ty -> Prop :=
| TS_nil G t : has_types G [] t
| TS_cons G e es t : has_type G e t -> has_types G es t -> has_types G (e :: es) t.

Scheme has_type_mut := Induction for has_type Sort Prop
  with has_types_mut := Induction for has_types Sort Prop.

Definition env_ok (G:tenv) (sc:scope) : Prop :=
  forall x t, tlookup x G = Some t -> exists v, sget x sc = Some v /\ vtyped v t = true.

(* the result of a well-typed evaluation *)
Definition good (G:tenv) (t:ty) (r:res) : Prop :=
  exists v sc', r = Ok (v, sc') /\ vtyped v t = true /\ env_ok G sc'.
Definition goods (G:tenv) (t:ty) (r:outcome (list value * scope)) : Prop :=
  exists vs sc', r = Ok (vs, sc') /\ forallb (fun x => vtyped x t) vs = true /\ env_ok G sc'.

(* inversion of value typing *)
Lemma vt_int v : vtyped v TInt = true -> exists z, v = VInt z.
Proof. destruct v; cbn; try discriminate. eauto. Qed.
Lemma vt_str v : vtyped v TStr = true -> exists s, v = VStr s.
Proof. destruct v; cbn; try discriminate. eauto. Qed.
Lemma vt_bool v : vtyped v TBool = true -> exists b, v = VBool b.
Proof. destruct v; cbn; try discriminate. eauto. Qed.
Lemma vt_list v t : vtyped v (TList t) = true -> exists l, v = VList l /\ forallb (fun x => vtyped x t) l = true.
Proof. destruct v; cbn; try discriminate. eauto. Qed.
Lemma vt_set v t : vtyped v (TSet t) = true -> exists l, v = VSet l /\ forallb (fun x => vtyped x t) l = true.
Proof. destruct v; cbn; try discriminate. eauto. Qed.

(* kinds of typed values: what the where table is asked for *)
Definition kind_in_where_table (k:vkind) : bool :=
  match k with KNoArg | KBool | KInt | KString | KList | KSet | KMap => true | _ => false end.
Lemma typed_kind v t : vtyped v t = true -> kind_in_where_table (kind_of v) = true.
Proof. destruct v, t; cbn; try discriminate; reflexivity. Qed.
Lemma where_list_row k : kind_in_where_table k = true -> assoc key3_eqb (OpWHERE, KList, k) expr_functions = Some G_whereList.
Proof. destruct k; cbn [kind_in_where_table]; try discriminate; intros _; reflexivity. Qed.
Lemma where_set_row k : kind_in_where_table k = true -> assoc key3_eqb (OpWHERE, KSet, k) expr_functions = Some G_whereSet.
Proof. destruct k; cbn [kind_in_where_table]; try discriminate; intros _; reflexivity. Qed.
Lemma contained_kind_typed l t : forallb (fun x => vtyped x t) l = true ->
  exists k, (forall mk, mk = VList \/ mk = VSet -> contained_kind (mk l) = Some k) /\ kind_in_where_table k = true.
Proof.
  destruct l as [|x l]; cbn [forallb].
  - exists KNoArg. split; [intros mk [-> | ->]; reflexivity|reflexivity].
  - intros H. apply andb_true_iff in H. destruct H as [Hx _]. exists (kind_of x). split; [intros mk [-> | ->]; reflexivity|].
    exact (typed_kind _ _ Hx).
Qed.

Lemma forallb_app' {A} (f:A -> bool) a b : forallb f a = true -> forallb f b = true -> forallb f (a ++ b) = true.
Proof. intros. rewrite forallb_app. apply andb_true_iff. tauto. Qed.

Lemma env_ok_extend G sc sv t v : env_ok G sc -> vtyped v t = true -> env_ok ((sv, t) :: G) (sset sv v sc).
Proof.
  intros E V x t' L. unfold tlookup in L. cbn [assoc] in L. destruct (String.eqb x sv) eqn:Q.
  - apply String.eqb_eq in Q. subst x. injection L as <-. exists v. split; [apply sget_sset_eq|exact V].
  - apply String.eqb_neq in Q. destruct (E _ _ L) as [w [S W]]. exists w. split; [rewrite sget_sset_neq by exact Q; exact S|exact W].
Qed.

(* after a where: the scope variable is deleted and its previous binding put back *)
Lemma env_ok_restore G sv t sc1 sc2 sc3 :
  env_ok G sc1 -> env_ok ((sv, t) :: G) sc2 \/ (forall x, x <> sv -> sget x sc2 = sget x sc1) ->
  after_iteration where_flatten_scopevar sv (sget sv sc1) sc2 = Ok sc3 -> env_ok G sc3.
Proof.
  intros E1 E2 H. rewrite where_flatten_restores in H. intros x t' L.
  rewrite (after_iteration_restore _ _ _ _ x H). destruct (String.eqb x sv) eqn:Q.
  - apply String.eqb_eq in Q. subst x. exact (E1 _ _ L).
  - apply String.eqb_neq in Q. destruct E2 as [E2|E2].
    + apply E2. unfold tlookup. cbn [assoc]. apply String.eqb_neq in Q. rewrite Q. exact L.
    + rewrite (E2 _ Q). exact (E1 _ _ L).
Qed.

Section Total.
Variable vs : views.
Hypothesis no_count_view : assoc String.eqb ".count" vs = None.

(* a sufficiently fuelled evaluator that is already total on typed sub-expressions *)
Definition total_ev (ev:evaluator) (P:tenv -> expr -> ty -> Prop) : Prop :=
  forall G e t sc, P G e t -> env_ok G sc -> good G t (ev sc e).

Lemma where_iter_total ev G sv t rhs (Hr : forall sc, env_ok ((sv, t) :: G) sc -> good ((sv, t) :: G) TBool (ev sc rhs)) :
  forall xs sc, forallb (fun x => vtyped x t) xs = true -> env_ok G sc \/ env_ok ((sv, t) :: G) sc ->
  exists out sc', iter_rhs ev sv rhs keep_where xs sc = Ok (out, sc') /\ forallb (fun x => vtyped x t) out = true
                  /\ (xs <> [] -> env_ok ((sv, t) :: G) sc') /\ (xs = [] -> sc' = sc).
Proof.
  induction xs as [|x xs IH]; intros sc T E; cbn [iter_rhs].
  - exists [], sc. split; [reflexivity|]. split; [reflexivity|]. split; [intros N; contradiction|reflexivity].
  - cbn [forallb] in T. apply andb_true_iff in T. destruct T as [Tx Txs].
    assert (E' : env_ok ((sv, t) :: G) (sset sv x sc)).
    { destruct E as [E|E]; [apply env_ok_extend; assumption|].
      intros y t' L. unfold tlookup in L. cbn [assoc] in L. destruct (String.eqb y sv) eqn:Q.
      - apply String.eqb_eq in Q. subst y. injection L as <-. exists x. split; [apply sget_sset_eq|exact Tx].
      - apply String.eqb_neq in Q. destruct (E y t') as [w [S W]]; [unfold tlookup; cbn [assoc]; apply String.eqb_neq in Q; rewrite Q; exact L|].
        exists w. split; [rewrite sget_sset_neq by exact Q; exact S|exact W]. }
    destruct (Hr _ E') as [r [sc1 [-> [Vr E1]]]]. cbn [bind keep_where].
    destruct (IH sc1 Txs (or_intror E1)) as [out [sc2 [-> [To [En Ee]]]]]. cbn [bind].
    eexists _, sc2. split; [reflexivity|]. split.
    + destruct (getB r); cbn [app forallb]; [rewrite Tx|]; exact To.
    + split; [|discriminate]. intros _. destruct xs as [|y ys]; [rewrite (Ee eq_refl); exact E1|apply En; discriminate].
Qed.

Lemma result_iter_total ev G sv t u rhs (Hr : forall sc, env_ok ((sv, t) :: G) sc -> good ((sv, t) :: G) u (ev sc rhs)) :
  forall xs sc, forallb (fun x => vtyped x t) xs = true -> env_ok G sc \/ env_ok ((sv, t) :: G) sc ->
  exists out sc', iter_rhs ev sv rhs keep_result xs sc = Ok (out, sc') /\ forallb (fun x => vtyped x u) out = true
                  /\ (xs <> [] -> env_ok ((sv, t) :: G) sc') /\ (xs = [] -> sc' = sc).
Proof.
  induction xs as [|x xs IH]; intros sc T E; cbn [iter_rhs].
  - exists [], sc. split; [reflexivity|]. split; [reflexivity|]. split; [intros N; contradiction|reflexivity].
  - cbn [forallb] in T. apply andb_true_iff in T. destruct T as [Tx Txs].
    assert (E' : env_ok ((sv, t) :: G) (sset sv x sc)).
    { destruct E as [E|E]; [apply env_ok_extend; assumption|].
      intros y t' L. unfold tlookup in L. cbn [assoc] in L. destruct (String.eqb y sv) eqn:Q.
      - apply String.eqb_eq in Q. subst y. injection L as <-. exists x. split; [apply sget_sset_eq|exact Tx].
      - apply String.eqb_neq in Q. destruct (E y t') as [w [S W]]; [unfold tlookup; cbn [assoc]; apply String.eqb_neq in Q; rewrite Q; exact L|].
        exists w. split; [rewrite sget_sset_neq by exact Q; exact S|exact W]. }
    destruct (Hr _ E') as [r [sc1 [-> [Vr E1]]]]. cbn [bind keep_result].
    destruct (IH sc1 Txs (or_intror E1)) as [out [sc2 [-> [To [En Ee]]]]]. cbn [bind].
    eexists _, sc2. split; [reflexivity|]. split.
    + cbn [app forallb]. rewrite Vr. exact To.
    + split; [|discriminate]. intros _. destruct xs as [|y ys]; [rewrite (Ee eq_refl); exact E1|apply En; discriminate].
Qed.

Lemma flat_lists_typed xs t : forallb (fun x => vtyped x (TList t)) xs = true ->
  exists ys, flat_inner elems_list xs = Some ys /\ forallb (fun x => vtyped x t) ys = true.
Proof.
  induction xs as [|x xs IH]; cbn [forallb flat_inner]; [exists []; split; reflexivity|].
  intros H. apply andb_true_iff in H. destruct H as [Hx Hxs]. destruct (vt_list _ _ Hx) as [l [-> Tl]].
  destruct (IH Hxs) as [ys [-> Tys]]. cbn [elems_list]. exists (l ++ ys). split; [reflexivity|exact (forallb_app' _ _ _ Tl Tys)].
Qed.
Lemma flat_sets_typed xs t : forallb (fun x => vtyped x (TSet t)) xs = true ->
  exists ys, flat_inner elems_set xs = Some ys /\ forallb (fun x => vtyped x t) ys = true.
Proof.
  induction xs as [|x xs IH]; cbn [forallb flat_inner]; [exists []; split; reflexivity|].
  intros H. apply andb_true_iff in H. destruct H as [Hx Hxs]. destruct (vt_set _ _ Hx) as [l [-> Tl]].
  destruct (IH Hxs) as [ys [-> Tys]]. cbn [elems_set]. exists (l ++ ys). split; [reflexivity|exact (forallb_app' _ _ _ Tl Tys)].
Qed.
Lemma ck_of_lists xs t (mk:list value -> value) : mk = VList \/ mk = VSet -> forallb (fun x => vtyped x (TList t)) xs = true ->
  contained_kind (mk xs) = Some KNoArg \/ contained_kind (mk xs) = Some KList.
Proof.
  intros M H. destruct xs as [|x xs]; [left; destruct M as [-> | ->]; reflexivity|right].
  cbn [forallb] in H. apply andb_true_iff in H. destruct H as [Hx _]. destruct (vt_list _ _ Hx) as [l [-> _]].
  destruct M as [-> | ->]; reflexivity.
Qed.
Lemma ck_of_sets xs t (mk:list value -> value) : mk = VList \/ mk = VSet -> forallb (fun x => vtyped x (TSet t)) xs = true ->
  contained_kind (mk xs) = Some KNoArg \/ contained_kind (mk xs) = Some KSet.
Proof.
  intros M H. destruct xs as [|x xs]; [left; destruct M as [-> | ->]; reflexivity|right].
  cbn [forallb] in H. apply andb_true_iff in H. destruct H as [Hx _]. destruct (vt_set _ _ Hx) as [l [-> _]].
  destruct M as [-> | ->]; reflexivity.
Qed.

Lemma typed_ints l : forallb (fun x => vtyped x TInt) l = true -> exists zs, l = map VInt zs.
Proof.
  induction l as [|x l IH]; cbn [forallb]; [exists []; reflexivity|]. intros H. apply andb_true_iff in H. destruct H as [Hx Hl].
  destruct (vt_int _ Hx) as [z ->]. destruct (IH Hl) as [zs ->]. exists (z :: zs). reflexivity.
Qed.
Lemma typed_strs l : forallb (fun x => vtyped x TStr) l = true -> exists zs, l = map VStr zs.
Proof.
  induction l as [|x l IH]; cbn [forallb]; [exists []; reflexivity|]. intros H. apply andb_true_iff in H. destruct H as [Hx Hl].
  destruct (vt_str _ Hx) as [z ->]. destruct (IH Hl) as [zs ->]. exists (z :: zs). reflexivity.
Qed.
Lemma ints_typed zs : forallb (fun x => vtyped x TInt) (map VInt zs) = true.
Proof. induction zs; cbn; auto. Qed.
Lemma strs_typed zs : forallb (fun x => vtyped x TStr) (map VStr zs) = true.
Proof. induction zs; cbn; auto. Qed.

Definition P (G:tenv) (e:expr) (t:ty) : Prop :=
  exists k, forall n sc, k <= n -> env_ok G sc -> good G t (eval n vs sc e).
Definition Ps (G:tenv) (es:list expr) (t:ty) : Prop :=
  exists k, forall n sc, k <= n -> env_ok G sc -> goods G t (eval_seq (eval n vs) es sc).

Ltac two H1 H2 k1 k2 F1 F2 := destruct H1 as [k1 F1]; destruct H2 as [k2 F2]; exists (S (Nat.max k1 k2)).
Ltac fuel n m := destruct n as [|m]; [lia|]; cbn [eval step].
Ltac sub F m sc E v sc1 HL VL E1 := destruct (F m sc ltac:(lia) E) as [v [sc1 [HL [VL E1]]]].
Ltac dflt HL HR :=
  match goal with |- good _ _ (eval_binexpr _ _ ?op _ _ _) => rewrite (default_strategy _ _ op _ _ _ _ _ _ _ eq_refl HL HR) end.
Ltac done E2 := cbn [bind]; eexists _, _; split; [reflexivity|]; split; [try reflexivity|exact E2].

Theorem typed_total : forall G e t, has_type G e t -> P G e t.
Proof.
  apply (has_type_mut (fun G e t _ => P G e t) (fun G es t _ => Ps G es t)).
  - (* name *) intros G x t L. exists 1. intros n sc Hn E. fuel n m. destruct (E _ _ L) as [v [S V]]. rewrite S.
    exists v, sc. split; [reflexivity|]. split; [exact V|exact E].
  - (* literal *) intros G v t V. exists 1. intros n sc Hn E. fuel n m. exists v, sc. split; [reflexivity|]. split; [exact V|exact E].
  - (* if *) intros G c a b t _ Hc _ Ha _ Hb. destruct Hc as [kc Fc]. destruct Ha as [ka Fa]. destruct Hb as [kb Fb].
    exists (S (Nat.max kc (Nat.max ka kb))). intros n sc Hn E. fuel n m.
    sub Fc m sc E cv sc1 HC VC E1. destruct (vt_bool _ VC) as [bb ->]. rewrite HC. cbn [bind getB].
    destruct bb; [apply Fa|apply Fb]; try lia; exact E1.
  - (* arithmetic *) intros G op l r sv A _ Hl _ Hr. two Hl Hr k1 k2 F1 F2. intros n sc Hn E. fuel n m.
    sub F1 m sc E lv sc1 HL VL E1. destruct (vt_int _ VL) as [x ->]. sub F2 m sc1 E1 rv sc2 HR VR E2. destruct (vt_int _ VR) as [y ->].
    destruct A; dflt HL HR; [rewrite sem_add|rewrite sem_sub|rewrite sem_mul]; done E2.
  - (* comparisons *) intros G op l r sv A _ Hl _ Hr. two Hl Hr k1 k2 F1 F2. intros n sc Hn E. fuel n m.
    sub F1 m sc E lv sc1 HL VL E1. destruct (vt_int _ VL) as [x ->]. sub F2 m sc1 E1 rv sc2 HR VR E2. destruct (vt_int _ VR) as [y ->].
    destruct A; dflt HL HR; [rewrite sem_lt|rewrite sem_le|rewrite sem_gt|rewrite sem_ge|rewrite sem_eq_int]; done E2.
  - (* string concat *) intros G l r sv _ Hl _ Hr. two Hl Hr k1 k2 F1 F2. intros n sc Hn E. fuel n m.
    sub F1 m sc E lv sc1 HL VL E1. destruct (vt_str _ VL) as [x ->]. sub F2 m sc1 E1 rv sc2 HR VR E2. destruct (vt_str _ VR) as [y ->].
    dflt HL HR. rewrite sem_concat_str. done E2.
  - (* string eq *) intros G l r sv _ Hl _ Hr. two Hl Hr k1 k2 F1 F2. intros n sc Hn E. fuel n m.
    sub F1 m sc E lv sc1 HL VL E1. destruct (vt_str _ VL) as [x ->]. sub F2 m sc1 E1 rv sc2 HR VR E2. destruct (vt_str _ VR) as [y ->].
    dflt HL HR. rewrite sem_eq_str. done E2.
  - (* bool eq *) intros G l r sv _ Hl _ Hr. two Hl Hr k1 k2 F1 F2. intros n sc Hn E. fuel n m.
    sub F1 m sc E lv sc1 HL VL E1. destruct (vt_bool _ VL) as [x ->]. sub F2 m sc1 E1 rv sc2 HR VR E2. destruct (vt_bool _ VR) as [y ->].
    dflt HL HR. rewrite sem_eq_bool. done E2.
  - (* and *) intros G l r sv _ Hl _ Hr. two Hl Hr k1 k2 F1 F2. intros n sc Hn E. fuel n m.
    sub F1 m sc E lv sc1 HL VL E1. destruct (vt_bool _ VL) as [x ->]. sub F2 m sc1 E1 rv sc2 HR VR E2. destruct (vt_bool _ VR) as [y ->].
    dflt HL HR. rewrite sem_and. done E2.
  - (* neg int *) intros G a _ Ha. destruct Ha as [k F]. exists (S k). intros n sc Hn E. fuel n m.
    sub F m sc E v sc1 HA VA E1. destruct (vt_int _ VA) as [x ->]. rewrite HA. cbn [bind].
    change (assoc unop_eqb UoNEG unary_functions) with (Some U_unaryNeg). cbn [apply_ufun unary_neg]. done E1.
  - (* neg bool *) intros G a _ Ha. destruct Ha as [k F]. exists (S k). intros n sc Hn E. fuel n m.
    sub F m sc E v sc1 HA VA E1. destruct (vt_bool _ VA) as [x ->]. rewrite HA. cbn [bind].
    change (assoc unop_eqb UoNEG unary_functions) with (Some U_unaryNeg). cbn [apply_ufun unary_neg]. done E1.
  - (* list literal *) intros G es t _ Hs. destruct Hs as [k F]. exists (S k). intros n sc Hn E. fuel n m.
    destruct (F m sc ltac:(lia) E) as [vs0 [sc1 [HS [VS E1]]]]. rewrite HS. cbn [bind].
    exists (VList vs0), sc1. split; [reflexivity|]. split; [exact VS|exact E1].
  - (* set literal *) intros G es t _ Hs. destruct Hs as [k F]. exists (S k). intros n sc Hn E. fuel n m.
    destruct (F m sc ltac:(lia) E) as [vs0 [sc1 [HS [VS E1]]]]. rewrite HS. cbn [bind].
    exists (VSet vs0), sc1. split; [reflexivity|]. split; [exact VS|exact E1].
  - (* list | list *) intros G l r sv t _ Hl _ Hr. two Hl Hr k1 k2 F1 F2. intros n sc Hn E. fuel n m.
    sub F1 m sc E lv sc1 HL VL E1. destruct (vt_list _ _ VL) as [a [-> Ta]]. sub F2 m sc1 E1 rv sc2 HR VR E2. destruct (vt_list _ _ VR) as [b [-> Tb]].
    dflt HL HR. rewrite sem_list_concat. cbn [bind]. eexists _, _. split; [reflexivity|]. split; [exact (forallb_app' _ _ _ Ta Tb)|exact E2].
  - (* list | set *) intros G l r sv t _ Hl _ Hr. two Hl Hr k1 k2 F1 F2. intros n sc Hn E. fuel n m.
    sub F1 m sc E lv sc1 HL VL E1. destruct (vt_list _ _ VL) as [a [-> Ta]]. sub F2 m sc1 E1 rv sc2 HR VR E2. destruct (vt_set _ _ VR) as [b [-> Tb]].
    dflt HL HR. rewrite sem_list_concat_set. cbn [bind]. eexists _, _. split; [reflexivity|]. split; [exact (forallb_app' _ _ _ Ta Tb)|exact E2].
  - (* set | set *) intros G l r sv t ET _ Hl _ Hr. two Hl Hr k1 k2 F1 F2. intros n sc Hn E. fuel n m.
    sub F1 m sc E lv sc1 HL VL E1. destruct (vt_set _ _ VL) as [a [-> Ta]]. sub F2 m sc1 E1 rv sc2 HR VR E2. destruct (vt_set _ _ VR) as [b [-> Tb]].
    dflt HL HR. destruct ET.
    + destruct (typed_ints _ Ta) as [za ->]. destruct (typed_ints _ Tb) as [zb ->].
      destruct (set_union_ints za zb) as [u [-> _]]. cbn [bind]. eexists _, _. split; [reflexivity|]. split; [exact (ints_typed u)|exact E2].
    + destruct (typed_strs _ Ta) as [za ->]. destruct (typed_strs _ Tb) as [zb ->].
      destruct (set_union_strings za zb) as [u [-> _]]. cbn [bind]. eexists _, _. split; [reflexivity|]. split; [exact (strs_typed u)|exact E2].
  - (* in list *) intros G l r sv t _ Hl _ Hr. two Hl Hr k1 k2 F1 F2. intros n sc Hn E. fuel n m.
    sub F1 m sc E lv sc1 HL VL E1. destruct (vt_str _ VL) as [x ->]. sub F2 m sc1 E1 rv sc2 HR VR E2. destruct (vt_list _ _ VR) as [b [-> Tb]].
    dflt HL HR. rewrite sem_in_list. done E2.
  - (* in set *) intros G l r sv t _ Hl _ Hr. two Hl Hr k1 k2 F1 F2. intros n sc Hn E. fuel n m.
    sub F1 m sc E lv sc1 HL VL E1. destruct (vt_str _ VL) as [x ->]. sub F2 m sc1 E1 rv sc2 HR VR E2. destruct (vt_set _ _ VR) as [b [-> Tb]].
    dflt HL HR. rewrite sem_in_set. done E2.
  - (* count list *) intros G a t _ Ha. destruct Ha as [k F]. exists (S k). intros n sc Hn E. fuel n m.
    sub F m sc E v sc1 HA VA E1. destruct (vt_list _ _ VA) as [l [-> _]].
    rewrite (sem_count_list _ _ _ _ _ _ _ no_count_view HA). done E1.
  - (* count set *) intros G a t _ Ha. destruct Ha as [k F]. exists (S k). intros n sc Hn E. fuel n m.
    sub F m sc E v sc1 HA VA E1. destruct (vt_set _ _ VA) as [l [-> _]].
    rewrite (sem_count_set _ _ _ _ _ _ _ no_count_view HA). done E1.
  - (* where list *) intros G l r sv t _ Hl _ Hr. two Hl Hr k1 k2 F1 F2. intros n sc Hn E. fuel n m.
    sub F1 m sc E lv sc1 HL VL E1. destruct (vt_list _ _ VL) as [xs [-> Txs]].
    unfold eval_binexpr. change (assoc binop_eqb OpWHERE strategy_table) with (Some SLhsOverRhs). rewrite HL. cbn [bind].
    destruct (contained_kind_typed _ _ Txs) as [k [CK KT]]. rewrite (CK VList (or_introl eq_refl)). cbn [kind_of].
    rewrite (where_list_row _ KT). cbn [apply_efun].
    destruct (where_iter_total (eval m vs) G sv t r (fun sc0 E0 => F2 m sc0 ltac:(lia) E0) xs sc1 Txs (or_introl E1))
      as [out [sc2 [-> [To [En Ee]]]]]. cbn [bind].
    destruct (after_iteration where_flatten_scopevar sv (sget sv sc1) sc2) as [sc3| | |] eqn:AI;
      try (rewrite where_flatten_restores in AI; discriminate).
    cbn [bind]. exists (VList out), sc3. split; [reflexivity|]. split; [exact To|].
    apply (env_ok_restore G sv t sc1 sc2 sc3 E1); [|exact AI].
    destruct xs as [|x0 xs0]; [right; intros y _; rewrite (Ee eq_refl); reflexivity|left; apply En; discriminate].
  - (* where set *) intros G l r sv t _ Hl _ Hr. two Hl Hr k1 k2 F1 F2. intros n sc Hn E. fuel n m.
    sub F1 m sc E lv sc1 HL VL E1. destruct (vt_set _ _ VL) as [xs [-> Txs]].
    unfold eval_binexpr. change (assoc binop_eqb OpWHERE strategy_table) with (Some SLhsOverRhs). rewrite HL. cbn [bind].
    destruct (contained_kind_typed _ _ Txs) as [k [CK KT]]. rewrite (CK VSet (or_intror eq_refl)). cbn [kind_of].
    rewrite (where_set_row _ KT). cbn [apply_efun].
    destruct (where_iter_total (eval m vs) G sv t r (fun sc0 E0 => F2 m sc0 ltac:(lia) E0) xs sc1 Txs (or_introl E1))
      as [out [sc2 [-> [To [En Ee]]]]]. cbn [bind].
    destruct (after_iteration where_flatten_scopevar sv (sget sv sc1) sc2) as [sc3| | |] eqn:AI;
      try (rewrite where_flatten_restores in AI; discriminate).
    cbn [bind]. exists (VSet out), sc3. split; [reflexivity|]. split; [exact To|].
    apply (env_ok_restore G sv t sc1 sc2 sc3 E1); [|exact AI].
    destruct xs as [|x0 xs0]; [right; intros y _; rewrite (Ee eq_refl); reflexivity|left; apply En; discriminate].
  - (* != int *) intros G l r sv _ Hl _ Hr. two Hl Hr k1 k2 F1 F2. intros n sc Hn E. fuel n m.
    sub F1 m sc E lv sc1 HL VL E1. destruct (vt_int _ VL) as [x ->]. sub F2 m sc1 E1 rv sc2 HR VR E2. destruct (vt_int _ VR) as [y ->].
    rewrite (ne_strategy _ _ _ _ _ _ _ _ _ HL HR), sem_eq_int. cbn [bind unary_neg]. done E2.
  - (* != string *) intros G l r sv _ Hl _ Hr. two Hl Hr k1 k2 F1 F2. intros n sc Hn E. fuel n m.
    sub F1 m sc E lv sc1 HL VL E1. destruct (vt_str _ VL) as [x ->]. sub F2 m sc1 E1 rv sc2 HR VR E2. destruct (vt_str _ VR) as [y ->].
    rewrite (ne_strategy _ _ _ _ _ _ _ _ _ HL HR), sem_eq_str. cbn [bind unary_neg]. done E2.
  - (* != bool *) intros G l r sv _ Hl _ Hr. two Hl Hr k1 k2 F1 F2. intros n sc Hn E. fuel n m.
    sub F1 m sc E lv sc1 HL VL E1. destruct (vt_bool _ VL) as [x ->]. sub F2 m sc1 E1 rv sc2 HR VR E2. destruct (vt_bool _ VR) as [y ->].
    rewrite (ne_strategy _ _ _ _ _ _ _ _ _ HL HR), sem_eq_bool. cbn [bind unary_neg]. done E2.
  - (* / literal *) intros G l z sv NZ _ Hl. destruct Hl as [k F]. exists (S (S k)). intros n sc Hn E. fuel n m.
    sub F m sc E lv sc1 HL VL E1. destruct (vt_int _ VL) as [x ->].
    assert (HR : eval m vs sc1 (ELit (VInt z)) = Ok (VInt z, sc1)) by (destruct m as [|m']; [lia|reflexivity]).
    dflt HL HR. rewrite sem_div. apply Z.eqb_neq in NZ. rewrite NZ. done E1.
  - (* % literal *) intros G l z sv NZ _ Hl. destruct Hl as [k F]. exists (S (S k)). intros n sc Hn E. fuel n m.
    sub F m sc E lv sc1 HL VL E1. destruct (vt_int _ VL) as [x ->].
    assert (HR : eval m vs sc1 (ELit (VInt z)) = Ok (VInt z, sc1)) by (destruct m as [|m']; [lia|reflexivity]).
    dflt HL HR. rewrite sem_mod. apply Z.eqb_neq in NZ. rewrite NZ. done E1.
  - (* flatten list of lists *) intros G l r sv t u _ Hl _ Hr. two Hl Hr k1 k2 F1 F2. intros n sc Hn E. fuel n m.
    sub F1 m sc E lv sc1 HL VL E1. destruct (vt_list _ _ VL) as [xs [-> Txs]].
    unfold eval_binexpr. change (assoc binop_eqb OpFLATTEN strategy_table) with (Some SLhsOverRhs). rewrite HL. cbn [bind].
    destruct (flat_lists_typed _ _ Txs) as [ys [FI Tys]].
    destruct (result_iter_total (eval m vs) G sv t u r (fun sc0 E0 => F2 m sc0 ltac:(lia) E0) ys sc1 Tys (or_introl E1))
      as [out [sc2 [IT [To [En Ee]]]]].
    destruct xs as [|x0 xs0].
    + cbn [flat_inner] in FI. injection FI as <-. cbn [contained_kind kind_of].
      match goal with |- context [assoc key3_eqb ?k expr_functions] =>
        let r := eval vm_compute in (assoc key3_eqb k expr_functions) in change (assoc key3_eqb k expr_functions) with r end.
      cbn [apply_efun elems_list elems_set flat_inner]. rewrite IT. cbn [bind].
      (destruct (after_iteration where_flatten_scopevar sv (sget sv sc1) sc2) as [sc3| | |] eqn:AI;
        try (rewrite where_flatten_restores in AI; discriminate));
      cbn [bind]; exists (VList out), sc3; (split; [reflexivity|]); (split; [exact To|]);
      (apply (env_ok_restore G sv t sc1 sc2 sc3 E1); [|exact AI]);
      first [ (right; intros y _; rewrite (Ee eq_refl); reflexivity) | (destruct ys as [|y0 ys0]; [right; intros y _; rewrite (Ee eq_refl); reflexivity|left; apply En; discriminate]) ].
    + assert (Hx0 := Txs). cbn [forallb] in Hx0. apply andb_true_iff in Hx0. destruct Hx0 as [Hx0 _].
      destruct (vt_list _ _ Hx0) as [l0 [-> _]]. cbn [contained_kind kind_of].
      match goal with |- context [assoc key3_eqb ?k expr_functions] =>
        let r := eval vm_compute in (assoc key3_eqb k expr_functions) in change (assoc key3_eqb k expr_functions) with r end.
      cbn [apply_efun elems_list elems_set]. rewrite FI, IT. cbn [bind].
      (destruct (after_iteration where_flatten_scopevar sv (sget sv sc1) sc2) as [sc3| | |] eqn:AI;
        try (rewrite where_flatten_restores in AI; discriminate));
      cbn [bind]; exists (VList out), sc3; (split; [reflexivity|]); (split; [exact To|]);
      (apply (env_ok_restore G sv t sc1 sc2 sc3 E1); [|exact AI]);
      first [ (right; intros y _; rewrite (Ee eq_refl); reflexivity) | (destruct ys as [|y0 ys0]; [right; intros y _; rewrite (Ee eq_refl); reflexivity|left; apply En; discriminate]) ].
  - (* flatten list of sets *) intros G l r sv t u _ Hl _ Hr. two Hl Hr k1 k2 F1 F2. intros n sc Hn E. fuel n m.
    sub F1 m sc E lv sc1 HL VL E1. destruct (vt_list _ _ VL) as [xs [-> Txs]].
    unfold eval_binexpr. change (assoc binop_eqb OpFLATTEN strategy_table) with (Some SLhsOverRhs). rewrite HL. cbn [bind].
    destruct (flat_sets_typed _ _ Txs) as [ys [FI Tys]].
    destruct (result_iter_total (eval m vs) G sv t u r (fun sc0 E0 => F2 m sc0 ltac:(lia) E0) ys sc1 Tys (or_introl E1))
      as [out [sc2 [IT [To [En Ee]]]]].
    destruct xs as [|x0 xs0].
    + cbn [flat_inner] in FI. injection FI as <-. cbn [contained_kind kind_of].
      match goal with |- context [assoc key3_eqb ?k expr_functions] =>
        let r := eval vm_compute in (assoc key3_eqb k expr_functions) in change (assoc key3_eqb k expr_functions) with r end.
      cbn [apply_efun elems_list elems_set flat_inner]. rewrite IT. cbn [bind].
      (destruct (after_iteration where_flatten_scopevar sv (sget sv sc1) sc2) as [sc3| | |] eqn:AI;
        try (rewrite where_flatten_restores in AI; discriminate));
      cbn [bind]; exists (VList out), sc3; (split; [reflexivity|]); (split; [exact To|]);
      (apply (env_ok_restore G sv t sc1 sc2 sc3 E1); [|exact AI]);
      first [ (right; intros y _; rewrite (Ee eq_refl); reflexivity) | (destruct ys as [|y0 ys0]; [right; intros y _; rewrite (Ee eq_refl); reflexivity|left; apply En; discriminate]) ].
    + assert (Hx0 := Txs). cbn [forallb] in Hx0. apply andb_true_iff in Hx0. destruct Hx0 as [Hx0 _].
      destruct (vt_set _ _ Hx0) as [l0 [-> _]]. cbn [contained_kind kind_of].
      match goal with |- context [assoc key3_eqb ?k expr_functions] =>
        let r := eval vm_compute in (assoc key3_eqb k expr_functions) in change (assoc key3_eqb k expr_functions) with r end.
      cbn [apply_efun elems_list elems_set]. rewrite FI, IT. cbn [bind].
      (destruct (after_iteration where_flatten_scopevar sv (sget sv sc1) sc2) as [sc3| | |] eqn:AI;
        try (rewrite where_flatten_restores in AI; discriminate));
      cbn [bind]; exists (VList out), sc3; (split; [reflexivity|]); (split; [exact To|]);
      (apply (env_ok_restore G sv t sc1 sc2 sc3 E1); [|exact AI]);
      first [ (right; intros y _; rewrite (Ee eq_refl); reflexivity) | (destruct ys as [|y0 ys0]; [right; intros y _; rewrite (Ee eq_refl); reflexivity|left; apply En; discriminate]) ].
  - (* flatten set of lists *) intros G l r sv t u _ Hl _ Hr. two Hl Hr k1 k2 F1 F2. intros n sc Hn E. fuel n m.
    sub F1 m sc E lv sc1 HL VL E1. destruct (vt_set _ _ VL) as [xs [-> Txs]].
    unfold eval_binexpr. change (assoc binop_eqb OpFLATTEN strategy_table) with (Some SLhsOverRhs). rewrite HL. cbn [bind].
    destruct (flat_lists_typed _ _ Txs) as [ys [FI Tys]].
    destruct (result_iter_total (eval m vs) G sv t u r (fun sc0 E0 => F2 m sc0 ltac:(lia) E0) ys sc1 Tys (or_introl E1))
      as [out [sc2 [IT [To [En Ee]]]]].
    destruct xs as [|x0 xs0].
    + cbn [flat_inner] in FI. injection FI as <-. cbn [contained_kind kind_of].
      match goal with |- context [assoc key3_eqb ?k expr_functions] =>
        let r := eval vm_compute in (assoc key3_eqb k expr_functions) in change (assoc key3_eqb k expr_functions) with r end.
      cbn [apply_efun elems_list elems_set flat_inner]. rewrite IT. cbn [bind].
      (destruct (after_iteration where_flatten_scopevar sv (sget sv sc1) sc2) as [sc3| | |] eqn:AI;
        try (rewrite where_flatten_restores in AI; discriminate));
      cbn [bind]; exists (VSet out), sc3; (split; [reflexivity|]); (split; [exact To|]);
      (apply (env_ok_restore G sv t sc1 sc2 sc3 E1); [|exact AI]);
      first [ (right; intros y _; rewrite (Ee eq_refl); reflexivity) | (destruct ys as [|y0 ys0]; [right; intros y _; rewrite (Ee eq_refl); reflexivity|left; apply En; discriminate]) ].
    + assert (Hx0 := Txs). cbn [forallb] in Hx0. apply andb_true_iff in Hx0. destruct Hx0 as [Hx0 _].
      destruct (vt_list _ _ Hx0) as [l0 [-> _]]. cbn [contained_kind kind_of].
      match goal with |- context [assoc key3_eqb ?k expr_functions] =>
        let r := eval vm_compute in (assoc key3_eqb k expr_functions) in change (assoc key3_eqb k expr_functions) with r end.
      cbn [apply_efun elems_list elems_set]. rewrite FI, IT. cbn [bind].
      (destruct (after_iteration where_flatten_scopevar sv (sget sv sc1) sc2) as [sc3| | |] eqn:AI;
        try (rewrite where_flatten_restores in AI; discriminate));
      cbn [bind]; exists (VSet out), sc3; (split; [reflexivity|]); (split; [exact To|]);
      (apply (env_ok_restore G sv t sc1 sc2 sc3 E1); [|exact AI]);
      first [ (right; intros y _; rewrite (Ee eq_refl); reflexivity) | (destruct ys as [|y0 ys0]; [right; intros y _; rewrite (Ee eq_refl); reflexivity|left; apply En; discriminate]) ].
  - (* flatten set of sets *) intros G l r sv t u _ Hl _ Hr. two Hl Hr k1 k2 F1 F2. intros n sc Hn E. fuel n m.
    sub F1 m sc E lv sc1 HL VL E1. destruct (vt_set _ _ VL) as [xs [-> Txs]].
    unfold eval_binexpr. change (assoc binop_eqb OpFLATTEN strategy_table) with (Some SLhsOverRhs). rewrite HL. cbn [bind].
    destruct (flat_sets_typed _ _ Txs) as [ys [FI Tys]].
    destruct (result_iter_total (eval m vs) G sv t u r (fun sc0 E0 => F2 m sc0 ltac:(lia) E0) ys sc1 Tys (or_introl E1))
      as [out [sc2 [IT [To [En Ee]]]]].
    destruct xs as [|x0 xs0].
    + cbn [flat_inner] in FI. injection FI as <-. cbn [contained_kind kind_of].
      match goal with |- context [assoc key3_eqb ?k expr_functions] =>
        let r := eval vm_compute in (assoc key3_eqb k expr_functions) in change (assoc key3_eqb k expr_functions) with r end.
      cbn [apply_efun elems_list elems_set flat_inner]. rewrite IT. cbn [bind].
      (destruct (after_iteration where_flatten_scopevar sv (sget sv sc1) sc2) as [sc3| | |] eqn:AI;
        try (rewrite where_flatten_restores in AI; discriminate));
      cbn [bind]; exists (VSet out), sc3; (split; [reflexivity|]); (split; [exact To|]);
      (apply (env_ok_restore G sv t sc1 sc2 sc3 E1); [|exact AI]);
      first [ (right; intros y _; rewrite (Ee eq_refl); reflexivity) | (destruct ys as [|y0 ys0]; [right; intros y _; rewrite (Ee eq_refl); reflexivity|left; apply En; discriminate]) ].
    + assert (Hx0 := Txs). cbn [forallb] in Hx0. apply andb_true_iff in Hx0. destruct Hx0 as [Hx0 _].
      destruct (vt_set _ _ Hx0) as [l0 [-> _]]. cbn [contained_kind kind_of].
      match goal with |- context [assoc key3_eqb ?k expr_functions] =>
        let r := eval vm_compute in (assoc key3_eqb k expr_functions) in change (assoc key3_eqb k expr_functions) with r end.
      cbn [apply_efun elems_list elems_set]. rewrite FI, IT. cbn [bind].
      (destruct (after_iteration where_flatten_scopevar sv (sget sv sc1) sc2) as [sc3| | |] eqn:AI;
        try (rewrite where_flatten_restores in AI; discriminate));
      cbn [bind]; exists (VSet out), sc3; (split; [reflexivity|]); (split; [exact To|]);
      (apply (env_ok_restore G sv t sc1 sc2 sc3 E1); [|exact AI]);
      first [ (right; intros y _; rewrite (Ee eq_refl); reflexivity) | (destruct ys as [|y0 ys0]; [right; intros y _; rewrite (Ee eq_refl); reflexivity|left; apply En; discriminate]) ].
  - (* [] *) intros G t. exists 0. intros n sc _ E. cbn [eval_seq]. exists [], sc. split; [reflexivity|]. split; [reflexivity|exact E].
  - (* e :: es *) intros G e es t _ He _ Hes. destruct He as [k1 F1]. destruct Hes as [k2 F2]. exists (Nat.max k1 k2).
    intros n sc Hn E. cbn [eval_seq].
    destruct (F1 n sc ltac:(lia) E) as [v [sc1 [-> [V E1]]]]. cbn [bind].
    destruct (F2 n sc1 ltac:(lia) E1) as [vs0 [sc2 [-> [VS E2]]]]. cbn [bind].
    exists (v :: vs0), sc2. split; [reflexivity|]. split; [cbn [forallb]; rewrite V; exact VS|exact E2].
Qed.
End Total.

(* Well-typed expressions of the fragment never panic, run out of fuel for lack of a bound, or leave the model:
   with enough fuel the evaluation returns a value of the expression's type, in a scope that still has every
   typed variable. *)
Theorem eval_total_on_typed_partial : forall vs G e t,
  assoc String.eqb ".count" vs = None -> has_type G e t ->
  exists k, forall n sc, k <= n -> env_ok G sc ->
    exists v sc', eval n vs sc e = Ok (v, sc') /\ vtyped v t = true /\ env_ok G sc'.
Proof. intros vs G e t NV H. exact (typed_total vs NV G e t H). Qed.

(* non-vacuity: a where over a list of ints (fixes/C10-3) whose scope variable shadows a typed variable *)
Definition total_example : expr :=
  EBin OpWHERE (EBin OpBITOR (EName "xs") (EList [ELit (VInt 7)]) "")
       (EBin OpGT (EName "v") (EBin OpADD (EName "n") (ELit (VInt 1)) "") "") "v".
Example total_example_typed :
  has_type [("xs", TList TInt); ("n", TInt); ("v", TStr)] total_example (TList TInt).
Proof.
  apply T_WhereList.
  - apply T_Concat; [apply T_Name; reflexivity|apply T_ListLit; repeat constructor].
  - apply T_Cmp; [constructor|apply T_Name; reflexivity|].
    apply T_Arith; [constructor|apply T_Name; reflexivity|apply T_Lit; reflexivity].
Qed.
Example total_example_runs :
  eval 6 [] [("xs", VList [VInt 1; VInt 5]); ("n", VInt 2); ("v", VStr "s")] total_example
  = Ok (VList [VInt 5; VInt 7], [("v", VStr "s"); ("xs", VList [VInt 1; VInt 5]); ("n", VInt 2)]).
Proof. vm_compute. reflexivity. Qed.
