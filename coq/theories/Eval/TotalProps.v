(* C10: evaluation of well-typed expressions never panics.

   eval_total_on_typed: for the typing judgement [has_type] below (declarative, 36 rules + statement / argument
   judgements) there is a fuel bound beyond which evaluation returns a value of the expression's type - no Panic, no
   OutOfFuel, no Unmodelled - in a scope that still types.  The judgement covers: names, literals, if, integer
   + - * and comparisons, / and % by a non-zero literal, string concatenation / equality, boolean and / equality /
   negation, != , list and set literals, list concatenation, set union of int / string sets, string membership,
   count, where over lists and sets, flatten over lists / sets of lists / sets, attribute access on records,
   transforms of a scalar (one record) and over lists and sets (list or `set of` result) with `let` and assignment
   statements, and calls of other views (the callee's typing derivation is part of the caller's, so recursion is
   excluded).  A `let` must take a name that is not bound where it stands (otherwise it replaces that binding for
   good - the known finding); scope variables may shadow.
   NOT covered by the judgement (tied by the correspondence run only): transforms over the entries of a map and
   attribute access on (key, value) pairs, flatten over collections of maps, transforms whose argument is a record,
   division by a computed divisor, str / single, maps as `in` operand. *)
From Coq Require Import String List ZArith Bool Ascii Lia.
Import ListNotations.
Require Import Verif.Eval.Value Verif.Eval.Interp Verif.Eval.Tables Verif.Eval.PureProps Verif.Eval.SemProps Verif.Gen.EvalTables.
Local Open Scope string_scope.
Local Open Scope list_scope.

Inductive ty := TInt | TStr | TBool | TList (t:ty) | TSet (t:ty) | TRec (fs:list (string * ty)).

Fixpoint vtyped (v:value) (t:ty) {struct v} : bool :=
  match v, t with
  | VInt _, TInt => true
  | VStr _, TStr => true
  | VBool _, TBool => true
  | VList l, TList t' => forallb (fun x => vtyped x t') l
  | VSet l, TSet t' => forallb (fun x => vtyped x t') l
  | VMap m, TRec fs =>
      (fix go (m:list (string * value)) (fs:list (string * ty)) {struct m} : bool :=
         match m, fs with
         | [], [] => true
         | (k, v) :: m', (k', t') :: fs' => String.eqb k k' && vtyped v t' && go m' fs'
         | _, _ => false
         end) m fs
  | _, _ => false
  end.
(* a record value: the same keys in the same (sorted) order, every field of its type *)
Definition rec_typed (m:list (string * value)) (fs:list (string * ty)) : bool := vtyped (VMap m) (TRec fs).
Lemma rec_typed_cons k v m k' t fs :
  rec_typed ((k, v) :: m) ((k', t) :: fs) = String.eqb k k' && vtyped v t && rec_typed m fs.
Proof. reflexivity. Qed.

Definition tenv := list (string * ty).
Definition tlookup (x:string) (G:tenv) : option ty := assoc String.eqb x G.

Inductive arith_op : binop -> Prop := A_add : arith_op OpADD | A_sub : arith_op OpSUB | A_mul : arith_op OpMUL.
Inductive cmp_op : binop -> Prop := C_lt : cmp_op OpLT | C_le : cmp_op OpLE | C_gt : cmp_op OpGT | C_ge : cmp_op OpGE | C_eq : cmp_op OpEQ.
Inductive elem_ty : ty -> Prop := E_int : elem_ty TInt | E_str : elem_ty TStr.

Fixpoint tput (k:string) (t:ty) (fs:list (string * ty)) : list (string * ty) :=
  match fs with
  | [] => [(k, t)]
  | (k', t') :: fs' =>
      match String.compare k k' with
      | Lt => (k, t) :: fs
      | Eq => (k, t) :: fs'
      | Gt => (k', t') :: tput k t fs'
      end
  end.
Definition is_pair_fs (fs:list (string * ty)) : bool :=
  match fs with [(k1, _); (k2, _)] => String.eqb k1 "key" && String.eqb k2 "value" | _ => false end.
Inductive scalar_ty : ty -> Prop := S_int : scalar_ty TInt | S_str : scalar_ty TStr | S_bool : scalar_ty TBool.
Definition coll_of (k:ttype) (t:ty) : ty := match k with TySet => TSet t | _ => TList t end.

Inductive has_type (vs:views) : tenv -> expr -> ty -> Prop :=
| T_Name G x t : tlookup x G = Some t -> has_type vs G (EName x) t
| T_Lit G v t : vtyped v t = true -> has_type vs G (ELit v) t
| T_If G c a b t : has_type vs G c TBool -> has_type vs G a t -> has_type vs G b t -> has_type vs G (EIf c a b) t
| T_Arith G op l r sv : arith_op op -> has_type vs G l TInt -> has_type vs G r TInt -> has_type vs G (EBin op l r sv) TInt
| T_Cmp G op l r sv : cmp_op op -> has_type vs G l TInt -> has_type vs G r TInt -> has_type vs G (EBin op l r sv) TBool
| T_StrConcat G l r sv : has_type vs G l TStr -> has_type vs G r TStr -> has_type vs G (EBin OpADD l r sv) TStr
| T_StrEq G l r sv : has_type vs G l TStr -> has_type vs G r TStr -> has_type vs G (EBin OpEQ l r sv) TBool
| T_BoolEq G l r sv : has_type vs G l TBool -> has_type vs G r TBool -> has_type vs G (EBin OpEQ l r sv) TBool
| T_And G l r sv : has_type vs G l TBool -> has_type vs G r TBool -> has_type vs G (EBin OpAND l r sv) TBool
| T_NegInt G a : has_type vs G a TInt -> has_type vs G (EUn UoNEG a) TInt
| T_NegBool G a : has_type vs G a TBool -> has_type vs G (EUn UoNEG a) TBool
| T_Str G a t : scalar_ty t -> has_type vs G a t -> has_type vs G (EUn UoSTRING a) TStr
| T_ListLit G es t : has_types vs G es t -> has_type vs G (EList es) (TList t)
| T_SetLit G es t : has_types vs G es t -> has_type vs G (ESet es) (TSet t)
| T_Concat G l r sv t : has_type vs G l (TList t) -> has_type vs G r (TList t) -> has_type vs G (EBin OpBITOR l r sv) (TList t)
| T_ConcatSet G l r sv t : has_type vs G l (TList t) -> has_type vs G r (TSet t) -> has_type vs G (EBin OpBITOR l r sv) (TList t)
| T_Union G l r sv t : elem_ty t -> has_type vs G l (TSet t) -> has_type vs G r (TSet t) -> has_type vs G (EBin OpBITOR l r sv) (TSet t)
| T_InList G l r sv t : has_type vs G l TStr -> has_type vs G r (TList t) -> has_type vs G (EBin OpIN l r sv) TBool
| T_InSet G l r sv t : has_type vs G l TStr -> has_type vs G r (TSet t) -> has_type vs G (EBin OpIN l r sv) TBool
| T_CountList G a t : has_type vs G a (TList t) -> has_type vs G (ECall ".count" [a]) TInt
| T_CountSet G a t : has_type vs G a (TSet t) -> has_type vs G (ECall ".count" [a]) TInt
| T_WhereList G l r sv t : sv <> implied_result -> has_type vs G l (TList t) -> has_type vs ((sv, t) :: G) r TBool -> has_type vs G (EBin OpWHERE l r sv) (TList t)
| T_WhereSet G l r sv t : sv <> implied_result -> has_type vs G l (TSet t) -> has_type vs ((sv, t) :: G) r TBool -> has_type vs G (EBin OpWHERE l r sv) (TSet t)
| T_NeInt G l r sv : has_type vs G l TInt -> has_type vs G r TInt -> has_type vs G (EBin OpNE l r sv) TBool
| T_NeStr G l r sv : has_type vs G l TStr -> has_type vs G r TStr -> has_type vs G (EBin OpNE l r sv) TBool
| T_NeBool G l r sv : has_type vs G l TBool -> has_type vs G r TBool -> has_type vs G (EBin OpNE l r sv) TBool
| T_DivLit G l z sv : z <> 0%Z -> has_type vs G l TInt -> has_type vs G (EBin OpDIV l (ELit (VInt z)) sv) TInt
| T_ModLit G l z sv : z <> 0%Z -> has_type vs G l TInt -> has_type vs G (EBin OpMOD l (ELit (VInt z)) sv) TInt
| T_FlattenLL G l r sv t u : sv <> implied_result -> has_type vs G l (TList (TList t)) -> has_type vs ((sv, t) :: G) r u -> has_type vs G (EBin OpFLATTEN l r sv) (TList u)
| T_FlattenLS G l r sv t u : sv <> implied_result -> has_type vs G l (TList (TSet t)) -> has_type vs ((sv, t) :: G) r u -> has_type vs G (EBin OpFLATTEN l r sv) (TList u)
| T_FlattenSL G l r sv t u : sv <> implied_result -> has_type vs G l (TSet (TList t)) -> has_type vs ((sv, t) :: G) r u -> has_type vs G (EBin OpFLATTEN l r sv) (TSet u)
| T_FlattenSS G l r sv t u : sv <> implied_result -> has_type vs G l (TSet (TSet t)) -> has_type vs ((sv, t) :: G) r u -> has_type vs G (EBin OpFLATTEN l r sv) (TSet u)
| T_Attr G a fs f t : has_type vs G a (TRec fs) -> assoc String.eqb f fs = Some t -> is_pair_fs fs = false ->
    has_type vs G (EGetAttr a f) t
| T_Record G arg ta sv ss fs tyk : scalar_ty ta -> is_dot_name arg = false -> sv <> implied_result ->
    has_type vs G arg ta -> has_stmts vs ((sv, ta) :: G) ss [] fs -> has_type vs G (ETransform arg sv ss tyk) (TRec fs)
| T_TransformList G arg ta sv ss fs tyk : tyk <> TyNone -> is_dot_name arg = false -> sv <> implied_result ->
    has_type vs G arg (TList ta) -> has_stmts vs ((sv, ta) :: G) ss [] fs ->
    has_type vs G (ETransform arg sv ss tyk) (coll_of tyk (TRec fs))
| T_TransformSet G arg ta sv ss fs tyk : tyk <> TyNone -> is_dot_name arg = false -> sv <> implied_result ->
    has_type vs G arg (TSet ta) -> has_stmts vs ((sv, ta) :: G) ss [] fs ->
    has_type vs G (ETransform arg sv ss tyk) (coll_of tyk (TRec fs))
| T_Call G fn args vw ts t : assoc String.eqb fn vs = Some vw -> List.length (v_params vw) = List.length ts ->
    List.length args = List.length ts -> NoDup (v_params vw) -> ~ In implied_result (v_params vw) ->
    has_args vs G args ts -> has_type vs (combine (v_params vw) ts) (v_body vw) t -> has_type vs G (ECall fn args) t
with has_types (vs:views) : tenv -> list expr -> ty -> Prop :=
| TS_nil G t : has_types vs G [] t
| TS_cons G e es t : has_type vs G e t -> has_types vs G es t -> has_types vs G (e :: es) t
(* statements of a transform body: lets extend the environment (their names must be fresh: a let of a bound name
   replaces that binding for good - the known finding), assigns build the record *)
with has_stmts (vs:views) : tenv -> list stmt -> list (string * ty) -> list (string * ty) -> Prop :=
| TSt_nil G fs : has_stmts vs G [] fs fs
| TSt_let G x e t ss fs fs' : x <> log_string -> x <> implied_result -> tlookup x G = None ->
    has_type vs G e t -> has_stmts vs ((x, t) :: G) ss fs fs' -> has_stmts vs G (SLet x e :: ss) fs fs'
| TSt_assign G x e t ss fs fs' : has_type vs G e t -> has_stmts vs G ss (tput x t fs) fs' -> has_stmts vs G (SAssign x e :: ss) fs fs'
with has_args (vs:views) : tenv -> list expr -> list ty -> Prop :=
| TA_nil G : has_args vs G [] []
| TA_cons G e es t ts : has_type vs G e t -> has_args vs G es ts -> has_args vs G (e :: es) (t :: ts).

Scheme has_type_mut := Induction for has_type Sort Prop
  with has_types_mut := Induction for has_types Sort Prop
  with has_stmts_mut := Induction for has_stmts Sort Prop
  with has_args_mut := Induction for has_args Sort Prop.

Definition vars_ok (G:tenv) (sc:scope) : Prop :=
  forall x t, tlookup x G = Some t -> exists v, sget x sc = Some v /\ vtyped v t = true.
(* every typed variable is bound to a value of its type, and the template-result name "__$" is unbound *)
Definition env_ok (G:tenv) (sc:scope) : Prop := vars_ok G sc /\ sget implied_result sc = None.

(* the result of a well-typed evaluation *)
Definition good (G:tenv) (t:ty) (r:res) : Prop :=
  exists v sc', r = Ok (v, sc') /\ vtyped v t = true /\ env_ok G sc'.
Definition goods (G:tenv) (t:ty) (r:outcome (list value * scope)) : Prop :=
  exists vs sc', r = Ok (vs, sc') /\ forallb (fun x => vtyped x t) vs = true /\ env_ok G sc'.

(* inversion of value typing *)
Lemma vt_int v : vtyped v TInt = true -> exists z, v = VInt z.
Proof. destruct v; cbn; try discriminate. eauto. Qed.
Lemma vt_str v : vtyped v TStr = true -> exists s, v = VStr s.
Proof. destruct v; cbn; try discriminate. eauto. Qed.
Lemma vt_bool v : vtyped v TBool = true -> exists b, v = VBool b.
Proof. destruct v; cbn; try discriminate. eauto. Qed.
Lemma vt_list v t : vtyped v (TList t) = true -> exists l, v = VList l /\ forallb (fun x => vtyped x t) l = true.
Proof. destruct v; cbn; try discriminate. eauto. Qed.
Lemma vt_set v t : vtyped v (TSet t) = true -> exists l, v = VSet l /\ forallb (fun x => vtyped x t) l = true.
Proof. destruct v; cbn; try discriminate. eauto. Qed.

(* kinds of typed values: what the where table is asked for *)
Definition kind_in_where_table (k:vkind) : bool :=
  match k with KNoArg | KBool | KInt | KString | KList | KSet | KMap => true | _ => false end.
Lemma typed_kind v t : vtyped v t = true -> kind_in_where_table (kind_of v) = true.
Proof. destruct v, t; cbn; try discriminate; reflexivity. Qed.
Lemma where_list_row k : kind_in_where_table k = true -> assoc key3_eqb (OpWHERE, KList, k) expr_functions = Some G_whereList.
Proof. destruct k; cbn [kind_in_where_table]; try discriminate; intros _; reflexivity. Qed.
Lemma where_set_row k : kind_in_where_table k = true -> assoc key3_eqb (OpWHERE, KSet, k) expr_functions = Some G_whereSet.
Proof. destruct k; cbn [kind_in_where_table]; try discriminate; intros _; reflexivity. Qed.
Lemma contained_kind_typed l t : forallb (fun x => vtyped x t) l = true ->
  exists k, (forall mk, mk = VList \/ mk = VSet -> contained_kind (mk l) = Some k) /\ kind_in_where_table k = true.
Proof.
  destruct l as [|x l]; cbn [forallb].
  - exists KNoArg. split; [intros mk [-> | ->]; reflexivity|reflexivity].
  - intros H. apply andb_true_iff in H. destruct H as [Hx _]. exists (kind_of x). split; [intros mk [-> | ->]; reflexivity|].
    exact (typed_kind _ _ Hx).
Qed.

Lemma forallb_app' {A} (f:A -> bool) a b : forallb f a = true -> forallb f b = true -> forallb f (a ++ b) = true.
Proof. intros. rewrite forallb_app. apply andb_true_iff. tauto. Qed.

Lemma env_ok_rebind G sc sv t v : sv <> implied_result ->
  env_ok G sc \/ env_ok ((sv, t) :: G) sc -> vtyped v t = true -> env_ok ((sv, t) :: G) (sset sv v sc).
Proof.
  intros NS E V. split.
  - intros x t' L. unfold tlookup in L. cbn [assoc] in L. destruct (String.eqb x sv) eqn:Q.
    + apply String.eqb_eq in Q. subst x. injection L as <-. exists v. split; [apply sget_sset_eq|exact V].
    + assert (Q' := Q). apply String.eqb_neq in Q'. rewrite sget_sset_neq by exact Q'.
      destruct E as [[E _]|[E _]]; [exact (E _ _ L)|]. apply E. unfold tlookup. cbn [assoc]. rewrite Q. exact L.
  - rewrite sget_sset_neq by (intros Q; apply NS; symmetry; exact Q). destruct E as [[_ E]|[_ E]]; exact E.
Qed.
Lemma env_ok_extend G sc sv t v : sv <> implied_result -> env_ok G sc -> vtyped v t = true -> env_ok ((sv, t) :: G) (sset sv v sc).
Proof. intros NS E V. apply env_ok_rebind; [exact NS|left; exact E|exact V]. Qed.
Lemma env_ok_weaken G x t sc : tlookup x G = None -> env_ok ((x, t) :: G) sc -> env_ok G sc.
Proof.
  intros F [E N]. split; [|exact N]. intros y t' L. apply E. unfold tlookup. cbn [assoc].
  destruct (String.eqb y x) eqn:Q; [apply String.eqb_eq in Q; subst y; rewrite F in L; discriminate|exact L].
Qed.

(* after a where / flatten: the scope variable is deleted and its previous binding put back *)
Lemma env_ok_restore G sv t sc1 sc2 sc3 : sv <> implied_result ->
  env_ok G sc1 -> env_ok ((sv, t) :: G) sc2 \/ (forall x, x <> sv -> sget x sc2 = sget x sc1) ->
  after_iteration where_flatten_scopevar sv (sget sv sc1) sc2 = Ok sc3 -> env_ok G sc3.
Proof.
  intros NS [E1 N1] E2 H. rewrite where_flatten_restores in H. split.
  - intros x t' L.
    rewrite (after_iteration_restore _ _ _ _ x H). destruct (String.eqb x sv) eqn:Q.
    + apply String.eqb_eq in Q. subst x. exact (E1 _ _ L).
    + assert (Q' := Q). apply String.eqb_neq in Q'. destruct E2 as [[E2 _]|E2].
      * apply E2. unfold tlookup. cbn [assoc]. rewrite Q. exact L.
      * rewrite (E2 _ Q'). exact (E1 _ _ L).
  - rewrite (after_iteration_restore _ _ _ _ implied_result H).
    destruct (String.eqb implied_result sv) eqn:Q; [apply String.eqb_eq in Q; symmetry in Q; contradiction|].
    apply String.eqb_neq in Q. destruct E2 as [[_ E2]|E2]; [exact E2|rewrite (E2 _ Q); exact N1].
Qed.

(* ---- records ---- *)
Lemma vt_rec v fs : vtyped v (TRec fs) = true -> exists m, v = VMap m /\ rec_typed m fs = true.
Proof. destruct v; cbn [vtyped]; try discriminate. intros H. exists m. split; [reflexivity|exact H]. Qed.
Lemma vt_scalar v t : scalar_ty t -> vtyped v t = true ->
  match v with VBool _ | VInt _ | VStr _ => True | _ => False end.
Proof. intros S. destruct S, v; cbn; try discriminate; trivial. Qed.

Lemma rec_typed_put k v t : vtyped v t = true -> forall m fs, rec_typed m fs = true -> rec_typed (map_put k v m) (tput k t fs) = true.
Proof.
  intros V. induction m as [|[k0 v0] m IH]; intros [|[k1 t1] fs] H; try discriminate.
  - cbn [map_put tput]. rewrite rec_typed_cons, String.eqb_refl, V. reflexivity.
  - rewrite rec_typed_cons in H. apply andb_true_iff in H. destruct H as [H Hm]. apply andb_true_iff in H. destruct H as [K V0].
    apply String.eqb_eq in K. subst k1. cbn [map_put tput]. destruct (String.compare k k0).
    + rewrite rec_typed_cons, String.eqb_refl, V. exact Hm.
    + rewrite !rec_typed_cons, !String.eqb_refl, V, V0. exact Hm.
    + rewrite rec_typed_cons, String.eqb_refl, V0. apply IH. exact Hm.
Qed.
Lemma typed_map_get f t : forall m fs, rec_typed m fs = true -> assoc String.eqb f fs = Some t ->
  exists v, map_get f m = Some v /\ vtyped v t = true.
Proof.
  induction m as [|[k0 v0] m IH]; intros [|[k1 t1] fs] H A; try discriminate.
  rewrite rec_typed_cons in H. apply andb_true_iff in H. destruct H as [H Hm]. apply andb_true_iff in H. destruct H as [K V0].
  apply String.eqb_eq in K. subst k1. unfold map_get. cbn [assoc] in *. destruct (String.eqb f k0).
  - injection A as <-. exists v0. split; [reflexivity|exact V0].
  - exact (IH _ Hm A).
Qed.
Lemma typed_internal m fs : rec_typed m fs = true -> is_internal_map m = is_pair_fs fs.
Proof.
  destruct m as [|[k1 v1] [|[k2 v2] [|[k3 v3] m]]], fs as [|[j1 t1] [|[j2 t2] [|[j3 t3] fs]]]; cbn [is_internal_map is_pair_fs];
    try reflexivity; try discriminate; rewrite ?rec_typed_cons; intros H;
    repeat match goal with H : _ && _ = true |- _ => apply andb_true_iff in H; destruct H end; try discriminate;
    repeat match goal with K : String.eqb _ _ = true |- _ => apply String.eqb_eq in K; subst end; reflexivity.
Qed.

(* ---- parameters of a called view ---- *)
Lemma bind_params_other x ps : forall avs cs, ~ In x ps -> sget x (bind_params ps avs cs) = sget x cs.
Proof.
  induction ps as [|p ps IH]; intros [|v avs] cs N; cbn [bind_params]; try reflexivity.
  cbn [In] in N. rewrite IH by tauto. apply sget_sset_neq. intros ->. tauto.
Qed.
Lemma bind_params_ok ps : forall avs ts cs, NoDup ps -> List.length ps = List.length ts ->
  Forall2 (fun v t => vtyped v t = true) avs ts -> vars_ok (combine ps ts) (bind_params ps avs cs).
Proof.
  induction ps as [|p ps IH]; intros avs ts cs ND L F.
  - intros x t A. discriminate.
  - destruct ts as [|t ts]; [discriminate|]. destruct F as [|v t' avs ts' Vv F]; [discriminate|].
    inversion ND as [|? ? NI ND']. subst. injection L as L. cbn [combine bind_params].
    intros x t0 A. unfold tlookup in A. cbn [assoc] in A. destruct (String.eqb x p) eqn:Q.
    + apply String.eqb_eq in Q. subst x. injection A as <-. exists v. split; [|exact Vv].
      rewrite bind_params_other by exact NI. apply sget_sset_eq.
    + exact (IH _ _ _ ND' L F x t0 A).
Qed.

(* ---- the end of a transform ---- *)
Lemma finish_total G sv t sc0 sc1 : sv <> implied_result ->
  env_ok G sc0 -> env_ok ((sv, t) :: G) sc1 \/ (forall x, x <> sv -> sget x sc1 = sget x sc0) ->
  exists sc2, (sc1' <- after_iteration transform_scopevar sv (sget sv sc0) sc1 ;;
               Ok (match sget "." sc0 with Some v => sset "." v sc1' | None => sc1' end)) = Ok sc2 /\ env_ok G sc2.
Proof.
  intros NS [E0 N0] E1. rewrite transform_restores.
  destruct (after_iteration SvDeleteThenRestore sv (sget sv sc0) sc1) as [s1| | |] eqn:AI; try discriminate.
  cbn [bind]. eexists. split; [reflexivity|].
  assert (R : forall x, sget x s1 = if String.eqb x sv then sget sv sc0 else sget x sc1)
    by (intros x; exact (after_iteration_restore _ _ _ _ x AI)).
  assert (CT : forall x t', tlookup x G = Some t' -> exists v, sget x s1 = Some v /\ vtyped v t' = true).
  { intros x t' L. rewrite R. destruct (String.eqb x sv) eqn:Q.
    - apply String.eqb_eq in Q. subst x. exact (E0 _ _ L).
    - destruct E1 as [[E1 _]|E1].
      + apply E1. unfold tlookup. cbn [assoc]. rewrite Q. exact L.
      + apply String.eqb_neq in Q. rewrite (E1 _ Q). exact (E0 _ _ L). }
  assert (NI : sget implied_result s1 = None).
  { rewrite R. destruct (String.eqb implied_result sv) eqn:Q; [apply String.eqb_eq in Q; symmetry in Q; contradiction|].
    destruct E1 as [[_ E1]|E1]; [exact E1|]. apply String.eqb_neq in Q. rewrite (E1 _ Q). exact N0. }
  destruct (sget "." sc0) eqn:D; [|split; [exact CT|exact NI]].
  split.
  - intros x t' L. destruct (string_dec x ".") as [->|N].
    + rewrite sget_sset_eq. destruct (E0 _ _ L) as [w [S W]]. rewrite D in S. injection S as ->. exists w. split; [reflexivity|exact W].
    + rewrite sget_sset_neq by exact N. exact (CT _ _ L).
  - rewrite sget_sset_neq by (unfold implied_result; discriminate). exact NI.
Qed.

(* ---- a transform body evaluated for every element ---- *)
Lemma loop_total ev G sv ta ss fs k (NS : sv <> implied_result) (Kk : k = AppIfAbsent \/ k = AppAlways)
  (Hs : forall sc, env_ok ((sv, ta) :: G) sc ->
        exists result sc', eval_stmts ev ss [] sc = Ok (result, sc') /\ rec_typed result fs = true /\ env_ok ((sv, ta) :: G) sc') :
  forall xs acc sc, forallb (fun x => vtyped x ta) xs = true -> forallb (fun x => vtyped x (TRec fs)) acc = true ->
  env_ok G sc \/ env_ok ((sv, ta) :: G) sc ->
  exists out sc', transform_loop ev k sv ss xs acc sc = Ok (out, sc') /\ forallb (fun x => vtyped x (TRec fs)) out = true
                  /\ (xs <> [] -> env_ok ((sv, ta) :: G) sc') /\ (xs = [] -> sc' = sc).
Proof.
  induction xs as [|x xs IH]; intros acc sc T A E; cbn [transform_loop].
  - exists acc, sc. split; [reflexivity|]. split; [exact A|]. split; [intros N; contradiction|reflexivity].
  - cbn [forallb] in T. apply andb_true_iff in T. destruct T as [Tx Txs].
    assert (E' : env_ok ((sv, ta) :: G) (sset sv x sc)) by (apply env_ok_rebind; assumption).
    destruct (Hs _ E') as [result [sc1 [HS [TR E1]]]].
    unfold eval_transform_stmts. rewrite HS. cbn [bind]. rewrite (proj2 E1). cbn [bind].
    assert (AP : exists acc', append_with k acc (VMap result) = Ok acc' /\ forallb (fun x => vtyped x (TRec fs)) acc' = true).
    { destruct Kk as [-> | ->]; cbn [append_with].
      - destruct (existsb (value_eqb (VMap result)) acc); eexists; (split; [reflexivity|]); [exact A|].
        apply forallb_app'; [exact A|]. cbn [forallb]. rewrite andb_true_r. exact TR.
      - eexists. split; [reflexivity|]. apply forallb_app'; [exact A|]. cbn [forallb]. rewrite andb_true_r. exact TR. }
    destruct AP as [acc' [-> TA]]. cbn [bind].
    destruct (IH acc' sc1 Txs TA (or_intror E1)) as [out [sc2 [-> [To [En Ee]]]]].
    exists out, sc2. split; [reflexivity|]. split; [exact To|]. split; [|discriminate].
    intros _. destruct xs as [|y ys]; [rewrite (Ee eq_refl); exact E1|apply En; discriminate].
Qed.

Section Total.
Variable vs : views.
Hypothesis no_count_view : assoc String.eqb ".count" vs = None.

(* a sufficiently fuelled evaluator that is already total on typed sub-expressions *)
Definition total_ev (ev:evaluator) (P:tenv -> expr -> ty -> Prop) : Prop :=
  forall G e t sc, P G e t -> env_ok G sc -> good G t (ev sc e).

Lemma where_iter_total ev G sv t rhs (NS : sv <> implied_result) (Hr : forall sc, env_ok ((sv, t) :: G) sc -> good ((sv, t) :: G) TBool (ev sc rhs)) :
  forall xs sc, forallb (fun x => vtyped x t) xs = true -> env_ok G sc \/ env_ok ((sv, t) :: G) sc ->
  exists out sc', iter_rhs ev sv rhs keep_where xs sc = Ok (out, sc') /\ forallb (fun x => vtyped x t) out = true
                  /\ (xs <> [] -> env_ok ((sv, t) :: G) sc') /\ (xs = [] -> sc' = sc).
Proof.
  induction xs as [|x xs IH]; intros sc T E; cbn [iter_rhs].
  - exists [], sc. split; [reflexivity|]. split; [reflexivity|]. split; [intros N; contradiction|reflexivity].
  - cbn [forallb] in T. apply andb_true_iff in T. destruct T as [Tx Txs].
    assert (E' : env_ok ((sv, t) :: G) (sset sv x sc)) by (apply env_ok_rebind; assumption).
    destruct (Hr _ E') as [r [sc1 [-> [Vr E1]]]]. cbn [bind keep_where].
    destruct (IH sc1 Txs (or_intror E1)) as [out [sc2 [-> [To [En Ee]]]]]. cbn [bind].
    eexists _, sc2. split; [reflexivity|]. split.
    + destruct (getB r); cbn [app forallb]; [rewrite Tx|]; exact To.
    + split; [|discriminate]. intros _. destruct xs as [|y ys]; [rewrite (Ee eq_refl); exact E1|apply En; discriminate].
Qed.

Lemma result_iter_total ev G sv t u rhs (NS : sv <> implied_result) (Hr : forall sc, env_ok ((sv, t) :: G) sc -> good ((sv, t) :: G) u (ev sc rhs)) :
  forall xs sc, forallb (fun x => vtyped x t) xs = true -> env_ok G sc \/ env_ok ((sv, t) :: G) sc ->
  exists out sc', iter_rhs ev sv rhs keep_result xs sc = Ok (out, sc') /\ forallb (fun x => vtyped x u) out = true
                  /\ (xs <> [] -> env_ok ((sv, t) :: G) sc') /\ (xs = [] -> sc' = sc).
Proof.
  induction xs as [|x xs IH]; intros sc T E; cbn [iter_rhs].
  - exists [], sc. split; [reflexivity|]. split; [reflexivity|]. split; [intros N; contradiction|reflexivity].
  - cbn [forallb] in T. apply andb_true_iff in T. destruct T as [Tx Txs].
    assert (E' : env_ok ((sv, t) :: G) (sset sv x sc)) by (apply env_ok_rebind; assumption).
    destruct (Hr _ E') as [r [sc1 [-> [Vr E1]]]]. cbn [bind keep_result].
    destruct (IH sc1 Txs (or_intror E1)) as [out [sc2 [-> [To [En Ee]]]]]. cbn [bind].
    eexists _, sc2. split; [reflexivity|]. split.
    + cbn [app forallb]. rewrite Vr. exact To.
    + split; [|discriminate]. intros _. destruct xs as [|y ys]; [rewrite (Ee eq_refl); exact E1|apply En; discriminate].
Qed.

Lemma flat_lists_typed xs t : forallb (fun x => vtyped x (TList t)) xs = true ->
  exists ys, flat_inner elems_list xs = Some ys /\ forallb (fun x => vtyped x t) ys = true.
Proof.
  induction xs as [|x xs IH]; cbn [forallb flat_inner]; [exists []; split; reflexivity|].
  intros H. apply andb_true_iff in H. destruct H as [Hx Hxs]. destruct (vt_list _ _ Hx) as [l [-> Tl]].
  destruct (IH Hxs) as [ys [-> Tys]]. cbn [elems_list]. exists (l ++ ys). split; [reflexivity|exact (forallb_app' _ _ _ Tl Tys)].
Qed.
Lemma flat_sets_typed xs t : forallb (fun x => vtyped x (TSet t)) xs = true ->
  exists ys, flat_inner elems_set xs = Some ys /\ forallb (fun x => vtyped x t) ys = true.
Proof.
  induction xs as [|x xs IH]; cbn [forallb flat_inner]; [exists []; split; reflexivity|].
  intros H. apply andb_true_iff in H. destruct H as [Hx Hxs]. destruct (vt_set _ _ Hx) as [l [-> Tl]].
  destruct (IH Hxs) as [ys [-> Tys]]. cbn [elems_set]. exists (l ++ ys). split; [reflexivity|exact (forallb_app' _ _ _ Tl Tys)].
Qed.
Lemma ck_of_lists xs t (mk:list value -> value) : mk = VList \/ mk = VSet -> forallb (fun x => vtyped x (TList t)) xs = true ->
  contained_kind (mk xs) = Some KNoArg \/ contained_kind (mk xs) = Some KList.
Proof.
  intros M H. destruct xs as [|x xs]; [left; destruct M as [-> | ->]; reflexivity|right].
  cbn [forallb] in H. apply andb_true_iff in H. destruct H as [Hx _]. destruct (vt_list _ _ Hx) as [l [-> _]].
  destruct M as [-> | ->]; reflexivity.
Qed.
Lemma ck_of_sets xs t (mk:list value -> value) : mk = VList \/ mk = VSet -> forallb (fun x => vtyped x (TSet t)) xs = true ->
  contained_kind (mk xs) = Some KNoArg \/ contained_kind (mk xs) = Some KSet.
Proof.
  intros M H. destruct xs as [|x xs]; [left; destruct M as [-> | ->]; reflexivity|right].
  cbn [forallb] in H. apply andb_true_iff in H. destruct H as [Hx _]. destruct (vt_set _ _ Hx) as [l [-> _]].
  destruct M as [-> | ->]; reflexivity.
Qed.

Lemma typed_ints l : forallb (fun x => vtyped x TInt) l = true -> exists zs, l = map VInt zs.
Proof.
  induction l as [|x l IH]; cbn [forallb]; [exists []; reflexivity|]. intros H. apply andb_true_iff in H. destruct H as [Hx Hl].
  destruct (vt_int _ Hx) as [z ->]. destruct (IH Hl) as [zs ->]. exists (z :: zs). reflexivity.
Qed.
Lemma typed_strs l : forallb (fun x => vtyped x TStr) l = true -> exists zs, l = map VStr zs.
Proof.
  induction l as [|x l IH]; cbn [forallb]; [exists []; reflexivity|]. intros H. apply andb_true_iff in H. destruct H as [Hx Hl].
  destruct (vt_str _ Hx) as [z ->]. destruct (IH Hl) as [zs ->]. exists (z :: zs). reflexivity.
Qed.
Lemma ints_typed zs : forallb (fun x => vtyped x TInt) (map VInt zs) = true.
Proof. induction zs; cbn; auto. Qed.
Lemma strs_typed zs : forallb (fun x => vtyped x TStr) (map VStr zs) = true.
Proof. induction zs; cbn; auto. Qed.

Definition P (G:tenv) (e:expr) (t:ty) : Prop :=
  exists k, forall n sc, k <= n -> env_ok G sc -> good G t (eval n vs sc e).
Definition Ps (G:tenv) (es:list expr) (t:ty) : Prop :=
  exists k, forall n sc, k <= n -> env_ok G sc -> goods G t (eval_seq (eval n vs) es sc).

Definition Pst (G:tenv) (ss:list stmt) (fs fs':list (string * ty)) : Prop :=
  exists k, forall n sc result, k <= n -> env_ok G sc -> rec_typed result fs = true ->
    exists result' sc', eval_stmts (eval n vs) ss result sc = Ok (result', sc') /\ rec_typed result' fs' = true /\ env_ok G sc'.
Definition Pa (G:tenv) (es:list expr) (ts:list ty) : Prop :=
  exists k, forall n sc, k <= n -> env_ok G sc ->
    exists avs sc', eval_seq (eval n vs) es sc = Ok (avs, sc') /\ Forall2 (fun v t => vtyped v t = true) avs ts /\ env_ok G sc'.

Ltac two H1 H2 k1 k2 F1 F2 := destruct H1 as [k1 F1]; destruct H2 as [k2 F2]; exists (S (Nat.max k1 k2)).
Ltac fuel n m := destruct n as [|m]; [lia|]; cbn [eval step].
Ltac sub F m sc E v sc1 HL VL E1 := destruct (F m sc ltac:(lia) E) as [v [sc1 [HL [VL E1]]]].
Ltac dflt HL HR :=
  match goal with |- good _ _ (eval_binexpr _ _ ?op _ _ _) => rewrite (default_strategy _ _ op _ _ _ _ _ _ _ eq_refl HL HR) end.
Ltac done E2 := cbn [bind]; eexists _, _; split; [reflexivity|]; split; [try reflexivity|exact E2].

Theorem typed_total : forall G e t, has_type vs G e t -> P G e t.
Proof.
  apply (has_type_mut vs (fun G e t _ => P G e t) (fun G es t _ => Ps G es t)
                      (fun G ss fs fs' _ => Pst G ss fs fs') (fun G es ts _ => Pa G es ts)).
  - (* name *) intros G x t L. exists 1. intros n sc Hn E. fuel n m. destruct (proj1 E _ _ L) as [v [S V]]. rewrite S.
    exists v, sc. split; [reflexivity|]. split; [exact V|exact E].
  - (* literal *) intros G v t V. exists 1. intros n sc Hn E. fuel n m. exists v, sc. split; [reflexivity|]. split; [exact V|exact E].
  - (* if *) intros G c a b t _ Hc _ Ha _ Hb. destruct Hc as [kc Fc]. destruct Ha as [ka Fa]. destruct Hb as [kb Fb].
    exists (S (Nat.max kc (Nat.max ka kb))). intros n sc Hn E. fuel n m.
    sub Fc m sc E cv sc1 HC VC E1. destruct (vt_bool _ VC) as [bb ->]. rewrite HC. cbn [bind getB].
    destruct bb; [apply Fa|apply Fb]; try lia; exact E1.
  - (* arithmetic *) intros G op l r sv A _ Hl _ Hr. two Hl Hr k1 k2 F1 F2. intros n sc Hn E. fuel n m.
    sub F1 m sc E lv sc1 HL VL E1. destruct (vt_int _ VL) as [x ->]. sub F2 m sc1 E1 rv sc2 HR VR E2. destruct (vt_int _ VR) as [y ->].
    destruct A; dflt HL HR; [rewrite sem_add|rewrite sem_sub|rewrite sem_mul]; done E2.
  - (* comparisons *) intros G op l r sv A _ Hl _ Hr. two Hl Hr k1 k2 F1 F2. intros n sc Hn E. fuel n m.
    sub F1 m sc E lv sc1 HL VL E1. destruct (vt_int _ VL) as [x ->]. sub F2 m sc1 E1 rv sc2 HR VR E2. destruct (vt_int _ VR) as [y ->].
    destruct A; dflt HL HR; [rewrite sem_lt|rewrite sem_le|rewrite sem_gt|rewrite sem_ge|rewrite sem_eq_int]; done E2.
  - (* string concat *) intros G l r sv _ Hl _ Hr. two Hl Hr k1 k2 F1 F2. intros n sc Hn E. fuel n m.
    sub F1 m sc E lv sc1 HL VL E1. destruct (vt_str _ VL) as [x ->]. sub F2 m sc1 E1 rv sc2 HR VR E2. destruct (vt_str _ VR) as [y ->].
    dflt HL HR. rewrite sem_concat_str. done E2.
  - (* string eq *) intros G l r sv _ Hl _ Hr. two Hl Hr k1 k2 F1 F2. intros n sc Hn E. fuel n m.
    sub F1 m sc E lv sc1 HL VL E1. destruct (vt_str _ VL) as [x ->]. sub F2 m sc1 E1 rv sc2 HR VR E2. destruct (vt_str _ VR) as [y ->].
    dflt HL HR. rewrite sem_eq_str. done E2.
  - (* bool eq *) intros G l r sv _ Hl _ Hr. two Hl Hr k1 k2 F1 F2. intros n sc Hn E. fuel n m.
    sub F1 m sc E lv sc1 HL VL E1. destruct (vt_bool _ VL) as [x ->]. sub F2 m sc1 E1 rv sc2 HR VR E2. destruct (vt_bool _ VR) as [y ->].
    dflt HL HR. rewrite sem_eq_bool. done E2.
  - (* and *) intros G l r sv _ Hl _ Hr. two Hl Hr k1 k2 F1 F2. intros n sc Hn E. fuel n m.
    sub F1 m sc E lv sc1 HL VL E1. destruct (vt_bool _ VL) as [x ->]. sub F2 m sc1 E1 rv sc2 HR VR E2. destruct (vt_bool _ VR) as [y ->].
    dflt HL HR. rewrite sem_and. done E2.
  - (* neg int *) intros G a _ Ha. destruct Ha as [k F]. exists (S k). intros n sc Hn E. fuel n m.
    sub F m sc E v sc1 HA VA E1. destruct (vt_int _ VA) as [x ->]. rewrite HA. cbn [bind].
    change (assoc unop_eqb UoNEG unary_functions) with (Some U_unaryNeg). cbn [apply_ufun unary_neg]. done E1.
  - (* neg bool *) intros G a _ Ha. destruct Ha as [k F]. exists (S k). intros n sc Hn E. fuel n m.
    sub F m sc E v sc1 HA VA E1. destruct (vt_bool _ VA) as [x ->]. rewrite HA. cbn [bind].
    change (assoc unop_eqb UoNEG unary_functions) with (Some U_unaryNeg). cbn [apply_ufun unary_neg]. done E1.
  - (* str of a scalar *) intros G a t SC _ Ha. destruct Ha as [k F]. exists (S k). intros n sc Hn E. fuel n m.
    sub F m sc E v sc1 HA VA E1. rewrite HA. cbn [bind].
    change (assoc unop_eqb UoSTRING unary_functions) with (Some U_UnaryString). cbn [apply_ufun].
    pose proof (vt_scalar _ _ SC VA) as K. destruct v; try contradiction; [destruct b|..];
      cbn [unary_string unary_string_s bind]; done E1.
  - (* list literal *) intros G es t _ Hs. destruct Hs as [k F]. exists (S k). intros n sc Hn E. fuel n m.
    destruct (F m sc ltac:(lia) E) as [vs0 [sc1 [HS [VS E1]]]]. rewrite HS. cbn [bind].
    exists (VList vs0), sc1. split; [reflexivity|]. split; [exact VS|exact E1].
  - (* set literal *) intros G es t _ Hs. destruct Hs as [k F]. exists (S k). intros n sc Hn E. fuel n m.
    destruct (F m sc ltac:(lia) E) as [vs0 [sc1 [HS [VS E1]]]]. rewrite HS. cbn [bind].
    exists (VSet vs0), sc1. split; [reflexivity|]. split; [exact VS|exact E1].
  - (* list | list *) intros G l r sv t _ Hl _ Hr. two Hl Hr k1 k2 F1 F2. intros n sc Hn E. fuel n m.
    sub F1 m sc E lv sc1 HL VL E1. destruct (vt_list _ _ VL) as [a [-> Ta]]. sub F2 m sc1 E1 rv sc2 HR VR E2. destruct (vt_list _ _ VR) as [b [-> Tb]].
    dflt HL HR. rewrite sem_list_concat. cbn [bind]. eexists _, _. split; [reflexivity|]. split; [exact (forallb_app' _ _ _ Ta Tb)|exact E2].
  - (* list | set *) intros G l r sv t _ Hl _ Hr. two Hl Hr k1 k2 F1 F2. intros n sc Hn E. fuel n m.
    sub F1 m sc E lv sc1 HL VL E1. destruct (vt_list _ _ VL) as [a [-> Ta]]. sub F2 m sc1 E1 rv sc2 HR VR E2. destruct (vt_set _ _ VR) as [b [-> Tb]].
    dflt HL HR. rewrite sem_list_concat_set. cbn [bind]. eexists _, _. split; [reflexivity|]. split; [exact (forallb_app' _ _ _ Ta Tb)|exact E2].
  - (* set | set *) intros G l r sv t ET _ Hl _ Hr. two Hl Hr k1 k2 F1 F2. intros n sc Hn E. fuel n m.
    sub F1 m sc E lv sc1 HL VL E1. destruct (vt_set _ _ VL) as [a [-> Ta]]. sub F2 m sc1 E1 rv sc2 HR VR E2. destruct (vt_set _ _ VR) as [b [-> Tb]].
    dflt HL HR. destruct ET.
    + destruct (typed_ints _ Ta) as [za ->]. destruct (typed_ints _ Tb) as [zb ->].
      destruct (set_union_ints za zb) as [u [-> _]]. cbn [bind]. eexists _, _. split; [reflexivity|]. split; [exact (ints_typed u)|exact E2].
    + destruct (typed_strs _ Ta) as [za ->]. destruct (typed_strs _ Tb) as [zb ->].
      destruct (set_union_strings za zb) as [u [-> _]]. cbn [bind]. eexists _, _. split; [reflexivity|]. split; [exact (strs_typed u)|exact E2].
  - (* in list *) intros G l r sv t _ Hl _ Hr. two Hl Hr k1 k2 F1 F2. intros n sc Hn E. fuel n m.
    sub F1 m sc E lv sc1 HL VL E1. destruct (vt_str _ VL) as [x ->]. sub F2 m sc1 E1 rv sc2 HR VR E2. destruct (vt_list _ _ VR) as [b [-> Tb]].
    dflt HL HR. rewrite sem_in_list. done E2.
  - (* in set *) intros G l r sv t _ Hl _ Hr. two Hl Hr k1 k2 F1 F2. intros n sc Hn E. fuel n m.
    sub F1 m sc E lv sc1 HL VL E1. destruct (vt_str _ VL) as [x ->]. sub F2 m sc1 E1 rv sc2 HR VR E2. destruct (vt_set _ _ VR) as [b [-> Tb]].
    dflt HL HR. rewrite sem_in_set. done E2.
  - (* count list *) intros G a t _ Ha. destruct Ha as [k F]. exists (S k). intros n sc Hn E. fuel n m.
    sub F m sc E v sc1 HA VA E1. destruct (vt_list _ _ VA) as [l [-> _]].
    rewrite (sem_count_list _ _ _ _ _ _ _ no_count_view HA). done E1.
  - (* count set *) intros G a t _ Ha. destruct Ha as [k F]. exists (S k). intros n sc Hn E. fuel n m.
    sub F m sc E v sc1 HA VA E1. destruct (vt_set _ _ VA) as [l [-> _]].
    rewrite (sem_count_set _ _ _ _ _ _ _ no_count_view HA). done E1.
  - (* where list *) intros G l r sv t NS _ Hl _ Hr. two Hl Hr k1 k2 F1 F2. intros n sc Hn E. fuel n m.
    sub F1 m sc E lv sc1 HL VL E1. destruct (vt_list _ _ VL) as [xs [-> Txs]].
    unfold eval_binexpr. change (assoc binop_eqb OpWHERE strategy_table) with (Some SLhsOverRhs). rewrite HL. cbn [bind].
    destruct (contained_kind_typed _ _ Txs) as [k [CK KT]]. rewrite (CK VList (or_introl eq_refl)). cbn [kind_of].
    rewrite (where_list_row _ KT). cbn [apply_efun].
    destruct (where_iter_total (eval m vs) G sv t r NS (fun sc0 E0 => F2 m sc0 ltac:(lia) E0) xs sc1 Txs (or_introl E1))
      as [out [sc2 [-> [To [En Ee]]]]]. cbn [bind].
    destruct (after_iteration where_flatten_scopevar sv (sget sv sc1) sc2) as [sc3| | |] eqn:AI;
      try (rewrite where_flatten_restores in AI; discriminate).
    cbn [bind]. exists (VList out), sc3. split; [reflexivity|]. split; [exact To|].
    apply (env_ok_restore G sv t sc1 sc2 sc3 NS E1); [|exact AI].
    destruct xs as [|x0 xs0]; [right; intros y _; rewrite (Ee eq_refl); reflexivity|left; apply En; discriminate].
  - (* where set *) intros G l r sv t NS _ Hl _ Hr. two Hl Hr k1 k2 F1 F2. intros n sc Hn E. fuel n m.
    sub F1 m sc E lv sc1 HL VL E1. destruct (vt_set _ _ VL) as [xs [-> Txs]].
    unfold eval_binexpr. change (assoc binop_eqb OpWHERE strategy_table) with (Some SLhsOverRhs). rewrite HL. cbn [bind].
    destruct (contained_kind_typed _ _ Txs) as [k [CK KT]]. rewrite (CK VSet (or_intror eq_refl)). cbn [kind_of].
    rewrite (where_set_row _ KT). cbn [apply_efun].
    destruct (where_iter_total (eval m vs) G sv t r NS (fun sc0 E0 => F2 m sc0 ltac:(lia) E0) xs sc1 Txs (or_introl E1))
      as [out [sc2 [-> [To [En Ee]]]]]. cbn [bind].
    destruct (after_iteration where_flatten_scopevar sv (sget sv sc1) sc2) as [sc3| | |] eqn:AI;
      try (rewrite where_flatten_restores in AI; discriminate).
    cbn [bind]. exists (VSet out), sc3. split; [reflexivity|]. split; [exact To|].
    apply (env_ok_restore G sv t sc1 sc2 sc3 NS E1); [|exact AI].
    destruct xs as [|x0 xs0]; [right; intros y _; rewrite (Ee eq_refl); reflexivity|left; apply En; discriminate].
  - (* != int *) intros G l r sv _ Hl _ Hr. two Hl Hr k1 k2 F1 F2. intros n sc Hn E. fuel n m.
    sub F1 m sc E lv sc1 HL VL E1. destruct (vt_int _ VL) as [x ->]. sub F2 m sc1 E1 rv sc2 HR VR E2. destruct (vt_int _ VR) as [y ->].
    rewrite (ne_strategy _ _ _ _ _ _ _ _ _ HL HR), sem_eq_int. cbn [bind unary_neg]. done E2.
  - (* != string *) intros G l r sv _ Hl _ Hr. two Hl Hr k1 k2 F1 F2. intros n sc Hn E. fuel n m.
    sub F1 m sc E lv sc1 HL VL E1. destruct (vt_str _ VL) as [x ->]. sub F2 m sc1 E1 rv sc2 HR VR E2. destruct (vt_str _ VR) as [y ->].
    rewrite (ne_strategy _ _ _ _ _ _ _ _ _ HL HR), sem_eq_str. cbn [bind unary_neg]. done E2.
  - (* != bool *) intros G l r sv _ Hl _ Hr. two Hl Hr k1 k2 F1 F2. intros n sc Hn E. fuel n m.
    sub F1 m sc E lv sc1 HL VL E1. destruct (vt_bool _ VL) as [x ->]. sub F2 m sc1 E1 rv sc2 HR VR E2. destruct (vt_bool _ VR) as [y ->].
    rewrite (ne_strategy _ _ _ _ _ _ _ _ _ HL HR), sem_eq_bool. cbn [bind unary_neg]. done E2.
  - (* / literal *) intros G l z sv NZ _ Hl. destruct Hl as [k F]. exists (S (S k)). intros n sc Hn E. fuel n m.
    sub F m sc E lv sc1 HL VL E1. destruct (vt_int _ VL) as [x ->].
    assert (HR : eval m vs sc1 (ELit (VInt z)) = Ok (VInt z, sc1)) by (destruct m as [|m']; [lia|reflexivity]).
    dflt HL HR. rewrite sem_div. apply Z.eqb_neq in NZ. rewrite NZ. done E1.
  - (* % literal *) intros G l z sv NZ _ Hl. destruct Hl as [k F]. exists (S (S k)). intros n sc Hn E. fuel n m.
    sub F m sc E lv sc1 HL VL E1. destruct (vt_int _ VL) as [x ->].
    assert (HR : eval m vs sc1 (ELit (VInt z)) = Ok (VInt z, sc1)) by (destruct m as [|m']; [lia|reflexivity]).
    dflt HL HR. rewrite sem_mod. apply Z.eqb_neq in NZ. rewrite NZ. done E1.
  - (* flatten list of lists *) intros G l r sv t u NS _ Hl _ Hr. two Hl Hr k1 k2 F1 F2. intros n sc Hn E. fuel n m.
    sub F1 m sc E lv sc1 HL VL E1. destruct (vt_list _ _ VL) as [xs [-> Txs]].
    unfold eval_binexpr. change (assoc binop_eqb OpFLATTEN strategy_table) with (Some SLhsOverRhs). rewrite HL. cbn [bind].
    destruct (flat_lists_typed _ _ Txs) as [ys [FI Tys]].
    destruct (result_iter_total (eval m vs) G sv t u r NS (fun sc0 E0 => F2 m sc0 ltac:(lia) E0) ys sc1 Tys (or_introl E1))
      as [out [sc2 [IT [To [En Ee]]]]].
    destruct xs as [|x0 xs0].
    + cbn [flat_inner] in FI. injection FI as <-. cbn [contained_kind kind_of].
      match goal with |- context [assoc key3_eqb ?k expr_functions] =>
        let r := eval vm_compute in (assoc key3_eqb k expr_functions) in change (assoc key3_eqb k expr_functions) with r end.
      cbn [apply_efun elems_list elems_set flat_inner]. rewrite IT. cbn [bind].
      (destruct (after_iteration where_flatten_scopevar sv (sget sv sc1) sc2) as [sc3| | |] eqn:AI;
        try (rewrite where_flatten_restores in AI; discriminate));
      cbn [bind]; exists (VList out), sc3; (split; [reflexivity|]); (split; [exact To|]);
      (apply (env_ok_restore G sv t sc1 sc2 sc3 NS E1); [|exact AI]);
      first [ (right; intros y _; rewrite (Ee eq_refl); reflexivity) | (destruct ys as [|y0 ys0]; [right; intros y _; rewrite (Ee eq_refl); reflexivity|left; apply En; discriminate]) ].
    + assert (Hx0 := Txs). cbn [forallb] in Hx0. apply andb_true_iff in Hx0. destruct Hx0 as [Hx0 _].
      destruct (vt_list _ _ Hx0) as [l0 [-> _]]. cbn [contained_kind kind_of].
      match goal with |- context [assoc key3_eqb ?k expr_functions] =>
        let r := eval vm_compute in (assoc key3_eqb k expr_functions) in change (assoc key3_eqb k expr_functions) with r end.
      cbn [apply_efun elems_list elems_set]. rewrite FI, IT. cbn [bind].
      (destruct (after_iteration where_flatten_scopevar sv (sget sv sc1) sc2) as [sc3| | |] eqn:AI;
        try (rewrite where_flatten_restores in AI; discriminate));
      cbn [bind]; exists (VList out), sc3; (split; [reflexivity|]); (split; [exact To|]);
      (apply (env_ok_restore G sv t sc1 sc2 sc3 NS E1); [|exact AI]);
      first [ (right; intros y _; rewrite (Ee eq_refl); reflexivity) | (destruct ys as [|y0 ys0]; [right; intros y _; rewrite (Ee eq_refl); reflexivity|left; apply En; discriminate]) ].
  - (* flatten list of sets *) intros G l r sv t u NS _ Hl _ Hr. two Hl Hr k1 k2 F1 F2. intros n sc Hn E. fuel n m.
    sub F1 m sc E lv sc1 HL VL E1. destruct (vt_list _ _ VL) as [xs [-> Txs]].
    unfold eval_binexpr. change (assoc binop_eqb OpFLATTEN strategy_table) with (Some SLhsOverRhs). rewrite HL. cbn [bind].
    destruct (flat_sets_typed _ _ Txs) as [ys [FI Tys]].
    destruct (result_iter_total (eval m vs) G sv t u r NS (fun sc0 E0 => F2 m sc0 ltac:(lia) E0) ys sc1 Tys (or_introl E1))
      as [out [sc2 [IT [To [En Ee]]]]].
    destruct xs as [|x0 xs0].
    + cbn [flat_inner] in FI. injection FI as <-. cbn [contained_kind kind_of].
      match goal with |- context [assoc key3_eqb ?k expr_functions] =>
        let r := eval vm_compute in (assoc key3_eqb k expr_functions) in change (assoc key3_eqb k expr_functions) with r end.
      cbn [apply_efun elems_list elems_set flat_inner]. rewrite IT. cbn [bind].
      (destruct (after_iteration where_flatten_scopevar sv (sget sv sc1) sc2) as [sc3| | |] eqn:AI;
        try (rewrite where_flatten_restores in AI; discriminate));
      cbn [bind]; exists (VList out), sc3; (split; [reflexivity|]); (split; [exact To|]);
      (apply (env_ok_restore G sv t sc1 sc2 sc3 NS E1); [|exact AI]);
      first [ (right; intros y _; rewrite (Ee eq_refl); reflexivity) | (destruct ys as [|y0 ys0]; [right; intros y _; rewrite (Ee eq_refl); reflexivity|left; apply En; discriminate]) ].
    + assert (Hx0 := Txs). cbn [forallb] in Hx0. apply andb_true_iff in Hx0. destruct Hx0 as [Hx0 _].
      destruct (vt_set _ _ Hx0) as [l0 [-> _]]. cbn [contained_kind kind_of].
      match goal with |- context [assoc key3_eqb ?k expr_functions] =>
        let r := eval vm_compute in (assoc key3_eqb k expr_functions) in change (assoc key3_eqb k expr_functions) with r end.
      cbn [apply_efun elems_list elems_set]. rewrite FI, IT. cbn [bind].
      (destruct (after_iteration where_flatten_scopevar sv (sget sv sc1) sc2) as [sc3| | |] eqn:AI;
        try (rewrite where_flatten_restores in AI; discriminate));
      cbn [bind]; exists (VList out), sc3; (split; [reflexivity|]); (split; [exact To|]);
      (apply (env_ok_restore G sv t sc1 sc2 sc3 NS E1); [|exact AI]);
      first [ (right; intros y _; rewrite (Ee eq_refl); reflexivity) | (destruct ys as [|y0 ys0]; [right; intros y _; rewrite (Ee eq_refl); reflexivity|left; apply En; discriminate]) ].
  - (* flatten set of lists *) intros G l r sv t u NS _ Hl _ Hr. two Hl Hr k1 k2 F1 F2. intros n sc Hn E. fuel n m.
    sub F1 m sc E lv sc1 HL VL E1. destruct (vt_set _ _ VL) as [xs [-> Txs]].
    unfold eval_binexpr. change (assoc binop_eqb OpFLATTEN strategy_table) with (Some SLhsOverRhs). rewrite HL. cbn [bind].
    destruct (flat_lists_typed _ _ Txs) as [ys [FI Tys]].
    destruct (result_iter_total (eval m vs) G sv t u r NS (fun sc0 E0 => F2 m sc0 ltac:(lia) E0) ys sc1 Tys (or_introl E1))
      as [out [sc2 [IT [To [En Ee]]]]].
    destruct xs as [|x0 xs0].
    + cbn [flat_inner] in FI. injection FI as <-. cbn [contained_kind kind_of].
      match goal with |- context [assoc key3_eqb ?k expr_functions] =>
        let r := eval vm_compute in (assoc key3_eqb k expr_functions) in change (assoc key3_eqb k expr_functions) with r end.
      cbn [apply_efun elems_list elems_set flat_inner]. rewrite IT. cbn [bind].
      (destruct (after_iteration where_flatten_scopevar sv (sget sv sc1) sc2) as [sc3| | |] eqn:AI;
        try (rewrite where_flatten_restores in AI; discriminate));
      cbn [bind]; exists (VSet out), sc3; (split; [reflexivity|]); (split; [exact To|]);
      (apply (env_ok_restore G sv t sc1 sc2 sc3 NS E1); [|exact AI]);
      first [ (right; intros y _; rewrite (Ee eq_refl); reflexivity) | (destruct ys as [|y0 ys0]; [right; intros y _; rewrite (Ee eq_refl); reflexivity|left; apply En; discriminate]) ].
    + assert (Hx0 := Txs). cbn [forallb] in Hx0. apply andb_true_iff in Hx0. destruct Hx0 as [Hx0 _].
      destruct (vt_list _ _ Hx0) as [l0 [-> _]]. cbn [contained_kind kind_of].
      match goal with |- context [assoc key3_eqb ?k expr_functions] =>
        let r := eval vm_compute in (assoc key3_eqb k expr_functions) in change (assoc key3_eqb k expr_functions) with r end.
      cbn [apply_efun elems_list elems_set]. rewrite FI, IT. cbn [bind].
      (destruct (after_iteration where_flatten_scopevar sv (sget sv sc1) sc2) as [sc3| | |] eqn:AI;
        try (rewrite where_flatten_restores in AI; discriminate));
      cbn [bind]; exists (VSet out), sc3; (split; [reflexivity|]); (split; [exact To|]);
      (apply (env_ok_restore G sv t sc1 sc2 sc3 NS E1); [|exact AI]);
      first [ (right; intros y _; rewrite (Ee eq_refl); reflexivity) | (destruct ys as [|y0 ys0]; [right; intros y _; rewrite (Ee eq_refl); reflexivity|left; apply En; discriminate]) ].
  - (* flatten set of sets *) intros G l r sv t u NS _ Hl _ Hr. two Hl Hr k1 k2 F1 F2. intros n sc Hn E. fuel n m.
    sub F1 m sc E lv sc1 HL VL E1. destruct (vt_set _ _ VL) as [xs [-> Txs]].
    unfold eval_binexpr. change (assoc binop_eqb OpFLATTEN strategy_table) with (Some SLhsOverRhs). rewrite HL. cbn [bind].
    destruct (flat_sets_typed _ _ Txs) as [ys [FI Tys]].
    destruct (result_iter_total (eval m vs) G sv t u r NS (fun sc0 E0 => F2 m sc0 ltac:(lia) E0) ys sc1 Tys (or_introl E1))
      as [out [sc2 [IT [To [En Ee]]]]].
    destruct xs as [|x0 xs0].
    + cbn [flat_inner] in FI. injection FI as <-. cbn [contained_kind kind_of].
      match goal with |- context [assoc key3_eqb ?k expr_functions] =>
        let r := eval vm_compute in (assoc key3_eqb k expr_functions) in change (assoc key3_eqb k expr_functions) with r end.
      cbn [apply_efun elems_list elems_set flat_inner]. rewrite IT. cbn [bind].
      (destruct (after_iteration where_flatten_scopevar sv (sget sv sc1) sc2) as [sc3| | |] eqn:AI;
        try (rewrite where_flatten_restores in AI; discriminate));
      cbn [bind]; exists (VSet out), sc3; (split; [reflexivity|]); (split; [exact To|]);
      (apply (env_ok_restore G sv t sc1 sc2 sc3 NS E1); [|exact AI]);
      first [ (right; intros y _; rewrite (Ee eq_refl); reflexivity) | (destruct ys as [|y0 ys0]; [right; intros y _; rewrite (Ee eq_refl); reflexivity|left; apply En; discriminate]) ].
    + assert (Hx0 := Txs). cbn [forallb] in Hx0. apply andb_true_iff in Hx0. destruct Hx0 as [Hx0 _].
      destruct (vt_set _ _ Hx0) as [l0 [-> _]]. cbn [contained_kind kind_of].
      match goal with |- context [assoc key3_eqb ?k expr_functions] =>
        let r := eval vm_compute in (assoc key3_eqb k expr_functions) in change (assoc key3_eqb k expr_functions) with r end.
      cbn [apply_efun elems_list elems_set]. rewrite FI, IT. cbn [bind].
      (destruct (after_iteration where_flatten_scopevar sv (sget sv sc1) sc2) as [sc3| | |] eqn:AI;
        try (rewrite where_flatten_restores in AI; discriminate));
      cbn [bind]; exists (VSet out), sc3; (split; [reflexivity|]); (split; [exact To|]);
      (apply (env_ok_restore G sv t sc1 sc2 sc3 NS E1); [|exact AI]);
      first [ (right; intros y _; rewrite (Ee eq_refl); reflexivity) | (destruct ys as [|y0 ys0]; [right; intros y _; rewrite (Ee eq_refl); reflexivity|left; apply En; discriminate]) ].
  - (* attribute *) intros G a fs f t _ Ha AS NP. destruct Ha as [k F]. exists (S k). intros n sc Hn E. fuel n m.
    sub F m sc E v sc1 HA VA E1. destruct (vt_rec _ _ VA) as [mm [-> Tm]].
    unfold eval_get_attr. rewrite HA. cbn [bind]. rewrite (typed_internal _ _ Tm), NP.
    destruct (typed_map_get _ _ _ _ Tm AS) as [w [MG W]]. rewrite MG.
    exists w, sc1. split; [reflexivity|]. split; [exact W|exact E1].
  - (* transform of a scalar: one record *) intros G arg ta sv ss fs tyk SC ND NS _ Ha _ Hs.
    destruct Ha as [k1 F1]. destruct Hs as [k2 F2]. exists (S (Nat.max k1 k2)). intros n sc Hn E. fuel n m.
    sub F1 m sc E av sc0 HA VA E0. unfold eval_transform. rewrite ND, HA. cbn [bind]. cbv zeta.
    destruct (F2 m (sset sv av sc0) [] ltac:(lia) (env_ok_extend _ _ _ _ _ NS E0 VA) eq_refl) as [result [sc1 [HS [TR E1]]]].
    destruct (finish_total G sv ta sc0 sc1 NS E0 (or_introl E1)) as [sc2 [FN E2]].
    pose proof (vt_scalar _ _ SC VA) as SV.
    destruct av; try contradiction; unfold eval_transform_stmts; rewrite HS; cbn [bind]; rewrite (proj2 E1); cbn [bind];
      rewrite FN; cbn [bind]; exists (VMap result), sc2; (split; [reflexivity|]); (split; [exact TR|exact E2]).
  - (* transform over a list *) intros G arg ta sv ss fs tyk NT ND NS _ Ha _ Hs.
    destruct Ha as [k1 F1]. destruct Hs as [k2 F2]. exists (S (Nat.max k1 k2)). intros n sc Hn E. fuel n m.
    sub F1 m sc E av sc0 HA VA E0. destruct (vt_list _ _ VA) as [xs [-> Txs]].
    unfold eval_transform. rewrite ND, HA. cbn [bind]. cbv zeta.
    assert (HS : forall sc', env_ok ((sv, ta) :: G) sc' ->
      exists result sc'', eval_stmts (eval m vs) ss [] sc' = Ok (result, sc'') /\ rec_typed result fs = true /\ env_ok ((sv, ta) :: G) sc'')
      by (intros sc' E'; exact (F2 m sc' [] ltac:(lia) E' eq_refl)).
    destruct tyk; [contradiction NT; reflexivity| |].
    + destruct (loop_total (eval m vs) G sv ta ss fs set_transform_appender NS (or_introl set_appender_dedups) HS xs [] sc0 Txs eq_refl (or_introl E0))
        as [out [sc1 [-> [To [En Ee]]]]]. cbn [bind].
      assert (D : env_ok ((sv, ta) :: G) sc1 \/ (forall x, x <> sv -> sget x sc1 = sget x sc0))
        by (destruct xs as [|x0 xs0]; [right; intros y _; rewrite (Ee eq_refl); reflexivity|left; apply En; discriminate]).
      destruct (finish_total G sv ta sc0 sc1 NS E0 D) as [sc2 [-> E2]]. cbn [bind].
      exists (VSet out), sc2. split; [reflexivity|]. split; [exact To|exact E2].
    + destruct (loop_total (eval m vs) G sv ta ss fs list_transform_appender NS (or_intror list_appender_appends) HS xs [] sc0 Txs eq_refl (or_introl E0))
        as [out [sc1 [-> [To [En Ee]]]]]. cbn [bind].
      assert (D : env_ok ((sv, ta) :: G) sc1 \/ (forall x, x <> sv -> sget x sc1 = sget x sc0))
        by (destruct xs as [|x0 xs0]; [right; intros y _; rewrite (Ee eq_refl); reflexivity|left; apply En; discriminate]).
      destruct (finish_total G sv ta sc0 sc1 NS E0 D) as [sc2 [-> E2]]. cbn [bind].
      exists (VList out), sc2. split; [reflexivity|]. split; [exact To|exact E2].
  - (* transform over a set *) intros G arg ta sv ss fs tyk NT ND NS _ Ha _ Hs.
    destruct Ha as [k1 F1]. destruct Hs as [k2 F2]. exists (S (Nat.max k1 k2)). intros n sc Hn E. fuel n m.
    sub F1 m sc E av sc0 HA VA E0. destruct (vt_set _ _ VA) as [xs [-> Txs]].
    unfold eval_transform. rewrite ND, HA. cbn [bind]. cbv zeta.
    assert (HS : forall sc', env_ok ((sv, ta) :: G) sc' ->
      exists result sc'', eval_stmts (eval m vs) ss [] sc' = Ok (result, sc'') /\ rec_typed result fs = true /\ env_ok ((sv, ta) :: G) sc'')
      by (intros sc' E'; exact (F2 m sc' [] ltac:(lia) E' eq_refl)).
    destruct tyk; [contradiction NT; reflexivity| |].
    + destruct (loop_total (eval m vs) G sv ta ss fs set_transform_appender NS (or_introl set_appender_dedups) HS xs [] sc0 Txs eq_refl (or_introl E0))
        as [out [sc1 [-> [To [En Ee]]]]]. cbn [bind].
      assert (D : env_ok ((sv, ta) :: G) sc1 \/ (forall x, x <> sv -> sget x sc1 = sget x sc0))
        by (destruct xs as [|x0 xs0]; [right; intros y _; rewrite (Ee eq_refl); reflexivity|left; apply En; discriminate]).
      destruct (finish_total G sv ta sc0 sc1 NS E0 D) as [sc2 [-> E2]]. cbn [bind].
      exists (VSet out), sc2. split; [reflexivity|]. split; [exact To|exact E2].
    + destruct (loop_total (eval m vs) G sv ta ss fs list_transform_appender NS (or_intror list_appender_appends) HS xs [] sc0 Txs eq_refl (or_introl E0))
        as [out [sc1 [-> [To [En Ee]]]]]. cbn [bind].
      assert (D : env_ok ((sv, ta) :: G) sc1 \/ (forall x, x <> sv -> sget x sc1 = sget x sc0))
        by (destruct xs as [|x0 xs0]; [right; intros y _; rewrite (Ee eq_refl); reflexivity|left; apply En; discriminate]).
      destruct (finish_total G sv ta sc0 sc1 NS E0 D) as [sc2 [-> E2]]. cbn [bind].
      exists (VList out), sc2. split; [reflexivity|]. split; [exact To|exact E2].
  - (* call of another view *) intros G fn args vw ts t AV LEN LA ND NI _ Hargs _ Hbody.
    destruct Hargs as [k1 F1]. destruct Hbody as [k2 F2]. exists (S (Nat.max k1 k2)). intros n sc Hn E. fuel n m.
    rewrite eval_call_eq. rewrite AV. replace (List.length (v_params vw)) with (List.length args) by congruence.
    rewrite Nat.eqb_refl. cbn [negb].
    destruct (F1 m sc ltac:(lia) E) as [avs [sc1 [-> [FA E1]]]]. cbn [bind].
    assert (EB : env_ok (combine (v_params vw) ts) (bind_params (v_params vw) avs [])).
    { split; [apply bind_params_ok; assumption|]. rewrite bind_params_other by exact NI. reflexivity. }
    destruct (F2 m _ ltac:(lia) EB) as [r [scb [-> [VR _]]]]. cbn [bind].
    exists r, sc1. split; [reflexivity|]. split; [exact VR|exact E1].
  - (* [] *) intros G t. exists 0. intros n sc _ E. cbn [eval_seq]. exists [], sc. split; [reflexivity|]. split; [reflexivity|exact E].
  - (* e :: es *) intros G e es t _ He _ Hes. destruct He as [k1 F1]. destruct Hes as [k2 F2]. exists (Nat.max k1 k2).
    intros n sc Hn E. cbn [eval_seq].
    destruct (F1 n sc ltac:(lia) E) as [v [sc1 [-> [V E1]]]]. cbn [bind].
    destruct (F2 n sc1 ltac:(lia) E1) as [vs0 [sc2 [-> [VS E2]]]]. cbn [bind].
    exists (v :: vs0), sc2. split; [reflexivity|]. split; [cbn [forallb]; rewrite V; exact VS|exact E2].
  - (* no statement *) intros G fs. exists 0. intros n sc result _ E TR. cbn [eval_stmts]. exists result, sc. split; [reflexivity|]. split; [exact TR|exact E].
  - (* let *) intros G x e t ss fs fs' NL NI FR _ He _ Hss. destruct He as [k1 F1]. destruct Hss as [k2 F2]. exists (Nat.max k1 k2).
    intros n sc result Hn E TR. cbn [eval_stmts].
    destruct (F1 n sc ltac:(lia) E) as [r [sc1 [-> [VR E1]]]]. cbn [bind].
    apply String.eqb_neq in NL. rewrite NL.
    destruct (F2 n (sset x r sc1) result ltac:(lia) (env_ok_extend _ _ _ _ _ NI E1 VR) TR) as [result' [sc2 [-> [TR' E2]]]].
    exists result', sc2. split; [reflexivity|]. split; [exact TR'|exact (env_ok_weaken _ _ _ _ FR E2)].
  - (* assign *) intros G x e t ss fs fs' _ He _ Hss. destruct He as [k1 F1]. destruct Hss as [k2 F2]. exists (Nat.max k1 k2).
    intros n sc result Hn E TR. cbn [eval_stmts].
    destruct (F1 n sc ltac:(lia) E) as [r [sc1 [-> [VR E1]]]]. cbn [bind].
    exact (F2 n sc1 _ ltac:(lia) E1 (rec_typed_put x r t VR _ _ TR)).
  - (* no argument *) intros G. exists 0. intros n sc _ E. cbn [eval_seq]. exists [], sc. split; [reflexivity|]. split; [constructor|exact E].
  - (* argument *) intros G e es t ts _ He _ Hes. destruct He as [k1 F1]. destruct Hes as [k2 F2]. exists (Nat.max k1 k2).
    intros n sc Hn E. cbn [eval_seq].
    destruct (F1 n sc ltac:(lia) E) as [v [sc1 [-> [V E1]]]]. cbn [bind].
    destruct (F2 n sc1 ltac:(lia) E1) as [avs [sc2 [-> [FA E2]]]]. cbn [bind].
    exists (v :: avs), sc2. split; [reflexivity|]. split; [constructor; assumption|exact E2].
Qed.
End Total.

(* Well-typed expressions never panic, never leave the model, and do not run out of fuel for lack of a bound: there is
   a fuel bound k (the height of the typing derivation, which includes the bodies of the views called) such that for
   every fuel >= k the evaluation returns a value of the expression's type, in a scope that still has every typed
   variable (and "__$" unbound). *)
Theorem eval_total_on_typed : forall vs G e t,
  assoc String.eqb ".count" vs = None -> has_type vs G e t ->
  exists k, forall n sc, k <= n -> env_ok G sc ->
    exists v sc', eval n vs sc e = Ok (v, sc') /\ vtyped v t = true /\ env_ok G sc'.
Proof. intros vs G e t NV H. exact (typed_total vs NV G e t H). Qed.

(* the same at EvaluateView: a view whose body is well-typed in its parameters, called on arguments of those types *)
Theorem evaluate_view_total : forall vs name vw ts t,
  assoc String.eqb ".count" vs = None -> assoc String.eqb name vs = Some vw ->
  has_type vs (combine (v_params vw) ts) (v_body vw) t ->
  exists k, forall n sc, k <= n -> env_ok (combine (v_params vw) ts) sc ->
    exists v sc', evaluate_view n vs name sc = Ok (v, sc') /\ vtyped v t = true.
Proof.
  intros vs name vw ts t NV A H. destruct (eval_total_on_typed vs _ _ _ NV H) as [k F]. exists k. intros n sc Hn E.
  unfold evaluate_view. rewrite A. destruct (F n sc Hn E) as [v [sc' [-> [V _]]]]. exists v, sc'. split; [reflexivity|exact V].
Qed.

(* non-vacuity: a where over a list of ints (fixes/C10-3) whose scope variable shadows a typed variable *)
Definition total_example : expr :=
  EBin OpWHERE (EBin OpBITOR (EName "xs") (EList [ELit (VInt 7)]) "")
       (EBin OpGT (EName "v") (EBin OpADD (EName "n") (ELit (VInt 1)) "") "") "v".
Example total_example_typed :
  has_type [] [("xs", TList TInt); ("n", TInt); ("v", TStr)] total_example (TList TInt).
Proof.
  apply T_WhereList; [discriminate| |].
  - apply T_Concat; [apply T_Name; reflexivity|apply T_ListLit; repeat constructor].
  - apply T_Cmp; [constructor|apply T_Name; reflexivity|].
    apply T_Arith; [constructor|apply T_Name; reflexivity|apply T_Lit; reflexivity].
Qed.
Example total_example_runs :
  eval 6 [] [("xs", VList [VInt 1; VInt 5]); ("n", VInt 2); ("v", VStr "s")] total_example
  = Ok (VList [VInt 5; VInt 7], [("v", VStr "s"); ("xs", VList [VInt 1; VInt 5]); ("n", VInt 2)]).
Proof. vm_compute. reflexivity. Qed.

(* non-vacuity of the new rules: a view that calls another view, binds lets, builds records, reads an attribute and
   transforms a list *)
Definition helper_view : view :=
  {| v_params := ["q"]; v_body := ETransform (EName "q") "." [SAssign "d" (EBin OpMUL (EName ".") (ELit (VInt 2)) "")] TyOther |}.
Definition main_body : expr :=
  ETransform (EName "p0") "."
    [SLet "a" (ECall "H" [EName "p0"]);
     SLet "xs" (EList [ELit (VInt 1); ELit (VInt 2)]);
     SAssign "rows" (ETransform (EName "xs") "x" [SAssign "y" (EBin OpADD (EName "x") (EGetAttr (EName "a") "d") "")] TyOther);
     SAssign "n" (ECall ".count" [EName "xs"])] TyOther.
Definition example_views : views := [("H", helper_view); ("main", {| v_params := ["p0"]; v_body := main_body |})].
Example main_body_typed :
  has_type example_views [("p0", TInt)] main_body
           (TRec [("n", TInt); ("rows", TList (TRec [("y", TInt)]))]).
Proof.
  apply (T_Record example_views _ _ TInt); [constructor|reflexivity|discriminate|apply T_Name; reflexivity|].
  apply (TSt_let _ _ _ _ (TRec [("d", TInt)])); [discriminate|discriminate|reflexivity| |].
  { apply (T_Call example_views _ "H" _ helper_view [TInt]);
      [reflexivity|reflexivity|reflexivity|constructor; [intros []|constructor]|intros [Q|[]]; discriminate
      |apply TA_cons; [apply T_Name; reflexivity|apply TA_nil]|].
    apply (T_Record example_views _ _ TInt); [constructor|reflexivity|discriminate|apply T_Name; reflexivity|].
    apply (TSt_assign _ _ _ _ TInt); [|apply TSt_nil].
    apply T_Arith; [constructor|apply T_Name; reflexivity|apply T_Lit; reflexivity]. }
  apply (TSt_let _ _ _ _ (TList TInt)); [discriminate|discriminate|reflexivity| |].
  { apply T_ListLit. repeat constructor. }
  apply (TSt_assign _ _ _ _ (TList (TRec [("y", TInt)]))).
  { apply (T_TransformList example_views _ _ TInt _ _ [("y", TInt)] TyOther); [discriminate|reflexivity|discriminate|apply T_Name; reflexivity|].
    apply (TSt_assign _ _ _ _ TInt); [|apply TSt_nil].
    apply T_Arith; [constructor|apply T_Name; reflexivity|].
    apply (T_Attr _ _ _ [("d", TInt)]); [apply T_Name; reflexivity|reflexivity|reflexivity]. }
  apply (TSt_assign _ _ _ _ TInt); [|apply TSt_nil].
  apply (T_CountList _ _ _ TInt). apply T_Name. reflexivity.
Qed.
Example main_view_runs :
  evaluate_view 8 example_views "main" [("p0", VInt 5)]
  = Ok (VMap [("n", VInt 2); ("rows", VList [VMap [("y", VInt 11)]; VMap [("y", VInt 12)]])],
        [("xs", VList [VInt 1; VInt 2]); ("a", VMap [("d", VInt 10)]); ("p0", VInt 5)]).
Proof. vm_compute. reflexivity. Qed.

(* str of a scalar is in the judgement (second pass): typed, and it runs *)
Example str_typed : has_type [] [("n", TInt)] (EUn UoSTRING (EBin OpADD (EName "n") (ELit (VInt 1)) "")) TStr.
Proof. apply (T_Str [] _ _ TInt S_int). apply T_Arith; [constructor|apply T_Name; reflexivity|apply T_Lit; reflexivity]. Qed.
Example str_runs : eval 5 [] [("n", VInt 41)] (EUn UoSTRING (EBin OpADD (EName "n") (ELit (VInt 1)) "")) = Ok (VStr "42", [("n", VInt 41)]).
Proof. vm_compute. reflexivity. Qed.
