(* C10 model, part 2: the evaluator, a transliteration of pkg/eval/{exprEval,binexprEval,exprOp,unaryEval}.go.
   Definitions only.  The mutable Scope map of the Go code is threaded as state exactly where the code
   writes it (let, scope variables, delete/restore); operators are enabled exactly by Gen.EvalTables.

   Outcomes: a Go panic inside eval is recovered by handlePanic, which calls os.Exit(1) - the whole
   evaluation is lost: [Panic].  Recursion (through sub-expressions and through calls to other views) is by
   fuel: [OutOfFuel].  Source the model does not cover yields [Unmodelled] (never compared as equal to
   anything): float / decimal values, the native helpers MatchString / FindAllString / Title / Replace (and the code-point
   helpers on non-ASCII strings), template result names "__$" / "__$Log",
   set union of maps, String of null, relexpr / navigate / tuple expressions. *)
From Coq Require Import String List ZArith Bool Ascii.
Import ListNotations.
Require Import Verif.Eval.Value Verif.Eval.GoFuncs Verif.Gen.EvalTables.
Local Open Scope string_scope.
Local Open Scope list_scope.

Inductive outcome (A:Type) : Type := Ok (a:A) | Panic | OutOfFuel | Unmodelled.
Arguments Ok {A} a. Arguments Panic {A}. Arguments OutOfFuel {A}. Arguments Unmodelled {A}.

Definition bind {A B} (o:outcome A) (f:A -> outcome B) : outcome B :=
  match o with Ok a => f a | Panic => Panic | OutOfFuel => OutOfFuel | Unmodelled => Unmodelled end.
Notation "x <- e ;; k" := (bind e (fun x => k)) (at level 61, e at next level, right associativity).
Notation "' p <- e ;; k" := (bind e (fun p => k)) (at level 61, p pattern, e at next level, right associativity).

(* e.Type of a transform expression: nil, `set of ...`, anything else *)
Inductive ttype := TyNone | TySet | TyOther.

Inductive expr : Type :=
| EName (x:string)
| ELit (v:value)
| EGetAttr (arg:expr) (attr:string)
| ETransform (arg:expr) (scopevar:string) (stmts:list stmt) (ty:ttype)
| EIf (c t f:expr)
| ECall (fn:string) (args:list expr)
| EUn (op:unop) (arg:expr)
| EBin (op:binop) (lhs rhs:expr) (scopevar:string)
| EList (es:list expr)
| ESet (es:list expr)
with stmt : Type :=
| SLet (x:string) (e:expr)
| SAssign (x:string) (e:expr).

(* txApp.Views: name -> (parameter names, body) ; body's e.Type already defaulted to RetType *)
Record view := { v_params : list string; v_body : expr }.
Definition views := list (string * view).

Definition implied_result : string := "__$".
Definition log_string : string := "__$Log".

Definition res := outcome (value * scope).
Definition evaluator := scope -> expr -> res.

(* ---------------- two-value functions (exprOp.go) ---------------- *)
Inductive gv := GZ (z:Z) | GS (s:string) | GB (b:bool).
Definition run_getter (g:getter) (v:value) : gv :=
  match g with GetI => GZ (getI v) | GetS => GS (getS v) | GetB => GB (getB v) end.
Definition run_goop (op:goop) (a b:gv) : outcome gv :=
  match op, a, b with
  | GoAdd, GZ x, GZ y => Ok (GZ (wrap64 (x + y)))
  | GoSub, GZ x, GZ y => Ok (GZ (wrap64 (x - y)))
  | GoMul, GZ x, GZ y => Ok (GZ (wrap64 (x * y)))
  | GoQuo, GZ x, GZ y => if Z.eqb y 0 then Panic else Ok (GZ (wrap64 (Z.quot x y)))
  | GoRem, GZ x, GZ y => if Z.eqb y 0 then Panic else Ok (GZ (wrap64 (Z.rem x y)))
  | GoAdd, GS x, GS y => Ok (GS (x ++ y)%string)
  | GoEq, GZ x, GZ y => Ok (GB (Z.eqb x y))
  | GoNe, GZ x, GZ y => Ok (GB (negb (Z.eqb x y)))
  | GoLt, GZ x, GZ y => Ok (GB (Z.ltb x y))
  | GoLe, GZ x, GZ y => Ok (GB (Z.leb x y))
  | GoGt, GZ x, GZ y => Ok (GB (Z.gtb x y))
  | GoGe, GZ x, GZ y => Ok (GB (Z.geb x y))
  | GoEq, GS x, GS y => Ok (GB (String.eqb x y))
  | GoNe, GS x, GS y => Ok (GB (negb (String.eqb x y)))
  | GoEq, GB x, GB y => Ok (GB (Bool.eqb x y))
  | GoNe, GB x, GB y => Ok (GB (negb (Bool.eqb x y)))
  | GoAnd, GB x, GB y => Ok (GB (x && y))
  | GoOr, GB x, GB y => Ok (GB (x || y))
  | _, _, _ => Unmodelled
  end.
Definition run_mk (m:mk) (g:gv) : outcome value :=
  match m, g with
  | MkI64, GZ z => Ok (VInt z)
  | MkBool, GB b => Ok (VBool b)
  | MkString, GS s => Ok (VStr s)
  | _, _ => Unmodelled
  end.

Definition elems_list (v:value) : option (list value) := match v with VList l => Some l | _ => None end.
Definition elems_set (v:value) : option (list value) := match v with VSet l => Some l | _ => None end.

(* setUnion *)
Definition set_union (l r:value) : outcome value :=
  match contained_kind l with
  | None => Panic
  | Some kl =>
    let ok := match kl with KNoArg => contained_kind r | k => Some k end in
    match ok with
    | None => Panic
    | Some KNoArg => Ok (VSet [])
    | Some KInt =>
        match elems_set l, elems_set r with
        | Some a, Some b => Ok (VSet (map VInt (zsort_dedup (map getI (a ++ b)))))
        | _, _ => Panic
        end
    | Some KString =>
        match elems_set l, elems_set r with
        | Some a, Some b => Ok (VSet (map VStr (ssort_dedup (map getS (a ++ b)))))
        | _, _ => Panic
        end
    | Some KMap => Unmodelled
    | Some _ => Panic
    end
  end.

Definition string_in (str:string) (l:list value) : bool := existsb (fun v => String.eqb str (getS v)) l.

(* hand model of the functions whose body the translator reports as BOpaque *)
Definition opaque_vfun (f:vfun) (l r:value) : outcome value :=
  match f with
  | F_concatListList => match l, r with VList a, VList b => Ok (VList (a ++ b)) | _, _ => Panic end
  | F_concatListSet => match l, r with VList a, VSet b => Ok (VList (a ++ b)) | _, _ => Panic end
  | F_setUnion => set_union l r
  | F_cmpListNull => Ok (VBool false)
  | F_stringInList => match r with VList b => Ok (VBool (string_in (getS l) b)) | _ => Panic end
  | F_stringInSet => match r with VSet b => Ok (VBool (string_in (getS l) b)) | _ => Panic end
  | F_stringInMapKey =>
      match r with VMap m => Ok (VBool (match map_get (getS l) m with Some _ => true | None => false end)) | _ => Panic end
  | _ => Unmodelled
  end.

Definition body_of (f:vfun) : vbody := match assoc vfun_eqb f vfun_bodies with Some b => b | None => BOpaque end.

Definition apply_simple (f:vfun) (l r:value) : outcome value :=
  match body_of f with
  | BBin m gl op gr => g <- run_goop op (run_getter gl l) (run_getter gr r) ;; run_mk m g
  | BConst b => Ok (VBool b)
  | BNot _ => Unmodelled
  | BOpaque => opaque_vfun f l r
  end.

Definition apply_vfun (f:vfun) (l r:value) : outcome value :=
  match body_of f with
  | BNot g => v <- apply_simple g l r ;; Ok (VBool (negb (getB v)))
  | _ => apply_simple f l r
  end.

(* ---------------- unary functions (unaryEval.go) ---------------- *)
Definition unary_neg (v:value) : outcome value :=
  match v with
  | VInt z => Ok (VInt (wrap64 (- z)))
  | VBool b => Ok (VBool (negb b))
  | _ => Panic
  end.
Definition unary_single (v:value) : outcome value :=
  match v with
  | VList [x] | VSet [x] => Ok x
  | _ => Panic
  end.

Fixpoint unary_string_s (v:value) : option string :=
  match v with
  | VStr s => Some s
  | VInt z => Some (z_to_string z)
  | VBool true => Some "true"
  | VBool false => Some "false"
  | VList l | VSet l =>
      match (fix go (l:list value) : option (list string) :=
               match l with
               | [] => Some []
               | x :: l' => match unary_string_s x, go l' with Some s, Some r => Some (s :: r) | _, _ => None end
               end) l with
      | Some parts => Some ("[" ++ join ", " parts ++ "]")%string
      | None => None
      end
  | VMap m =>
      match (fix go (m:list (string*value)) : option (list string) :=
               match m with
               | [] => Some []
               | (k,x) :: m' => match unary_string_s x, go m' with Some s, Some r => Some ((k ++ ": " ++ s)%string :: r) | _, _ => None end
               end) m with
      | Some parts => Some ("{" ++ join ", " (ssort parts) ++ "}")%string
      | None => None
      end
  | VNil | VNull => None     (* arg.String() of a protobuf message: text format, not modelled *)
  end.
Definition unary_string (v:value) : outcome value :=
  match unary_string_s v with Some s => Ok (VStr s) | None => Unmodelled end.

Definition apply_ufun (f:ufun) (v:value) : outcome value :=
  match f with
  | U_unaryNeg => unary_neg v
  | U_unarySingle => unary_single v
  | U_UnaryString => unary_string v
  | U_unknown => Unmodelled
  end.

(* ---------------- loops over collections, scope threaded ---------------- *)
Section WithEvaluator.
Variable ev : evaluator.

(* evalList / evalSet / call arguments *)
Fixpoint eval_seq (es:list expr) (sc:scope) : outcome (list value * scope) :=
  match es with
  | [] => Ok ([], sc)
  | e :: es' =>
      '(v, sc1) <- ev sc e ;;
      '(vs, sc2) <- eval_seq es' sc1 ;;
      Ok (v :: vs, sc2)
  end.

(* for _, l := range xs { assign[sv] = l; r := Eval(rhs); out = append(out, f l r) } *)
Fixpoint iter_rhs (sv:string) (rhs:expr) (keep:value -> value -> outcome (list value)) (xs:list value) (sc:scope)
  : outcome (list value * scope) :=
  match xs with
  | [] => Ok ([], sc)
  | l :: xs' =>
      '(r, sc1) <- ev (sset sv l sc) rhs ;;
      out <- keep l r ;;
      '(rest, sc2) <- iter_rhs sv rhs keep xs' sc1 ;;
      Ok (out ++ rest, sc2)
  end.

Definition keep_where (l r:value) : outcome (list value) := Ok (if getB r then [l] else []).
Definition keep_result (l r:value) : outcome (list value) := Ok [r].
Definition keep_setmap (l r:value) : outcome (list value) :=
  match r with VSet ys => Ok ys | VNil => Panic | _ => Ok [r] end.

(* nested ranges of the flatten functions: the outer elements must all be of the inner collection kind,
   else l.GetList().Value dereferences nil.  The panic happens when that element is reached, after the
   iterations before it; since a panic loses everything, only its presence matters. *)
Fixpoint flat_inner (inner:value -> option (list value)) (xs:list value) : option (list value) :=
  match xs with
  | [] => Some []
  | l :: xs' => match inner l, flat_inner inner xs' with Some ys, Some r => Some (ys ++ r) | _, _ => None end
  end.

Definition all_maps (xs:list value) : bool := forallb (fun v => match v with VMap _ => true | _ => false end) xs.

(* a flatten whose outer element is not of the expected kind panics only when it is reached: evaluate the
   prefix first (the prefix may itself panic / run out of fuel / be unmodelled - same loss) *)
Fixpoint flat_prefix (inner:value -> option (list value)) (xs:list value) : list value :=
  match xs with
  | [] => []
  | l :: xs' => match inner l with Some ys => ys ++ flat_prefix inner xs' | None => [] end
  end.

(* the (key, value) pair a map entry is presented as (evalTransform over a map, whereMap) *)
Definition internal_pair (k:string) (item:value) : value := VMap (map_put "key" (VStr k) (map_put "value" item [])).
(* back from the kept pairs to a map *)
Definition pairs_to_map (ps:list value) : list (string*value) :=
  fold_right (fun p acc => match p with VMap [(_, VStr k); (_, v)] => map_put k v acc | _ => acc end) [] ps.

Definition apply_efun (f:efun) (sc:scope) (lhs:value) (sv:string) (rhs:expr) : res :=
  let flat (outer inner:value -> option (list value)) (mkv:list value -> value) :=
    match outer lhs with
    | None => Panic
    | Some xs =>
        match flat_inner inner xs with
        | Some ys => '(out, sc1) <- iter_rhs sv rhs keep_result ys sc ;; Ok (mkv out, sc1)
        | None => '(out, sc1) <- iter_rhs sv rhs keep_result (flat_prefix inner xs) sc ;; Panic
        end
    end in
  match f with
  | G_whereList =>
      match lhs with
      | VList xs => '(out, sc1) <- iter_rhs sv rhs keep_where xs sc ;; Ok (VList out, sc1)
      | _ => Panic
      end
  | G_whereSet =>
      match lhs with
      | VSet xs => '(out, sc1) <- iter_rhs sv rhs keep_where xs sc ;; Ok (VSet out, sc1)
      | _ => Panic
      end
  | G_flattenListList => flat elems_list elems_list VList
  | G_flattenListSet => flat elems_list elems_set VList
  | G_flattenSetList => flat elems_set elems_list VSet
  | G_flattenSetSet => flat elems_set elems_set VSet
  | G_flattenListMap =>
      match lhs with
      | VList xs => '(out, sc1) <- iter_rhs sv rhs keep_result xs sc ;; Ok (VList out, sc1)
      | _ => Panic
      end
  | G_flattenSetMap =>
      match lhs with
      | VSet xs =>
          if all_maps xs
          then '(out, sc1) <- iter_rhs sv rhs keep_setmap xs sc ;; Ok (VSet out, sc1)
          else '(out, sc1) <- iter_rhs sv rhs keep_setmap
                                (flat_prefix (fun v => match v with VMap _ => Some [v] | _ => None end) xs) sc ;; Panic
      | _ => Panic
      end
  | G_whereMap =>
      (* whereMap ranges over the Go map (in no fixed order) binding the scope variable to a (key, value) pair and
         collects the entries whose predicate holds into a map: the result does not depend on the order; the model
         visits the entries in key order *)
      match lhs with
      | VMap m =>
          '(out, sc1) <- iter_rhs sv rhs keep_where (map (fun kv => internal_pair (fst kv) (snd kv)) m) sc ;;
          Ok (VMap (pairs_to_map out), sc1)
      | _ => Panic
      end
  | G_unknown => Unmodelled
  end.

(* evalTransformStmts: returns the map of the assigns (or the implied template result) *)
Fixpoint eval_stmts (ss:list stmt) (result:list (string*value)) (sc:scope) : outcome (list (string*value) * scope) :=
  match ss with
  | [] => Ok (result, sc)
  | SLet x e :: ss' =>
      '(r, sc1) <- ev sc e ;;
      if String.eqb x log_string then Unmodelled
      else eval_stmts ss' result (sset x r sc1)
  | SAssign x e :: ss' =>
      '(r, sc1) <- ev sc e ;;
      eval_stmts ss' (map_put x r result) sc1
  end.
(* arg.GetName() == ".": the parser's spelling of a transform without an argument *)
Definition is_dot_name (e:expr) : bool := match e with EName x => String.eqb x "." | _ => false end.

Definition eval_transform_stmts (ss:list stmt) (sc:scope) : res :=
  '(result, sc1) <- eval_stmts ss [] sc ;;
  match sget implied_result sc1 with
  | Some text => Ok (text, sdel implied_result sc1)
  | None => Ok (VMap result, sc1)
  end.

Definition append_with (k:appender_kind) (coll:list value) (v:value) : outcome (list value) :=
  match k with
  | AppIfAbsent => Ok (if existsb (value_eqb v) coll then coll else coll ++ [v])
  | AppAlways => Ok (coll ++ [v])
  | AppUnknown => Unmodelled
  end.

(* evalTransformUsingAppender, the loop only (the delete of the scope variable is in eval_transform) *)
Fixpoint transform_loop (k:appender_kind) (sv:string) (ss:list stmt) (xs:list value) (acc:list value) (sc:scope)
  : outcome (list value * scope) :=
  match xs with
  | [] => Ok (acc, sc)
  | x :: xs' =>
      '(r, sc1) <- eval_transform_stmts ss (sset sv x sc) ;;
      acc' <- append_with k acc r ;;
      transform_loop k sv ss xs' acc' sc1
  end.

(* the scope variable once an iteration is over, as the source does it NOW (Gen.EvalTables): [saved] is the
   binding the variable had before the iteration *)
Definition after_iteration (k:sv_after) (sv:string) (saved:option value) (sc:scope) : outcome scope :=
  let put (sc':scope) := match saved with Some v => sset sv v sc' | None => sc' end in
  match k with
  | SvDeleteThenRestore => Ok (put (sdel sv sc))
  | SvDeleteOnly => Ok (sdel sv sc)
  | SvRestoreOnly => Ok (put sc)
  | SvLeak => Ok sc
  | SvUnknown => Unmodelled
  end.

(* evalTransform.  The deferred function restores the scope variable (when the source does: transform_scopevar)
   and "." when they were bound when the transform started (after the argument was evaluated). *)
Definition eval_transform (sc:scope) (arg:expr) (sv:string) (ss:list stmt) (ty:ttype) : res :=
  if is_dot_name arg then Ok (VNil, sc)
  else
    '(argv, sc0) <- ev sc arg ;;
    let finish (sc':scope) : outcome scope :=
      sc1 <- after_iteration transform_scopevar sv (sget sv sc0) sc' ;;
      Ok (match sget "." sc0 with Some v => sset "." v sc1 | None => sc1 end) in
    match argv with
    | VNil => Panic
    | VList xs | VSet xs =>
        match ty with
        | TyNone => Panic
        | TySet => '(out, sc1) <- transform_loop set_transform_appender sv ss xs [] sc0 ;; sc2 <- finish sc1 ;; Ok (VSet out, sc2)
        | TyOther => '(out, sc1) <- transform_loop list_transform_appender sv ss xs [] sc0 ;; sc2 <- finish sc1 ;; Ok (VList out, sc2)
        end
    | VMap m =>
        if negb (String.eqb sv ".")
        then
          '(out, sc1) <- transform_loop AppAlways sv ss (map (fun kv => internal_pair (fst kv) (snd kv)) m) [] sc0 ;;
          sc2 <- finish sc1 ;;
          Ok (match ty with TySet => VSet out | _ => VList out end, sc2)
        else
          '(r, sc1) <- eval_transform_stmts ss (sset sv argv sc0) ;; sc2 <- finish sc1 ;; Ok (r, sc2)
    | _ =>
        '(r, sc1) <- eval_transform_stmts ss (sset sv argv sc0) ;; sc2 <- finish sc1 ;; Ok (r, sc2)
    end.

Definition is_internal_map (m:list (string*value)) : bool :=
  match m with
  | [(k1,_); (k2,_)] => String.eqb k1 "key" && String.eqb k2 "value"
  | _ => false
  end.

Definition eval_get_attr (sc:scope) (arg:expr) (attr:string) : res :=
  '(a, sc1) <- ev sc arg ;;
  match a with
  | VMap m =>
      let plain (m:list (string*value)) : res :=
        Ok (match map_get attr m with Some v => v | None => VNull end, sc1) in
      if is_internal_map m then
        if String.eqb attr "value" || String.eqb attr "key"
        then Ok (match map_get attr m with Some v => v | None => VNil end, sc1)
        else match map_get "value" m with
             | Some (VMap m') => plain m'
             | _ => Panic
             end
      else plain m
  | _ => Panic
  end.

Fixpoint bind_params (ps:list string) (vs:list value) (cs:scope) : scope :=
  match ps, vs with
  | p :: ps', v :: vs' => bind_params ps' vs' (sset p v cs)
  | _, _ => cs
  end.

Definition is_dot_func (f:string) : option string :=
  match f with String c rest => if Ascii.eqb c "."%char then Some rest else None | EmptyString => None end.

(* evalGoFunc: a name outside GoFuncMap, a wrong number of arguments and an argument that is not of the expected
   type all yield nil; the helper's result goes through reflectToValue, whose test of a slice result looks at
   element 0 (slice_result_guard says whether the length is tested first in the source as it is now) *)
Definition from_reflect (r:harg) : outcome value :=
  match r with
  | HB b => Ok (VBool b)
  | HI z => Ok (VInt z)
  | HS s => Ok (VStr s)
  | HL [] => match slice_result_guard with SliceIndexUnguarded => Panic | SliceLenGuarded => Ok (VList []) | SliceUnknown => Unmodelled end
  | HL l => Ok (VList (map VStr l))
  end.
Definition go_func (fn:string) (avs:list value) : outcome value :=
  match assoc String.eqb fn go_func_map with
  | None => Ok VNil
  | Some (impl, targs, _) =>
      if negb (Nat.eqb (List.length avs) (List.length targs)) then Ok VNil
      else match convert_args avs targs with
           | None => Unmodelled
           | Some None => Ok VNil
           | Some (Some hs) => match go_impl impl hs with Some r => from_reflect r | None => Unmodelled end
           end
  end.

(* callScope[params[i].Name] = Eval(ee, assign, argExpr) when callScope IS the caller's map *)
Fixpoint bind_args_shared (ps:list string) (args:list expr) (sc:scope) : outcome scope :=
  match ps, args with
  | p :: ps', a :: args' => '(v, sc1) <- ev sc a ;; bind_args_shared ps' args' (sset p v sc1)
  | _, _ => Ok sc
  end.

(* the branch of evalCall for a name that is one of the application's views *)
Definition call_view (sc:scope) (v:view) (args:list expr) : res :=
  if negb (Nat.eqb (List.length (v_params v)) (List.length args)) then Ok (VNil, sc)
  else
    match call_scope with
    | CsFresh =>
        '(avs, sc1) <- eval_seq args sc ;;
        '(r, _) <- ev (bind_params (v_params v) avs []) (v_body v) ;;
        Ok (r, sc1)
    | CsShared => sc1 <- bind_args_shared (v_params v) args sc ;; ev sc1 (v_body v)
    | CsUnknown => Unmodelled
    end.

(* the branch for a name starting with "." *)
Definition call_dot (sc:scope) (f:string) (args:list expr) : res :=
  if String.eqb f "count" then
    match args with
    | [] => Panic
    | a :: _ =>
        '(c, sc1) <- ev sc a ;;
        match c with
        | VList l | VSet l => Ok (VInt (Z.of_nat (List.length l)), sc1)
        | VMap m => Ok (VInt (Z.of_nat (List.length m)), sc1)
        | _ => Panic
        end
    end
  else Panic.

(* the tail of evalCall: all arguments, then evalGoFunc *)
Definition call_go_func (sc:scope) (fn:string) (args:list expr) : res :=
  '(avs, sc1) <- eval_seq args sc ;; r <- go_func fn avs ;; Ok (r, sc1).

(* evalCall looks the name up in the places and in the ORDER its statements have in the source now (Gen call_order):
   a place that does not know the name passes it on to the next one; the helper table is the last resort *)
Fixpoint resolve_call (order:list call_step) (vs:views) (sc:scope) (fn:string) (args:list expr) : res :=
  match order with
  | [] => Unmodelled
  | CallView :: rest =>
      match assoc String.eqb fn vs with
      | Some v => call_view sc v args
      | None => resolve_call rest vs sc fn args
      end
  | CallDot :: rest =>
      match is_dot_func fn with
      | Some f => call_dot sc f args
      | None => resolve_call rest vs sc fn args
      end
  | CallGoFunc :: _ => call_go_func sc fn args
  | CallUnknown :: _ => Unmodelled
  end.

Definition eval_call (vs:views) (sc:scope) (fn:string) (args:list expr) : res :=
  resolve_call call_order vs sc fn args.

(* DefaultBinExprStrategy.eval with operator op *)
Definition eval_default (op:binop) (sc:scope) (lhs rhs:expr) : res :=
  '(l, sc1) <- ev sc lhs ;;
  '(r, sc2) <- ev sc1 rhs ;;
  match assoc key3_eqb (op, kind_of l, kind_of r) value_functions with
  | Some f => v <- apply_vfun f l r ;; Ok (v, sc2)
  | None => Panic
  end.

Definition eval_binexpr (sc:scope) (op:binop) (lhs rhs:expr) (sv:string) : res :=
  match assoc binop_eqb op strategy_table with
  | None => Panic
  | Some SDefault => eval_default op sc lhs rhs
  | Some SNegate =>
      if negb (binop_eqb op OpNE) then Panic
      else '(v, sc1) <- eval_default OpEQ sc lhs rhs ;; n <- unary_neg v ;; Ok (n, sc1)
  | Some SLhsOverRhs =>
      '(l, sc1) <- ev sc lhs ;;
      match contained_kind l with
      | None => Panic
      | Some ck =>
          match assoc key3_eqb (op, kind_of l, ck) expr_functions with
          | None => Panic
          | Some f =>
              '(r, sc2) <- apply_efun f sc1 l sv rhs ;;
              sc3 <- after_iteration where_flatten_scopevar sv (sget sv sc1) sc2 ;;
              Ok (r, sc3)
          end
      end
  | Some SUnknown => Unmodelled
  end.

(* exprEval.eval: one level, recursive calls through [ev] *)
Definition step (vs:views) (sc:scope) (e:expr) : res :=
  match e with
  | ETransform arg sv ss ty => eval_transform sc arg sv ss ty
  | EBin op l r sv => eval_binexpr sc op l r sv
  | ECall fn args => eval_call vs sc fn args
  | EName x =>
      match sget x sc with
      | Some v => Ok (v, sc)
      | None => if String.eqb x implied_result || String.eqb x log_string then Unmodelled else Ok (VNil, sc)
      end
  | EGetAttr arg attr => eval_get_attr sc arg attr
  | EIf c t f => '(cv, sc1) <- ev sc c ;; if getB cv then ev sc1 t else ev sc1 f
  | ELit v => Ok (v, sc)
  | ESet es => '(vs', sc1) <- eval_seq es sc ;; Ok (VSet vs', sc1)
  | EList es => '(vs', sc1) <- eval_seq es sc ;; Ok (VList vs', sc1)
  | EUn op arg =>
      '(v, sc1) <- ev sc arg ;;
      match assoc unop_eqb op unary_functions with
      | Some f => r <- apply_ufun f v ;; Ok (r, sc1)
      | None => Panic
      end
  end.
End WithEvaluator.

Fixpoint eval (fuel:nat) (vs:views) (sc:scope) (e:expr) {struct fuel} : res :=
  match fuel with
  | O => OutOfFuel
  | S n => step (eval n vs) vs sc e
  end.

(* EvaluateView(mod, app, name, scope) *)
Definition evaluate_view (fuel:nat) (vs:views) (name:string) (sc:scope) : res :=
  match assoc String.eqb name vs with
  | Some v => eval fuel vs sc (v_body v)
  | None => Panic
  end.
