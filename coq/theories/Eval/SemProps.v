(* C10: the evaluator model agrees with the mathematical definition of the operators, as dispatched by the tables
   of the CURRENT source (Gen/EvalTables.v).  Each [sem_*] lemma is about the table-driven pipeline
   (strategy table -> key (operator, kinds) -> value function -> its body as extracted from exprOp.go). *)
From Coq Require Import String List ZArith Bool Ascii Lia Sorted Permutation.
From Coq Require OrderedTypeEx.
Import ListNotations.
Require Import Verif.Eval.Value Verif.Eval.Interp Verif.Eval.Tables Verif.Eval.PureProps Verif.Gen.EvalTables.
Local Open Scope string_scope.
Local Open Scope list_scope.

(* ---------------- int64 ---------------- *)
Lemma wrap64_range z : (- two63 <= wrap64 z < two63)%Z.
Proof. unfold wrap64. pose proof (Z.mod_pos_bound (z + two63) two64 eq_refl). unfold two63, two64 in *. lia. Qed.
Lemma wrap64_congr z : exists k, wrap64 z = (z + k * two64)%Z.
Proof.
  unfold wrap64. exists (- ((z + two63) / two64))%Z.
  pose proof (Z.div_mod (z + two63) two64 ltac:(unfold two64; lia)). lia.
Qed.
Lemma wrap64_id z : (- two63 <= z < two63)%Z -> wrap64 z = z.
Proof. intros R. unfold wrap64. rewrite Z.mod_small; unfold two63, two64 in *; lia. Qed.

(* ---------------- the default strategy: evaluate both sides, dispatch on (operator, kinds) ---------------- *)
Definition binop_value (op:binop) (l r:value) : outcome value :=
  match assoc key3_eqb (op, kind_of l, kind_of r) value_functions with
  | Some f => apply_vfun f l r
  | None => Panic
  end.

Lemma default_strategy ev sc op l r sv lv rv sc1 sc2 :
  assoc binop_eqb op strategy_table = Some SDefault ->
  ev sc l = Ok (lv, sc1) -> ev sc1 r = Ok (rv, sc2) ->
  eval_binexpr ev sc op l r sv = (v <- binop_value op lv rv ;; Ok (v, sc2)).
Proof.
  intros S HL HR. unfold eval_binexpr, eval_default, binop_value. rewrite S, HL. cbn [bind]. rewrite HR. cbn [bind].
  destruct (assoc key3_eqb (op, kind_of lv, kind_of rv) value_functions); reflexivity.
Qed.

(* != is the negation of == *)
Lemma ne_strategy ev sc l r sv lv rv sc1 sc2 :
  ev sc l = Ok (lv, sc1) -> ev sc1 r = Ok (rv, sc2) ->
  eval_binexpr ev sc OpNE l r sv = (v <- binop_value OpEQ lv rv ;; n <- unary_neg v ;; Ok (n, sc2)).
Proof.
  intros HL HR. unfold eval_binexpr, eval_default, binop_value.
  change (assoc binop_eqb OpNE strategy_table) with (Some SNegate). cbn [binop_eqb negb]. rewrite HL. cbn [bind]. rewrite HR. cbn [bind].
  destruct (assoc key3_eqb (OpEQ, kind_of lv, kind_of rv) value_functions); [|reflexivity].
  destruct (apply_vfun v lv rv); reflexivity.
Qed.

(* integer ring operations modulo 2^64, truncated division, comparisons *)
Lemma sem_add x y : binop_value OpADD (VInt x) (VInt y) = Ok (VInt (wrap64 (x + y))). Proof. reflexivity. Qed.
Lemma sem_sub x y : binop_value OpSUB (VInt x) (VInt y) = Ok (VInt (wrap64 (x - y))). Proof. reflexivity. Qed.
Lemma sem_mul x y : binop_value OpMUL (VInt x) (VInt y) = Ok (VInt (wrap64 (x * y))). Proof. reflexivity. Qed.
Lemma sem_div x y : binop_value OpDIV (VInt x) (VInt y) = if Z.eqb y 0 then Panic else Ok (VInt (wrap64 (Z.quot x y))).
Proof. unfold binop_value. cbn. destruct (Z.eqb y 0); reflexivity. Qed.
Lemma sem_mod x y : binop_value OpMOD (VInt x) (VInt y) = if Z.eqb y 0 then Panic else Ok (VInt (wrap64 (Z.rem x y))).
Proof. unfold binop_value. cbn. destruct (Z.eqb y 0); reflexivity. Qed.
Lemma sem_lt x y : binop_value OpLT (VInt x) (VInt y) = Ok (VBool (Z.ltb x y)). Proof. reflexivity. Qed.
Lemma sem_le x y : binop_value OpLE (VInt x) (VInt y) = Ok (VBool (Z.leb x y)). Proof. reflexivity. Qed.
Lemma sem_gt x y : binop_value OpGT (VInt x) (VInt y) = Ok (VBool (Z.gtb x y)). Proof. reflexivity. Qed.
Lemma sem_ge x y : binop_value OpGE (VInt x) (VInt y) = Ok (VBool (Z.geb x y)). Proof. reflexivity. Qed.
Lemma sem_eq_int x y : binop_value OpEQ (VInt x) (VInt y) = Ok (VBool (Z.eqb x y)). Proof. reflexivity. Qed.
(* strings, booleans *)
Lemma sem_concat_str x y : binop_value OpADD (VStr x) (VStr y) = Ok (VStr (x ++ y)). Proof. reflexivity. Qed.
Lemma sem_eq_str x y : binop_value OpEQ (VStr x) (VStr y) = Ok (VBool (String.eqb x y)). Proof. reflexivity. Qed.
Lemma sem_eq_bool x y : binop_value OpEQ (VBool x) (VBool y) = Ok (VBool (Bool.eqb x y)). Proof. reflexivity. Qed.
Lemma sem_and x y : binop_value OpAND (VBool x) (VBool y) = Ok (VBool (x && y)). Proof. reflexivity. Qed.
(* list concatenation is ++ (a list | a set is a list too) *)
Lemma sem_list_concat a b : binop_value OpBITOR (VList a) (VList b) = Ok (VList (a ++ b)). Proof. reflexivity. Qed.
Lemma sem_list_concat_set a b : binop_value OpBITOR (VList a) (VSet b) = Ok (VList (a ++ b)). Proof. reflexivity. Qed.
(* membership *)
Lemma sem_in_list s l : binop_value OpIN (VStr s) (VList l) = Ok (VBool (string_in s l)). Proof. reflexivity. Qed.
Lemma sem_in_set s l : binop_value OpIN (VStr s) (VSet l) = Ok (VBool (string_in s l)). Proof. reflexivity. Qed.
Lemma sem_not_in_list s l : binop_value OpNOT_IN (VStr s) (VList l) = Ok (VBool (negb (string_in s l))). Proof. reflexivity. Qed.
Lemma sem_not_in_set s l : binop_value OpNOT_IN (VStr s) (VSet l) = Ok (VBool (negb (string_in s l))). Proof. reflexivity. Qed.
Lemma sem_in_map s m : binop_value OpIN (VStr s) (VMap m) = Ok (VBool (match map_get s m with Some _ => true | None => false end)).
Proof. reflexivity. Qed.
Lemma string_in_spec s l : string_in s (map VStr l) = true <-> In s l.
Proof.
  unfold string_in. rewrite existsb_exists. split.
  - intros [v [Hin E]]. apply in_map_iff in Hin. destruct Hin as [t [<- Ht]]. cbn [getS] in E. apply String.eqb_eq in E. subst. exact Ht.
  - intros Hin. exists (VStr s). split; [apply in_map; exact Hin|apply String.eqb_refl].
Qed.

(* the whole pipeline for one operator, as an instance: list concatenation of two evaluated operands *)
Theorem concat_is_app : forall ev sc l r sv a b sc1 sc2,
  ev sc l = Ok (VList a, sc1) -> ev sc1 r = Ok (VList b, sc2) ->
  eval_binexpr ev sc OpBITOR l r sv = Ok (VList (a ++ b), sc2).
Proof. intros ev sc l r sv a b sc1 sc2 HL HR. rewrite (default_strategy ev sc OpBITOR l r sv _ _ _ _ eq_refl HL HR). reflexivity. Qed.

(* a value bound to a variable is not affected by concatenating onto it: values have no storage identity in the
   model, and Tables.concat_copies is the obligation that the source builds the result in fresh storage *)

(* ---------------- count, if ---------------- *)
Lemma sem_count_list ev vs sc a l sc1 rest :
  assoc String.eqb ".count" vs = None -> ev sc a = Ok (VList l, sc1) ->
  eval_call ev vs sc ".count" (a :: rest) = Ok (VInt (Z.of_nat (List.length l)), sc1).
Proof. intros NV H. rewrite eval_call_eq. rewrite NV. cbn [is_dot_func Ascii.eqb Bool.eqb]. cbn. rewrite H. reflexivity. Qed.
Lemma sem_count_set ev vs sc a l sc1 rest :
  assoc String.eqb ".count" vs = None -> ev sc a = Ok (VSet l, sc1) ->
  eval_call ev vs sc ".count" (a :: rest) = Ok (VInt (Z.of_nat (List.length l)), sc1).
Proof. intros NV H. rewrite eval_call_eq. rewrite NV. cbn. rewrite H. reflexivity. Qed.
Lemma sem_if ev vs sc c t f b sc1 :
  ev sc c = Ok (VBool b, sc1) -> step ev vs sc (EIf c t f) = if b then ev sc1 t else ev sc1 f.
Proof. intros H. cbn [step]. rewrite H. reflexivity. Qed.

(* ---------------- set union: sorted, without duplicates, exactly the elements of both ---------------- *)
Lemma zinsert_in z y l : In z (zinsert y l) <-> z = y \/ In z l.
Proof.
  induction l as [|x l IH]; cbn [zinsert In]; [intuition|].
  destruct (Z.compare_spec y x); cbn [In]; [subst|..]; try rewrite IH; intuition.
Qed.
Lemma zinsert_sorted y l : StronglySorted Z.lt l -> StronglySorted Z.lt (zinsert y l).
Proof.
  induction 1 as [|x l S IH F]; cbn [zinsert]; [repeat constructor|].
  destruct (Z.compare_spec y x).
  - constructor; assumption.
  - constructor; [constructor; assumption|]. constructor; [assumption|]. eapply Forall_impl; [|exact F]. cbn. intros; lia.
  - constructor; [exact IH|]. apply Forall_forall. intros z Hz. apply zinsert_in in Hz. destruct Hz as [->|Hz]; [lia|].
    rewrite Forall_forall in F. auto.
Qed.
Lemma zsort_dedup_sorted l : StronglySorted Z.lt (zsort_dedup l).
Proof. induction l; cbn [zsort_dedup fold_right]; [constructor|apply zinsert_sorted; assumption]. Qed.
Lemma zsort_dedup_in z l : In z (zsort_dedup l) <-> In z l.
Proof. induction l as [|x l IH]; cbn [zsort_dedup fold_right In]; [tauto|]. fold (zsort_dedup l). rewrite zinsert_in, IH. intuition. Qed.
Lemma strongly_sorted_lt_nodup l : StronglySorted Z.lt l -> NoDup l.
Proof.
  induction 1 as [|x l S IH F]; constructor; [|assumption]. intros Hin. rewrite Forall_forall in F. specialize (F _ Hin). lia.
Qed.

Module SO := OrderedTypeEx.String_as_OT.
Definition slt (a b:string) : Prop := String.compare a b = Lt.
Lemma slt_trans a b c : slt a b -> slt b c -> slt a c.
Proof. unfold slt. intros H1 H2. apply SO.cmp_lt in H1, H2. apply SO.cmp_lt. exact (SO.lt_trans _ _ _ H1 H2). Qed.
Lemma slt_irrefl a : ~ slt a a.
Proof. unfold slt. intros H. assert (E : String.compare a a = Eq) by (apply (proj2 (SO.cmp_eq a a)); reflexivity). congruence. Qed.
Lemma compare_gt_lt a b : String.compare a b = Gt -> slt b a.
Proof. unfold slt. intros H. rewrite String.compare_antisym, H. reflexivity. Qed.

Lemma sinsert_in z y l : In z (sinsert y l) <-> z = y \/ In z l.
Proof.
  induction l as [|x l IH]; cbn [sinsert In]; [intuition|].
  destruct (String.compare y x) eqn:C; cbn [In]; try rewrite IH; [apply String.compare_eq_iff in C; subst|..]; intuition.
Qed.
Lemma sinsert_sorted y l : StronglySorted slt l -> StronglySorted slt (sinsert y l).
Proof.
  induction 1 as [|x l S IH F]; cbn [sinsert]; [repeat constructor|].
  destruct (String.compare y x) eqn:C.
  - constructor; assumption.
  - constructor; [constructor; assumption|]. constructor; [exact C|]. eapply Forall_impl; [|exact F]. cbn. intros a Ha. exact (slt_trans _ _ _ C Ha).
  - constructor; [exact IH|]. apply Forall_forall. intros z Hz. apply sinsert_in in Hz. destruct Hz as [->|Hz]; [exact (compare_gt_lt _ _ C)|].
    rewrite Forall_forall in F. auto.
Qed.
Lemma ssort_dedup_sorted l : StronglySorted slt (ssort_dedup l).
Proof. induction l; cbn [ssort_dedup fold_right]; [constructor|apply sinsert_sorted; assumption]. Qed.
Lemma ssort_dedup_in z l : In z (ssort_dedup l) <-> In z l.
Proof. induction l as [|x l IH]; cbn [ssort_dedup fold_right In]; [tauto|]. fold (ssort_dedup l). rewrite sinsert_in, IH. intuition. Qed.
Lemma strongly_sorted_slt_nodup l : StronglySorted slt l -> NoDup l.
Proof.
  induction 1 as [|x l S IH F]; constructor; [|assumption]. intros Hin. rewrite Forall_forall in F. exact (slt_irrefl _ (F _ Hin)).
Qed.

Lemma map_getI_VInt l : map getI (map VInt l) = l.
Proof. induction l; cbn; congruence. Qed.
Lemma map_getS_VStr l : map getS (map VStr l) = l.
Proof. induction l; cbn; congruence. Qed.

Theorem set_union_ints : forall a b,
  exists u, binop_value OpBITOR (VSet (map VInt a)) (VSet (map VInt b)) = Ok (VSet (map VInt u))
            /\ StronglySorted Z.lt u /\ NoDup u /\ (forall z, In z u <-> In z a \/ In z b).
Proof.
  intros a b. exists (zsort_dedup (a ++ b)).
  split.
  - change (binop_value OpBITOR (VSet (map VInt a)) (VSet (map VInt b))) with (set_union (VSet (map VInt a)) (VSet (map VInt b))).
    destruct a as [|x a]; [destruct b as [|y b]; [reflexivity|]|].
    + unfold set_union. cbn [contained_kind map kind_of elems_set app getI]. rewrite map_getI_VInt. reflexivity.
    + unfold set_union. cbn [contained_kind map kind_of elems_set]. rewrite map_app. cbn [map getI]. rewrite !map_getI_VInt. reflexivity.
  - split; [apply zsort_dedup_sorted|]. split; [apply strongly_sorted_lt_nodup, zsort_dedup_sorted|].
    intros z. rewrite zsort_dedup_in, in_app_iff. tauto.
Qed.

Theorem set_union_strings : forall a b,
  exists u, binop_value OpBITOR (VSet (map VStr a)) (VSet (map VStr b)) = Ok (VSet (map VStr u))
            /\ StronglySorted slt u /\ NoDup u /\ (forall z, In z u <-> In z a \/ In z b).
Proof.
  intros a b. exists (ssort_dedup (a ++ b)).
  split.
  - change (binop_value OpBITOR (VSet (map VStr a)) (VSet (map VStr b))) with (set_union (VSet (map VStr a)) (VSet (map VStr b))).
    destruct a as [|x a]; [destruct b as [|y b]; [reflexivity|]|].
    + unfold set_union. cbn [contained_kind map kind_of elems_set app getS]. rewrite map_getS_VStr. reflexivity.
    + unfold set_union. cbn [contained_kind map kind_of elems_set]. rewrite map_app. cbn [map getS]. rewrite !map_getS_VStr. reflexivity.
  - split; [apply ssort_dedup_sorted|]. split; [apply strongly_sorted_slt_nodup, ssort_dedup_sorted|].
    intros z. rewrite ssort_dedup_in, in_app_iff. tauto.
Qed.

(* ---------------- value_eqb decides equality (proto.Equal on the modelled fragment) ---------------- *)
Section ValueInd.
Variable P : value -> Prop.
Hypothesis HNil : P VNil. Hypothesis HBool : forall b, P (VBool b). Hypothesis HInt : forall z, P (VInt z).
Hypothesis HStr : forall s, P (VStr s). Hypothesis HNull : P VNull.
Hypothesis HList : forall l, Forall P l -> P (VList l).
Hypothesis HSet : forall l, Forall P l -> P (VSet l).
Hypothesis HMap : forall m, Forall (fun kv => P (snd kv)) m -> P (VMap m).
Fixpoint value_ind' (v:value) : P v :=
  match v with
  | VNil => HNil | VBool b => HBool b | VInt z => HInt z | VStr s => HStr s | VNull => HNull
  | VList l => HList l ((fix go (l:list value) : Forall P l := match l with [] => Forall_nil _ | x :: r => Forall_cons _ (value_ind' x) (go r) end) l)
  | VSet l => HSet l ((fix go (l:list value) : Forall P l := match l with [] => Forall_nil _ | x :: r => Forall_cons _ (value_ind' x) (go r) end) l)
  | VMap m => HMap m ((fix go (m:list (string*value)) : Forall (fun kv => P (snd kv)) m :=
                         match m with [] => Forall_nil _ | kv :: r => Forall_cons _ (value_ind' (snd kv)) (go r) end) m)
  end.
End ValueInd.

Lemma value_eqb_eq : forall a b, value_eqb a b = true <-> a = b.
Proof.
  induction a as [| x | x | x | | l IH | l IH | m IH] using value_ind'; intros b; destruct b; cbn [value_eqb];
    try (split; [discriminate|discriminate]); try (split; reflexivity).
  - rewrite Bool.eqb_true_iff. split; congruence.
  - rewrite Z.eqb_eq. split; congruence.
  - rewrite String.eqb_eq. split; congruence.
  - revert l0. induction IH as [|x l Hx _ IHl]; intros [|y l0]; try (split; [discriminate|discriminate]); [split; reflexivity|].
    rewrite andb_true_iff, Hx, IHl. split; [intros [-> E]; injection E as ->; reflexivity|intros [= -> ->]; split; reflexivity].
  - revert l0. induction IH as [|x l Hx _ IHl]; intros [|y l0]; try (split; [discriminate|discriminate]); [split; reflexivity|].
    rewrite andb_true_iff, Hx, IHl. split; [intros [-> E]; injection E as ->; reflexivity|intros [= -> ->]; split; reflexivity].
  - revert m0. induction IH as [|[k x] m Hx _ IHm]; intros [|[k' y] m0]; try (split; [discriminate|discriminate]); [split; reflexivity|].
    cbn [snd] in Hx. rewrite !andb_true_iff, String.eqb_eq, Hx, IHm.
    split; [intros [[-> ->] E]; injection E as ->; reflexivity|intros [= -> -> ->]; repeat split; reflexivity].
Qed.

(* ---------------- `set of` transforms produce no duplicates ---------------- *)
Lemma append_if_absent_nodup coll v out :
  append_with AppIfAbsent coll v = Ok out -> NoDup coll -> NoDup out /\ (forall x, In x out <-> In x coll \/ x = v).
Proof.
  cbn [append_with]. intros [= <-] ND. destruct (existsb (value_eqb v) coll) eqn:E.
  - split; [exact ND|]. intros x. split; [tauto|]. intros [H| ->]; [exact H|].
    apply existsb_exists in E. destruct E as [y [Hy Ey]]. apply value_eqb_eq in Ey. subst y. exact Hy.
  - split.
    + apply (Permutation_NoDup (Permutation_cons_append coll v)). constructor; [|exact ND]. intros Hx.
      assert (X : existsb (value_eqb v) coll = true) by (apply existsb_exists; exists v; split; [exact Hx|apply value_eqb_eq; reflexivity]). congruence.
    + intros x. rewrite in_app_iff. cbn [In]. intuition.
Qed.

Theorem set_transform_no_duplicates : forall ev sv ss xs acc sc out sc',
  transform_loop ev set_transform_appender sv ss xs acc sc = Ok (out, sc') -> NoDup acc -> NoDup out.
Proof.
  intros ev sv ss. rewrite set_appender_dedups.
  induction xs as [|x xs IH]; intros acc sc out sc' H ND; cbn [transform_loop] in H.
  - injection H as <- _. exact ND.
  - inv_bind H. destruct a as [r sc1]. inv_bind H. apply (IH _ _ _ _ H). exact (proj1 (append_if_absent_nodup _ _ _ Ha0 ND)).
Qed.

(* ---------------- where is filter, flatten is concat-map, along the threaded scope ---------------- *)
(* The right-hand side is evaluated once per element, with the scope variable bound to that element, in the scope
   left by the previous iteration; [iter_trace] records the result of each. *)
Inductive iter_trace (ev:evaluator) (sv:string) (rhs:expr) : list value -> scope -> list value -> scope -> Prop :=
| it_nil sc : iter_trace ev sv rhs [] sc [] sc
| it_cons x xs sc r sc1 rs sc2 :
    ev (sset sv x sc) rhs = Ok (r, sc1) -> iter_trace ev sv rhs xs sc1 rs sc2 -> iter_trace ev sv rhs (x :: xs) sc (r :: rs) sc2.

Fixpoint select (xs rs:list value) : list value :=
  match xs, rs with
  | x :: xs', r :: rs' => if getB r then x :: select xs' rs' else select xs' rs'
  | _, _ => []
  end.

Lemma where_is_filter ev sv rhs xs : forall sc out sc',
  iter_rhs ev sv rhs keep_where xs sc = Ok (out, sc') ->
  exists rs, iter_trace ev sv rhs xs sc rs sc' /\ out = select xs rs.
Proof.
  induction xs as [|x xs IH]; intros sc out sc' H; cbn [iter_rhs] in H.
  - injection H as <- <-. exists []. split; [constructor|reflexivity].
  - inv_bind H. destruct a as [r sc1]. inv_bind H. inv_bind H. destruct a0 as [rest sc2]. injection H as <- <-.
    destruct (IH _ _ _ Ha1) as [rs [T ->]]. exists (r :: rs). split; [econstructor; eassumption|].
    cbn [keep_where] in Ha0. injection Ha0 as <-. cbn [select]. destruct (getB r); reflexivity.
Qed.

Lemma map_is_results ev sv rhs xs : forall sc out sc',
  iter_rhs ev sv rhs keep_result xs sc = Ok (out, sc') -> iter_trace ev sv rhs xs sc out sc'.
Proof.
  induction xs as [|x xs IH]; intros sc out sc' H; cbn [iter_rhs] in H.
  - injection H as <- <-. constructor.
  - inv_bind H. destruct a as [r sc1]. inv_bind H. inv_bind H. destruct a0 as [rest sc2]. injection H as <- <-.
    cbn [keep_result] in Ha0. injection Ha0 as <-. cbn [app]. econstructor; [eassumption|apply IH; assumption].
Qed.

Lemma flat_inner_lists ls : flat_inner elems_list (map VList ls) = Some (concat ls).
Proof. induction ls as [|l ls IH]; cbn [map flat_inner elems_list concat]; [reflexivity|]. rewrite IH. reflexivity. Qed.
Lemma flat_inner_sets ls : flat_inner elems_set (map VSet ls) = Some (concat ls).
Proof. induction ls as [|l ls IH]; cbn [map flat_inner elems_set concat]; [reflexivity|]. rewrite IH. reflexivity. Qed.

Theorem where_list_filters : forall ev sc xs sv rhs v sc',
  apply_efun ev G_whereList sc (VList xs) sv rhs = Ok (v, sc') ->
  exists rs, iter_trace ev sv rhs xs sc rs sc' /\ v = VList (select xs rs).
Proof.
  intros ev sc xs sv rhs v sc' H. cbn [apply_efun] in H. inv_bind H. destruct a as [out sc1]. injection H as <- <-.
  destruct (where_is_filter _ _ _ _ _ _ _ Ha) as [rs [T ->]]. exists rs. split; [exact T|reflexivity].
Qed.
(* where over a MAP (whereMap): the scope variable is bound to the (key, value) pair of each entry; the result is the
   map of the entries whose predicate evaluated to true *)
Definition pair_of (kv:string*value) : value := internal_pair (fst kv) (snd kv).
Theorem where_map_filters : forall ev sc m sv rhs v sc',
  apply_efun ev G_whereMap sc (VMap m) sv rhs = Ok (v, sc') ->
  exists rs, iter_trace ev sv rhs (map pair_of m) sc rs sc' /\ v = VMap (pairs_to_map (select (map pair_of m) rs)).
Proof.
  intros ev sc m sv rhs v sc' H. cbn [apply_efun] in H. inv_bind H. destruct a as [out sc1]. injection H as <- <-.
  destruct (where_is_filter _ _ _ _ _ _ _ Ha) as [rs [T ->]]. exists rs. split; [exact T|reflexivity].
Qed.

Fixpoint select_entries (m:list (string*value)) (rs:list value) : list (string*value) :=
  match m, rs with
  | e :: m', r :: rs' => if getB r then e :: select_entries m' rs' else select_entries m' rs'
  | _, _ => []
  end.
Lemma select_pairs m : forall rs, select (map pair_of m) rs = map pair_of (select_entries m rs).
Proof.
  induction m as [|e m IH]; intros [|r rs]; cbn [map select select_entries]; try reflexivity.
  destruct (getB r); cbn [map]; rewrite IH; reflexivity.
Qed.
(* keys strictly increasing, as in every map value of the model *)
Inductive key_sorted : list (string*value) -> Prop :=
| ks_nil : key_sorted []
| ks_one e : key_sorted [e]
| ks_cons k v k' v' m : String.compare k k' = Lt -> key_sorted ((k', v') :: m) -> key_sorted ((k, v) :: (k', v') :: m).
Lemma pairs_to_map_sorted m : key_sorted m -> pairs_to_map (map pair_of m) = m.
Proof.
  induction 1 as [|[k v]|k v k' v' m L S IH]; [reflexivity|reflexivity|].
  change (pairs_to_map (map pair_of ((k, v) :: (k', v') :: m))) with (map_put k v (pairs_to_map (map pair_of ((k', v') :: m)))).
  rewrite IH. cbn [map_put]. rewrite L. reflexivity.
Qed.
Lemma compare_lt_trans a b c : String.compare a b = Lt -> String.compare b c = Lt -> String.compare a c = Lt.
Proof.
  intros H1 H2. pose proof (OrderedTypeEx.String_as_OT.cmp_lt a b) as [L1 _]. pose proof (OrderedTypeEx.String_as_OT.cmp_lt b c) as [L2 _].
  pose proof (OrderedTypeEx.String_as_OT.cmp_lt a c) as [_ L3]. apply L3.
  apply (OrderedTypeEx.String_as_OT.lt_trans _ _ _ (L1 H1) (L2 H2)).
Qed.
Lemma select_entries_head : forall m k v, key_sorted ((k, v) :: m) -> forall rs,
  key_sorted (select_entries m rs) -> key_sorted ((k, v) :: select_entries m rs).
Proof.
  (* every key of a selection of m is a key of m, hence above k *)
  induction m as [|[k1 v1] m IH]; intros k v S rs K.
  - destruct rs; constructor.
  - destruct rs as [|r rs]; [constructor|]. inversion S as [| |? ? ? ? ? L S1]; subst.
    cbn [select_entries] in *. destruct (getB r).
    + constructor; assumption.
    + apply IH; [|exact K].
      destruct m as [|[k2 v2] m]; [constructor|]. inversion S1 as [| |? ? ? ? ? L2 S2]; subst.
      constructor; [exact (compare_lt_trans _ _ _ L L2)|exact S2].
Qed.
Lemma select_entries_sorted : forall m, key_sorted m -> forall rs, key_sorted (select_entries m rs).
Proof.
  induction m as [|[k v] m IH]; intros S rs; [destruct rs; constructor|].
  destruct rs as [|r rs]; [constructor|]. cbn [select_entries].
  assert (Sm : key_sorted m) by (inversion S; subst; [constructor|assumption]).
  destruct (getB r); [apply select_entries_head; [exact S|apply IH; exact Sm]|apply IH; exact Sm].
Qed.
(* FULL for maps with increasing keys (every map the evaluator builds, as modelled): where over a map IS the
   sub-map of the entries whose predicate held *)
Theorem where_map_is_submap : forall ev sc m sv rhs v sc',
  key_sorted m -> apply_efun ev G_whereMap sc (VMap m) sv rhs = Ok (v, sc') ->
  exists rs, iter_trace ev sv rhs (map pair_of m) sc rs sc' /\ v = VMap (select_entries m rs).
Proof.
  intros ev sc m sv rhs v sc' S H. destruct (where_map_filters _ _ _ _ _ _ _ H) as [rs [T ->]].
  exists rs. split; [exact T|]. rewrite select_pairs, (pairs_to_map_sorted _ (select_entries_sorted _ S rs)). reflexivity.
Qed.
Example where_map_sample :
  key_sorted [("a", VInt 1); ("b", VInt 5); ("c", VInt 2)].
Proof. repeat constructor. Qed.

Theorem where_set_filters : forall ev sc xs sv rhs v sc',
  apply_efun ev G_whereSet sc (VSet xs) sv rhs = Ok (v, sc') ->
  exists rs, iter_trace ev sv rhs xs sc rs sc' /\ v = VSet (select xs rs).
Proof.
  intros ev sc xs sv rhs v sc' H. cbn [apply_efun] in H. inv_bind H. destruct a as [out sc1]. injection H as <- <-.
  destruct (where_is_filter _ _ _ _ _ _ _ Ha) as [rs [T ->]]. exists rs. split; [exact T|reflexivity].
Qed.
Theorem flatten_list_of_lists : forall ev sc ls sv rhs v sc',
  apply_efun ev G_flattenListList sc (VList (map VList ls)) sv rhs = Ok (v, sc') ->
  exists rs, iter_trace ev sv rhs (concat ls) sc rs sc' /\ v = VList rs.
Proof.
  intros ev sc ls sv rhs v sc' H. cbn [apply_efun elems_list] in H. rewrite flat_inner_lists in H.
  inv_bind H. destruct a as [out sc1]. injection H as <- <-. exists out. split; [apply map_is_results; exact Ha|reflexivity].
Qed.
Theorem flatten_set_of_sets : forall ev sc ls sv rhs v sc',
  apply_efun ev G_flattenSetSet sc (VSet (map VSet ls)) sv rhs = Ok (v, sc') ->
  exists rs, iter_trace ev sv rhs (concat ls) sc rs sc' /\ v = VSet rs.
Proof.
  intros ev sc ls sv rhs v sc' H. cbn [apply_efun elems_set] in H. rewrite flat_inner_sets in H.
  inv_bind H. destruct a as [out sc1]. injection H as <- <-. exists out. split; [apply map_is_results; exact Ha|reflexivity].
Qed.

(* select is List.filter when the predicate results come from a function of the element *)
Lemma select_filter (p:value -> bool) xs : select xs (map (fun x => VBool (p x)) xs) = filter p xs.
Proof. induction xs as [|x xs IH]; cbn [select map filter getB]; [reflexivity|]. rewrite IH. reflexivity. Qed.

(* ---------------- determinism ---------------- *)
(* eval is a Gallina function: equal (fuel, views, scope, expression) give equal results.  Where the Go code ranges
   over a Go map (UnaryString, transforms over map entries) it sorts before use, which is what the model's sorted
   association lists and [ssort] transliterate; whereMap (unsorted, result is a map) is outside the model. *)
Theorem eval_deterministic : forall fuel vs sc e r1 r2, eval fuel vs sc e = r1 -> eval fuel vs sc e = r2 -> r1 = r2.
Proof. intros; congruence. Qed.

