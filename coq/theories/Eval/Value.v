(* C10 model, part 1: values, kinds, operator and function-name enumerations, scopes.
   Definitions only (executable); proofs are in EvalProps.v.

   Values are PURE: a list is its elements, there is no storage identity.  (The Go code's
   `concat` used to share the left operand's backing array; that is repaired by fixes/C10-1.diff,
   and any re-introduction shows up as a correspondence mismatch.)  A set is a list that is
   de-duplicated only where the Go code de-duplicates.  A map is an association list sorted by key
   with unique keys (Go map + the sorting the code does wherever it iterates). *)
From Coq Require Import String List ZArith Bool Ascii DecimalString.
Import ListNotations.
Local Open Scope string_scope.
Local Open Scope list_scope.

Inductive value : Type :=
| VNil                       (* Go nil *sysl.Value: unknown name, arity mismatch, "." transform arg *)
| VBool (b:bool)
| VInt (z:Z)                 (* int64, always within [-2^63, 2^63) *)
| VStr (s:string)
| VNull
| VList (l:list value)
| VSet (l:list value)
| VMap (m:list (string * value)).

(* valueType.go *)
Inductive vkind := KNoArg | KBool | KInt | KFloat | KString | KStringDecimal | KList | KMap | KSet | KNull.

(* sysl.Expr_BinExpr_Op, every enumerator of the proto *)
Inductive binop :=
| OpNO_Op | OpEQ | OpNE | OpLT | OpLE | OpGT | OpGE | OpIN | OpCONTAINS | OpNOT_IN | OpNOT_CONTAINS
| OpADD | OpSUB | OpMUL | OpDIV | OpMOD | OpPOW | OpAND | OpOR | OpBUTNOT | OpBITAND | OpBITOR | OpBITXOR
| OpCOALESCE | OpWHERE | OpTO_MATCHING | OpTO_NOT_MATCHING | OpFLATTEN.

(* sysl.Expr_UnExpr_Op *)
Inductive unop := UoNO_Op | UoNEG | UoPOS | UoNOT | UoINV | UoSINGLE | UoSINGLE_OR_NULL | UoSTRING.

(* the Go functions the dispatch tables of binexprEval.go / unaryEval.go may name *)
Inductive strategy := SDefault | SNegate | SLhsOverRhs | SUnknown.
Inductive vfun :=
| F_addInt64 | F_addString | F_andBool | F_concatListList | F_setUnion | F_concatListSet | F_divInt64
| F_cmpBool | F_cmpInt | F_cmpNullFalse | F_cmpNullTrue | F_cmpString | F_cmpListNull | F_geInt64 | F_gtInt64
| F_stringInList | F_stringInNull | F_stringInSet | F_stringInMapKey
| F_stringNotInList | F_stringNotInNull | F_stringNotInSet | F_stringNotInMapKey
| F_leInt64 | F_ltInt64 | F_modInt64 | F_mulInt64 | F_subInt64 | F_unknown.
Inductive efun :=
| G_flattenListList | G_flattenListSet | G_flattenSetList | G_flattenListMap | G_flattenSetMap | G_flattenSetSet
| G_whereList | G_whereMap | G_whereSet | G_unknown.
Inductive ufun := U_unaryNeg | U_unarySingle | U_UnaryString | U_unknown.

(* shapes the translator recognises in the source (Gen/EvalTables.v) *)
Inductive mk := MkI64 | MkBool | MkString.
Inductive getter := GetI | GetS | GetB.
Inductive goop := GoAdd | GoSub | GoMul | GoQuo | GoRem | GoEq | GoNe | GoLt | GoLe | GoGt | GoGe | GoAnd | GoOr.
(* body of a func(lhs, rhs *sysl.Value) *sysl.Value that is one return statement *)
Inductive vbody :=
| BBin (m:mk) (gl:getter) (op:goop) (gr:getter)   (* return MakeValueM(lhs.GetL() op rhs.GetR()) *)
| BConst (b:bool)                                 (* return MakeValueBool(b) *)
| BNot (f:vfun)                                   (* return MakeValueBool(!(f(lhs, rhs).GetB())) *)
| BOpaque.                                        (* anything else: modelled by hand, by name *)
Inductive concat_kind := ConcatAlias | ConcatCopy | ConcatUnknown.
Inductive appender_kind := AppIfAbsent | AppAlways | AppUnknown.
(* what the code does with the scope variable of an iteration once the iteration is over: delete it and put back
   the binding saved before / delete only / put back only / leave the last element bound *)
Inductive sv_after := SvDeleteThenRestore | SvDeleteOnly | SvRestoreOnly | SvLeak | SvUnknown.

(* ---- call resolution (exprEval.go evalCall) and the native helper table (goFuncs.go GoFuncMap) ---- *)
(* the places evalCall looks a call name up in, in the order of its statements *)
Inductive call_step := CallView | CallDot | CallGoFunc | CallUnknown.
(* the scope a called view's body is evaluated in: a fresh map holding only the parameters / the caller's map *)
Inductive call_scope_kind := CsFresh | CsShared | CsUnknown.
(* argument / result types of the helper table: stringType, intType, boolType, listStringType *)
Inductive gty := GtString | GtInt | GtBool | GtListString | GtUnknown.
(* the Go function a helper name is bound to *)
Inductive gimpl :=
| I_strings_Contains | I_strings_Count | I_strings_Fields | I_FindAllString | I_strings_HasPrefix | I_strings_HasSuffix
| I_strings_Join | I_strings_LastIndex | I_MatchString | I_strings_Replace | I_strings_Split | I_titleCaser_String
| I_strings_ToLower | I_strings_ToTitle | I_strings_ToUpper | I_strings_Trim | I_strings_TrimLeft | I_strings_TrimPrefix
| I_strings_TrimRight | I_strings_TrimSpace | I_strings_TrimSuffix | I_unknown.
(* reflectToValue on a slice result: does isReflectValueExpectedType look at element 0 without a length test *)
Inductive slice_guard := SliceIndexUnguarded | SliceLenGuarded | SliceUnknown.

(* ---- what an evaluation could remember from one evaluation of a node to the next (translate/evaltables.go evalState) ---- *)
(* a field of struct exprEval: never assigned after construction / the expression stack (Push, Pop, Peek only) / assigned
   (or another pointer method called on it) in the functions listed *)
Inductive field_use := FuRead | FuStack | FuWritten (fns:list string).
(* a package-level variable of pkg/eval *)
Inductive var_use := PvNeverWritten | PvWritten (fns:list string).
(* what a map that is written to (index assignment, delete) is *)
Inductive map_write_class := MwScope | MwLocal | MwParamMap | MwValueItems | MwPackage | MwField | MwAst | MwOther.

(* ---- decidable equalities used as table keys ---- *)
Definition vkind_eqb (a b:vkind) : bool :=
  match a, b with
  | KNoArg,KNoArg | KBool,KBool | KInt,KInt | KFloat,KFloat | KString,KString | KStringDecimal,KStringDecimal
  | KList,KList | KMap,KMap | KSet,KSet | KNull,KNull => true
  | _, _ => false
  end.

Definition binop_eqb (a b:binop) : bool :=
  match a, b with
  | OpNO_Op,OpNO_Op | OpEQ,OpEQ | OpNE,OpNE | OpLT,OpLT | OpLE,OpLE | OpGT,OpGT | OpGE,OpGE | OpIN,OpIN
  | OpCONTAINS,OpCONTAINS | OpNOT_IN,OpNOT_IN | OpNOT_CONTAINS,OpNOT_CONTAINS | OpADD,OpADD | OpSUB,OpSUB
  | OpMUL,OpMUL | OpDIV,OpDIV | OpMOD,OpMOD | OpPOW,OpPOW | OpAND,OpAND | OpOR,OpOR | OpBUTNOT,OpBUTNOT
  | OpBITAND,OpBITAND | OpBITOR,OpBITOR | OpBITXOR,OpBITXOR | OpCOALESCE,OpCOALESCE | OpWHERE,OpWHERE
  | OpTO_MATCHING,OpTO_MATCHING | OpTO_NOT_MATCHING,OpTO_NOT_MATCHING | OpFLATTEN,OpFLATTEN => true
  | _, _ => false
  end.

Definition unop_eqb (a b:unop) : bool :=
  match a, b with
  | UoNO_Op,UoNO_Op | UoNEG,UoNEG | UoPOS,UoPOS | UoNOT,UoNOT | UoINV,UoINV | UoSINGLE,UoSINGLE
  | UoSINGLE_OR_NULL,UoSINGLE_OR_NULL | UoSTRING,UoSTRING => true
  | _, _ => false
  end.

Definition vfun_eqb (a b:vfun) : bool :=
  match a, b with
  | F_addInt64,F_addInt64 | F_addString,F_addString | F_andBool,F_andBool | F_concatListList,F_concatListList
  | F_setUnion,F_setUnion | F_concatListSet,F_concatListSet | F_divInt64,F_divInt64 | F_cmpBool,F_cmpBool
  | F_cmpInt,F_cmpInt | F_cmpNullFalse,F_cmpNullFalse | F_cmpNullTrue,F_cmpNullTrue | F_cmpString,F_cmpString
  | F_cmpListNull,F_cmpListNull | F_geInt64,F_geInt64 | F_gtInt64,F_gtInt64 | F_stringInList,F_stringInList
  | F_stringInNull,F_stringInNull | F_stringInSet,F_stringInSet | F_stringInMapKey,F_stringInMapKey
  | F_stringNotInList,F_stringNotInList | F_stringNotInNull,F_stringNotInNull | F_stringNotInSet,F_stringNotInSet
  | F_stringNotInMapKey,F_stringNotInMapKey | F_leInt64,F_leInt64 | F_ltInt64,F_ltInt64 | F_modInt64,F_modInt64
  | F_mulInt64,F_mulInt64 | F_subInt64,F_subInt64 | F_unknown,F_unknown => true
  | _, _ => false
  end.

Definition key3 := (binop * vkind * vkind)%type.
Definition key3_eqb (a b:key3) : bool :=
  match a, b with (o,l,r), (o',l',r') => binop_eqb o o' && vkind_eqb l l' && vkind_eqb r r' end.

Fixpoint assoc {K V:Type} (eqb:K->K->bool) (k:K) (t:list (K*V)) : option V :=
  match t with
  | [] => None
  | (k',v) :: t' => if eqb k k' then Some v else assoc eqb k t'
  end.

(* ---- int64 ---- *)
Definition two63 : Z := 9223372036854775808%Z.
Definition two64 : Z := 18446744073709551616%Z.
Definition wrap64 (z:Z) : Z := ((z + two63) mod two64 - two63)%Z.

(* ---- value equality (proto.Equal on the modelled fragment) ---- *)
Fixpoint value_eqb (a b:value) {struct a} : bool :=
  match a, b with
  | VNil, VNil => true
  | VNull, VNull => true
  | VBool x, VBool y => Bool.eqb x y
  | VInt x, VInt y => Z.eqb x y
  | VStr x, VStr y => String.eqb x y
  | VList x, VList y =>
      (fix go (x y:list value) {struct x} : bool :=
         match x, y with
         | [], [] => true
         | a :: x', b :: y' => value_eqb a b && go x' y'
         | _, _ => false
         end) x y
  | VSet x, VSet y =>
      (fix go (x y:list value) {struct x} : bool :=
         match x, y with
         | [], [] => true
         | a :: x', b :: y' => value_eqb a b && go x' y'
         | _, _ => false
         end) x y
  | VMap x, VMap y =>
      (fix go (x y:list (string*value)) {struct x} : bool :=
         match x, y with
         | [], [] => true
         | (k,a) :: x', (k',b) :: y' => String.eqb k k' && value_eqb a b && go x' y'
         | _, _ => false
         end) x y
  | _, _ => false
  end.

(* getters of the generated protobuf code: zero value when another oneof case is set (or nil) *)
Definition getI (v:value) : Z := match v with VInt z => z | _ => 0%Z end.
Definition getS (v:value) : string := match v with VStr s => s | _ => "" end.
Definition getB (v:value) : bool := match v with VBool b => b | _ => false end.

(* valueType.go getValueType / getContainedType.  getContainedType dereferences container.Value:
   a nil container panics (None here). *)
Definition kind_of (v:value) : vkind :=
  match v with
  | VNil => KNoArg | VBool _ => KBool | VInt _ => KInt | VStr _ => KString | VNull => KNull
  | VList _ => KList | VSet _ => KSet | VMap _ => KMap
  end.
Definition contained_kind (v:value) : option vkind :=
  match v with
  | VNil => None
  | VList (x :: _) | VSet (x :: _) => Some (kind_of x)
  | _ => Some KNoArg
  end.

(* ---- maps: sorted association lists (AddItemToValueMap overwrites) ---- *)
Fixpoint map_put (k:string) (v:value) (m:list (string*value)) : list (string*value) :=
  match m with
  | [] => [(k,v)]
  | (k',v') :: m' =>
      match String.compare k k' with
      | Lt => (k,v) :: m
      | Eq => (k,v) :: m'
      | Gt => (k',v') :: map_put k v m'
      end
  end.
Definition map_get (k:string) (m:list (string*value)) : option value := assoc String.eqb k m.

(* ---- scope: Go map[string]*sysl.Value as an association list, first binding wins ---- *)
Definition scope := list (string * value).
Definition sget (k:string) (sc:scope) : option value := assoc String.eqb k sc.
Definition sdel (k:string) (sc:scope) : scope := filter (fun p => negb (String.eqb (fst p) k)) sc.
Definition sset (k:string) (v:value) (sc:scope) : scope := (k,v) :: sdel k sc.
(* canonical form for comparison with what the harness observed: sorted by key *)
Definition scanon (sc:scope) : list (string*value) := fold_right (fun p acc => map_put (fst p) (snd p) acc) [] sc.

(* ---- sorted, de-duplicated unions (exprOp.go intSet/unionIntSets/intSetToValueSet etc.) ---- *)
Fixpoint zinsert (z:Z) (l:list Z) : list Z :=
  match l with
  | [] => [z]
  | y :: l' => match Z.compare z y with Lt => z :: l | Eq => l | Gt => y :: zinsert z l' end
  end.
Definition zsort_dedup (l:list Z) : list Z := fold_right zinsert [] l.
Fixpoint sinsert (s:string) (l:list string) : list string :=
  match l with
  | [] => [s]
  | y :: l' => match String.compare s y with Lt => s :: l | Eq => l | Gt => y :: sinsert s l' end
  end.
Definition ssort_dedup (l:list string) : list string := fold_right sinsert [] l.
(* sort.Strings keeps duplicates *)
Fixpoint sinsert_dup (s:string) (l:list string) : list string :=
  match l with
  | [] => [s]
  | y :: l' => if String.leb s y then s :: l else y :: sinsert_dup s l'
  end.
Definition ssort (l:list string) : list string := fold_right sinsert_dup [] l.

(* fmt.Sprintf("%d", int64) *)
Definition z_to_string (z:Z) : string := NilZero.string_of_int (Z.to_int z).

Fixpoint join (sep:string) (l:list string) : string :=
  match l with
  | [] => ""
  | [x] => x
  | x :: l' => x ++ sep ++ join sep l'
  end.
