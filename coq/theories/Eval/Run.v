(* Correspondence glue for C10: one case = (views of the transform app, name of the view evaluated,
   caller's scope before, what eval.EvaluateView did in the worker subprocess). *)
From Coq Require Import String List ZArith Bool.
Import ListNotations.
Require Import Verif.Eval.Value Verif.Eval.Interp Verif.Base.Harness.

Inductive c10_obs :=
| OExit1                                              (* handlePanic: os.Exit(1) *)
| OValue (v:value) (final:list (string*value))        (* returned value; caller's Scope afterwards, sorted by key *)
| OOther.                                             (* any other end of the worker: never equal to the model *)

(* strict = the generator built the program inside the modelled fragment (typed stream): [Unmodelled] is then a
   mismatch.  The hostile stream mutates programs blindly and may leave the fragment (String of null, union of
   map sets, ...): there the model's "not covered" is accepted and only covered cases are compared. *)
Definition c10_case := (views * string * scope * c10_obs * bool)%type.

Definition c10_fuel : nat := 200.

Definition c10_ok (c:c10_case) : bool :=
  match c with (vs, name, sc, obs, strict) =>
    match evaluate_view c10_fuel vs name sc, obs with
    | Ok (v, sc'), OValue v' final => value_eqb v v' && value_eqb (VMap (scanon sc')) (VMap final)
    | Panic, OExit1 => true
    | Unmodelled, _ => negb strict
    | _, _ => false
    end
  end.

(* short names for the case files *)
Definition Vw (ps:list string) (b:expr) : view := {| v_params := ps; v_body := b |}.

Definition c10_unmodelled (c:c10_case) : bool :=
  match c with (vs, name, sc, _, _) => match evaluate_view c10_fuel vs name sc with Unmodelled => true | _ => false end end.
