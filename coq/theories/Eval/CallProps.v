(* C10: call resolution.  evalCall (pkg/eval/exprEval.go) resolves a call name against the transform application's own
   views, then the "."-builtins, then the native helper table GoFuncMap - in the order its statements have in the source
   NOW (Gen call_order, obligation Tables.call_order_views_first).  A view therefore shadows a helper of the same name
   (and a builtin): the call evaluates the view's body on the arguments, in a fresh scope, whatever the name is. *)
From Coq Require Import String List ZArith Bool Ascii Lia.
Import ListNotations.
Require Import Verif.Eval.Value Verif.Eval.GoFuncs Verif.Eval.Interp Verif.Eval.Tables Verif.Eval.PureProps Verif.Gen.EvalTables.
Local Open Scope string_scope.
Local Open Scope list_scope.

(* what a call of a defined view does: arguments in the caller's scope (threaded), body in a fresh scope *)
Definition view_call (ev:evaluator) (sc:scope) (vw:view) (args:list expr) : res :=
  if negb (Nat.eqb (List.length (v_params vw)) (List.length args)) then Ok (VNil, sc)
  else
    '(avs, sc1) <- eval_seq ev args sc ;;
    '(r, _) <- ev (bind_params (v_params vw) avs []) (v_body vw) ;;
    Ok (r, sc1).

(* FULL: for every evaluator of the sub-expressions, views, scope, name and arguments - no hypothesis on the name: it may
   be a key of the helper table ("ToUpper"), start with "." (".count"), or be anything else *)
Theorem call_resolves_to_view_first : forall ev vs sc fn args vw,
  assoc String.eqb fn vs = Some vw -> eval_call ev vs sc fn args = view_call ev sc vw args.
Proof. intros ev vs sc fn args vw H. rewrite eval_call_eq, H. reflexivity. Qed.

Theorem call_dot_second : forall ev vs sc fn f args,
  assoc String.eqb fn vs = None -> is_dot_func fn = Some f -> eval_call ev vs sc fn args = call_dot ev sc f args.
Proof. intros ev vs sc fn f args H D. rewrite eval_call_eq, H, D. reflexivity. Qed.

Theorem call_helper_last : forall ev vs sc fn args,
  assoc String.eqb fn vs = None -> is_dot_func fn = None -> eval_call ev vs sc fn args = call_go_func ev sc fn args.
Proof. intros ev vs sc fn args H D. rewrite eval_call_eq, H, D. reflexivity. Qed.

(* the helper table is reached ONLY for names that are neither a view nor a "."-name *)
Theorem call_helper_only_when_unshadowed : forall ev vs sc fn args,
  (forall vw, assoc String.eqb fn vs = Some vw -> eval_call ev vs sc fn args = view_call ev sc vw args) /\
  (assoc String.eqb fn vs = None -> forall f, is_dot_func fn = Some f -> eval_call ev vs sc fn args = call_dot ev sc f args).
Proof. intros. split; intros; [apply call_resolves_to_view_first|apply call_dot_second]; assumption. Qed.

(* the same view on the same argument values gives the same value whether reached by a call or by EvaluateView *)
Theorem call_equals_evaluate_view : forall n vs sc fn args vw avs sc1,
  assoc String.eqb fn vs = Some vw -> List.length (v_params vw) = List.length args ->
  eval_seq (eval n vs) args sc = Ok (avs, sc1) ->
  eval (S n) vs sc (ECall fn args) =
  ('(r, _) <- evaluate_view n vs fn (bind_params (v_params vw) avs []) ;; Ok (r, sc1)).
Proof.
  intros n vs sc fn args vw avs sc1 H L A. cbn [eval step].
  rewrite (call_resolves_to_view_first _ _ _ _ _ _ H). unfold view_call, evaluate_view.
  rewrite L, Nat.eqb_refl, A, H. cbn [negb bind]. reflexivity.
Qed.

(* ... and a call leaves the caller's scope exactly as the evaluation of its arguments left it: nothing the callee does
   to its own scope is visible *)
Theorem view_call_scope : forall ev sc vw args v sc',
  view_call ev sc vw args = Ok (v, sc') ->
  (List.length (v_params vw) <> List.length args /\ sc' = sc /\ v = VNil) \/
  (exists avs, eval_seq ev args sc = Ok (avs, sc')).
Proof.
  intros ev sc vw args v sc' H. unfold view_call in H.
  destruct (Nat.eqb (List.length (v_params vw)) (List.length args)) eqn:E; cbn [negb] in H.
  - right. destruct (eval_seq ev args sc) as [[avs sc1]| | |]; cbn [bind] in H; try discriminate.
    destruct (ev (bind_params (v_params vw) avs []) (v_body vw)) as [[r s]| | |]; cbn [bind] in H; try discriminate.
    injection H as _ <-. exists avs. reflexivity.
  - left. apply Nat.eqb_neq in E. injection H as <- <-. auto.
Qed.

(* ---- the helper table: what is not a fitting call yields nil ---- *)
Theorem go_func_unknown_name : forall fn avs, assoc String.eqb fn go_func_map = None -> go_func fn avs = Ok VNil.
Proof. intros fn avs H. unfold go_func. rewrite H. reflexivity. Qed.

Theorem go_func_wrong_arity : forall fn avs impl ts t,
  assoc String.eqb fn go_func_map = Some (impl, ts, t) -> List.length avs <> List.length ts -> go_func fn avs = Ok VNil.
Proof.
  intros fn avs impl ts t H L. unfold go_func. rewrite H. apply Nat.eqb_neq in L. rewrite L. reflexivity.
Qed.

Lemma convert_args_mistyped : forall avs ts i v t,
  nth_error avs i = Some v -> nth_error ts i = Some t -> expected v t = false -> List.length avs = List.length ts ->
  (forall t', In t' ts -> t' <> GtUnknown) ->
  convert_args avs ts = Some None.
Proof.
  induction avs as [|a avs IH]; intros ts i v t Ha Ht E L K.
  - destruct i; discriminate.
  - destruct ts as [|t0 ts]; [discriminate|]. cbn [convert_args].
    destruct i as [|i].
    + injection Ha as ->. injection Ht as ->. rewrite E. reflexivity.
    + cbn [nth_error] in Ha, Ht. destruct (expected a t0) eqn:E0; [|reflexivity].
      assert (R : convert_args avs ts = Some None).
      { apply (IH ts i v t Ha Ht E); [cbn [List.length] in L; lia|]. intros t' I. apply K. right. exact I. }
      rewrite R.
      assert (T : t0 <> GtUnknown) by (apply K; left; reflexivity).
      destruct t0; cbn [to_reflect]; try reflexivity; try congruence.
      unfold expected in E0. destruct a; cbn in E0; try discriminate; reflexivity.
Qed.

(* an argument that is not of the type the table states for its position: nil (every argument type of the current
   table is a known one: Tables.go_func_map_known) *)
Theorem go_func_mistyped_argument : forall fn avs impl ts t i v ti,
  assoc String.eqb fn go_func_map = Some (impl, ts, t) -> List.length avs = List.length ts ->
  nth_error avs i = Some v -> nth_error ts i = Some ti -> expected v ti = false ->
  go_func fn avs = Ok VNil.
Proof.
  intros fn avs impl ts t i v ti H L Ha Ht E. unfold go_func. rewrite H, L, Nat.eqb_refl. cbn [negb].
  rewrite (convert_args_mistyped avs ts i v ti Ha Ht E L); [reflexivity|].
  intros t' I. pose proof go_func_map_known as K. rewrite forallb_forall in K.
  assert (IN : In (fn, (impl, ts, t)) go_func_map).
  { clear - H. induction go_func_map as [|[k x] m IHm]; [discriminate|]. cbn [assoc] in H.
    destruct (String.eqb fn k) eqn:Ek; [apply String.eqb_eq in Ek; subst; injection H as ->; left; reflexivity|right; auto]. }
  specialize (K _ IN). cbn [snd] in K. apply andb_prop in K as [K _]. apply andb_prop in K as [_ K].
  rewrite forallb_forall in K. specialize (K _ I). destruct t'; [congruence..|discriminate].
Qed.

(* a list result of a helper is that list of strings - the empty one included (fixes/C10-4: it used to panic) *)
Theorem helper_list_result : forall l, from_reflect (HL l) = Ok (VList (map VStr l)).
Proof. intros [|x l]; cbn [from_reflect]; [rewrite slice_result_guarded|]; reflexivity. Qed.

(* ---- what the byte-string helpers compute ---- *)
Lemma prefix_spec : forall p s, String.prefix p s = true <-> exists r, s = (p ++ r)%string.
Proof.
  induction p as [|c p IH]; intros s.
  - split; [intros _; exists s; reflexivity|intros _; destruct s; reflexivity].
  - destruct s as [|d s]; cbn [String.prefix]; [split; [discriminate|intros [r R]; discriminate]|].
    destruct (Ascii.ascii_dec c d) as [->|N].
    + rewrite IH. split; intros [r R]; exists r; cbn [append] in *; congruence.
    + split; [discriminate|]. intros [r R]. cbn [append] in R. congruence.
Qed.

Theorem has_prefix_spec : forall s p, has_prefix s p = true <-> exists r, s = (p ++ r)%string.
Proof. intros. apply prefix_spec. Qed.

Theorem contains_spec : forall s sub, contains s sub = true <-> exists a b, s = (a ++ sub ++ b)%string.
Proof.
  induction s as [|c s IH]; intros sub; cbn [contains]; rewrite orb_true_iff.
  - split.
    + intros [P|F]; [|discriminate]. apply prefix_spec in P as [r R]. exists "", r. exact R.
    + intros [a [b E]]. left. apply prefix_spec. destruct a; [exists b; exact E|discriminate].
  - split.
    + intros [P|R].
      * apply prefix_spec in P as [r R]. exists "", r. exact R.
      * apply IH in R as [a [b E]]. exists (String c a), b. cbn [append]. rewrite E. reflexivity.
    + intros [a [b E]]. destruct a as [|d a].
      * left. apply prefix_spec. exists b. exact E.
      * right. apply IH. cbn [append] in E. injection E as _ E. exists a, b. exact E.
Qed.

(* ---- the holes of the dispatch tables: an operator without an entry ends the evaluation (Go: panic, recovered by
        handlePanic, os.Exit(1)) whatever its operands are.  FULL, for every evaluator of the operands. ---- *)
Theorem unary_hole_panics : forall ev vs sc op arg v sc1,
  assoc unop_eqb op unary_functions = None -> ev sc arg = Ok (v, sc1) -> step ev vs sc (EUn op arg) = Panic.
Proof. intros ev vs sc op arg v sc1 H A. cbn [step]. rewrite A. cbn [bind]. rewrite H. reflexivity. Qed.

Theorem binary_hole_panics : forall ev vs sc op l r sv,
  assoc binop_eqb op strategy_table = None -> step ev vs sc (EBin op l r sv) = Panic.
Proof. intros ev vs sc op l r sv H. cbn [step]. unfold eval_binexpr. rewrite H. reflexivity. Qed.

(* which operators those are in the source as it is now (a regenerated fact, by computation): boolean OR and NOT are
   among them although the grammar has `||` and `!` - reported as findings, with `true || false` / `!true` as replays *)
Lemma current_holes :
  filter (fun o => match assoc binop_eqb o strategy_table with None => true | Some _ => false end)
         [OpNO_Op; OpEQ; OpNE; OpLT; OpLE; OpGT; OpGE; OpIN; OpCONTAINS; OpNOT_IN; OpNOT_CONTAINS; OpADD; OpSUB; OpMUL; OpDIV; OpMOD;
          OpPOW; OpAND; OpOR; OpBUTNOT; OpBITAND; OpBITOR; OpBITXOR; OpCOALESCE; OpWHERE; OpTO_MATCHING; OpTO_NOT_MATCHING; OpFLATTEN]
  = [OpNO_Op; OpCONTAINS; OpNOT_CONTAINS; OpPOW; OpOR; OpBUTNOT; OpBITAND; OpBITXOR; OpCOALESCE; OpTO_MATCHING; OpTO_NOT_MATCHING]
  /\ filter (fun o => match assoc unop_eqb o unary_functions with None => true | Some _ => false end)
         [UoNO_Op; UoNEG; UoPOS; UoNOT; UoINV; UoSINGLE; UoSINGLE_OR_NULL; UoSTRING]
  = [UoNO_Op; UoPOS; UoNOT; UoINV; UoSINGLE_OR_NULL].
Proof. split; reflexivity. Qed.

(* ---- non-vacuity / behaviour on concrete programs (tests by computation, not theorems) ---- *)
Definition shadow_views : views :=
  [("ToUpper", {| v_params := ["q"]; v_body := EBin OpADD (EName "q") (ELit (VStr "!")) "" |});
   ("main", {| v_params := ["p"]; v_body := ECall "ToUpper" [EName "p"] |})].
Example helper_name_shadowed_by_view :
  evaluate_view 10 shadow_views "main" [("p", VStr "ab")] = Ok (VStr "ab!", [("p", VStr "ab")]).
Proof. vm_compute. reflexivity. Qed.
Example helper_called_when_no_view :
  evaluate_view 10 (tl shadow_views) "main" [("p", VStr "ab")] = Ok (VStr "AB", [("p", VStr "ab")]).
Proof. vm_compute. reflexivity. Qed.
Example call_equals_evaluate_view_instance :
  assoc String.eqb "ToUpper" shadow_views = Some {| v_params := ["q"]; v_body := EBin OpADD (EName "q") (ELit (VStr "!")) "" |}
  /\ eval_seq (eval 5 shadow_views) [EName "p"] [("p", VStr "ab")] = Ok ([VStr "ab"], [("p", VStr "ab")]).
Proof. split; vm_compute; reflexivity. Qed.
Example helper_gate_samples :
  go_func "Contains" [VStr "abc"; VStr "bc"] = Ok (VBool true) /\
  go_func "Contains" [VStr "abc"] = Ok VNil /\
  go_func "Contains" [VStr "abc"; VInt 1] = Ok VNil /\
  go_func "Contains" [VList []; VStr ""] = Ok (VBool true) /\       (* an empty list passes for a string: "" *)
  go_func "Join" [VSet [VStr "a"; VInt 1]; VStr ","] = Ok (VStr "a,") /\  (* only element 0 is checked *)
  go_func "Split" [VStr "a,b"; VStr ","] = Ok (VList [VStr "a"; VStr "b"]) /\
  go_func "NoSuch" [VStr "a"] = Ok VNil.
Proof. vm_compute. repeat split; reflexivity. Qed.
(* the hypotheses of ExtProps.call_twice on a concrete call (a helper-named view whose body has a let of its own) *)
Definition let_views : views :=
  [("Trim", {| v_params := ["q"]; v_body := ETransform (EName "q") "." [SLet "t" (EBin OpADD (EName ".") (ELit (VStr "!")) ""); SAssign "a" (EName "t")] TyOther |})].
Example call_twice_instance :
  eval 10 let_views [("p", VStr "ab")] (ECall "Trim" [EName "p"]) = Ok (VMap [("a", VStr "ab!")], [("p", VStr "ab")])
  /\ lets_list [EName "p"] = [] /\ sget implied_result [("p", VStr "ab")] = None.
Proof. vm_compute. repeat split; reflexivity. Qed.
