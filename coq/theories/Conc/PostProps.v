(* Conc/PostProps.v - proofs about Conc/Post.v.

   isort_perm_eq                    sorting forgets the order it was given: a sorted permutation is unique
   postprocess_order_independent    with the sort, post-processing gives the same module under every iteration
                                    order of the map
   postprocess_unsorted_refuted     without it, a mixin chain A -|> B -|> C comes out differently under two orders
   order_independent_iff_sorted     both directions in one statement *)
From Coq Require Import List NArith Bool Permutation Sorted.
Import ListNotations.
Require Import Verif.Conc.Post.
Local Open Scope N_scope.

Lemma insert_perm x l : Permutation (insert x l) (x :: l).
Proof.
  induction l as [|y l IH]; cbn [insert]; [apply Permutation_refl|].
  destruct (N.leb x y); [apply Permutation_refl|].
  eapply Permutation_trans; [apply perm_skip; exact IH|apply perm_swap].
Qed.

Lemma isort_perm l : Permutation (isort l) l.
Proof.
  induction l as [|x l IH]; cbn [isort]; [constructor|].
  eapply Permutation_trans; [apply insert_perm|apply perm_skip; exact IH].
Qed.

Lemma insert_sorted x l : StronglySorted N.le l -> StronglySorted N.le (insert x l).
Proof.
  induction 1 as [|y l Hs IH Hall]; cbn [insert]; [constructor; constructor|].
  destruct (N.leb_spec x y) as [Hle|Hlt].
  - constructor; [constructor; assumption|]. constructor; [exact Hle|].
    eapply Forall_impl; [|exact Hall]. intros z Hz. cbn beta in Hz. eapply N.le_trans; eassumption.
  - constructor; [exact IH|]. eapply Permutation_Forall; [apply Permutation_sym; apply insert_perm|].
    constructor; [apply N.lt_le_incl; exact Hlt|exact Hall].
Qed.

Lemma isort_sorted l : StronglySorted N.le (isort l).
Proof. induction l as [|x l IH]; cbn [isort]; [constructor|apply insert_sorted; exact IH]. Qed.

Lemma sorted_perm_eq l1 : forall l2, StronglySorted N.le l1 -> StronglySorted N.le l2 -> Permutation l1 l2 -> l1 = l2.
Proof.
  induction l1 as [|a l1 IH]; intros l2 H1 H2 Hp.
  - apply Permutation_nil in Hp. symmetry. exact Hp.
  - destruct l2 as [|b l2]; [apply Permutation_sym, Permutation_nil in Hp; discriminate|].
    inversion H1 as [|? ? Hs1 Ha]. inversion H2 as [|? ? Hs2 Hb]. subst.
    assert (Hab : a = b).
    { apply N.le_antisymm.
      - assert (Hin : In b (a :: l1)) by (eapply Permutation_in; [apply Permutation_sym; exact Hp|left; reflexivity]).
        destruct Hin as [->|Hin]; [apply N.le_refl|]. rewrite Forall_forall in Ha. exact (Ha b Hin).
      - assert (Hin : In a (b :: l2)) by (eapply Permutation_in; [exact Hp|left; reflexivity]).
        destruct Hin as [->|Hin]; [apply N.le_refl|]. rewrite Forall_forall in Hb. exact (Hb a Hin). }
    subst b. f_equal. apply IH; [assumption|assumption|]. eapply Permutation_cons_inv. exact Hp.
Qed.

Theorem isort_perm_eq l1 l2 : Permutation l1 l2 -> isort l1 = isort l2.
Proof.
  intros Hp. apply sorted_perm_eq; [apply isort_sorted|apply isort_sorted|].
  eapply Permutation_trans; [apply isort_perm|]. eapply Permutation_trans; [exact Hp|].
  apply Permutation_sym. apply isort_perm.
Qed.

(* Go's map iteration: any permutation of the keys, a different one each time *)
Definition map_order (ord:list N -> list N) : Prop := forall l, Permutation (ord l) l.

Theorem postprocess_order_independent m ord1 ord2 : map_order ord1 -> map_order ord2 ->
  post_process true ord1 m = post_process true ord2 m.
Proof.
  intros H1 H2. unfold post_process, post_order. f_equal. apply isort_perm_eq.
  eapply Permutation_trans; [apply H1|]. apply Permutation_sym. apply H2.
Qed.

(* the validated mutant: ranging over mod.Apps directly.  A(1) -|> B(2) -|> C(3), B and C declare one type each *)
Definition chain : module :=
  [ {| a_name := 1; a_mem := []; a_mix := [2] |};
    {| a_name := 2; a_mem := [(20, 2)]; a_mix := [3] |};
    {| a_name := 3; a_mem := [(30, 3)]; a_mix := [] |} ].

Lemma map_order_id : map_order (fun l => l).
Proof. intros l. apply Permutation_refl. Qed.
Lemma map_order_rev : map_order (@rev N).
Proof. intros l. apply Permutation_sym. apply Permutation_rev. Qed.

Theorem postprocess_unsorted_refuted : exists m ord1 ord2, map_order ord1 /\ map_order ord2 /\
  post_process false ord1 m <> post_process false ord2 m.
Proof.
  exists chain, (fun l => l), (@rev N). split; [exact map_order_id|]. split; [exact map_order_rev|].
  vm_compute. discriminate.
Qed.

(* what the two orders give on the chain: processed first, A only gets B's own type; processed last, it also
   gets C's type through B *)
Example chain_forward : lookup_app (post [1; 2; 3] chain) 1 = Some {| a_name := 1; a_mem := [(20, 2)]; a_mix := [2] |}.
Proof. reflexivity. Qed.
Example chain_backward : lookup_app (post [3; 2; 1] chain) 1 = Some {| a_name := 1; a_mem := [(20, 2); (30, 3)]; a_mix := [2] |}.
Proof. reflexivity. Qed.

Theorem order_independent_iff_sorted sorted :
  (forall m ord1 ord2, map_order ord1 -> map_order ord2 -> post_process sorted ord1 m = post_process sorted ord2 m)
  <-> sorted = true.
Proof.
  split.
  - intros H. destruct sorted; [reflexivity|]. exfalso.
    specialize (H chain (fun l => l) (@rev N) map_order_id map_order_rev). vm_compute in H. discriminate.
  - intros -> m ord1 ord2. apply postprocess_order_independent.
Qed.
