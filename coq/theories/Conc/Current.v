(* Conc/Current.v - obligations against the CURRENT source: lemmas over Gen/ConcShape.v (regenerated from pkg/parse/parse.go,
   pkg/grammar/lexer_impl.go, threadsafe_*.go, the generated lexer / parser and every lexer construction under pkg/ and cmd/
   on every run).  Each `reflexivity` below stops checking when the source it was extracted from changes; the theorems at
   the end are the general ones of KeyedProps / PostProps at the flags the source has today. *)
From Coq Require Import List String NArith Bool.
Import ListNotations.
Require Import Verif.Conc.Keyed Verif.Conc.KeyedProps Verif.Conc.Post Verif.Conc.PostProps Verif.Gen.ConcShape.
Require Import Verif.Conc.Infer Verif.Conc.InferProps Verif.Conc.Claim Verif.Conc.ClaimProps Verif.Conc.CurrentFlags.
Local Open Scope string_scope.

Lemma translator_classified_everything : unknown = [].
Proof. reflexivity. Qed.

(* the compile path: per-instance lexer and parser, and the lexer's map entry is deleted when parseString ends *)
Lemma compile_path_deletes : delete_deferred = true.
Proof. reflexivity. Qed.
Lemma compile_path_constructors : (parse_lexer_ctor, parse_parser_ctor) = ("NewThreadSafeSyslLexer", "NewThreadSafeSyslParser").
Proof. reflexivity. Qed.

(* every other place that builds a lexer / parser (expression debugger, language server) does the same: per-instance
   constructors (the generated ones share one package-level ATN, which the runtime writes to while parsing) and a
   deferred delete of the map entry; a new site that does otherwise fails here *)
Lemma every_lexer_state_is_deleted :
  forallb (fun s => match s with (_, _, _, deferred) => deferred end) lexer_sites = true.
Proof. reflexivity. Qed.
Lemma every_site_is_per_instance :
  forallb (fun s => match s with (_, _, ctor, _) => String.eqb ctor "NewThreadSafeSyslLexer" end) lexer_sites = true /\
  forallb (fun s => match s with (_, _, ctor) => String.eqb ctor "NewThreadSafeSyslParser" end) parser_sites = true.
Proof. split; reflexivity. Qed.
Lemma lexer_sites_are : map (fun s => match s with (f, fn, _, _) => (f, fn) end) lexer_sites =
  [("pkg/eval/debugger.go", "parseExpression"); ("pkg/lsp/impl/diagnostics.go", "diagnoseRaw"); ("pkg/parse/parse.go", "parseString")].
Proof. reflexivity. Qed.
Lemma compile_site_listed : In ("pkg/parse/parse.go", "parseString", "NewThreadSafeSyslLexer", true) lexer_sites.
Proof. cbn. tauto. Qed.

(* the per-instance constructors hand the simulator nothing that lives in a package variable; the generated ones do
   (that is why they must not be used) *)
Lemma simulators_are : sim_args = [
  ("NewThreadSafeSyslLexer", ["local"; "local"; "local"; "fresh:NewPredictionContextCache"]);
  ("NewThreadSafeSyslParser", ["local"; "local"; "local"; "fresh:NewPredictionContextCache"]);
  ("NewSyslLexer", ["local"; "global:lexerAtn"; "global:lexerDecisionToDFA"; "fresh:NewPredictionContextCache"]);
  ("NewSyslParser", ["local"; "global:deserializedATN"; "global:decisionToDFA"; "fresh:NewPredictionContextCache"]) ].
Proof. reflexivity. Qed.

(* ... and they get there by deserialising an ATN of their own (statement shape of threadsafe_*.go: generated
   constructor, new deserializer, DeserializeFromUInt16 of the serialized table, DFA slice made and filled from THAT
   ATN, simulator built from exactly these, instance returned; nothing else).  Sharing the package-level ATN is a real
   data race on this runtime - it writes a look-ahead cache into ATN states on the first visit of a grammar state -
   which only a cold concurrent start exposes (harness: race:cold-start) *)
Lemma per_instance_atn_is : per_instance_atn =
  [("NewThreadSafeSyslLexer", "per-instance:serializedLexerAtn"); ("NewThreadSafeSyslParser", "per-instance:parserATN")].
Proof. reflexivity. Qed.

(* the state map: what Keyed.get / set / remove stand for.  The model takes these three operations to be atomic and
   exact (a linearisable map); sync.Map is, the lock-free map used before was not (see notes/C07.md) *)
Lemma state_map_is : state_map_type = "&sync.Map{}" /\ state_key = "uintptr(unsafe.Pointer(l))" /\
  state_map_ops = [("ls", ["Load(key)"; "Store(key)"]); ("DeleteLexerState", ["Delete(key)"])].
Proof. repeat split; reflexivity. Qed.

(* hand-written package-level variables of pkg/grammar and pkg/parse: the map, and three values nothing ever writes *)
Lemma globals_are : globals = [
  ("pkg/grammar/lexer_impl.go", "syslLexerLog", "init-only");
  ("pkg/grammar/lexer_impl.go", "keywords", "init-only");
  ("pkg/grammar/lexer_impl.go", "lexerStates", "keyed-map");
  ("pkg/parse/parse.go", "importKeyword", "init-only") ].
Proof. reflexivity. Qed.

(* the fields a lexer keeps in the map; noMoreImports is set by ':' and never reset (Conc/Run.v flag_step) *)
Lemma state_fields_are : state_fields =
  ["prevToken"; "level"; "spaces"; "linenum"; "inSqBrackets"; "parens"; "blockTextLine"; "gotNewLine"; "gotHTTPVerb"; "gotView"; "noMoreImports"].
Proof. reflexivity. Qed.
Lemma no_more_imports_is : no_more_imports_uses = [("IMPORT", "guard-not"); ("COLON", "set-true")].
Proof. reflexivity. Qed.

Lemma apps_sorted : sorted_apps = true.
Proof. reflexivity. Qed.

(* ---------- the general theorems at the current flags ---------- *)
Section Current.
  Variables st tok out : Type.
  Variable init : st.
  Variable step : st -> tok -> st * list out.

  Theorem current_fresh_start kof (h:hist tok) : wf kof true h = true ->
    forall i, obs i (snd (run st tok out init step delete_deferred kof [] h)) = solo st tok out init step (toks_of i h).
  Proof. apply fresh_start. exact compile_path_deletes. Qed.

  Theorem current_no_leak kof (h:hist tok) : wf kof true h = true -> live_after [] h = [] ->
    fst (run st tok out init step delete_deferred kof [] h) = [].
  Proof. apply no_leak. exact compile_path_deletes. Qed.
End Current.

Theorem current_postprocess_order_independent m ord1 ord2 : map_order ord1 -> map_order ord2 ->
  post_process sorted_apps ord1 m = post_process sorted_apps ord2 m.
Proof. apply (proj2 (order_independent_iff_sorted sorted_apps)). exact apps_sorted. Qed.

(* ================= round 3 ================= *)

(* inferTypes: the views of an application are walked in the order of their names, and the AnonType_<n>__ counter runs through
   all views of the application (before the repair C07-4: the map itself, counter 0 for every view - refuted in InferProps) *)
Lemma views_sorted : sorted_views = true.
Proof. reflexivity. Qed.
Lemma anon_counter_per_app : per_app_counter = true.
Proof. reflexivity. Qed.
Lemma infer_shape_is : infer_views_order = "sorted" /\ anon_counter_scope = "per-app".
Proof. split; reflexivity. Qed.


(* parse.Parser: two fields are configuration (written by their setters only), three are accumulators that view inference
   stores into and that - since fixes/C07-5 - Parse replaces by fresh maps before it does anything else; nothing else of a
   Parser is written after NewParser.  The accumulators are what a Parser value shared by two compilations AT ONCE would share
   (Infer.p_lets models LetTypes, Infer.p_msgs Messages; the guard is the one Infer.stmt_step has) *)
Lemma parser_fields_are : parser_field_writers = [
  ("AssignTypes", ["Parse"; "inferExprType"]); ("LetTypes", ["Parse"; "inferExprType"]); ("Messages", ["Parse"; "inferExprType"]);
  ("allowAbsoluteImport", ["RestrictToLocalImport"]); ("Settings", ["Set"]) ].
Proof. reflexivity. Qed.
(* second pass: the body of Parser.Parse BEGINS with `p.AssignTypes = <empty map>`, `p.LetTypes = ...`, `p.Messages = ...`
   - each under `if p.F == nil || len(p.F) > 0`, so that compilations that record nothing write nothing to the Parser -
   (nothing before them, so nothing of an earlier compilation is read), and view inference is reached through Parse only:
   inferExprType <- inferTypes <- postProcess <- finishModule <- parseSpecs <- Parse *)
Lemma parse_starts_fresh : parse_reset_fields = ["AssignTypes"; "LetTypes"; "Messages"].
Proof. reflexivity. Qed.
Lemma parse_resets_is : current_resets = true.
Proof. reflexivity. Qed.
Lemma infer_entry_is : infer_entry = [
  ("inferExprType", ["inferExprType"; "inferTypes"]); ("inferTypes", ["postProcess"]); ("postProcess", ["finishModule"]);
  ("finishModule", ["parseSpecs"]); ("parseSpecs", ["Parse"]) ].
Proof. reflexivity. Qed.
Lemma let_guard_is : let_guard = "seen:message+skip;new:infer+record".
Proof. reflexivity. Qed.
(* the accumulators are mentioned by Parse (the reset), inferExprType and their getters only; of the three, inferExprType READS
   LetTypes (the guard above) - AssignTypes is stored into, Messages appended to: neither can reach the module *)
Lemma parser_field_users_are : parser_field_users = [
  ("AssignTypes", ["Parse"; "inferExprType"; "GetAssigns"]); ("LetTypes", ["Parse"; "inferExprType"; "GetLets"]);
  ("Messages", ["Parse"; "inferExprType"; "GetMessages"]) ].
Proof. reflexivity. Qed.

(* second pass: fixTypeRefScope statement by statement (Infer.fix_ref is its transliteration for references with one
   application part and one type part: the first seven statements are the early returns for other shapes and for a reference
   that was made local before), and the order of the calls inside the application loop of postProcess: parameter references
   BEFORE the mixins, field references after them, then inferTypes (Infer.app_step) *)
Lemma fix_ref_shape_is : fix_ref_shape = [
  "if ref == nil { return }";
  "appPath := ref.GetAppname().GetPart()";
  "if len(appPath) > 1 { return }";
  "typePath := ref.GetPath()";
  "if len(typePath) == 0 { return }";
  "if len(appPath) == 0 && len(typePath) == 1 { return }";
  "if len(appPath) == 0 && len(typePath) > 1 { return }";
  "appName, typeName := appPath[0], typePath[0]";
  "if currApp == appName { return }";
  "if app, exists := mod.Apps[appName]; exists { if _, exists := app.Types[typeName]; exists { return } }";
  "if app, exists := mod.Apps[currApp]; exists { if _, exists := app.Types[appName]; exists { ref.Appname = nil ref.Path = append([]string{appName}, typePath...) return } }" ].
Proof. reflexivity. Qed.
Lemma post_loop_calls_are : post_loop_calls = [
  "fixParamTypeRef"; "range app.Mixin2"; "GetApp"; "range srcApp.Types"; "range srcApp.Views"; "range app.Types"; "range attrs";
  "fixTypeRefScope"; "inferTypes"; "collectorPubSubCalls"; "renestTypes" ].
Proof. reflexivity. Qed.

(* ... and no code under pkg/ and cmd/ shares one: every NewParser() / NewTreeShapeListener() value is a local of the
   function that makes it (or used on the spot), never handed to a go statement nor stored in a field or package variable.
   A new site that does otherwise fails here. *)
Definition per_call (class:string) : bool :=
  String.eqb class "local" || String.prefix "chained:" class || String.prefix "arg:" class.
Lemma parser_values_are_per_call :
  forallb (fun s => match s with (_, _, class) => per_call class end) parser_value_sites = true /\ parser_value_sites <> [].
Proof. split; [reflexivity|discriminate]. Qed.
Lemma listener_values_are_per_call :
  forallb (fun s => match s with (_, _, class) => per_call class end) listener_sites = true /\
  In ("pkg/parse/parse.go", "Parse", "local") listener_sites.
Proof. split; [reflexivity|cbn; tauto]. Qed.

(* the retrieved-file table is a local of Parse, and collectSpecs touches its map between Lock and Unlock only: look-up,
   early exit of a later claimant (Unlock, return), store of the first claimant, Unlock - and only then the blocking read *)
Lemma retrieved_table_is : retrieved_decl = "local of Parse" /\
  retrieved_protocol = ["Lock"; "table"; "if:has"; "{"; "Unlock"; "return"; "}"; "table-store"; "Unlock"; "read-file";
                        "spawn-children"; "return"; "wait-children"; "return"].
Proof. split; reflexivity. Qed.

(* what identifies an import: the spelling as the listener resolved it, with backslashes shown as slashes, the version cut
   off and (since 31ed676) the path cleaned - "./x", "x" and "d/../x" are one file; no folding of letter case (Claim.claim's
   idx is the identity on clean spellings without \ and @) *)
Lemma file_index_is : file_index_shape = [
  "fileNameToIndex: ret := cleanImportFilename(filename)";
  "fileNameToIndex: i := strings.Index(ret, ""@"")";
  "fileNameToIndex: if i > -1 { ret = ret[:i] }";
  "fileNameToIndex: if syslutil.IsRemoteImport(ret) { ret = ""/"" + path.Clean(ret) } else { ret = path.Clean(ret) }";
  "fileNameToIndex: return retrievedListIndex(ret)";
  "cleanImportFilename: return strings.ReplaceAll(filename, `\`, `/`)" ].
Proof. reflexivity. Qed.

(* every `range` over a map in the hand-written files of pkg/parse (C19's classifier on typed ASTs): the reviewed list.
   postProcess and inferTypes collect-and-sort; the mixin loops and mergeAttrs store under the key they range over;
   the remaining ones log, lint, or merge attributes key by key (see notes/C07.md).  A new map range changes this list. *)
Lemma parse_map_ranges_are : parse_map_ranges = [
  ("linter.go:TreeShapeListener.lintEndpoint", "locations", "Delegate");
  ("linter.go:TreeShapeListener.lintEndpoint", "*s.linter.calls", "Delegate");
  ("linter.go:TreeShapeListener.lintEndpoint", "*appData.rec", "Delegate");
  ("linter.go:TreeShapeListener.lintEndpoint", "*endpointData.rec", "Delegate");
  ("linter.go:TreeShapeListener.lintAppDefs", "s.linter.apps", "Delegate");
  ("linter.go:TreeShapeListener.lintAppDefs", "*apps", "CollectSort");
  ("linter.go:TreeShapeListener.lintAppDefs", "data.locations", "Emit");
  ("listener_impl.go:mergeAttrsWithPrecendence", "newAttrs", "Emit");
  ("listener_impl.go:TreeShapeListener.EnterTable_def", "attrs", "Emit");
  ("listener_impl.go:mergeAttrs", "src", "MapInsert");
  ("parse.go:collectorPubSubCalls", "app.Endpoints", "Emit");
  ("parse.go:checkEndpointCalls", "mod.Apps", "Emit");
  ("parse.go:checkEndpointCalls", "app.Endpoints", "Emit");
  ("parse.go:Parser.inferTypes", "views", "CollectSort");
  ("parse.go:fixParamTypeRef", "app.GetEndpoints()", "Delegate");
  ("parse.go:Parser.postProcess", "mod.Apps", "CollectSort");
  ("parse.go:Parser.postProcess", "srcApp.Types", "MapInsert");
  ("parse.go:Parser.postProcess", "srcApp.Views", "MapInsert");
  ("parse.go:Parser.postProcess", "app.Types", "Delegate");
  ("parse.go:Parser.postProcess", "attrs", "Delegate");
  ("parse.go:renestTypes", "app.Types", "CollectSort");
  ("parse.go:getDefaultAppName", "mod.Apps", "Emit") ].
Proof. reflexivity. Qed.

(* the hand-written packages the compile path calls into (syslutil, pbutil, msg, env, importer, printer, sysl): none of their
   package-level variables is ever assigned, address-taken or stored into in its package (constants in all but name) *)
Lemma dep_globals_are_init_only :
  forallb (fun g => match g with (_, _, class) => String.eqb class "init-only" end) dep_globals = true /\ dep_globals <> [].
Proof. split; [reflexivity|discriminate]. Qed.

(* ---------- the general theorems at the current flags ---------- *)
Theorem current_pp_order_independent m ordA1 ordA2 ordV1 ordV2 lets0 :
  map_order ordA1 -> map_order ordA2 -> vmap_order ordV1 -> vmap_order ordV2 ->
  pp current_flags ordA1 ordV1 lets0 m = pp current_flags ordA2 ordV2 lets0 m.
Proof. apply pp_order_independent; [exact apps_sorted|exact views_sorted]. Qed.

(* second pass: at the current source a parse.Parser that is used again - whatever it compiled before - returns for every
   call made after the previous one has returned what a parser of its own returns, and holds afterwards what a fresh parser
   would hold (InferProps.reused_parser_is_fresh at Gen's parse_reset_fields) *)
Theorem current_reused_parser_is_fresh fl ordA ordV mods ps sched : sequential sched = true ->
  snd (run_sched current_resets fl ordA ordV mods ps sched) = map (fun g => (g, compile_fresh fl ordA ordV (mods g))) (posts sched) /\
  fst (run_sched current_resets fl ordA ordV mods ps sched) =
    match posts sched with [] => ps | g :: gs => parser_after (compile_fresh fl ordA ordV (mods (last gs g))) end.
Proof. rewrite parse_resets_is. apply reused_parser_is_fresh. Qed.

(* second pass: the references fixTypeRefScope rewrites are part of the state current_pp_order_independent is about *)
Theorem current_refs_order_independent m ordA1 ordA2 ordV1 ordV2 lets0 :
  map_order ordA1 -> map_order ordA2 -> vmap_order ordV1 -> vmap_order ordV2 ->
  p_local (pp current_flags ordA1 ordV1 lets0 m) = p_local (pp current_flags ordA2 ordV2 lets0 m).
Proof. intros. f_equal. apply current_pp_order_independent; assumption. Qed.
