(* Conc/Current.v - obligations against the CURRENT source: lemmas over Gen/ConcShape.v (regenerated from pkg/parse/parse.go,
   pkg/grammar/lexer_impl.go, threadsafe_*.go, the generated lexer / parser and every lexer construction under pkg/ and cmd/
   on every run).  Each `reflexivity` below stops checking when the source it was extracted from changes; the theorems at
   the end are the general ones of KeyedProps / PostProps at the flags the source has today. *)
From Coq Require Import List String NArith Bool.
Import ListNotations.
Require Import Verif.Conc.Keyed Verif.Conc.KeyedProps Verif.Conc.Post Verif.Conc.PostProps Verif.Gen.ConcShape.
Local Open Scope string_scope.

Lemma translator_classified_everything : unknown = [].
Proof. reflexivity. Qed.

(* the compile path: per-instance lexer and parser, and the lexer's map entry is deleted when parseString ends *)
Lemma compile_path_deletes : delete_deferred = true.
Proof. reflexivity. Qed.
Lemma compile_path_constructors : (parse_lexer_ctor, parse_parser_ctor) = ("NewThreadSafeSyslLexer", "NewThreadSafeSyslParser").
Proof. reflexivity. Qed.

(* every other place that builds a lexer / parser (expression debugger, language server) does the same: per-instance
   constructors (the generated ones share one package-level ATN, which the runtime writes to while parsing) and a
   deferred delete of the map entry; a new site that does otherwise fails here *)
Lemma every_lexer_state_is_deleted :
  forallb (fun s => match s with (_, _, _, deferred) => deferred end) lexer_sites = true.
Proof. reflexivity. Qed.
Lemma every_site_is_per_instance :
  forallb (fun s => match s with (_, _, ctor, _) => String.eqb ctor "NewThreadSafeSyslLexer" end) lexer_sites = true /\
  forallb (fun s => match s with (_, _, ctor) => String.eqb ctor "NewThreadSafeSyslParser" end) parser_sites = true.
Proof. split; reflexivity. Qed.
Lemma lexer_sites_are : map (fun s => match s with (f, fn, _, _) => (f, fn) end) lexer_sites =
  [("pkg/eval/debugger.go", "parseExpression"); ("pkg/lsp/impl/diagnostics.go", "diagnoseRaw"); ("pkg/parse/parse.go", "parseString")].
Proof. reflexivity. Qed.
Lemma compile_site_listed : In ("pkg/parse/parse.go", "parseString", "NewThreadSafeSyslLexer", true) lexer_sites.
Proof. cbn. tauto. Qed.

(* the per-instance constructors hand the simulator nothing that lives in a package variable; the generated ones do
   (that is why they must not be used) *)
Lemma simulators_are : sim_args = [
  ("NewThreadSafeSyslLexer", ["local"; "local"; "local"; "fresh:NewPredictionContextCache"]);
  ("NewThreadSafeSyslParser", ["local"; "local"; "local"; "fresh:NewPredictionContextCache"]);
  ("NewSyslLexer", ["local"; "global:lexerAtn"; "global:lexerDecisionToDFA"; "fresh:NewPredictionContextCache"]);
  ("NewSyslParser", ["local"; "global:deserializedATN"; "global:decisionToDFA"; "fresh:NewPredictionContextCache"]) ].
Proof. reflexivity. Qed.

(* ... and they get there by deserialising an ATN of their own (statement shape of threadsafe_*.go: generated
   constructor, new deserializer, DeserializeFromUInt16 of the serialized table, DFA slice made and filled from THAT
   ATN, simulator built from exactly these, instance returned; nothing else).  Sharing the package-level ATN is a real
   data race on this runtime - it writes a look-ahead cache into ATN states on the first visit of a grammar state -
   which only a cold concurrent start exposes (harness: race:cold-start) *)
Lemma per_instance_atn_is : per_instance_atn =
  [("NewThreadSafeSyslLexer", "per-instance:serializedLexerAtn"); ("NewThreadSafeSyslParser", "per-instance:parserATN")].
Proof. reflexivity. Qed.

(* the state map: what Keyed.get / set / remove stand for.  The model takes these three operations to be atomic and
   exact (a linearisable map); sync.Map is, the lock-free map used before was not (see notes/C07.md) *)
Lemma state_map_is : state_map_type = "&sync.Map{}" /\ state_key = "uintptr(unsafe.Pointer(l))" /\
  state_map_ops = [("ls", ["Load(key)"; "Store(key)"]); ("DeleteLexerState", ["Delete(key)"])].
Proof. repeat split; reflexivity. Qed.

(* hand-written package-level variables of pkg/grammar and pkg/parse: the map, and three values nothing ever writes *)
Lemma globals_are : globals = [
  ("pkg/grammar/lexer_impl.go", "syslLexerLog", "init-only");
  ("pkg/grammar/lexer_impl.go", "keywords", "init-only");
  ("pkg/grammar/lexer_impl.go", "lexerStates", "keyed-map");
  ("pkg/parse/parse.go", "importKeyword", "init-only") ].
Proof. reflexivity. Qed.

(* the fields a lexer keeps in the map; noMoreImports is set by ':' and never reset (Conc/Run.v flag_step) *)
Lemma state_fields_are : state_fields =
  ["prevToken"; "level"; "spaces"; "linenum"; "inSqBrackets"; "parens"; "blockTextLine"; "gotNewLine"; "gotHTTPVerb"; "gotView"; "noMoreImports"].
Proof. reflexivity. Qed.
Lemma no_more_imports_is : no_more_imports_uses = [("IMPORT", "guard-not"); ("COLON", "set-true")].
Proof. reflexivity. Qed.

Lemma apps_sorted : sorted_apps = true.
Proof. reflexivity. Qed.

(* ---------- the general theorems at the current flags ---------- *)
Section Current.
  Variables st tok out : Type.
  Variable init : st.
  Variable step : st -> tok -> st * list out.

  Theorem current_fresh_start kof (h:hist tok) : wf kof true h = true ->
    forall i, obs i (snd (run st tok out init step delete_deferred kof [] h)) = solo st tok out init step (toks_of i h).
  Proof. apply fresh_start. exact compile_path_deletes. Qed.

  Theorem current_no_leak kof (h:hist tok) : wf kof true h = true -> live_after [] h = [] ->
    fst (run st tok out init step delete_deferred kof [] h) = [].
  Proof. apply no_leak. exact compile_path_deletes. Qed.
End Current.

Theorem current_postprocess_order_independent m ord1 ord2 : map_order ord1 -> map_order ord2 ->
  post_process sorted_apps ord1 m = post_process sorted_apps ord2 m.
Proof. apply (proj2 (order_independent_iff_sorted sorted_apps)). exact apps_sorted. Qed.
