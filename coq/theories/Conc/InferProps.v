(* Conc/InferProps.v - proofs about Conc/Infer.v.

   sorted_loop_order_independent collect-sort-walk is order-independent for ANY body and state                       (full)
   pp_order_independent          both loops sorted: the same result under every iteration order of mod.Apps and of every
                                 application's Views, for every module, both counter scopes, every parser state    (full)
   pp_unsorted_views_refuted     inferTypes ranging over the map: two views with one untyped nested transform each - which
                                 transform ends up behind AnonType_0__ depends on the order (both counter scopes)   (refuted)
   pp_unsorted_apps_refuted      the mixin chain of PostProps, inside this model                                    (refuted)
   pp_order_independent_iff      independence <-> both loops sorted
   pp_unsorted_views_partial     the map-ordered view loop is still harmless for a module in which no application holds
                                 a view with statements (nothing to infer)                                           (partial)
   embed_post                    on modules without views this model IS Conc/Post.v (nothing of the old model is lost)
   parser_reuse_refuted          a second compilation of the same source with the same parse.Parser value gives another
                                 module: the `let` keys of the first are still in p.LetTypes                         (refuted)
   parser_reuse_partial          ... unless no `let` of a view has an untyped nested transform under it             (partial)
   per_view_counter_collides / per_app_counter_separates   (tests by vm_compute) *)
From Coq Require Import List NArith Bool Permutation.
Import ListNotations.
Require Import Verif.Conc.Post Verif.Conc.PostProps Verif.Conc.Infer.
Local Open Scope N_scope.

Lemma fold_left_ext {A B} (f g:A -> B -> A) (l:list B) : (forall a b, f a b = g a b) -> forall a, fold_left f l a = fold_left g l a.
Proof. intros H. induction l as [|b l IH]; intros a; cbn [fold_left]; [reflexivity|]. rewrite H. apply IH. Qed.

Lemma fold_left_ext_in {A B} (f g:A -> B -> A) (l:list B) :
  (forall a b, In b l -> f a b = g a b) -> forall a, fold_left f l a = fold_left g l a.
Proof.
  induction l as [|b l IH]; intros H a; cbn [fold_left]; [reflexivity|].
  rewrite (H a b (or_introl eq_refl)). apply IH. intros a' b' Hin. apply H. right. exact Hin.
Qed.

(* the shape both loops of the current source have - collect the keys, sort them, walk the slice - for ANY loop body and
   ANY state: whatever the body reads of other applications (mixin sources, fixTypeRefScope's look-ups, shared view objects,
   the parser's maps), the result does not depend on the order the map gave its keys in *)
Theorem sorted_loop_order_independent {S:Type} (body:S -> N -> S) (s:S) (keys:list N) ord1 ord2 :
  map_order ord1 -> map_order ord2 -> fold_left body (isort (ord1 keys)) s = fold_left body (isort (ord2 keys)) s.
Proof.
  intros H1 H2. f_equal. apply isort_perm_eq. eapply Permutation_trans; [apply H1|]. apply Permutation_sym. apply H2.
Qed.

Definition vmap_order (ordV:N -> list N -> list N) : Prop := forall n, map_order (ordV n).

(* the two loops only see their oracles through view_order / app_order *)
Lemma infer_app_ext fl ordV1 ordV2 st a :
  (forall n l, view_order (f_sorted_views fl) ordV1 n l = view_order (f_sorted_views fl) ordV2 n l) ->
  infer_app fl ordV1 st a = infer_app fl ordV2 st a.
Proof. intros H. unfold infer_app. rewrite H. reflexivity. Qed.

Lemma app_step_ext fl ordV1 ordV2 :
  (forall n l, view_order (f_sorted_views fl) ordV1 n l = view_order (f_sorted_views fl) ordV2 n l) ->
  forall st n, app_step fl ordV1 st n = app_step fl ordV2 st n.
Proof. intros H st n. unfold app_step. destruct (ilookup (p_mod st) n); [|reflexivity]. apply infer_app_ext. exact H. Qed.

Lemma view_order_sorted ordV1 ordV2 : vmap_order ordV1 -> vmap_order ordV2 ->
  forall n l, view_order true ordV1 n l = view_order true ordV2 n l.
Proof.
  intros H1 H2 n l. unfold view_order. apply isort_perm_eq.
  eapply Permutation_trans; [apply H1|]. apply Permutation_sym. apply H2.
Qed.

Lemma app_order_sorted ordA1 ordA2 m : map_order ordA1 -> map_order ordA2 -> app_order true ordA1 m = app_order true ordA2 m.
Proof.
  intros H1 H2. unfold app_order. apply isort_perm_eq.
  eapply Permutation_trans; [apply H1|]. apply Permutation_sym. apply H2.
Qed.

Theorem pp_from_order_independent fl m ordA1 ordA2 ordV1 ordV2 lets0 msgs0 :
  f_sorted_apps fl = true -> f_sorted_views fl = true ->
  map_order ordA1 -> map_order ordA2 -> vmap_order ordV1 -> vmap_order ordV2 ->
  pp_from fl ordA1 ordV1 lets0 msgs0 m = pp_from fl ordA2 ordV2 lets0 msgs0 m.
Proof.
  intros Ha Hv HA1 HA2 HV1 HV2. unfold pp_from. rewrite Ha. rewrite (app_order_sorted ordA1 ordA2 m HA1 HA2).
  apply fold_left_ext. apply app_step_ext. rewrite Hv. apply view_order_sorted; assumption.
Qed.

Theorem pp_order_independent fl m ordA1 ordA2 ordV1 ordV2 lets0 :
  f_sorted_apps fl = true -> f_sorted_views fl = true ->
  map_order ordA1 -> map_order ordA2 -> vmap_order ordV1 -> vmap_order ordV2 ->
  pp fl ordA1 ordV1 lets0 m = pp fl ordA2 ordV2 lets0 m.
Proof. intros. unfold pp. apply pp_from_order_independent; assumption. Qed.

(* ---------- refutations ---------- *)
(* one application (1) with two views (1, 2); each assigns one untyped nested transform (payloads 11, 12) *)
Definition two_views : imodule :=
  [ {| i_name := 1; i_mem := [];
       i_views := [ {| v_name := 1; v_id := 1; v_abs := false; v_stmts := [(None, [11])] |};
                    {| v_name := 2; v_id := 2; v_abs := false; v_stmts := [(None, [12])] |} ];
       i_mix := []; i_refs := [] |} ].

Definition vid (n:N) (l:list N) : list N := l.
Definition vrev (n:N) (l:list N) : list N := rev l.
Lemma vmap_order_id : vmap_order vid.
Proof. intros n l. apply Permutation_refl. Qed.
Lemma vmap_order_rev : vmap_order vrev.
Proof. intros n l. apply Permutation_sym. apply Permutation_rev. Qed.

(* what the two orders give with the counter of the unrepaired source (per view): ONE type, and whose it is depends on
   the order; with a counter per application: two types whose names are swapped *)
Example two_views_forward :
  map i_mem (p_mod (pp {| f_sorted_apps := true; f_sorted_views := false; f_per_app := false |} (fun l => l) vid [] two_views))
  = [[(1000, 12)]].
Proof. reflexivity. Qed.
Example two_views_backward :
  map i_mem (p_mod (pp {| f_sorted_apps := true; f_sorted_views := false; f_per_app := false |} (fun l => l) vrev [] two_views))
  = [[(1000, 11)]].
Proof. reflexivity. Qed.

Theorem pp_unsorted_views_refuted : forall sa pa, exists m ordA ordV1 ordV2, map_order ordA /\ vmap_order ordV1 /\ vmap_order ordV2 /\
  p_mod (pp {| f_sorted_apps := sa; f_sorted_views := false; f_per_app := pa |} ordA ordV1 [] m) <>
  p_mod (pp {| f_sorted_apps := sa; f_sorted_views := false; f_per_app := pa |} ordA ordV2 [] m).
Proof.
  intros sa pa. exists two_views, (fun l => l), vid, vrev.
  split; [exact map_order_id|]. split; [exact vmap_order_id|]. split; [exact vmap_order_rev|].
  destruct sa, pa; vm_compute; discriminate.
Qed.

Theorem pp_unsorted_apps_refuted : forall sv pa, exists m ordA1 ordA2 ordV, map_order ordA1 /\ map_order ordA2 /\ vmap_order ordV /\
  p_mod (pp {| f_sorted_apps := false; f_sorted_views := sv; f_per_app := pa |} ordA1 ordV [] m) <>
  p_mod (pp {| f_sorted_apps := false; f_sorted_views := sv; f_per_app := pa |} ordA2 ordV [] m).
Proof.
  intros sv pa. exists (embed chain), (fun l => l), (@rev N), vid.
  split; [exact map_order_id|]. split; [exact map_order_rev|]. split; [exact vmap_order_id|].
  destruct sv, pa; vm_compute; discriminate.
Qed.

Theorem pp_order_independent_iff fl :
  (forall m ordA1 ordA2 ordV1 ordV2 lets0, map_order ordA1 -> map_order ordA2 -> vmap_order ordV1 -> vmap_order ordV2 ->
     pp fl ordA1 ordV1 lets0 m = pp fl ordA2 ordV2 lets0 m)
  <-> f_sorted_apps fl = true /\ f_sorted_views fl = true.
Proof.
  split.
  - intros H. destruct fl as [sa sv pa]. cbn [f_sorted_apps f_sorted_views]. destruct sa.
    + destruct sv; [split; reflexivity|]. exfalso.
      destruct (pp_unsorted_views_refuted true pa) as [m [oA [o1 [o2 [HA [H1 [H2 Hne]]]]]]].
      apply Hne. rewrite (H m oA oA o1 o2 [] HA HA H1 H2). reflexivity.
    + exfalso. destruct (pp_unsorted_apps_refuted sv pa) as [m [o1 [o2 [oV [H1 [H2 [HV Hne]]]]]]].
      apply Hne. rewrite (H m o1 o2 oV oV [] H1 H2 HV HV). reflexivity.
  - intros [Ha Hv] m ordA1 ordA2 ordV1 ordV2 lets0. apply pp_order_independent; assumption.
Qed.

(* ---------- the strongest statement that survives the map-ordered view loop: nothing to infer ---------- *)
Definition no_stmts (v:vrec) : Prop := v_stmts v = [].
Definition quiet (m:imodule) : Prop := forall a, In a m -> Forall no_stmts (i_views a).

Lemma view_step_quiet pa app a v : no_stmts v -> c_cnt a = 0 -> view_step pa app a v = a.
Proof.
  intros Hq Hc. unfold view_step. destruct (v_abs v); [reflexivity|]. rewrite Hq. cbn [fold_left].
  destruct a as [c me ty le ms]. cbn [c_cnt c_mem c_typed c_lets c_msgs] in *. subst c. destruct pa; reflexivity.
Qed.

Lemma find_view_in l n v : find_view l n = Some v -> In v l.
Proof.
  induction l as [|w l IH]; cbn [find_view]; [discriminate|].
  destruct (N.eqb (v_name w) n); [intros [= ->]; left; reflexivity|intros H; right; apply IH; exact H].
Qed.

Lemma infer_fold_quiet pa app views order a : Forall no_stmts views -> c_cnt a = 0 ->
  fold_left (fun acc0 n => match find_view views n with Some v => view_step pa app acc0 v | None => acc0 end) order a = a.
Proof.
  intros Hq. revert a. induction order as [|n order IH]; intros a Hc; cbn [fold_left]; [reflexivity|].
  destruct (find_view views n) as [v|] eqn:Hf; [|apply IH; exact Hc].
  rewrite view_step_quiet; [apply IH; exact Hc| |exact Hc].
  rewrite Forall_forall in Hq. apply Hq. eapply find_view_in. exact Hf.
Qed.

Lemma infer_app_quiet fl ordV1 ordV2 st a : Forall no_stmts (i_views a) -> infer_app fl ordV1 st a = infer_app fl ordV2 st a.
Proof. intros Hq. unfold infer_app. rewrite !infer_fold_quiet by (exact Hq || reflexivity). reflexivity. Qed.

Lemma ilookup_in m n a : ilookup m n = Some a -> In a m.
Proof.
  induction m as [|b m IH]; cbn [ilookup]; [discriminate|].
  destruct (N.eqb (i_name b) n); [intros [= ->]; left; reflexivity|intros H; right; apply IH; exact H].
Qed.

Lemma add_missing_views_quiet src : forall dst, Forall no_stmts dst -> Forall no_stmts src -> Forall no_stmts (add_missing_views dst src).
Proof.
  induction src as [|v src IH]; intros dst Hd Hs; cbn [add_missing_views]; [exact Hd|].
  inversion Hs as [|? ? Hv Hs']; subst. apply IH; [|exact Hs'].
  destruct (has_view (v_name v) dst); [exact Hd|]. apply Forall_app. split; [exact Hd|]. constructor; [exact Hv|constructor].
Qed.

Lemma imix_fold_quiet m mix : quiet m -> forall a, Forall no_stmts (i_views a) ->
  Forall no_stmts (i_views (fold_left (imix_one m) mix a)).
Proof.
  intros Hm. induction mix as [|s mix IH]; intros a Ha; cbn [fold_left]; [exact Ha|].
  apply IH. unfold imix_one. destruct (ilookup m s) as [b|] eqn:Hl; [|exact Ha].
  cbn [i_views]. apply add_missing_views_quiet; [exact Ha|]. apply Hm. eapply ilookup_in. exact Hl.
Qed.

Lemma iupdate_in m a' b : In b (iupdate m a') -> b = a' \/ In b m.
Proof.
  induction m as [|a m IH]; cbn [iupdate]; [intros []|].
  destruct (N.eqb (i_name a) (i_name a')).
  - intros [<-|H]; [left; reflexivity|right; right; exact H].
  - intros [<-|H]; [right; left; reflexivity|]. destruct (IH H) as [->|H']; [left; reflexivity|right; right; exact H'].
Qed.

Lemma iupdate_quiet m a' : quiet m -> Forall no_stmts (i_views a') -> quiet (iupdate m a').
Proof. intros Hm Ha b Hb. destruct (iupdate_in m a' b Hb) as [->|H]; [exact Ha|apply Hm; exact H]. Qed.

Lemma app_step_quiet fl ordV1 ordV2 st n : quiet (p_mod st) ->
  app_step fl ordV1 st n = app_step fl ordV2 st n /\ quiet (p_mod (app_step fl ordV1 st n)).
Proof.
  intros Hq. unfold app_step. destruct (ilookup (p_mod st) n) as [a|] eqn:Hl; [|split; [reflexivity|exact Hq]].
  assert (Ha : Forall no_stmts (i_views a)) by (apply Hq; eapply ilookup_in; exact Hl).
  pose proof (imix_fold_quiet (p_mod st) (i_mix a) Hq a Ha) as H1.
  split; [apply infer_app_quiet; exact H1|].
  unfold infer_app. cbn [p_mod]. apply iupdate_quiet; [apply iupdate_quiet; assumption|]. cbn [i_views]. exact H1.
Qed.

Theorem pp_unsorted_views_partial fl ordA ordV1 ordV2 lets0 m : quiet m ->
  pp fl ordA ordV1 lets0 m = pp fl ordA ordV2 lets0 m.
Proof.
  intros Hq. unfold pp, pp_from.
  set (st := {| p_mod := m; p_typed := []; p_lets := lets0; p_msgs := [] |}).
  assert (Hs : quiet (p_mod st)) by exact Hq. clearbody st. clear Hq.
  revert st Hs. induction (app_order (f_sorted_apps fl) ordA m) as [|n order IH]; intros st Hs; cbn [fold_left]; [reflexivity|].
  destruct (app_step_quiet fl ordV1 ordV2 st n Hs) as [He Hq']. rewrite <- He. apply IH. exact Hq'.
Qed.

(* ---------- on modules without views this model is Conc/Post.v ---------- *)
Definition embed_app (a:sapp) : iapp := {| i_name := a_name a; i_mem := a_mem a; i_views := []; i_mix := a_mix a; i_refs := [] |}.

Lemma ilookup_embed m n : ilookup (embed m) n = option_map embed_app (lookup_app m n).
Proof.
  induction m as [|a m IH]; cbn [embed map ilookup lookup_app option_map]; [reflexivity|].
  cbn [i_name]. destruct (N.eqb (a_name a) n); [reflexivity|exact IH].
Qed.

Lemma iupdate_embed m a : iupdate (embed m) (embed_app a) = embed (update_app m a).
Proof.
  induction m as [|b m IH]; cbn [embed map iupdate update_app]; [reflexivity|].
  cbn [i_name embed_app]. destruct (N.eqb (a_name b) (a_name a)); [reflexivity|]. cbn [map]. f_equal. exact IH.
Qed.

Lemma imix_one_embed m a s : imix_one (embed m) (embed_app a) s = embed_app (mix_one m a s).
Proof.
  unfold imix_one, mix_one. rewrite ilookup_embed. destruct (lookup_app m s) as [b|]; cbn [option_map]; [|reflexivity].
  unfold embed_app. cbn [i_name i_mem i_views i_mix a_name a_mem a_mix add_missing_views]. reflexivity.
Qed.

Lemma imix_fold_embed m mix : forall a, fold_left (imix_one (embed m)) mix (embed_app a) = embed_app (fold_left (mix_one m) mix a).
Proof. induction mix as [|s mix IH]; intros a; cbn [fold_left]; [reflexivity|]. rewrite imix_one_embed. apply IH. Qed.

Lemma iupdate_idem m a : iupdate (iupdate m a) a = iupdate m a.
Proof.
  induction m as [|b m IH]; cbn [iupdate]; [reflexivity|].
  destruct (N.eqb (i_name b) (i_name a)) eqn:He; cbn [iupdate].
  - rewrite N.eqb_refl. reflexivity.
  - rewrite He. f_equal. exact IH.
Qed.

Lemma update_app_idem m a : update_app (update_app m a) a = update_app m a.
Proof.
  induction m as [|b m IH]; cbn [update_app]; [reflexivity|].
  destruct (N.eqb (a_name b) (a_name a)) eqn:He; cbn [update_app].
  - rewrite N.eqb_refl. reflexivity.
  - rewrite He. f_equal. exact IH.
Qed.

Lemma field_refs_embed m c : field_refs (embed m) c = [].
Proof.
  unfold field_refs. induction (i_mem c) as [|e l IH]; cbn [flat_map]; [reflexivity|].
  rewrite IH. rewrite ilookup_embed. destruct (lookup_app m (snd e)); reflexivity.
Qed.

Lemma app_step_embed fl ordV m ty le ms lo n :
  app_step fl ordV {| p_mod := embed m; p_typed := ty; p_lets := le; p_msgs := ms; p_local := lo |} n =
  {| p_mod := embed (post_app m n); p_typed := ty; p_lets := le; p_msgs := ms; p_local := lo |}.
Proof.
  unfold app_step, post_app. cbn [p_mod p_typed p_lets p_msgs p_local]. rewrite ilookup_embed.
  destruct (lookup_app m n) as [a|]; cbn [option_map]; [|reflexivity].
  cbn [embed_app i_mix i_refs filter fold_left].
  change {| i_name := a_name a; i_mem := a_mem a; i_views := []; i_mix := a_mix a; i_refs := [] |} with (embed_app a).
  rewrite imix_fold_embed. set (a1 := fold_left (mix_one m) (a_mix a) a).
  rewrite iupdate_embed. rewrite field_refs_embed. cbn [fold_left].
  unfold infer_app. cbn [p_mod p_typed p_lets p_msgs p_local embed_app i_views i_name i_mem i_mix i_refs map].
  assert (Hf : forall order acc0, fold_left (fun (acc1:acc) (n0:N) => match find_view [] n0 with Some v => view_step (f_per_app fl) (a_name a1) acc1 v | None => acc1 end) order acc0 = acc0).
  { induction order as [|x order IH]; intros acc0; cbn [fold_left find_view]; [reflexivity|apply IH]. }
  rewrite Hf. cbn [c_mem c_typed c_lets c_msgs].
  change {| i_name := a_name a1; i_mem := a_mem a1; i_views := []; i_mix := a_mix a1; i_refs := [] |} with (embed_app a1).
  rewrite iupdate_embed. rewrite update_app_idem. reflexivity.
Qed.

Theorem embed_post fl ordA ordV lets0 m :
  pp fl ordA ordV lets0 (embed m) =
  {| p_mod := embed (post_process (f_sorted_apps fl) ordA m); p_typed := []; p_lets := lets0; p_msgs := []; p_local := [] |}.
Proof.
  unfold pp, pp_from, post_process, post.
  assert (Ho : app_order (f_sorted_apps fl) ordA (embed m) = post_order (f_sorted_apps fl) ordA m).
  { unfold app_order, post_order, inames, names, embed. rewrite map_map. cbn [i_name]. reflexivity. }
  rewrite Ho. clear Ho. generalize (post_order (f_sorted_apps fl) ordA m) as order. generalize (@nil (N * (N * N))) as ty.
  intros ty order. revert m. induction order as [|n order IH]; intros m; cbn [fold_left]; [reflexivity|].
  rewrite app_step_embed. apply IH.
Qed.

Lemma project_embed m : project (embed m) = m.
Proof.
  unfold project, embed. rewrite map_map. cbn [i_name i_mem i_mix]. induction m as [|a m IH]; cbn [map]; [reflexivity|].
  rewrite IH. destruct a; reflexivity.
Qed.

Corollary embed_post_project fl ordA ordV lets0 m :
  project (p_mod (pp fl ordA ordV lets0 (embed m))) = post_process (f_sorted_apps fl) ordA m.
Proof. rewrite embed_post. cbn [p_mod]. apply project_embed. Qed.

(* ---------- one parse.Parser value used for two compilations ---------- *)
(* application 1, view 1: `let x = <untyped nested transform 11>` (scope key 5) *)
Definition one_let : imodule :=
  [ {| i_name := 1; i_mem := [];
       i_views := [ {| v_name := 1; v_id := 1; v_abs := false; v_stmts := [(Some 5, [11])] |} ]; i_mix := []; i_refs := [] |} ].

Example one_let_fresh : forall fl, map i_mem (p_mod (compile_fresh fl (fun l => l) vid one_let)) = [[(1000, 11)]].
Proof. intros [[] [] []]; reflexivity. Qed.
Example one_let_again : forall fl, map i_mem (p_mod (compile_again fl (fun l => l) vid one_let)) = [[]].
Proof. intros [[] [] []]; reflexivity. Qed.

Theorem parser_reuse_refuted : forall fl, exists m ordA ordV, map_order ordA /\ vmap_order ordV /\
  p_mod (compile_again fl ordA ordV m) <> p_mod (compile_fresh fl ordA ordV m).
Proof.
  intros fl. exists one_let, (fun l => l), vid. split; [exact map_order_id|]. split; [exact vmap_order_id|].
  destruct fl as [[] [] []]; vm_compute; discriminate.
Qed.

(* a compilation that owns its parser starts from empty LetTypes whatever happened to other parsers: compile_fresh takes no
   parser state at all (its definition), so there is nothing to prove for parsers that are not shared *)

(* partial: lets without untyped nested transforms under them (every `let` of every view has no payload) *)
Definition plain_let (s:vstmt) : Prop := fst s <> None -> snd s = [].
Definition plain_view (v:vrec) : Prop := Forall plain_let (v_stmts v).
Definition plain (m:imodule) : Prop := forall a, In a m -> Forall plain_view (i_views a).

(* two accumulators that agree on everything except the let keys *)
Definition same_but_lets (a b:acc) : Prop := c_cnt a = c_cnt b /\ c_mem a = c_mem b /\ c_typed a = c_typed b.

Lemma anon_fold_same app ps : forall a b, same_but_lets a b -> same_but_lets (fold_left (anon_step app) ps a) (fold_left (anon_step app) ps b).
Proof.
  induction ps as [|p ps IH]; intros a b H; cbn [fold_left]; [exact H|]. apply IH.
  destruct H as [Hc [Hm Ht]]. unfold anon_step. rewrite Ht. destruct (is_typed p (c_typed b)).
  - repeat split; assumption.
  - unfold same_but_lets. cbn [c_cnt c_mem c_typed]. rewrite Hc, Hm. repeat split; reflexivity.
Qed.

Lemma stmt_step_same app vn s a b : plain_let s -> same_but_lets a b -> same_but_lets (stmt_step app vn a s) (stmt_step app vn b s).
Proof.
  intros Hp H. destruct s as [[k|] ps]; cbn [stmt_step].
  - assert (Hps : ps = []) by (apply Hp; cbn; discriminate). subst ps. cbn [fold_left].
    destruct H as [Hc [Hm Ht]].
    destruct (mem_N k (c_lets a)), (mem_N k (c_lets b)); unfold same_but_lets; cbn [c_cnt c_mem c_typed]; repeat split; assumption.
  - apply anon_fold_same. exact H.
Qed.

Lemma stmts_fold_same app vn ss : Forall plain_let ss -> forall a b, same_but_lets a b ->
  same_but_lets (fold_left (stmt_step app vn) ss a) (fold_left (stmt_step app vn) ss b).
Proof.
  induction 1 as [|s ss Hs _ IH]; intros a b H; cbn [fold_left]; [exact H|]. apply IH. apply stmt_step_same; assumption.
Qed.

Lemma view_step_same pa app v a b : plain_view v -> same_but_lets a b -> same_but_lets (view_step pa app a v) (view_step pa app b v).
Proof.
  intros Hv H. unfold view_step. destruct (v_abs v); [exact H|]. apply stmts_fold_same; [exact Hv|].
  destruct H as [Hc [Hm Ht]]. unfold same_but_lets. cbn [c_cnt c_mem c_typed]. rewrite Hc. repeat split; assumption.
Qed.

Lemma infer_fold_same pa app views order : Forall plain_view views -> forall a b, same_but_lets a b ->
  same_but_lets (fold_left (fun acc0 n => match find_view views n with Some v => view_step pa app acc0 v | None => acc0 end) order a)
                (fold_left (fun acc0 n => match find_view views n with Some v => view_step pa app acc0 v | None => acc0 end) order b).
Proof.
  intros Hq. induction order as [|n order IH]; intros a b H; cbn [fold_left]; [exact H|]. apply IH.
  destruct (find_view views n) as [v|] eqn:Hf; [|exact H]. apply view_step_same; [|exact H].
  rewrite Forall_forall in Hq. apply Hq. eapply find_view_in. exact Hf.
Qed.

(* states that agree on module and typed transforms *)
Definition same_state (s t:pstate) : Prop := p_mod s = p_mod t /\ p_typed s = p_typed t.

Lemma add_missing_views_plain src : forall dst, Forall plain_view dst -> Forall plain_view src -> Forall plain_view (add_missing_views dst src).
Proof.
  induction src as [|v src IH]; intros dst Hd Hs; cbn [add_missing_views]; [exact Hd|].
  inversion Hs as [|? ? Hv Hs']; subst. apply IH; [|exact Hs'].
  destruct (has_view (v_name v) dst); [exact Hd|]. apply Forall_app. split; [exact Hd|]. constructor; [exact Hv|constructor].
Qed.

Lemma imix_fold_plain m mix : plain m -> forall a, Forall plain_view (i_views a) ->
  Forall plain_view (i_views (fold_left (imix_one m) mix a)).
Proof.
  intros Hm. induction mix as [|s mix IH]; intros a Ha; cbn [fold_left]; [exact Ha|].
  apply IH. unfold imix_one. destruct (ilookup m s) as [b|] eqn:Hl; [|exact Ha].
  cbn [i_views]. apply add_missing_views_plain; [exact Ha|]. apply Hm. eapply ilookup_in. exact Hl.
Qed.

Lemma iupdate_plain m a' : plain m -> Forall plain_view (i_views a') -> plain (iupdate m a').
Proof. intros Hm Ha b Hb. destruct (iupdate_in m a' b Hb) as [->|H]; [exact Ha|apply Hm; exact H]. Qed.

Lemma app_step_same fl ordV s t n : plain (p_mod s) -> same_state s t ->
  same_state (app_step fl ordV s n) (app_step fl ordV t n) /\ plain (p_mod (app_step fl ordV s n)).
Proof.
  intros Hp [Hm Ht]. unfold app_step. rewrite <- Hm.
  destruct (ilookup (p_mod s) n) as [a|] eqn:Hl; [|split; [split; assumption|exact Hp]].
  assert (Ha : Forall plain_view (i_views a)) by (apply Hp; eapply ilookup_in; exact Hl).
  pose proof (imix_fold_plain (p_mod s) (i_mix a) Hp a Ha) as H1.
  set (a1 := fold_left (imix_one (p_mod s)) (i_mix a) a) in *.
  unfold infer_app. cbn [p_mod p_typed p_lets p_msgs].
  match goal with |- same_state {| p_mod := iupdate _ {| i_name := _; i_mem := c_mem ?r1; i_views := _; i_mix := _ |}; p_typed := _; p_lets := _; p_msgs := _ |}
                              {| p_mod := iupdate _ {| i_name := _; i_mem := c_mem ?r2; i_views := _; i_mix := _ |}; p_typed := _; p_lets := _; p_msgs := _ |} /\ _ =>
    assert (Hr : same_but_lets r1 r2) end.
  { apply infer_fold_same; [exact H1|]. unfold same_but_lets. cbn [c_cnt c_mem c_typed]. rewrite Ht. repeat split; reflexivity. }
  destruct Hr as [_ [Hrm Hrt]].
  split.
  - unfold same_state. cbn [p_mod p_typed]. rewrite Hrm, Hrt. split; reflexivity.
  - apply iupdate_plain; [apply iupdate_plain; assumption|]. cbn [i_views]. exact H1.
Qed.

Theorem parser_state_irrelevant_partial fl ordA ordV lets1 msgs1 lets2 msgs2 m : plain m ->
  p_mod (pp_from fl ordA ordV lets1 msgs1 m) = p_mod (pp_from fl ordA ordV lets2 msgs2 m) /\
  p_typed (pp_from fl ordA ordV lets1 msgs1 m) = p_typed (pp_from fl ordA ordV lets2 msgs2 m).
Proof.
  intros Hp. unfold pp_from.
  set (s := {| p_mod := m; p_typed := []; p_lets := lets1; p_msgs := msgs1 |}). set (t := {| p_mod := m; p_typed := []; p_lets := lets2; p_msgs := msgs2 |}).
  assert (Hs : plain (p_mod s)) by exact Hp. assert (Hst : same_state s t) by (split; reflexivity).
  clearbody s t. clear Hp.
  revert s t Hs Hst. induction (app_order (f_sorted_apps fl) ordA m) as [|n order IH]; intros s t Hs Hst; cbn [fold_left]; [exact Hst|].
  destruct (app_step_same fl ordV s t n Hs Hst) as [H1 H2]. apply IH; assumption.
Qed.

Theorem parser_reuse_partial fl ordA ordV lets1 lets2 m : plain m ->
  p_mod (pp fl ordA ordV lets1 m) = p_mod (pp fl ordA ordV lets2 m) /\
  p_typed (pp fl ordA ordV lets1 m) = p_typed (pp fl ordA ordV lets2 m).
Proof. intros Hp. unfold pp. apply parser_state_irrelevant_partial. exact Hp. Qed.

Corollary parser_reuse_harmless_without_let_transforms fl ordA ordV m : plain m ->
  p_mod (compile_again fl ordA ordV m) = p_mod (compile_fresh fl ordA ordV m).
Proof. intros Hp. unfold compile_again, compile_fresh. apply (parser_reuse_partial fl ordA ordV _ [] m Hp). Qed.

(* the hypothesis is met by a module that does have views, assignments with untyped transforms and lets *)
Definition plain_demo : imodule :=
  [ {| i_name := 1; i_mem := [(3, 1)];
       i_views := [ {| v_name := 1; v_id := 1; v_abs := false; v_stmts := [(None, [11; 12]); (Some 5, [])] |} ]; i_mix := []; i_refs := [] |} ].
Example plain_demo_is_plain : plain plain_demo.
Proof.
  intros a [<-|[]]. cbn [i_views]. repeat constructor; cbn; try discriminate; intros H; try reflexivity; exfalso; apply H; reflexivity.
Qed.
Example plain_demo_nontrivial : map i_mem (p_mod (compile_fresh {| f_sorted_apps := true; f_sorted_views := true; f_per_app := true |} (fun l => l) vid plain_demo))
  = [[(3, 1); (1000, 11); (1001, 12)]].
Proof. reflexivity. Qed.

(* ---------- the counter (tests by vm_compute, not theorems) ---------- *)
(* sorted views, counter per view (the unrepaired source): deterministic, but the second view's type replaces the first's *)
Example per_view_counter_collides :
  map i_mem (p_mod (pp {| f_sorted_apps := true; f_sorted_views := true; f_per_app := false |} (fun l => l) vrev [] two_views)) = [[(1000, 12)]].
Proof. reflexivity. Qed.
Example per_app_counter_separates :
  map i_mem (p_mod (pp {| f_sorted_apps := true; f_sorted_views := true; f_per_app := true |} (fun l => l) vrev [] two_views)) = [[(1000, 11); (1001, 12)]].
Proof. reflexivity. Qed.

(* ====================================================================================================================
   Second pass: Parser.Parse makes the accumulators fresh (fixes/C07-5) - the life of one parse.Parser value.

   reused_parser_is_fresh            resets: calls made one after another - on any parser, whatever it compiled before - each
                                     return what a parser of its own returns and leave in the parser (LetTypes keys, Messages:
                                     what GetLets / GetMessages show) what a fresh parser would hold                     (full)
   parser_reuse_iff_reset            a call is independent of the parser's past  <->  Parse resets
   parser_reuse_without_reset_refuted   the source before the repair: second compilation of the same text differs   (refuted)
   shared_parser_interleaved_refuted calls of several goroutines on ONE parser whose reset and post-processing interleave
                                     (Reset 1, Reset 2, Post 1, Post 2): the second sees the let keys of the first - with the
                                     reset too                                                                       (refuted)
   shared_parser_partial             ... harmless under every schedule, with or without reset, when no `let` has an untyped
                                     nested transform under it                                                       (partial)
   run_sched_order_independent       both loops sorted: a parser's whole life does not depend on map iteration orders  (full)
   ==================================================================================================================== *)
Definition posts (sched:list pev) : list N := flat_map (fun e => match e with EPost g => [g] | EReset _ => [] end) sched.

Lemma sequential_ind2 (P:list pev -> Prop) :
  P [] -> (forall g rest, sequential rest = true -> P rest -> P (EReset g :: EPost g :: rest)) ->
  forall s, sequential s = true -> P s.
Proof.
  intros H0 H2. fix IH 1. intros [|[g|g] [|[g'|g'] rest]]; cbn [sequential]; try discriminate.
  - intros _. exact H0.
  - intros H. apply andb_prop in H. destruct H as [Hg Hr]. apply N.eqb_eq in Hg. subst g'.
    apply H2; [exact Hr|apply IH; exact Hr].
Qed.

Lemma last_cons_default (l:list N) : forall x d, last (x :: l) d = last l x.
Proof.
  induction l as [|y l IH]; intros x d; [reflexivity|].
  change (last (x :: y :: l) d) with (last (y :: l) d). rewrite IH. symmetry. apply IH.
Qed.

Lemma parse_resets_fresh fl ordA ordV ps m : parse true fl ordA ordV ps m = compile_fresh fl ordA ordV m.
Proof. reflexivity. Qed.

Lemma sequential_fold fl ordA ordV mods sched : sequential sched = true -> forall ps res0,
  fold_left (ev_step true fl ordA ordV mods) sched (ps, res0) =
  (match posts sched with
   | [] => ps
   | g :: gs => parser_after (compile_fresh fl ordA ordV (mods (last gs g)))
   end,
   res0 ++ map (fun g => (g, compile_fresh fl ordA ordV (mods g))) (posts sched)).
Proof.
  intros Hs. pattern sched. revert sched Hs. apply sequential_ind2.
  - intros ps res0. cbn [fold_left posts flat_map map]. rewrite app_nil_r. reflexivity.
  - intros g rest Hr IH ps res0. cbn [fold_left ev_step fst snd]. rewrite IH.
    change (posts (EReset g :: EPost g :: rest)) with (g :: posts rest). cbn [map].
    change (pp_from fl ordA ordV (ps_lets new_parser) (ps_msgs new_parser) (mods g)) with (compile_fresh fl ordA ordV (mods g)).
    rewrite <- app_assoc. cbn [app]. f_equal.
    destruct (posts rest) as [|g1 gs]; [reflexivity|]. rewrite last_cons_default. reflexivity.
Qed.

Theorem reused_parser_is_fresh fl ordA ordV mods ps sched : sequential sched = true ->
  snd (run_sched true fl ordA ordV mods ps sched) = map (fun g => (g, compile_fresh fl ordA ordV (mods g))) (posts sched) /\
  fst (run_sched true fl ordA ordV mods ps sched) =
    match posts sched with [] => ps | g :: gs => parser_after (compile_fresh fl ordA ordV (mods (last gs g))) end.
Proof. intros Hs. unfold run_sched. rewrite (sequential_fold fl ordA ordV mods sched Hs). cbn [fst snd app]. split; reflexivity. Qed.

(* the form for one source compiled again and again, and for a list of sources *)
Lemma seq_sched_sequential gs : sequential (seq_sched gs) = true.
Proof. induction gs as [|g gs IH]; [reflexivity|]. cbn [seq_sched flat_map app sequential]. rewrite N.eqb_refl. exact IH. Qed.
Lemma posts_seq_sched gs : posts (seq_sched gs) = gs.
Proof.
  induction gs as [|g gs IH]; [reflexivity|]. change (seq_sched (g :: gs)) with (EReset g :: EPost g :: seq_sched gs).
  change (posts (EReset g :: EPost g :: seq_sched gs)) with (g :: posts (seq_sched gs)). f_equal. exact IH.
Qed.

Corollary reused_parser_chain fl ordA ordV mods ps gs :
  snd (run_sched true fl ordA ordV mods ps (seq_sched gs)) = map (fun g => (g, compile_fresh fl ordA ordV (mods g))) gs.
Proof.
  pose proof (seq_sched_sequential gs) as Hs. pose proof (posts_seq_sched gs) as Hp.
  rewrite (proj1 (reused_parser_is_fresh fl ordA ordV mods ps _ Hs)). rewrite Hp. reflexivity.
Qed.

(* hypotheses met by a non-trivial input: three calls, the second on the module whose second compilation went wrong *)
Example sequential_demo : sequential (seq_sched [1; 2; 1]) = true /\ posts (seq_sched [1; 2; 1]) = [1; 2; 1].
Proof. split; reflexivity. Qed.

Theorem parser_reuse_without_reset_refuted : forall fl, exists m ordA ordV, map_order ordA /\ vmap_order ordV /\
  p_mod (parse false fl ordA ordV (parser_after (compile_fresh fl ordA ordV m)) m) <> p_mod (compile_fresh fl ordA ordV m).
Proof.
  intros fl. exists one_let, (fun l => l), vid. split; [exact map_order_id|]. split; [exact vmap_order_id|].
  destruct fl as [[] [] []]; vm_compute; discriminate.
Qed.

(* tests by vm_compute: what the second compilation leaves in the parser without the reset (one message, the key once) and
   with it *)
Example one_let_again_state : forall fl,
  parser_after (parse false fl (fun l => l) vid (parser_after (compile_fresh fl (fun l => l) vid one_let)) one_let)
  = {| ps_lets := [5]; ps_msgs := [(1, 5)] |}.
Proof. intros [[] [] []]; reflexivity. Qed.
Example one_let_again_state_reset : forall fl,
  parser_after (parse true fl (fun l => l) vid (parser_after (compile_fresh fl (fun l => l) vid one_let)) one_let)
  = {| ps_lets := [5]; ps_msgs := [] |}.
Proof. intros [[] [] []]; reflexivity. Qed.

Theorem parser_reuse_iff_reset resets :
  (forall fl ordA ordV ps m, map_order ordA -> vmap_order ordV ->
     p_mod (parse resets fl ordA ordV ps m) = p_mod (compile_fresh fl ordA ordV m)) <-> resets = true.
Proof.
  split.
  - intros H. destruct resets; [reflexivity|]. exfalso.
    set (fl := {| f_sorted_apps := true; f_sorted_views := true; f_per_app := true |}).
    destruct (parser_reuse_without_reset_refuted fl) as [m [oA [oV [HA [HV Hne]]]]]. apply Hne. apply H; assumption.
  - intros -> fl ordA ordV ps m _ _. reflexivity.
Qed.

(* ---------- one parser used by several goroutines at once ---------- *)
(* every call resets before it post-processes *)
Fixpoint wf_sched (open:list N) (sched:list pev) : bool :=
  match sched with
  | [] => true
  | EReset g :: rest => wf_sched (g :: open) rest
  | EPost g :: rest => mem_N g open && wf_sched open rest
  end.

Definition interleaved : list pev := [EReset 1; EReset 2; EPost 1; EPost 2].

Theorem shared_parser_interleaved_refuted : forall resets fl, exists mods sched ordA ordV g st,
  map_order ordA /\ vmap_order ordV /\ wf_sched [] sched = true /\
  In (g, st) (snd (run_sched resets fl ordA ordV mods new_parser sched)) /\
  p_mod st <> p_mod (compile_fresh fl ordA ordV (mods g)).
Proof.
  intros resets fl. exists (fun _ => one_let), interleaved, (fun l => l), vid, 2.
  eexists. split; [exact map_order_id|]. split; [exact vmap_order_id|]. split; [reflexivity|].
  split; [right; left; reflexivity|]. destruct resets, fl as [[] [] []]; vm_compute; discriminate.
Qed.

Theorem shared_parser_partial resets fl ordA ordV mods ps sched : (forall g, plain (mods g)) ->
  Forall (fun r => p_mod (snd r) = p_mod (compile_fresh fl ordA ordV (mods (fst r))) /\
                   p_typed (snd r) = p_typed (compile_fresh fl ordA ordV (mods (fst r))))
         (snd (run_sched resets fl ordA ordV mods ps sched)).
Proof.
  intros Hp. unfold run_sched.
  assert (H0 : Forall (fun r => p_mod (snd r) = p_mod (compile_fresh fl ordA ordV (mods (fst r))) /\
                                p_typed (snd r) = p_typed (compile_fresh fl ordA ordV (mods (fst r)))) (@nil (N * pstate))) by constructor.
  revert H0. generalize (@nil (N * pstate)) as res0. revert ps.
  induction sched as [|e sched IH]; intros ps res0 H0; cbn [fold_left]; [exact H0|].
  destruct e as [g|g]; cbn [ev_step fst snd].
  - apply IH. exact H0.
  - apply IH. apply Forall_app. split; [exact H0|]. constructor; [|constructor]. cbn [fst snd].
    unfold compile_fresh, pp. apply parser_state_irrelevant_partial. apply Hp.
Qed.

Example shared_partial_nontrivial : (forall g:N, plain ((fun _ => plain_demo) g)) /\ wf_sched [] interleaved = true /\ sequential interleaved = false.
Proof. split; [intros _; exact plain_demo_is_plain|split; reflexivity]. Qed.

Theorem run_sched_order_independent resets fl mods ps sched ordA1 ordA2 ordV1 ordV2 :
  f_sorted_apps fl = true -> f_sorted_views fl = true ->
  map_order ordA1 -> map_order ordA2 -> vmap_order ordV1 -> vmap_order ordV2 ->
  run_sched resets fl ordA1 ordV1 mods ps sched = run_sched resets fl ordA2 ordV2 mods ps sched.
Proof.
  intros Ha Hv HA1 HA2 HV1 HV2. unfold run_sched. apply fold_left_ext. intros s [g|g]; cbn [ev_step]; [reflexivity|].
  rewrite (pp_from_order_independent fl (mods g) ordA1 ordA2 ordV1 ordV2 _ _ Ha Hv HA1 HA2 HV1 HV2). reflexivity.
Qed.

(* ====================================================================================================================
   Second pass: fixTypeRefScope inside the application loop (Infer.fix_ref) - the other place where one round of the loop
   READS another application (mod.Apps[A].Types[B], in the module as the earlier rounds left it).

   With both loops sorted the references come out the same under every iteration order: pp_order_independent is about the
   whole state, p_local included.  Without the sort of the applications it is refuted by a module whose member tables come
   out the SAME under both orders - only the reference differs:
     application 1 mixes in application 2, which declares type 7; application 3 declares a type called 1 and a type 8 whose
     field is typed `1.7`.  3 after 1: application 1 holds 7 by then - a full reference, left alone.  3 before 1: there is no
     1.7 yet and 3 has a type called 1 - rewritten to the local deep reference [1, 7].
   ==================================================================================================================== *)
Definition ref_witness : imodule :=
  [ {| i_name := 1; i_mem := []; i_views := []; i_mix := [2]; i_refs := [] |};
    {| i_name := 2; i_mem := [(7, 2)]; i_views := []; i_mix := []; i_refs := [] |};
    {| i_name := 3; i_mem := [(1, 3); (8, 3)]; i_views := []; i_mix := [];
       i_refs := [ {| r_id := 40; r_field := Some 8; r_app := 1; r_type := 7 |} ] |} ].

Example ref_witness_forward : forall sv pa,
  p_local (pp {| f_sorted_apps := false; f_sorted_views := sv; f_per_app := pa |} (fun l => l) vid [] ref_witness) = [].
Proof. intros [] []; reflexivity. Qed.
Example ref_witness_backward : forall sv pa,
  p_local (pp {| f_sorted_apps := false; f_sorted_views := sv; f_per_app := pa |} (@rev N) vid [] ref_witness) = [40].
Proof. intros [] []; reflexivity. Qed.

Theorem pp_unsorted_apps_refs_refuted : forall sv pa, exists m ordA1 ordA2 ordV, map_order ordA1 /\ map_order ordA2 /\ vmap_order ordV /\
  let fl := {| f_sorted_apps := false; f_sorted_views := sv; f_per_app := pa |} in
  map i_mem (p_mod (pp fl ordA1 ordV [] m)) = map i_mem (p_mod (pp fl ordA2 ordV [] m)) /\
  p_local (pp fl ordA1 ordV [] m) <> p_local (pp fl ordA2 ordV [] m).
Proof.
  intros sv pa. exists ref_witness, (fun l => l), (@rev N), vid.
  split; [exact map_order_id|]. split; [exact map_order_rev|]. split; [exact vmap_order_id|].
  destruct sv, pa; (split; [reflexivity|vm_compute; discriminate]).
Qed.

(* the references alone: sorted applications are what makes them independent of the order (whatever the view flags) *)
Theorem refs_order_independent fl m ordA1 ordA2 ordV1 ordV2 lets0 :
  f_sorted_apps fl = true -> f_sorted_views fl = true ->
  map_order ordA1 -> map_order ordA2 -> vmap_order ordV1 -> vmap_order ordV2 ->
  p_local (pp fl ordA1 ordV1 lets0 m) = p_local (pp fl ordA2 ordV2 lets0 m).
Proof. intros. f_equal. apply pp_order_independent; assumption. Qed.

(* the order in which ONE application's references are visited (two map ranges in the source: over app.Types and over the
   fields) does not matter: the set of rewritten references is the same for every permutation *)
Fixpoint nsorted (l:list N) : bool :=
  match l with
  | [] => true
  | x :: l' => match l' with [] => true | y :: _ => N.ltb x y && nsorted l' end
  end.

Lemma set_add_sorted x l : nsorted l = true -> nsorted (set_add x l) = true.
Proof.
  induction l as [|y l IH]; intros H; [reflexivity|].
  cbn [set_add]. destruct (N.eqb x y) eqn:Exy; [exact H|].
  destruct (N.ltb x y) eqn:Lxy.
  - cbn [nsorted]. rewrite Lxy. exact H.
  - assert (Hyx : N.ltb y x = true).
    { apply N.ltb_lt. apply N.ltb_ge in Lxy. apply N.eqb_neq in Exy. apply N.le_neq. split; [exact Lxy|]. intros E. apply Exy. symmetry. exact E. }
    destruct l as [|z l].
    + cbn [set_add nsorted]. rewrite Hyx. reflexivity.
    + cbn [nsorted] in H. apply andb_prop in H. destruct H as [Hyz Hs].
      specialize (IH Hs). cbn [set_add] in *. destruct (N.eqb x z) eqn:Exz.
      * cbn [nsorted]. rewrite Hyz. exact Hs.
      * destruct (N.ltb x z) eqn:Lxz.
        -- change (nsorted (y :: x :: z :: l)) with (N.ltb y x && nsorted (x :: z :: l)). rewrite Hyx. exact IH.
        -- change (nsorted (y :: z :: set_add x l)) with (N.ltb y z && nsorted (z :: set_add x l)). rewrite Hyz. exact IH.
Qed.

Lemma set_add_mem x y l : mem_N y (set_add x l) = N.eqb y x || mem_N y l.
Proof.
  induction l as [|z l IH]; [cbn; rewrite orb_false_r; reflexivity|].
  cbn [set_add]. destruct (N.eqb x z) eqn:Exz.
  - apply N.eqb_eq in Exz. subst z. cbn [mem_N existsb]. destruct (N.eqb y x); reflexivity.
  - destruct (N.ltb x z).
    + reflexivity.
    + unfold mem_N in *. cbn [existsb]. rewrite IH. destruct (N.eqb y z), (N.eqb y x); reflexivity.
Qed.

(* two sorted lists with the same members are equal *)
Lemma nsorted_head_least x l : nsorted (x :: l) = true -> forall y, mem_N y l = true -> N.ltb x y = true.
Proof.
  revert x. induction l as [|z l IH]; intros x H y Hy; [discriminate|].
  cbn [nsorted] in H. apply andb_prop in H. destruct H as [Hxz Hs].
  unfold mem_N in Hy. cbn [existsb] in Hy. apply orb_prop in Hy. destruct Hy as [Hy|Hy].
  - apply N.eqb_eq in Hy. subst z. exact Hxz.
  - apply N.ltb_lt. apply N.lt_trans with z; [apply N.ltb_lt; exact Hxz|]. apply N.ltb_lt. apply (IH z Hs y). exact Hy.
Qed.

Lemma nsorted_tail x l : nsorted (x :: l) = true -> nsorted l = true.
Proof. destruct l as [|y l]; [reflexivity|]. cbn [nsorted]. intros H. apply andb_prop in H. apply H. Qed.

Lemma nsorted_ext : forall l1 l2, nsorted l1 = true -> nsorted l2 = true -> (forall y, mem_N y l1 = mem_N y l2) -> l1 = l2.
Proof.
  induction l1 as [|x l1 IH]; intros l2 H1 H2 He.
  - destruct l2 as [|y l2]; [reflexivity|]. specialize (He y). unfold mem_N in He. cbn [existsb] in He. rewrite N.eqb_refl in He. discriminate.
  - destruct l2 as [|y l2].
    + specialize (He x). unfold mem_N in He. cbn [existsb] in He. rewrite N.eqb_refl in He. discriminate.
    + assert (Hxy : x = y).
      { pose proof (He x) as Hx. pose proof (He y) as Hy. unfold mem_N in Hx, Hy. cbn [existsb] in Hx, Hy.
        rewrite N.eqb_refl in Hx, Hy. cbn [orb] in Hx. rewrite orb_true_r in Hy || idtac.
        destruct (N.eqb x y) eqn:E; [apply N.eqb_eq; exact E|]. exfalso.
        cbn [orb] in Hx. symmetry in Hx.
        assert (Hy' : existsb (N.eqb y) l1 = true).
        { rewrite N.eqb_sym in E. rewrite E in Hy. cbn [orb] in Hy. destruct (existsb (N.eqb y) l1); [reflexivity|].
          destruct (existsb (N.eqb y) l2); discriminate. }
        pose proof (nsorted_head_least x l1 H1 y Hy') as L1.
        pose proof (nsorted_head_least y l2 H2 x Hx) as L2.
        apply N.ltb_lt in L1. apply N.ltb_lt in L2. exact (N.lt_irrefl x (N.lt_trans _ _ _ L1 L2)). }
      subst y. f_equal. apply IH; [eapply nsorted_tail; exact H1|eapply nsorted_tail; exact H2|].
      intros z. pose proof (He z) as Hz. unfold mem_N in *. cbn [existsb] in Hz.
      destruct (N.eqb z x) eqn:E; [|exact Hz].
      apply N.eqb_eq in E. subst z.
      destruct (existsb (N.eqb x) l1) eqn:M1.
      * pose proof (nsorted_head_least x l1 H1 x M1) as L. apply N.ltb_lt in L. exfalso. exact (N.lt_irrefl _ L).
      * destruct (existsb (N.eqb x) l2) eqn:M2; [|reflexivity].
        pose proof (nsorted_head_least x l2 H2 x M2) as L. apply N.ltb_lt in L. exfalso. exact (N.lt_irrefl _ L).
Qed.

Definition rewrites (m:imodule) (c:iapp) (r:rref) : bool :=
  negb (N.eqb (r_app r) (i_name c))
  && negb (match ilookup m (r_app r) with Some a => has_mem (r_type r) (i_mem a) | None => false end)
  && has_mem (r_app r) (i_mem c).

Lemma fix_ref_sorted m c loc r : nsorted loc = true -> nsorted (fix_ref m c loc r) = true.
Proof.
  intros H. unfold fix_ref. destruct (mem_N (r_id r) loc); [exact H|]. destruct (N.eqb (r_app r) (i_name c)); [exact H|].
  destruct (match ilookup m (r_app r) with Some a => has_mem (r_type r) (i_mem a) | None => false end); [exact H|].
  destruct (has_mem (r_app r) (i_mem c)); [apply set_add_sorted; exact H|exact H].
Qed.

Lemma fix_ref_mem m c loc r y : mem_N y (fix_ref m c loc r) = mem_N y loc || (N.eqb y (r_id r) && rewrites m c r).
Proof.
  unfold fix_ref, rewrites. destruct (mem_N (r_id r) loc) eqn:Hm.
  - destruct (N.eqb y (r_id r)) eqn:E; [|rewrite orb_false_r; reflexivity].
    apply N.eqb_eq in E. subst y. rewrite Hm. reflexivity.
  - destruct (N.eqb (r_app r) (i_name c)); cbn [negb andb]; [rewrite andb_false_r, orb_false_r; reflexivity|].
    destruct (match ilookup m (r_app r) with Some a => has_mem (r_type r) (i_mem a) | None => false end); cbn [negb andb];
      [rewrite andb_false_r, orb_false_r; reflexivity|].
    destruct (has_mem (r_app r) (i_mem c)).
    + rewrite set_add_mem, andb_true_r. apply orb_comm.
    + rewrite andb_false_r, orb_false_r. reflexivity.
Qed.

Lemma fix_fold_sorted m c l : forall loc, nsorted loc = true -> nsorted (fold_left (fix_ref m c) l loc) = true.
Proof. induction l as [|r l IH]; intros loc H; cbn [fold_left]; [exact H|]. apply IH. apply fix_ref_sorted. exact H. Qed.

Lemma fix_fold_mem m c l y : forall loc,
  mem_N y (fold_left (fix_ref m c) l loc) = mem_N y loc || existsb (fun r => N.eqb y (r_id r) && rewrites m c r) l.
Proof.
  induction l as [|r l IH]; intros loc; cbn [fold_left existsb]; [rewrite orb_false_r; reflexivity|].
  rewrite IH, fix_ref_mem. rewrite orb_assoc. reflexivity.
Qed.

Lemma existsb_perm {A} (f:A -> bool) l l' : Permutation l l' -> existsb f l = existsb f l'.
Proof.
  induction 1 as [|x l l' _ IH|x y l|l l' l'' _ IH1 _ IH2]; cbn [existsb]; [reflexivity|rewrite IH; reflexivity| |congruence].
  destruct (f x), (f y); reflexivity.
Qed.

Theorem fix_refs_visit_order_irrelevant m c l l' loc : nsorted loc = true -> Permutation l l' ->
  fold_left (fix_ref m c) l loc = fold_left (fix_ref m c) l' loc.
Proof.
  intros Hs Hp. apply nsorted_ext; [apply fix_fold_sorted; exact Hs|apply fix_fold_sorted; exact Hs|].
  intros y. rewrite !fix_fold_mem. f_equal. apply existsb_perm. exact Hp.
Qed.

(* the hypotheses are met by the run itself: p_local starts as [] and every step keeps it sorted *)
Example fix_order_nontrivial :
  let c := {| i_name := 3; i_mem := [(1, 3); (2, 3)]; i_views := []; i_mix := []; i_refs := [] |} in
  let r1 := {| r_id := 41; r_field := None; r_app := 1; r_type := 7 |} in
  let r2 := {| r_id := 40; r_field := None; r_app := 2; r_type := 7 |} in
  nsorted [] = true /\ Permutation [r1; r2] [r2; r1] /\ fold_left (fix_ref [c] c) [r1; r2] [] = [40; 41].
Proof. cbn zeta. split; [reflexivity|]. split; [apply perm_swap|reflexivity]. Qed.
