(* Conc/Keyed.v - MODEL (definitions only): the process-global lexer-state map of pkg/grammar/lexer_impl.go.

     var lexerStates = &hashmap.HashMap{}                       store
     func ls(l *SyslLexer) *lexerState                          Get(key); absent: Set(key, &lexerState{})
     func DeleteLexerState(l *SyslLexer)                        Del(key)
     key := uintptr(unsafe.Pointer(l))                          kof : session -> key  (an ADDRESS, not an identity:
                                                                the map does not keep the lexer alive, so the allocator
                                                                may hand the same address to a later lexer)

   A *session* is one call of parse.parseString (pkg/parse/parse.go): it allocates a lexer, the generated lexer and
   getNextToken call ls(l) for every token (AUse), and the function ends - `defer parser.DeleteLexerState(lexer)` runs
   if the source has it (parameter `del`, instantiated with Gen.ConcShape.delete_deferred) and the lexer becomes
   garbage (AEnd).  A history is the global order in which the actions of all sessions of the process happen; it is
   the only thing concurrency contributes to this state, because every access goes through the map by key.

   The per-key state machine is a parameter: `step : st -> tok -> st * list out` (one raw token in, the tokens
   NextToken hands out for it).  Conc/Run.v instantiates it with Front/Indent.step on the current lexer tables;
   KeyedProps.v proves everything for an arbitrary step. *)
From Coq Require Import List NArith Bool.
Import ListNotations.
Local Open Scope N_scope.

Definition memN (x:N) (l:list N) : bool := existsb (N.eqb x) l.
Definition dropN (x:N) (l:list N) : list N := filter (fun y => negb (N.eqb y x)) l.

Section Keyed.
  Variables st tok out : Type.
  Variable init : st.                              (* &lexerState{} *)
  Variable step : st -> tok -> st * list out.
  Variable del : bool.                             (* does a session end with DeleteLexerState? *)

  Definition store := list (N * st).

  Fixpoint get (m:store) (k:N) : option st :=
    match m with
    | [] => None
    | (k', s) :: m' => if N.eqb k k' then Some s else get m' k
    end.
  Fixpoint set (m:store) (k:N) (s:st) : store :=
    match m with
    | [] => [(k, s)]
    | (k', s') :: m' => if N.eqb k k' then (k, s) :: m' else (k', s') :: set m' k s
    end.
  Fixpoint remove (m:store) (k:N) : store :=
    match m with
    | [] => []
    | (k', s') :: m' => if N.eqb k k' then remove m' k else (k', s') :: remove m' k
    end.

  Inductive act := AUse (t:tok) | AEnd.
  Definition hist := list (N * act).               (* (session, action) *)

  (* one action of session (fst e) on the shared store; what that session's NextToken hands out *)
  Definition exec (kof:N -> N) (m:store) (e:N * act) : store * list out :=
    let k := kof (fst e) in
    match snd e with
    | AUse t =>
        let s := match get m k with Some s => s | None => init end in     (* ls(l) *)
        let (s', o) := step s t in (set m k s', o)                         (* the state is mutated in place *)
    | AEnd => (if del then remove m k else m, [])
    end.

  Fixpoint run (kof:N -> N) (m:store) (h:hist) : store * list (N * list out) :=
    match h with
    | [] => (m, [])
    | e :: h' =>
        let (m1, o) := exec kof m e in
        let (m2, tr) := run kof m1 h' in (m2, (fst e, o) :: tr)
    end.

  (* the token stream session i sees *)
  Definition obs (i:N) (tr:list (N * list out)) : list out :=
    concat (map snd (filter (fun p => N.eqb (fst p) i) tr)).

  (* the raw tokens session i fed *)
  Fixpoint toks_of (i:N) (h:hist) : list tok :=
    match h with
    | [] => []
    | (j, AUse t) :: h' => if N.eqb j i then t :: toks_of i h' else toks_of i h'
    | (_, AEnd) :: h' => toks_of i h'
    end.

  (* the stream a compilation produces when it is alone in the process *)
  Fixpoint solo_from (s:st) (ts:list tok) : list out :=
    match ts with
    | [] => []
    | t :: ts' => let (s', o) := step s t in o ++ solo_from s' ts'
    end.
  Definition solo : list tok -> list out := solo_from init.

  (* Address discipline of a history, checked left to right with the sessions that are live (started, not
     ended) and dead (ended).  No action after a session's end.  A session that starts must not clash with
       reuse = true  : a LIVE session with the same key (two live objects have different addresses; an address
                       is re-issued only after its owner ended)
       reuse = false : any session seen so far with the same key (pairwise distinct keys). *)
  Fixpoint wf_from (kof:N -> N) (reuse:bool) (live dead:list N) (h:hist) : bool :=
    match h with
    | [] => true
    | (i, a) :: h' =>
        if memN i dead then false else
        let starting := negb (memN i live) in
        if starting && existsb (fun j => N.eqb (kof j) (kof i)) (if reuse then live else live ++ dead) then false else
        match a with
        | AUse _ => wf_from kof reuse (if starting then i :: live else live) dead h'
        | AEnd => wf_from kof reuse (dropN i live) (i :: dead) h'
        end
    end.
  Definition wf (kof:N -> N) (reuse:bool) (h:hist) : bool := wf_from kof reuse [] [] h.

  (* sessions still live at the end of a history *)
  Fixpoint live_after (live:list N) (h:hist) : list N :=
    match h with
    | [] => live
    | (i, AUse _) :: h' => live_after (if memN i live then live else i :: live) h'
    | (i, AEnd) :: h' => live_after (dropN i live) h'
    end.

  (* k compilations: session i feeds tokens ts and then ends *)
  Definition comp (ts:list tok) : list act := map AUse ts ++ [AEnd].

  (* h is an interleaving (merge) of the pending action lists ps *)
  Inductive Merge : list (N * list act) -> hist -> Prop :=
  | M_nil ps : Forall (fun p => snd p = []) ps -> Merge ps []
  | M_step ps1 i a rest ps2 h :
      Merge (ps1 ++ (i, rest) :: ps2) h -> Merge (ps1 ++ (i, a :: rest) :: ps2) ((i, a) :: h).
End Keyed.

Arguments AUse {tok} t.
Arguments AEnd {tok}.
Arguments get {st} m k.
Arguments set {st} m k s.
Arguments remove {st} m k.
Arguments obs {out} i tr.
Arguments toks_of {tok} i h.
Arguments wf_from {tok} kof reuse live dead h.
Arguments wf {tok} kof reuse h.
Arguments live_after {tok} live h.
Arguments comp {tok} ts.
Arguments Merge {tok} ps h.
