(* Conc/KeyedProps.v - proofs about Conc/Keyed.v, for an ARBITRARY per-key state machine `step`.

   sessions_isolated      in every history that respects the address discipline, every session sees exactly
                          the stream it produces alone, provided sessions end with a delete OR keys are never
                          re-issued                                           (induction on the history, invariant Inv)
   keyed_noninterference  every interleaving (Merge) of k compilations with pairwise distinct keys, with or
                          without the delete: each compilation sees its solo stream
   fresh_start            del = true: also when addresses are re-issued after their owner ended
   no_leak                del = true: when every session has ended the map is empty again
   (fresh_start_refuted, which needs a concrete step, is in Conc/Run.v) *)
From Coq Require Import List NArith Bool Lia.
Import ListNotations.
Require Import Verif.Conc.Keyed.
Local Open Scope N_scope.

Lemma memN_In x l : memN x l = true <-> In x l.
Proof.
  unfold memN. rewrite existsb_exists. split.
  - intros [y [Hy He]]. apply N.eqb_eq in He. subst y. exact Hy.
  - intros H. exists x. split; [exact H|apply N.eqb_refl].
Qed.

Lemma memN_nIn x l : memN x l = false <-> ~ In x l.
Proof.
  rewrite <- memN_In. destruct (memN x l); split; intros H;
    [discriminate|exfalso; apply H; reflexivity|intros H'; discriminate|reflexivity].
Qed.

Lemma dropN_In y x l : In y (dropN x l) <-> In y l /\ y <> x.
Proof.
  unfold dropN. rewrite filter_In. rewrite negb_true_iff, N.eqb_neq. reflexivity.
Qed.

Lemma existsb_false_all {A} (f:A -> bool) l : existsb f l = false -> forall x, In x l -> f x = false.
Proof.
  induction l as [|a l IH]; cbn [existsb In]; intros H x Hx; [destruct Hx|].
  apply orb_false_iff in H. destruct H as [Ha Hl]. destruct Hx as [<-|Hx]; [exact Ha|exact (IH Hl x Hx)].
Qed.

Section Props.
  Variables st tok out : Type.
  Variable init : st.
  Variable step : st -> tok -> st * list out.
  Variable del : bool.

  Notation store := (store st).
  Notation get := (@get st).
  Notation set := (@set st).
  Notation remove := (@remove st).
  Notation hist := (hist tok).
  Notation exec := (exec st tok out init step del).
  Notation run := (run st tok out init step del).
  Notation obs := (@obs out).
  Notation toks_of := (@toks_of tok).
  Notation solo_from := (solo_from st tok out step).
  Notation solo := (solo st tok out init step).
  Notation wf_from := (@wf_from tok).
  Notation wf := (@wf tok).
  Notation live_after := (@live_after tok).
  Notation Merge := (@Merge tok).
  Notation comp := (@comp tok).

  (* ---------- the map ---------- *)
  Lemma get_set_same (m:store) k s : get (set m k s) k = Some s.
  Proof.
    induction m as [|[k' s'] m IH]; cbn [Keyed.set Keyed.get].
    - rewrite N.eqb_refl. reflexivity.
    - destruct (N.eqb k k') eqn:E; cbn [Keyed.get]; [rewrite N.eqb_refl; reflexivity|rewrite E; exact IH].
  Qed.

  Lemma get_set_other (m:store) k k' s : k <> k' -> get (set m k s) k' = get m k'.
  Proof.
    intros Hn. induction m as [|[k0 s0] m IH]; cbn [Keyed.set Keyed.get].
    - apply not_eq_sym in Hn. apply N.eqb_neq in Hn. rewrite Hn. reflexivity.
    - destruct (N.eqb k k0) eqn:E; cbn [Keyed.get].
      + apply N.eqb_eq in E. subst k0. apply not_eq_sym in Hn. apply N.eqb_neq in Hn. rewrite Hn. reflexivity.
      + destruct (N.eqb k' k0); [reflexivity|exact IH].
  Qed.

  Lemma get_remove_same (m:store) k : get (remove m k) k = None.
  Proof.
    induction m as [|[k0 s0] m IH]; cbn [Keyed.remove Keyed.get]; [reflexivity|].
    destruct (N.eqb k k0) eqn:E; [exact IH|]. cbn [Keyed.get]. rewrite E. exact IH.
  Qed.

  Lemma get_remove_other (m:store) k k' : k <> k' -> get (remove m k) k' = get m k'.
  Proof.
    intros Hn. induction m as [|[k0 s0] m IH]; cbn [Keyed.remove Keyed.get]; [reflexivity|].
    destruct (N.eqb k k0) eqn:E.
    - apply N.eqb_eq in E. subst k0. apply not_eq_sym in Hn. apply N.eqb_neq in Hn. rewrite Hn. exact IH.
    - cbn [Keyed.get]. destruct (N.eqb k' k0); [reflexivity|exact IH].
  Qed.

  Lemma get_none_nil (m:store) : (forall k, get m k = None) -> m = [].
  Proof.
    destruct m as [|[k s] m]; [reflexivity|]. intros H. specialize (H k). cbn [Keyed.get] in H.
    rewrite N.eqb_refl in H. discriminate.
  Qed.

  (* ---------- unfolding run / obs ---------- *)
  Lemma run_cons kof (m:store) e (h:hist) :
    run kof m (e :: h) = (fst (run kof (fst (exec kof m e)) h), (fst e, snd (exec kof m e)) :: snd (run kof (fst (exec kof m e)) h)).
  Proof.
    cbn [Keyed.run]. destruct (exec kof m e) as [m1 o]. cbn [fst snd].
    destruct (run kof m1 h) as [m2 tr]. reflexivity.
  Qed.

  Lemma obs_cons i j (o:list out) tr : obs i ((j, o) :: tr) = if N.eqb j i then o ++ obs i tr else obs i tr.
  Proof.
    unfold Keyed.obs. cbn [filter fst]. destruct (N.eqb j i); reflexivity.
  Qed.

  (* ---------- the invariant ---------- *)
  Definition owners (live dead:list N) : list N := if del then live else live ++ dead.

  Lemma live_sub_owners live dead c : In c live -> In c (owners live dead).
  Proof. unfold owners. destruct del; [auto|intros H; apply in_or_app; left; exact H]. Qed.

  Record Inv (kof:N -> N) (m:store) (live dead:list N) (S:N -> st) : Prop := {
    inv_keys : forall i j, In i live -> In j live -> kof i = kof j -> i = j;
    inv_live : forall i, In i live -> get m (kof i) = Some (S i) \/ (get m (kof i) = None /\ S i = init);
    inv_new  : forall i, ~ In i live -> ~ In i dead -> S i = init;
    inv_free : forall k, (forall j, In j (owners live dead) -> kof j <> k) -> get m k = None
  }.

  Lemma inv_init kof : Inv kof [] [] [] (fun _ => init).
  Proof. split; intros; try reflexivity; try contradiction. Qed.

  Definition checkset (reuse:bool) (live dead:list N) : list N := if reuse then live else live ++ dead.

  Lemma live_sub_check reuse live dead c : In c live -> In c (checkset reuse live dead).
  Proof. unfold checkset. destruct reuse; [auto|intros H; apply in_or_app; left; exact H]. Qed.

  Lemma owners_sub_check reuse live dead c : del = true \/ reuse = false ->
    In c (owners live dead) -> In c (checkset reuse live dead).
  Proof.
    unfold owners, checkset. intros [Hd|Hr].
    - rewrite Hd. apply live_sub_check.
    - rewrite Hr. destruct del; [intros H; apply in_or_app; left; exact H|auto].
  Qed.

  (* the start check of wf_from: no other live session holds j's key *)
  Lemma no_clash kof reuse m live dead S j : Inv kof m live dead S ->
    negb (memN j live) && existsb (fun c => N.eqb (kof c) (kof j)) (checkset reuse live dead) = false ->
    forall c, In c live -> c <> j -> kof c <> kof j.
  Proof.
    intros HI Hc c Hcl Hne He. destruct (memN j live) eqn:Hj.
    - apply memN_In in Hj. apply Hne. exact (inv_keys _ _ _ _ _ HI c j Hcl Hj He).
    - cbn [negb andb] in Hc. pose proof (existsb_false_all _ _ Hc c (live_sub_check reuse live dead c Hcl)) as Hf.
      cbn beta in Hf. apply N.eqb_neq in Hf. exact (Hf He).
  Qed.

  (* ls(l) finds the session's own state, or nothing when it has not used the lexer yet *)
  Lemma state_is kof reuse m live dead S j : Inv kof m live dead S -> del = true \/ reuse = false ->
    ~ In j dead ->
    negb (memN j live) && existsb (fun c => N.eqb (kof c) (kof j)) (checkset reuse live dead) = false ->
    match get m (kof j) with Some s => s | None => init end = S j.
  Proof.
    intros HI Hdisc Hnd Hc. destruct (memN j live) eqn:Hj.
    - apply memN_In in Hj. destruct (inv_live _ _ _ _ _ HI j Hj) as [H|[H H']]; rewrite H; [reflexivity|symmetry; exact H'].
    - apply memN_nIn in Hj. cbn [negb andb] in Hc.
      rewrite (inv_free _ _ _ _ _ HI (kof j)).
      + symmetry. exact (inv_new _ _ _ _ _ HI j Hj Hnd).
      + intros c Hco. pose proof (existsb_false_all _ _ Hc c (owners_sub_check reuse live dead c Hdisc Hco)) as Hf.
        cbn beta in Hf. apply N.eqb_neq in Hf. exact Hf.
  Qed.

  Lemma owners_mono live live' dead dead' c :
    (forall x, In x live -> In x live') -> (forall x, In x dead -> In x dead') ->
    In c (owners live dead) -> In c (owners live' dead').
  Proof.
    unfold owners. intros Hl Hd. destruct del; [apply Hl|].
    intros H. apply in_app_or in H. apply in_or_app. destruct H; [left; apply Hl|right; apply Hd]; assumption.
  Qed.

  Lemma inv_use kof m live live' dead S j s' : Inv kof m live dead S ->
    (forall x, In x live' <-> x = j \/ In x live) ->
    (forall c, In c live -> c <> j -> kof c <> kof j) ->
    Inv kof (set m (kof j) s') live' dead (fun x => if N.eqb x j then s' else S x).
  Proof.
    intros HI Hl Hd. split.
    - intros i i' Hi Hi' He. apply Hl in Hi. apply Hl in Hi'.
      destruct (N.eq_dec i j) as [->|Hij]; destruct (N.eq_dec i' j) as [->|Hi'j]; try reflexivity.
      + destruct Hi' as [Hx|Hx]; [contradiction|]. exfalso. symmetry in He. exact (Hd i' Hx Hi'j He).
      + destruct Hi as [Hx|Hx]; [contradiction|]. exfalso. exact (Hd i Hx Hij He).
      + destruct Hi as [Hx|Hx]; [contradiction|]. destruct Hi' as [Hy|Hy]; [contradiction|].
        exact (inv_keys _ _ _ _ _ HI i i' Hx Hy He).
    - intros i Hi. apply Hl in Hi. destruct (N.eqb i j) eqn:E.
      + apply N.eqb_eq in E. subst i. left. apply get_set_same.
      + apply N.eqb_neq in E. destruct Hi as [Hi|Hi]; [contradiction|].
        rewrite get_set_other; [exact (inv_live _ _ _ _ _ HI i Hi)|].
        apply not_eq_sym. exact (Hd i Hi E).
    - intros i Hnl Hnd. destruct (N.eqb i j) eqn:E.
      + apply N.eqb_eq in E. subst i. exfalso. apply Hnl. apply Hl. left. reflexivity.
      + apply (inv_new _ _ _ _ _ HI i); [|exact Hnd]. intros H. apply Hnl. apply Hl. right. exact H.
    - intros k Hk. rewrite get_set_other.
      + apply (inv_free _ _ _ _ _ HI). intros c Hc. apply Hk.
        apply (owners_mono live live' dead dead c); [intros x Hx; apply Hl; right; exact Hx|auto|exact Hc].
      + apply Hk. apply live_sub_owners. apply Hl. left. reflexivity.
  Qed.

  Lemma inv_end kof m live dead S j : Inv kof m live dead S ->
    (forall c, In c live -> c <> j -> kof c <> kof j) ->
    Inv kof (if del then remove m (kof j) else m) (dropN j live) (j :: dead) S.
  Proof.
    intros HI Hd. split.
    - intros i i' Hi Hi'. apply dropN_In in Hi. apply dropN_In in Hi'.
      exact (inv_keys _ _ _ _ _ HI i i' (proj1 Hi) (proj1 Hi')).
    - intros i Hi. apply dropN_In in Hi. destruct Hi as [Hi Hne].
      assert (Hg : get (if del then remove m (kof j) else m) (kof i) = get m (kof i)).
      { destruct del; [|reflexivity]. apply get_remove_other. apply not_eq_sym. exact (Hd i Hi Hne). }
      rewrite Hg. exact (inv_live _ _ _ _ _ HI i Hi).
    - intros i Hnl Hnd. apply (inv_new _ _ _ _ _ HI i).
      + intros H. apply Hnl. apply dropN_In. split; [exact H|]. intros ->. apply Hnd. left. reflexivity.
      + intros H. apply Hnd. right. exact H.
    - intros k Hk. pose proof (inv_free _ _ _ _ _ HI k) as Hfree. unfold owners in *. destruct del.
      + destruct (N.eq_dec (kof j) k) as [<-|Hne]; [apply get_remove_same|].
        rewrite get_remove_other; [|exact Hne]. apply Hfree. intros c Hc.
        destruct (N.eq_dec c j) as [->|Hcj]; [exact Hne|]. apply Hk. apply dropN_In. split; assumption.
      + apply Hfree. intros c Hc. apply Hk. apply in_app_or in Hc. apply in_or_app.
        destruct Hc as [Hc|Hc].
        * destruct (N.eq_dec c j) as [->|Hcj]; [right; left; reflexivity|left; apply dropN_In; split; assumption].
        * right. right. exact Hc.
  Qed.

  Lemma starting_live j live (live':list N) :
    live' = (if negb (memN j live) then j :: live else live) -> forall x, In x live' <-> x = j \/ In x live.
  Proof.
    intros -> x. destruct (memN j live) eqn:E; cbn [negb].
    - apply memN_In in E. split; [auto|]. intros [->|H]; assumption.
    - cbn [In]. split; intros [H|H]; auto.
  Qed.

  (* ---------- isolation ---------- *)
  Lemma isolated_from kof reuse : del = true \/ reuse = false -> forall (h:hist) m live dead S,
    Inv kof m live dead S -> wf_from kof reuse live dead h = true ->
    forall i, obs i (snd (run kof m h)) = solo_from (S i) (toks_of i h).
  Proof.
    intros Hdisc. induction h as [|[j a] h IH]; intros m live dead S HI Hwf i; [reflexivity|].
    cbn [Keyed.wf_from] in Hwf.
    destruct (memN j dead) eqn:Hjd; [discriminate|]. apply memN_nIn in Hjd.
    fold (checkset reuse live dead) in Hwf.
    destruct (negb (memN j live) && existsb (fun c => N.eqb (kof c) (kof j)) (checkset reuse live dead)) eqn:Hc; [discriminate|].
    pose proof (no_clash kof reuse m live dead S j HI Hc) as Hd.
    rewrite run_cons. cbn [snd fst]. rewrite obs_cons.
    destruct a as [t|].
    - pose proof (state_is kof reuse m live dead S j HI Hdisc Hjd Hc) as Hs.
      unfold Keyed.exec. cbn [fst snd]. rewrite Hs. destruct (step (S j) t) as [s' o] eqn:Hst. cbn [fst snd].
      pose proof (inv_use kof m live _ dead S j s' HI (starting_live j live _ eq_refl) Hd) as HI'.
      rewrite (IH _ _ _ _ HI' Hwf i). cbn [Keyed.toks_of].
      destruct (N.eqb j i) eqn:E.
      + apply N.eqb_eq in E. subst i. rewrite N.eqb_refl. cbn [Keyed.solo_from]. rewrite Hst. reflexivity.
      + rewrite N.eqb_sym, E. reflexivity.
    - unfold Keyed.exec. cbn [fst snd].
      pose proof (inv_end kof m live dead S j HI Hd) as HI'.
      rewrite (IH _ _ _ _ HI' Hwf i). cbn [Keyed.toks_of]. destruct (N.eqb j i); reflexivity.
  Qed.

  Theorem sessions_isolated kof reuse (h:hist) : del = true \/ reuse = false -> wf kof reuse h = true ->
    forall i, obs i (snd (run kof [] h)) = solo (toks_of i h).
  Proof.
    intros Hdisc Hwf i. exact (isolated_from kof reuse Hdisc h [] [] [] (fun _ => init) (inv_init kof) Hwf i).
  Qed.

  (* a session whose owner-key is re-issued after its end starts from the empty state again *)
  Theorem fresh_start kof (h:hist) : del = true -> wf kof true h = true ->
    forall i, obs i (snd (run kof [] h)) = solo (toks_of i h).
  Proof. intros Hd. apply sessions_isolated. left. exact Hd. Qed.

  (* ---------- nothing is left behind ---------- *)
  Lemma inv_after kof reuse : del = true \/ reuse = false -> forall (h:hist) m live dead S,
    Inv kof m live dead S -> wf_from kof reuse live dead h = true ->
    exists dead' S', Inv kof (fst (run kof m h)) (live_after live h) dead' S'.
  Proof.
    intros Hdisc. induction h as [|[j a] h IH]; intros m live dead S HI Hwf; [exists dead, S; exact HI|].
    cbn [Keyed.wf_from] in Hwf.
    destruct (memN j dead) eqn:Hjd; [discriminate|]. apply memN_nIn in Hjd.
    fold (checkset reuse live dead) in Hwf.
    destruct (negb (memN j live) && existsb (fun c => N.eqb (kof c) (kof j)) (checkset reuse live dead)) eqn:Hc; [discriminate|].
    pose proof (no_clash kof reuse m live dead S j HI Hc) as Hd.
    rewrite run_cons. cbn [fst]. destruct a as [t|]; cbn [Keyed.live_after].
    - unfold Keyed.exec. cbn [fst snd]. destruct (step _ t) as [s' o]. cbn [fst].
      pose proof (inv_use kof m live _ dead S j s' HI (starting_live j live _ eq_refl) Hd) as HI'.
      destruct (memN j live); cbn [negb] in *; exact (IH _ _ _ _ HI' Hwf).
    - unfold Keyed.exec. cbn [fst snd].
      exact (IH _ _ _ _ (inv_end kof m live dead S j HI Hd) Hwf).
  Qed.

  Theorem no_leak kof (h:hist) : del = true -> wf kof true h = true -> live_after [] h = [] ->
    fst (run kof [] h) = [].
  Proof.
    intros Hd Hwf Hl.
    destruct (inv_after kof true (or_introl Hd) h [] [] [] _ (inv_init kof) Hwf) as [dead' [S' HI]].
    rewrite Hl in HI. apply get_none_nil. intros k. apply (inv_free _ _ _ _ _ HI).
    unfold owners. rewrite Hd. intros j [].
  Qed.

  (* ---------- interleavings of k compilations ---------- *)
  Lemma merge_proj ps (h:hist) : Merge ps h -> NoDup (map fst ps) ->
    forall i p, In (i, p) ps -> map snd (filter (fun e => N.eqb (fst e) i) h) = p.
  Proof.
    induction 1 as [ps Hall|ps1 j a rest ps2 h HM IH]; intros Hnd i p Hin.
    - rewrite Forall_forall in Hall. symmetry. exact (Hall _ Hin).
    - assert (Hnd' : NoDup (map fst (ps1 ++ (j, rest) :: ps2))).
      { rewrite map_app in *. exact Hnd. }
      cbn [filter fst]. destruct (N.eqb j i) eqn:E.
      + apply N.eqb_eq in E. subst j. cbn [map snd].
        assert (Hp : p = a :: rest).
        { rewrite map_app in Hnd. cbn [map fst] in Hnd. apply in_app_or in Hin.
          destruct Hin as [Hin|[Hin|Hin]].
          - exfalso. apply NoDup_remove_2 in Hnd. apply Hnd. apply in_or_app. left.
            apply (in_map fst) in Hin. exact Hin.
          - inversion Hin. reflexivity.
          - exfalso. apply NoDup_remove_2 in Hnd. apply Hnd. apply in_or_app. right.
            apply (in_map fst) in Hin. exact Hin. }
        subst p. f_equal. apply (IH Hnd' i rest). apply in_or_app. right. left. reflexivity.
      + apply (IH Hnd' i p). apply in_app_or in Hin. apply in_or_app.
        destruct Hin as [Hin|[Hin|Hin]]; [left; exact Hin| |right; right; exact Hin].
        inversion Hin. subst. rewrite N.eqb_refl in E. discriminate.
  Qed.

  Lemma toks_of_proj i (h:hist) ts :
    map snd (filter (fun e => N.eqb (fst e) i) h) = comp ts -> toks_of i h = ts.
  Proof.
    revert ts. induction h as [|[j a] h IH]; intros ts Hp.
    - destruct ts; discriminate.
    - cbn [filter fst] in Hp. cbn [Keyed.toks_of]. destruct (N.eqb j i) eqn:E.
      + cbn [map snd] in Hp. destruct a as [t|].
        * destruct ts as [|t' ts]; [discriminate|]. unfold Keyed.comp in Hp. cbn [map app] in Hp.
          inversion Hp. subst t'. f_equal. apply IH. assumption.
        * destruct ts as [|t' ts]; [|discriminate]. unfold Keyed.comp in Hp. cbn [map app] in Hp.
          inversion Hp as [Hnil]. clear - Hnil.
          induction h as [|[j' a'] h IH']; [reflexivity|]. cbn [filter fst map] in Hnil.
          cbn [Keyed.toks_of]. destruct (N.eqb j' i) eqn:E'.
          -- discriminate.
          -- destruct a'; apply IH'; exact Hnil.
      + destruct a; apply IH; exact Hp.
  Qed.

  (* pending lists of an interleaving in progress: a session that is not dead still has to end *)
  Definition pending_ok (dead:list N) (p:N * list (act tok)) : Prop :=
    (snd p = [] /\ In (fst p) dead) \/ ((exists ts, snd p = comp ts) /\ ~ In (fst p) dead).

  Lemma merge_wf kof ps (h:hist) : Merge ps h ->
    NoDup (map (fun p => kof (fst p)) ps) ->
    forall live dead, (forall x, In x live -> In x (map fst ps)) -> (forall x, In x dead -> In x (map fst ps)) ->
    Forall (pending_ok dead) ps -> wf_from kof false live dead h = true.
  Proof.
    induction 1 as [ps Hall|ps1 j a rest ps2 h HM IH]; intros Hnd live dead Hl Hdd Hok; [reflexivity|].
    cbn [Keyed.wf_from].
    assert (Hids : map fst (ps1 ++ (j, rest) :: ps2) = map fst (ps1 ++ (j, a :: rest) :: ps2)).
    { rewrite !map_app. reflexivity. }
    assert (Hkeys : map (fun p => kof (fst p)) (ps1 ++ (j, rest) :: ps2) = map (fun p => kof (fst p)) (ps1 ++ (j, a :: rest) :: ps2)).
    { rewrite !map_app. reflexivity. }
    (* j's own entry *)
    assert (Hj : pending_ok dead (j, a :: rest)).
    { rewrite Forall_forall in Hok. apply Hok. apply in_or_app. right. left. reflexivity. }
    destruct Hj as [[Hnil _]|[[ts Hts] Hnd_j]]; [discriminate|]. cbn [fst snd] in *.
    apply memN_nIn in Hnd_j as Hmd. rewrite Hmd.
    (* no other session of the interleaving has j's key *)
    assert (Hother : forall c, In c (map fst (ps1 ++ (j, a :: rest) :: ps2)) -> kof c = kof j -> c = j).
    { intros c Hc He. rewrite map_app in Hc, Hnd. cbn [map fst] in Hc, Hnd.
      apply in_app_or in Hc. destruct Hc as [Hc|[Hc|Hc]]; [|symmetry; exact Hc|].
      - exfalso. apply NoDup_remove_2 in Hnd. apply Hnd. apply in_or_app. left.
        apply in_map_iff in Hc. destruct Hc as [p [<- Hp]]. rewrite <- He. apply (in_map (fun p => kof (fst p))). exact Hp.
      - exfalso. apply NoDup_remove_2 in Hnd. apply Hnd. apply in_or_app. right.
        apply in_map_iff in Hc. destruct Hc as [p [<- Hp]]. rewrite <- He. apply (in_map (fun p => kof (fst p))). exact Hp. }
    assert (Hclash : negb (memN j live) && existsb (fun c => N.eqb (kof c) (kof j)) (live ++ dead) = false).
    { destruct (memN j live) eqn:Hjl; [reflexivity|]. cbn [negb andb]. apply memN_nIn in Hjl.
      apply not_true_is_false. intros Hex. apply existsb_exists in Hex. destruct Hex as [c [Hc He]].
      apply N.eqb_eq in He. apply in_app_or in Hc.
      assert (c = j) as ->.
      { apply Hother; [|exact He]. destruct Hc as [Hc|Hc]; [apply Hl|apply Hdd]; exact Hc. }
      destruct Hc as [Hc|Hc]; [exact (Hjl Hc)|exact (Hnd_j Hc)]. }
    rewrite Hclash.
    assert (Hinj : In j (map fst (ps1 ++ (j, rest) :: ps2))).
    { rewrite map_app. apply in_or_app. right. left. reflexivity. }
    (* other sessions are not j: ids are distinct because keys are *)
    assert (Hne : forall p, In p ps1 \/ In p ps2 -> fst p <> j).
    { intros p Hp Hpj. rewrite map_app in Hnd. cbn [map fst] in Hnd. apply NoDup_remove_2 in Hnd. apply Hnd.
      apply in_or_app. rewrite <- Hpj.
      destruct Hp as [Hp|Hp]; [left|right]; apply (in_map (fun p => kof (fst p))); exact Hp. }
    destruct a as [t|].
    - destruct ts as [|t' ts]; unfold Keyed.comp in Hts; cbn [map app] in Hts; [discriminate|]. inversion Hts. subst t' rest.
      apply IH.
      + rewrite Hkeys. exact Hnd.
      + rewrite Hids. intros x Hx. destruct (memN j live) eqn:Hjl; cbn [negb] in Hx; [apply Hl; exact Hx|].
        destruct Hx as [<-|Hx]; [rewrite <- Hids; exact Hinj|apply Hl; exact Hx].
      + rewrite Hids. exact Hdd.
      + rewrite Forall_forall in *. intros p Hp. apply in_app_or in Hp. destruct Hp as [Hp|[<-|Hp]].
        * apply Hok. apply in_or_app. left. exact Hp.
        * right. cbn [fst snd]. split; [exists ts; reflexivity|exact Hnd_j].
        * apply Hok. apply in_or_app. right. right. exact Hp.
    - destruct ts as [|t' ts]; unfold Keyed.comp in Hts; cbn [map app] in Hts; [|discriminate]. inversion Hts. subst rest.
      apply IH.
      + rewrite Hkeys. exact Hnd.
      + rewrite Hids. intros x Hx. apply dropN_In in Hx. apply Hl. exact (proj1 Hx).
      + rewrite Hids. intros x [<-|Hx]; [rewrite <- Hids; exact Hinj|apply Hdd; exact Hx].
      + rewrite Forall_forall in *. intros p Hp. apply in_app_or in Hp. destruct Hp as [Hp|[<-|Hp]].
        * assert (Hpo : pending_ok dead p) by (apply Hok; apply in_or_app; left; exact Hp).
          destruct Hpo as [[Hn Hd]|[He Hd]]; [left; split; [exact Hn|right; exact Hd]|].
          right. split; [exact He|]. intros [Hx|Hx]; [exact (Hne p (or_introl Hp) (eq_sym Hx))|exact (Hd Hx)].
        * left. cbn [fst snd]. split; [reflexivity|left; reflexivity].
        * assert (Hpo : pending_ok dead p) by (apply Hok; apply in_or_app; right; right; exact Hp).
          destruct Hpo as [[Hn Hd]|[He Hd]]; [left; split; [exact Hn|right; exact Hd]|].
          right. split; [exact He|]. intros [Hx|Hx]; [exact (Hne p (or_intror Hp) (eq_sym Hx))|exact (Hd Hx)].
  Qed.

  (* HEADLINE: every interleaving of k compilations (session id, tokens) whose keys are pairwise distinct -
     whether or not the sessions delete their entry - gives every compilation its solo stream *)
  Theorem keyed_noninterference kof (cs:list (N * list tok)) (h:hist) :
    Merge (map (fun c => (fst c, comp (snd c))) cs) h ->
    NoDup (map (fun c => kof (fst c)) cs) ->
    forall i ts, In (i, ts) cs -> obs i (snd (run kof [] h)) = solo ts.
  Proof.
    intros HM Hnd i ts Hin.
    set (ps := map (fun c => (fst c, comp (snd c))) cs) in *.
    assert (Hk : map (fun p => kof (fst p)) ps = map (fun c => kof (fst c)) cs).
    { unfold ps. rewrite map_map. reflexivity. }
    assert (Hids : NoDup (map fst ps)).
    { assert (Hm : map (fun p => kof (fst p)) ps = map kof (map fst ps)) by (rewrite map_map; reflexivity).
      rewrite <- Hk, Hm in Hnd. clear - Hnd. induction (map fst ps) as [|x l IH]; [constructor|].
      cbn [map] in Hnd. inversion Hnd as [|? ? Hx Hl]. constructor; [|exact (IH Hl)].
      intros Hin0. apply Hx. apply in_map. exact Hin0. }
    assert (Hwf : wf kof false h = true).
    { unfold Keyed.wf. apply (merge_wf kof ps h HM); [rewrite Hk; exact Hnd|intros x []|intros x []|].
      unfold ps. rewrite Forall_forall. intros p Hp. apply in_map_iff in Hp. destruct Hp as [c [<- _]].
      right. cbn [fst snd]. split; [exists (snd c); reflexivity|intros []]. }
    rewrite (sessions_isolated kof false h (or_intror eq_refl) Hwf i). f_equal.
    apply toks_of_proj. apply (merge_proj ps h HM Hids i (comp ts)).
    unfold ps. apply in_map_iff. exists (i, ts). split; [reflexivity|exact Hin].
  Qed.
End Props.
