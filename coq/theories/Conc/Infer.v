(* Conc/Infer.v - MODEL (definitions only): the whole application loop of Parser.postProcess (pkg/parse/parse.go) as far as
   it lets one application, one view or one earlier compilation influence another:

     appNames := keys of mod.Apps ; sort.Strings(appNames)                       app_order  (Gen.ConcShape.sorted_apps)
     for _, appName := range appNames {
       app := mod.Apps[appName]
       for _, src := range app.Mixin2 {                                          mix_one: types AND views of the source, looked
         srcApp := GetApp(src.Name, mod); if srcApp == nil { continue }          up in the module AS IT IS NOW, are added where the
         for k, v := range srcApp.Types { if !has(app.Types[k]) { app.Types[k] = v } }     name is still free; the VALUES are
         for k, v := range srcApp.Views { if !has(app.Views[k]) { app.Views[k] = v } }     shared (pointers): a view that two
       }                                                                         applications hold is one object
       p.inferTypes(mod, appName)                                                infer_app
       ...
     }

     func (p *Parser) inferTypes(mod, appName) {
       for viewName, view := range mod.Apps[appName].Views {                     view_order (Gen.ConcShape.sorted_views: the names
         if abstract(view) { continue }                                          are sorted first, or the map is walked as it comes)
         p.inferExprType(mod, appName, view.Expr, true, 0, viewName, ...)        the counter of AnonType_<n>__ starts at 0 for every
       }                                                                         view (per_app = false) or runs on through the views
     }                                                                           of the application (Gen.ConcShape.per_app_counter)

   inferExprType, on the top-level transform of a view, statement by statement:
     x = <expr>       the untyped nested transforms under <expr> are visited (inner before outer); each one whose expr.Type
                      is still nil gets   mod.Apps[appName].Types["AnonType_<n>__"] = <new tuple type>  (a plain map store: an
                      existing entry of that name is REPLACED), expr.Type = reference to it, n++
     let x = <expr>   the same, but only if p.LetTypes[<view name>:x] is not there yet (Gen.ConcShape.let_guard); the key is
                      recorded afterwards.  p.LetTypes belongs to the PARSER: it is shared by all applications of a compilation
                      and by all compilations made with one parse.Parser value.

   State that outlives one application: the module, which nested transforms carry a type already (they live in the shared view
   objects), and the parser's let keys.  Names are numbers (the harness owns the table; applications and views in byte order of
   their names; AnonType_<n>__ is anon_base + n).  A type member is (name, payload): payload = declaring application for a
   declared type, the transform's own number for an inferred one - what tells two outcomes apart.  Go's iteration orders are
   parameters: ordA for mod.Apps, ordV (per application) for its Views.
   SECOND PASS: the ErrRedefined message a skipped `let` appends to p.Messages (p_msgs); Parser.Parse with or without the reset
   of the accumulators and the life of one Parser value over several calls, also interleaved (parse, run_sched); fixParamTypeRef
   and fixTypeRefScope for references `<A>.<B>` inside the round of an application (fix_ref, p_local).
   NOT modelled: duplicate assignment names inside one transform, lets nested inside nested transforms (own scope keys),
   p.AssignTypes, references with other shapes, collectorPubSubCalls, renestTypes (see notes/C07.md). *)
From Coq Require Import List NArith Bool.
Import ListNotations.
Require Import Verif.Conc.Post.
Local Open Scope N_scope.

Definition anon_base : N := 1000.

(* one statement of a view's top-level transform: Some key = `let` with that scope key, None = assignment; the payloads
   are the untyped nested transforms under it in the order inferExprType reaches them *)
Definition vstmt := (option N * list N)%type.
Record vrec := { v_name : N; v_id : N; v_abs : bool; v_stmts : list vstmt }.
(* (second pass) a type reference written `<A>.<B>` - ONE application part, then a type -, the only kind fixTypeRefScope can
   rewrite: r_field = Some t: the type of a field of the declared type t of this application (the reference object travels
   with the type object to every application that mixes t in); None: the type of an endpoint parameter (fixParamTypeRef) *)
Record rref := { r_id : N; r_field : option N; r_app : N; r_type : N }.
Record iapp := { i_name : N; i_mem : list (N * N); i_views : list vrec; i_mix : list N; i_refs : list rref }.
Definition imodule := list iapp.

Record flags := { f_sorted_apps : bool; f_sorted_views : bool; f_per_app : bool }.

Record pstate := { p_mod : imodule;
                   p_typed : list (N * (N * N));   (* transform |-> (anonymous type name, application that inferred it) *)
                   p_lets : list N;                (* p.LetTypes: scope keys seen by this parse.Parser *)
                   p_msgs : list (N * N);          (* p.Messages: (view name, scope key) of every `let` that was skipped, in
                                                      the order the messages were appended (second pass) *)
                   p_local : list N }.             (* the references fixTypeRefScope has rewritten to local deep references
                                                      (`ref.Appname = nil; ref.Path = [A, B]`), as a sorted set of r_id *)

Fixpoint ilookup (m:imodule) (n:N) : option iapp :=
  match m with
  | [] => None
  | a :: m' => if N.eqb (i_name a) n then Some a else ilookup m' n
  end.

Fixpoint iupdate (m:imodule) (a':iapp) : imodule :=
  match m with
  | [] => []
  | a :: m' => if N.eqb (i_name a) (i_name a') then a' :: m' else a :: iupdate m' a'
  end.

Definition has_view (k:N) (l:list vrec) : bool := existsb (fun v => N.eqb (v_name v) k) l.
Fixpoint add_missing_views (dst src:list vrec) : list vrec :=
  match src with
  | [] => dst
  | v :: src' => add_missing_views (if has_view (v_name v) dst then dst else dst ++ [v]) src'
  end.

Definition imix_one (m:imodule) (a:iapp) (src:N) : iapp :=
  match ilookup m src with
  | None => a
  | Some s => {| i_name := i_name a; i_mem := add_missing (i_mem a) (i_mem s);
                 i_views := add_missing_views (i_views a) (i_views s); i_mix := i_mix a; i_refs := i_refs a |}
  end.

(* m[k] = v *)
Fixpoint set_mem (l:list (N * N)) (k v:N) : list (N * N) :=
  match l with
  | [] => [(k, v)]
  | (k', v') :: l' => if N.eqb k' k then (k, v) :: l' else (k', v') :: set_mem l' k v
  end.

Definition is_typed (p:N) (t:list (N * (N * N))) : bool := existsb (fun e => N.eqb (fst e) p) t.
Definition mem_N (k:N) (l:list N) : bool := existsb (N.eqb k) l.

(* what inference threads through one application: counter, the application's types, typed transforms, let keys *)
Record acc := { c_cnt : N; c_mem : list (N * N); c_typed : list (N * (N * N)); c_lets : list N; c_msgs : list (N * N) }.

(* `if !top && expr.Type == nil { anonCount = inferAnonymousType(...) }` *)
Definition anon_step (app:N) (a:acc) (p:N) : acc :=
  if is_typed p (c_typed a) then a
  else {| c_cnt := c_cnt a + 1; c_mem := set_mem (c_mem a) (anon_base + c_cnt a) p;
          c_typed := c_typed a ++ [(p, (anon_base + c_cnt a, app))]; c_lets := c_lets a; c_msgs := c_msgs a |}.

(* vn = the view's name: a `let` whose key is there already only appends ErrRedefined to p.Messages[viewName] *)
Definition stmt_step (app vn:N) (a:acc) (s:vstmt) : acc :=
  match s with
  | (None, ps) => fold_left (anon_step app) ps a
  | (Some k, ps) =>
      if mem_N k (c_lets a)
      then {| c_cnt := c_cnt a; c_mem := c_mem a; c_typed := c_typed a; c_lets := c_lets a; c_msgs := c_msgs a ++ [(vn, k)] |}
      else let a' := fold_left (anon_step app) ps a in
           {| c_cnt := c_cnt a'; c_mem := c_mem a'; c_typed := c_typed a'; c_lets := c_lets a' ++ [k]; c_msgs := c_msgs a' |}
  end.

Definition view_step (per_app:bool) (app:N) (a:acc) (v:vrec) : acc :=
  if v_abs v then a
  else let a0 := {| c_cnt := if per_app then c_cnt a else 0; c_mem := c_mem a; c_typed := c_typed a; c_lets := c_lets a;
                     c_msgs := c_msgs a |} in
       fold_left (stmt_step app (v_name v)) (v_stmts v) a0.

Fixpoint find_view (l:list vrec) (n:N) : option vrec :=
  match l with
  | [] => None
  | v :: l' => if N.eqb (v_name v) n then Some v else find_view l' n
  end.

(* the order inferTypes walks the views of application `app` in *)
Definition view_order (sorted:bool) (ordV:N -> list N -> list N) (app:N) (names:list N) : list N :=
  if sorted then isort (ordV app names) else ordV app names.

Definition infer_app (fl:flags) (ordV:N -> list N -> list N) (st:pstate) (a:iapp) : pstate :=
  let order := view_order (f_sorted_views fl) ordV (i_name a) (map v_name (i_views a)) in
  let step := fun acc0 n => match find_view (i_views a) n with
                            | Some v => view_step (f_per_app fl) (i_name a) acc0 v
                            | None => acc0
                            end in
  let r := fold_left step order {| c_cnt := 0; c_mem := i_mem a; c_typed := p_typed st; c_lets := p_lets st; c_msgs := p_msgs st |} in
  {| p_mod := iupdate (p_mod st) {| i_name := i_name a; i_mem := c_mem r; i_views := i_views a; i_mix := i_mix a; i_refs := i_refs a |};
     p_typed := c_typed r; p_lets := c_lets r; p_msgs := c_msgs r; p_local := p_local st |}.

(* (second pass) fixTypeRefScope(mod, currApp, ref) on a reference <A>.<B>:
     len(appPath) == 0            -> return     the reference was made local before (it is a shared object)
     currApp == A                 -> return
     mod.Apps[A].Types[B] exists  -> return     full reference - looked up in the module AS IT IS NOW: A may get B by a mixin
                                                 in a LATER round of the loop
     mod.Apps[currApp].Types[A]   -> ref.Appname = nil; ref.Path = [A, B]      a local deep reference
   The set of rewritten references is kept sorted, so the order in which one application's types and fields are ranged over
   (two map ranges whose bodies touch one reference object each) does not show. *)
Definition has_mem (k:N) (l:list (N * N)) : bool := existsb (fun e => N.eqb (fst e) k) l.
Fixpoint set_add (x:N) (l:list N) : list N :=
  match l with
  | [] => [x]
  | y :: l' => if N.eqb x y then l else if N.ltb x y then x :: l else y :: set_add x l'
  end.
Definition fix_ref (m:imodule) (c:iapp) (loc:list N) (r:rref) : list N :=
  if mem_N (r_id r) loc then loc
  else if N.eqb (r_app r) (i_name c) then loc
  else if match ilookup m (r_app r) with Some a => has_mem (r_type r) (i_mem a) | None => false end then loc
  else if has_mem (r_app r) (i_mem c) then set_add (r_id r) loc
  else loc.
Definition is_param (r:rref) : bool := match r_field r with None => true | Some _ => false end.
Definition is_field_of (t:N) (r:rref) : bool := match r_field r with Some t' => N.eqb t t' | None => false end.
(* the references inside the type objects application c holds: a member (t, d) is the type t declared by application d *)
Definition field_refs (m:imodule) (c:iapp) : list rref :=
  flat_map (fun e => match ilookup m (snd e) with
                     | Some d => filter (is_field_of (fst e)) (i_refs d)
                     | None => []
                     end) (i_mem c).

(* one round of the application loop: fixParamTypeRef, the mixins, the type references of the fields, inferTypes *)
Definition app_step (fl:flags) (ordV:N -> list N -> list N) (st:pstate) (n:N) : pstate :=
  match ilookup (p_mod st) n with
  | None => st
  | Some a =>
      let loc1 := fold_left (fix_ref (p_mod st) a) (filter is_param (i_refs a)) (p_local st) in
      let a1 := fold_left (imix_one (p_mod st)) (i_mix a) a in
      let m1 := iupdate (p_mod st) a1 in
      let loc2 := fold_left (fix_ref m1 a1) (field_refs m1 a1) loc1 in
      infer_app fl ordV {| p_mod := m1; p_typed := p_typed st; p_lets := p_lets st; p_msgs := p_msgs st; p_local := loc2 |} a1
  end.

Definition inames (m:imodule) : list N := map i_name m.
Definition app_order (sorted:bool) (ordA:list N -> list N) (m:imodule) : list N :=
  if sorted then isort (ordA (inames m)) else ordA (inames m).

(* postProcess of a freshly built module by a parser whose LetTypes hold `lets0` and whose Messages hold `msgs0` (both [] for
   parse.NewParser()); pp is the form of round 3 (no messages so far) *)
Definition pp_from (fl:flags) (ordA:list N -> list N) (ordV:N -> list N -> list N) (lets0:list N) (msgs0:list (N * N))
  (m:imodule) : pstate :=
  fold_left (app_step fl ordV) (app_order (f_sorted_apps fl) ordA m) {| p_mod := m; p_typed := []; p_lets := lets0; p_msgs := msgs0; p_local := [] |}.
Definition pp (fl:flags) (ordA:list N -> list N) (ordV:N -> list N -> list N) (lets0:list N) (m:imodule) : pstate :=
  pp_from fl ordA ordV lets0 [] m.

(* a compilation with a parser of its own / the second of two compilations of the same source made with ONE parser value *)
Definition compile_fresh fl ordA ordV m : pstate := pp fl ordA ordV [] m.
Definition compile_again fl ordA ordV m : pstate := pp fl ordA ordV (p_lets (pp fl ordA ordV [] m)) m.

(* ---------- (second pass) Parser.Parse and the life of one parse.Parser value ----------
   What a Parser keeps between two calls of Parse - of what the model knows - are the keys of LetTypes and the Messages.

     func (p *Parser) Parse(resource, reader) {
       p.AssignTypes = map[...]{} ; p.LetTypes = map[...]{} ; p.Messages = map[...]{}     EReset  (only if `resets`:
         (each under `if p.F == nil || len(p.F) > 0`: an empty map is as good as a new one)  Gen.ConcShape.parse_reset_fields)
       listener := NewTreeShapeListener() ; ... collectSpecs (the READS) ...
       return p.parseSpecs(specs, listener)      // tree walks, then finishModule -> postProcess          EPost
     }

   Between EReset and EPost of one call the reads of the files happen; a Parser that several goroutines use AT ONCE can
   therefore see the two events of one call apart (the harness forces that with a gate reader).  A schedule is a list of
   events tagged with the call they belong to; `mods g` is the module call g builds. *)
Record parser := { ps_lets : list N; ps_msgs : list (N * N) }.
Definition new_parser : parser := {| ps_lets := []; ps_msgs := [] |}.
Definition parser_after (st:pstate) : parser := {| ps_lets := p_lets st; ps_msgs := p_msgs st |}.

Inductive pev := EReset (g:N) | EPost (g:N).

Definition ev_step (resets:bool) fl ordA ordV (mods:N -> imodule) (s:parser * list (N * pstate)) (e:pev)
  : parser * list (N * pstate) :=
  match e with
  | EReset _ => (if resets then new_parser else fst s, snd s)
  | EPost g => let st := pp_from fl ordA ordV (ps_lets (fst s)) (ps_msgs (fst s)) (mods g) in
               (parser_after st, snd s ++ [(g, st)])
  end.

(* the parser afterwards and, per EPost in schedule order, what that call returned and left in the parser *)
Definition run_sched resets fl ordA ordV mods (ps:parser) (sched:list pev) : parser * list (N * pstate) :=
  fold_left (ev_step resets fl ordA ordV mods) sched (ps, []).

(* calls made one after another: every EReset g is followed at once by EPost g *)
Fixpoint sequential (sched:list pev) : bool :=
  match sched with
  | [] => true
  | EReset g :: EPost g' :: rest => N.eqb g g' && sequential rest
  | _ => false
  end.
Definition seq_sched (gs:list N) : list pev := flat_map (fun g => [EReset g; EPost g]) gs.

(* one call of Parse on a parser in state ps *)
Definition parse (resets:bool) fl ordA ordV (ps:parser) (m:imodule) : pstate :=
  let ps0 := if resets then new_parser else ps in pp_from fl ordA ordV (ps_lets ps0) (ps_msgs ps0) m.

(* the mixin-only module of Conc/Post.v inside this one (no views) *)
Definition embed (m:module) : imodule :=
  map (fun a => {| i_name := a_name a; i_mem := a_mem a; i_views := []; i_mix := a_mix a; i_refs := [] |}) m.
Definition project (m:imodule) : module :=
  map (fun a => {| a_name := i_name a; a_mem := i_mem a; a_mix := i_mix a |}) m.
