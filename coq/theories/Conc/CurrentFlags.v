(* Conc/CurrentFlags.v - the flags of Conc/Infer.v as the CURRENT source has them (Gen.ConcShape, regenerated each run).
   Definitions only, so that the correspondence (Conc/Run.v) still evaluates - against the model of the source as it is -
   when an obligation of Conc/Current.v no longer holds. *)
From Coq Require Import String List Bool.
Require Import Verif.Conc.Infer Verif.Gen.ConcShape.

Definition current_flags : flags :=
  {| f_sorted_apps := sorted_apps; f_sorted_views := sorted_views; f_per_app := per_app_counter |}.

(* second pass: does Parser.Parse start with fresh LetTypes and Messages (the two accumulators the model knows)?  Read off the
   leading statements of Parse (Gen.ConcShape.parse_reset_fields). *)
Definition current_resets : bool :=
  existsb (String.eqb "LetTypes") parse_reset_fields && existsb (String.eqb "Messages") parse_reset_fields.
