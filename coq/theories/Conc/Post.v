(* Conc/Post.v - MODEL (definitions only): the mixin step of Parser.postProcess (pkg/parse/parse.go).

     appNames := keys of mod.Apps ; sort.Strings(appNames)          post_order
     for _, appName := range appNames {                              post (fold over the order)
       app := mod.Apps[appName]
       for _, src := range app.Mixin2 {                              mix_one, in declaration order
         srcApp := syslutil.GetApp(src.Name, mod)                    looked up in the module AS IT IS NOW: an app that
         if srcApp == nil { continue }                               was processed earlier already carries what it mixed in
         for k, v := range srcApp.Types { if _, has := app.Types[k]; !has { app.Types[k] = v } }
         for k, v := range srcApp.Views { ... same ... }             (one member table stands for both)
       } ... }

   Names are numbers whose order is the byte order of the real names (the harness owns the table).  A member is
   (name, origin): the app whose declaration the entry came from - what tells two outcomes apart.
   Go's iteration over mod.Apps is the parameter `ord` (any permutation of the keys).  The remaining per-app work
   of postProcess (type inference, scope fixing, collector calls, re-nesting) does not read other apps' member
   tables and is not modelled. *)
From Coq Require Import List NArith Bool.
Import ListNotations.
Local Open Scope N_scope.

Record sapp := { a_name : N; a_mem : list (N * N); a_mix : list N }.
Definition module := list sapp.        (* mod.Apps: at most one app per name *)

Fixpoint lookup_app (m:module) (n:N) : option sapp :=
  match m with
  | [] => None
  | a :: m' => if N.eqb (a_name a) n then Some a else lookup_app m' n
  end.

Fixpoint update_app (m:module) (a':sapp) : module :=
  match m with
  | [] => []
  | a :: m' => if N.eqb (a_name a) (a_name a') then a' :: m' else a :: update_app m' a'
  end.

Definition has_mem (k:N) (l:list (N * N)) : bool := existsb (fun p => N.eqb (fst p) k) l.

(* for k, v := range src { if _, has := dst[k]; !has { dst[k] = v } }   (keys of src are distinct: the result does
   not depend on the order in which src is ranged over) *)
Fixpoint add_missing (dst src:list (N * N)) : list (N * N) :=
  match src with
  | [] => dst
  | (k, v) :: src' => add_missing (if has_mem k dst then dst else dst ++ [(k, v)]) src'
  end.

Definition mix_one (m:module) (a:sapp) (src:N) : sapp :=
  match lookup_app m src with
  | None => a
  | Some s => {| a_name := a_name a; a_mem := add_missing (a_mem a) (a_mem s); a_mix := a_mix a |}
  end.

Definition post_app (m:module) (n:N) : module :=
  match lookup_app m n with
  | None => m
  | Some a => update_app m (fold_left (mix_one m) (a_mix a) a)
  end.

Definition post (order:list N) (m:module) : module := fold_left post_app order m.

(* sort.Strings on the keys *)
Fixpoint insert (x:N) (l:list N) : list N :=
  match l with
  | [] => [x]
  | y :: l' => if N.leb x y then x :: l else y :: insert x l'
  end.
Fixpoint isort (l:list N) : list N :=
  match l with [] => [] | x :: l' => insert x (isort l') end.

Definition names (m:module) : list N := map a_name m.

(* the order postProcess walks the apps in: the map's iteration order `ord`, normalised by sorting iff the source sorts *)
Definition post_order (sorted:bool) (ord:list N -> list N) (m:module) : list N :=
  if sorted then isort (ord (names m)) else ord (names m).
Definition post_process (sorted:bool) (ord:list N -> list N) (m:module) : module :=
  post (post_order sorted ord m) m.
