(* Conc/Claim.v - MODEL (definitions only): the retrieved-file table of one Parser.Parse (pkg/parse/parse.go collectSpecs).

     filenameIndex := fileNameToIndex(source.filename)          idx: what identifies an import (Gen.ConcShape.file_index_shape)
     retrieved.mutex.Lock()
     if _, has := retrieved.l[filenameIndex]; has { retrieved.mutex.Unlock(); ... return }     a later claim of the index: nothing read
     fi := &fileInfo{}; fi.src.src = source; retrieved.l[filenameIndex] = fi
     retrieved.mutex.Unlock()
     content := reader.ReadHashBranch(ctx, source.filename)      the claimant's spelling is the file that is read

   The table is a local of Parse (one per compilation, Gen.ConcShape.retrieved_decl) and every access of its map in collectSpecs
   lies between Lock and Unlock (retrieved_protocol), so the goroutines of one compilation act on it one claim at a time: a
   history is the ORDER of the claims, which the completion order of the reads decides (an import is claimed when the file that
   contains it has been read).  Spellings and indices are numbers; the harness owns the table. *)
From Coq Require Import List NArith Bool.
Import ListNotations.
Local Open Scope N_scope.

Definition table := list (N * N).          (* index |-> spelling whose claim won = the file that is read for it *)

Fixpoint tget (t:table) (k:N) : option N :=
  match t with
  | [] => None
  | (k', f) :: t' => if N.eqb k' k then Some f else tget t' k
  end.

Definition claim (idx:N -> N) (t:table) (f:N) : table :=
  match tget t (idx f) with Some _ => t | None => t ++ [(idx f, f)] end.

Definition collect (idx:N -> N) (claims:list N) : table := fold_left (claim idx) claims [].

(* the files that are read, in claim order *)
Definition files_read (idx:N -> N) (claims:list N) : list N := map snd (collect idx claims).
