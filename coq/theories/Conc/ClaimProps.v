(* Conc/ClaimProps.v - proofs about Conc/Claim.v.

   collect_first                  under an index the table holds the FIRST claimant with that index
   claim_order_independent        if the index tells apart every two spellings that are claimed (idx injective on the claims),
                                  every order of the claims gives the same table: each spelling is read, once        (full)
   claim_casefold_refuted         an index that identifies two different files (a case-folding one on billing/Types.sysl and
                                  billing/types.sysl): which of the two is compiled depends on the order              (refuted)
   claim_injective_iff            for two spellings: order-independent <-> told apart or equal *)
From Coq Require Import List NArith Bool Permutation.
Import ListNotations.
Require Import Verif.Conc.Claim.
Local Open Scope N_scope.

Lemma tget_app t1 t2 k : tget (t1 ++ t2) k = match tget t1 k with Some f => Some f | None => tget t2 k end.
Proof.
  induction t1 as [|[k' f] t1 IH]; cbn [app tget]; [reflexivity|]. destruct (N.eqb k' k); [reflexivity|exact IH].
Qed.

Definition first_with (idx:N -> N) (k:N) (l:list N) : option N := find (fun f => N.eqb (idx f) k) l.

Lemma collect_first_gen idx l : forall t k,
  tget (fold_left (claim idx) l t) k = match tget t k with Some f => Some f | None => first_with idx k l end.
Proof.
  induction l as [|f l IH]; intros t k; cbn [fold_left first_with find].
  - destruct (tget t k); reflexivity.
  - rewrite IH. unfold claim. destruct (tget t (idx f)) as [g|] eqn:Hg.
    + destruct (tget t k) as [h|] eqn:Hk; [reflexivity|].
      destruct (N.eqb_spec (idx f) k) as [He|Hne]; [|reflexivity]. subst k. rewrite Hg in Hk. discriminate.
    + rewrite tget_app. destruct (tget t k) as [h|] eqn:Hk; [reflexivity|]. cbn [tget].
      destruct (N.eqb (idx f) k); reflexivity.
Qed.

Theorem collect_first idx l k : tget (collect idx l) k = first_with idx k l.
Proof. unfold collect. rewrite collect_first_gen. reflexivity. Qed.

Definition told_apart (idx:N -> N) (l:list N) : Prop := forall a b, In a l -> In b l -> idx a = idx b -> a = b.

Lemma find_unique_perm (p:N -> bool) l l' : Permutation l l' ->
  (forall a b, In a l -> In b l -> p a = true -> p b = true -> a = b) -> find p l = find p l'.
Proof.
  intros Hp Hu.
  destruct (find p l) as [a|] eqn:Ha.
  - destruct (find_some _ _ Ha) as [Hin Hpa].
    destruct (find p l') as [b|] eqn:Hb.
    + destruct (find_some _ _ Hb) as [Hinb Hpb]. f_equal. apply Hu; try assumption.
      eapply Permutation_in; [apply Permutation_sym; exact Hp|exact Hinb].
    + exfalso. pose proof (find_none _ _ Hb a (Permutation_in _ Hp Hin)) as Hn. rewrite Hpa in Hn. discriminate.
  - destruct (find p l') as [b|] eqn:Hb; [|reflexivity]. exfalso.
    destruct (find_some _ _ Hb) as [Hinb Hpb].
    pose proof (find_none _ _ Ha b (Permutation_in _ (Permutation_sym Hp) Hinb)) as Hn. rewrite Hpb in Hn. discriminate.
Qed.

Theorem claim_order_independent idx l l' : told_apart idx l -> Permutation l l' ->
  forall k, tget (collect idx l) k = tget (collect idx l') k.
Proof.
  intros Hi Hp k. rewrite !collect_first. unfold first_with. apply find_unique_perm; [exact Hp|].
  intros a b Ha Hb Hpa Hpb. apply Hi; try assumption.
  apply N.eqb_eq in Hpa. apply N.eqb_eq in Hpb. congruence.
Qed.

(* ... and every claimed spelling is then the one read under its index *)
Corollary every_spelling_is_read idx l f : told_apart idx l -> In f l -> tget (collect idx l) (idx f) = Some f.
Proof.
  intros Hi Hin. rewrite collect_first. unfold first_with.
  destruct (find (fun g => N.eqb (idx g) (idx f)) l) as [g|] eqn:Hg.
  - destruct (find_some _ _ Hg) as [Hing He]. apply N.eqb_eq in He. f_equal. apply Hi; assumption.
  - exfalso. pose proof (find_none _ _ Hg f Hin) as Hn. cbn beta in Hn. rewrite N.eqb_refl in Hn. discriminate.
Qed.

(* spellings 2 = billing/Types.sysl and 3 = billing/types.sysl, two files; fold = an index that ignores letter case *)
Definition casefold (f:N) : N := N.div2 f.

Theorem claim_casefold_refuted : exists l l' k, Permutation l l' /\ tget (collect casefold l) k <> tget (collect casefold l') k.
Proof. exists [2; 3], [3; 2], 1. split; [apply perm_swap|]. vm_compute. discriminate. Qed.

Theorem claim_injective_iff idx a b :
  (forall k, tget (collect idx [a; b]) k = tget (collect idx [b; a]) k) <-> (idx a <> idx b \/ a = b).
Proof.
  split.
  - intros H. destruct (N.eq_dec (idx a) (idx b)) as [He|Hne]; [right|left; exact Hne].
    specialize (H (idx a)). rewrite !collect_first in H. unfold first_with in H. cbn [find] in H.
    rewrite N.eqb_refl in H. rewrite <- He in H. rewrite N.eqb_refl in H. congruence.
  - intros [Hne| ->] k; [|reflexivity]. apply claim_order_independent; [|apply perm_swap].
    intros x y [<-|[<-|[]]] [<-|[<-|[]]] He; try reflexivity; exfalso; apply Hne; congruence.
Qed.

(* the identity index (what fileNameToIndex is on spellings without `\` and `@`) tells everything apart *)
Lemma identity_tells_apart l : told_apart (fun f => f) l.
Proof. intros a b _ _ H. exact H. Qed.

Example told_apart_nontrivial : told_apart (fun f => f) [2; 3; 2; 7] /\ files_read (fun f => f) [2; 3; 2; 7] = [2; 3; 7].
Proof. split; [apply identity_tells_apart|reflexivity]. Qed.
