(* Conc/Run.v - the keyed store at the REAL per-key machine, refutations that need a concrete machine, non-vacuity
   examples, and the correspondence glue (case types + `ok` functions) for harness/cmd/c07. *)
From Coq Require Import List String NArith Bool Permutation.
Import ListNotations.
Require Import Verif.Base.Harness Verif.Front.Indent Verif.Front.IndentProps Verif.Gen.LexerTables.
Require Import Verif.Conc.Keyed Verif.Conc.KeyedProps Verif.Conc.Post Verif.Conc.PostProps.
Require Import Verif.Conc.Infer Verif.Conc.InferProps Verif.Conc.Claim Verif.Conc.ClaimProps Verif.Conc.CurrentFlags.
Local Open Scope N_scope.

(* ---------- the indentation machine of Front/Indent.v on the current lexer tables, as a total step ---------- *)
Definition istep (s:Indent.st) (r:raw) : Indent.st * list Indent.out :=
  match Indent.step lexer_tables s r with Done p => p | _ => (s, []) end.

(* the default branch is never taken (Front/IndentProps.step_total) *)
Lemma istep_exact s r : Indent.step lexer_tables s r = Done (istep s r).
Proof.
  unfold istep. destruct (step_total lexer_tables s r) as [s' [o H]]. rewrite H. reflexivity.
Qed.

Definition iinit : Indent.st := Indent.init lexer_tables.
Definition irun (del:bool) := Keyed.run Indent.st raw Indent.out iinit istep del.
Definition isolo := Keyed.solo Indent.st raw Indent.out iinit istep.

Definition vis (t:N) : raw := {| ty := t; hidden := false; width := 0; eof := false |}.
Definition hidw (t w:N) : raw := {| ty := t; hidden := true; width := w; eof := false |}.
Definition reof : raw := {| ty := 0; hidden := false; width := 0; eof := true |}.
Definition tName : N := 64.

(* ---------- fresh_start_refuted: without the delete, a re-issued address inherits the previous owner's state ----------
   Session 1 (key 7) reads `\n`, four spaces, a name - one indentation level is open - and is abandoned there (its parse
   ended without reaching end of file, e.g. through the recover in parseString).  Session 2 is allocated at the same
   address after session 1 ended; its file is empty.  Alone it sees just EOF; here it sees DEDENT, EOF. *)
Definition stale_hist : hist raw :=
  [ (1, AUse (hidw tok_NEWLINE 0)); (1, AUse (hidw tok_WS 4)); (1, AUse (vis tName)); (1, AEnd);
    (2, AUse reof); (2, AEnd) ].
Definition same_key (i:N) : N := 7.

Theorem fresh_start_refuted : exists kof (h:hist raw) i,
  wf kof true h = true /\ obs i (snd (irun false kof [] h)) <> isolo (toks_of i h).
Proof. exists same_key, stale_hist, 2. split; [reflexivity|]. vm_compute. discriminate. Qed.

(* with the delete the same history is harmless (an instance of fresh_start; evaluated here as a sanity test) *)
Example stale_hist_with_delete : obs 2 (snd (irun true same_key [] stale_hist)) = isolo (toks_of 2 stale_hist).
Proof. vm_compute. reflexivity. Qed.

(* A file that is read to its end leaves the indentation part of the state as it found it (EOF pops every level),
   so for complete files the stale part is the rest of lexerState.  noMoreImports is the field with a visible effect:
       COLON  : ':' { ls(l).noMoreImports = true };
       IMPORT : IMPORT_KEY WS {...} { !ls(p).noMoreImports }? -> pushMode(FILENAME);
   (Gen.ConcShape.no_more_imports_uses).  flag_step is that flag alone. *)
Inductive ftok := FColon | FImportWord | FOther.
Inductive fout := OImport | ONotImport | OTok.
Definition flag_step (no_more_imports:bool) (t:ftok) : bool * list fout :=
  match t with
  | FColon => (true, [OTok])
  | FImportWord => (no_more_imports, [if no_more_imports then ONotImport else OImport])
  | FOther => (no_more_imports, [OTok])
  end.

(* session 1 compiles `App:` ... to the end; session 2, at the same address, starts with `import x` *)
Definition stale_import_hist : hist ftok :=
  [ (1, AUse FOther); (1, AUse FColon); (1, AUse FOther); (1, AEnd); (2, AUse FImportWord); (2, AUse FOther); (2, AEnd) ].

Theorem fresh_start_refuted_import : exists kof (h:hist ftok) i,
  wf kof true h = true /\
  obs i (snd (Keyed.run bool ftok fout false flag_step false kof [] h)) <> Keyed.solo bool ftok fout false flag_step (toks_of i h).
Proof. exists same_key, stale_import_hist, 2. split; [reflexivity|]. vm_compute. discriminate. Qed.

(* ---------- non-vacuity of the hypotheses of the KeyedProps theorems ---------- *)
(* three compilations, keys 10 11 12, interleaved token by token *)
Definition demo_comps : list (N * list raw) :=
  [ (0, [hidw tok_NEWLINE 0; hidw tok_WS 4; vis tName; reof]);
    (1, [vis tName; hidw tok_NEWLINE 0; hidw tok_WS 2; vis tName; hidw tok_NEWLINE 0; vis tName; reof]);
    (2, [reof]) ].
Definition demo_key (i:N) : N := 10 + i.
Definition demo_hist : hist raw :=
  [ (0, AUse (hidw tok_NEWLINE 0)); (1, AUse (vis tName)); (2, AUse reof); (1, AUse (hidw tok_NEWLINE 0));
    (0, AUse (hidw tok_WS 4)); (1, AUse (hidw tok_WS 2)); (2, AEnd); (0, AUse (vis tName)); (1, AUse (vis tName));
    (1, AUse (hidw tok_NEWLINE 0)); (0, AUse reof); (1, AUse (vis tName)); (0, AEnd); (1, AUse reof); (1, AEnd) ].

Example demo_is_interleaving : Merge (map (fun c => (fst c, comp (snd c))) demo_comps) demo_hist.
Proof.
  unfold demo_comps, demo_hist, comp. cbn [map fst snd app].
  repeat (first
    [ apply (M_step raw []); cbn [app]
    | apply (M_step raw [_]); cbn [app]
    | apply (M_step raw [_; _]); cbn [app] ]).
  apply M_nil. repeat constructor.
Qed.
Example demo_keys_distinct : NoDup (map (fun c => demo_key (fst c)) demo_comps).
Proof. cbn. repeat constructor; cbn; intuition discriminate. Qed.
Example demo_wf : wf demo_key false demo_hist = true /\ wf demo_key true demo_hist = true /\ live_after [] demo_hist = [].
Proof. repeat split; reflexivity. Qed.
(* the streams are not trivial: compilation 0 sees an INDENT and a DEDENT *)
Example demo_nontrivial : all_tys lexer_tables (obs 0 (snd (irun true demo_key [] demo_hist))) = [61; 1; 65; 64; 2; 0].
Proof. vm_compute. reflexivity. Qed.
(* address re-use that the discipline allows: 2 takes 0's key after 0 ended *)
Example reuse_wf : wf (fun i => if N.eqb i 2 then 10 else 10 + i) true
  [ (0, AUse (vis tName)); (1, AUse (vis tName)); (0, AEnd); (2, AUse reof); (1, AEnd); (2, AEnd) ] = true.
Proof. reflexivity. Qed.
Example map_order_rev_nontrivial : map_order (@rev N) /\ rev [1; 2; 3] <> [1; 2; 3].
Proof. split; [exact map_order_rev|discriminate]. Qed.

(* ---------- correspondence glue ---------- *)
(* 1. real lexers driven in an interleaved order by one goroutine, sharing the process-global map.  The harness plays
   parseString: it builds each lexer, pulls tokens, and calls DeleteLexerState at the session's end (so del = true
   whatever parse.go does); distinct live lexers have distinct addresses, key = session number.
   case = (history, per session the types of ALL tokens NextToken returned, number of map entries after every action) *)
Definition u (i t w:N) (h e:bool) : N * act raw := (i, AUse {| ty := t; hidden := h; width := w; eof := e |}).
Definition e (i:N) : N * act raw := (i, AEnd).

Fixpoint sizes (m:Keyed.store Indent.st) (h:hist raw) : list N :=
  match h with
  | [] => []
  | ev :: h' => let m1 := fst (Keyed.exec Indent.st raw Indent.out iinit istep true (fun i => i) m ev) in
                N.of_nat (List.length m1) :: sizes m1 h'
  end.

Definition keyed_case := (list (N * act raw) * list (N * list N) * list N)%type.
Definition keyed_ok (c:keyed_case) : bool :=
  match c with (h, streams, szs) =>
    let tr := snd (irun true (fun i => i) [] h) in
    forallb (fun p => list_eqb N.eqb (all_tys lexer_tables (obs (fst p) tr)) (snd p)) streams
    && list_eqb N.eqb (sizes [] h) szs
    && wf (fun i => i) false h
  end.

(* 2. mixin post-processing: a generated module compiled by the real parser; per app the member table afterwards,
   sorted by member name.  Names are numbers in the byte order of the real names. *)
Fixpoint minsert (x:N * N) (l:list (N * N)) : list (N * N) :=
  match l with
  | [] => [x]
  | y :: l' => if N.leb (fst x) (fst y) then x :: l else y :: minsert x l'
  end.
Definition msort (l:list (N * N)) : list (N * N) := fold_right minsert [] l.
Definition pair_eqb (x y:N * N) : bool := N.eqb (fst x) (fst y) && N.eqb (snd x) (snd y).

Definition post_case := (list (N * list (N * N) * list N) * list (N * list (N * N)))%type.
Definition post_ok (c:post_case) : bool :=
  match c with (apps, observed) =>
    let m := map (fun a => match a with (n, mem, mix) => {| a_name := n; a_mem := mem; a_mix := mix |} end) apps in
    let r := post_process true (fun l => l) m in
    forallb (fun p => match lookup_app r (fst p) with
                      | Some a => list_eqb pair_eqb (msort (a_mem a)) (snd p)
                      | None => false
                      end) observed
    && N.eqb (N.of_nat (List.length observed)) (N.of_nat (List.length apps))
  end.

(* 3. (round 3) the whole application loop of postProcess: generated modules with views, untyped nested transforms, lets,
   mixins that share views; compiled by the real parser with a parser of its own.  Observed per application: member table
   and view table (name, identity of the view object), both sorted by name; and per nested transform the anonymous type it
   was given and the application that inferred it, sorted by transform.  The model runs at the flags of the CURRENT source
   (Conc/CurrentFlags.current_flags); with both loops sorted the oracles do not matter (InferProps.pp_order_independent), so the
   identity is used. *)
Definition infer_case := (list (N * list (N * N) * list (N * N * bool * list (option N * list N)) * list N)
                          * list (N * list (N * N) * list (N * N)) * list (N * (N * N)))%type.

Definition mk_view (v:N * N * bool * list (option N * list N)) : vrec :=
  match v with (vn, vi, ab, ss) => {| v_name := vn; v_id := vi; v_abs := ab; v_stmts := ss |} end.
Definition mk_iapp (a:N * list (N * N) * list (N * N * bool * list (option N * list N)) * list N) : iapp :=
  match a with (n, mem, vs, mix) => {| i_name := n; i_mem := mem; i_views := map mk_view vs; i_mix := mix; i_refs := [] |} end.

Fixpoint tinsert (x:N * (N * N)) (l:list (N * (N * N))) : list (N * (N * N)) :=
  match l with
  | [] => [x]
  | y :: l' => if N.leb (fst x) (fst y) then x :: l else y :: tinsert x l'
  end.
Definition tsort (l:list (N * (N * N))) : list (N * (N * N)) := fold_right tinsert [] l.
Definition triple_eqb (x y:N * (N * N)) : bool :=
  N.eqb (fst x) (fst y) && N.eqb (fst (snd x)) (fst (snd y)) && N.eqb (snd (snd x)) (snd (snd y)).

Definition infer_ok (c:infer_case) : bool :=
  match c with (apps, observed, typed) =>
    let r := pp current_flags (fun l => l) (fun _ l => l) [] (map mk_iapp apps) in
    forallb (fun p => match p with (n, mem, vs) =>
                        match ilookup (p_mod r) n with
                        | Some a => list_eqb pair_eqb (msort (i_mem a)) mem
                                    && list_eqb pair_eqb (msort (map (fun v => (v_name v, v_id v)) (i_views a))) vs
                        | None => false
                        end
                      end) observed
    && N.eqb (N.of_nat (List.length observed)) (N.of_nat (List.length apps))
    && list_eqb triple_eqb (tsort (p_typed r)) typed
  end.

Fixpoint ninsert (x:N) (l:list N) : list N :=
  match l with [] => [x] | y :: l' => if N.leb x y then x :: l else y :: ninsert x l' end.
Definition nsort (l:list N) : list N := fold_right ninsert [] l.

(* 3b. (round 3, second pass) the life of ONE parse.Parser value: `mods` = the modules of the calls (by call number), a
   schedule of the calls' two events ((T, g) = the start of call g, where Parse makes the accumulators fresh if it does;
   (F, g) = the rest of call g, tree walks and postProcess), and per (F, g) in schedule order what call g returned (as in 3.)
   and what the parser held afterwards: the keys of GetLets() (sorted) and, per view name, the scope keys of the ErrRedefined
   messages of GetMessages() in the order they were appended.  The harness produces sequential schedules (one parser compiles
   2..4 sources in a row, names shared between them) and the interleaved one (two goroutines, forced with a gate reader:
   start 1, start 2, rest of 1, rest of 2).  Model: Infer.run_sched at the flags and the reset of the CURRENT source. *)
Definition app_tuple := (N * list (N * N) * list (N * N * bool * list (option N * list N)) * list N)%type.
Definition post_obs := (N * list (N * list (N * N) * list (N * N)) * list (N * (N * N)) * list N * list (N * list N))%type.
Definition sched_case := (list (N * list app_tuple) * list (bool * N) * list post_obs)%type.

Definition state_ok (st:pstate) (napps:nat) (observed:list (N * list (N * N) * list (N * N))) (typed:list (N * (N * N))) : bool :=
  forallb (fun p => match p with (n, mem, vs) =>
                      match ilookup (p_mod st) n with
                      | Some a => list_eqb pair_eqb (msort (i_mem a)) mem
                                  && list_eqb pair_eqb (msort (map (fun v => (v_name v, v_id v)) (i_views a))) vs
                      | None => false
                      end
                    end) observed
  && Nat.eqb (List.length observed) napps
  && list_eqb triple_eqb (tsort (p_typed st)) typed.

Definition msgs_ok (msgs:list (N * N)) (observed:list (N * list N)) : bool :=
  forallb (fun p => list_eqb N.eqb (map snd (filter (fun e => N.eqb (fst e) (fst p)) msgs)) (snd p)) observed
  && Nat.eqb (List.length msgs) (fold_right (fun p n => (List.length (snd p) + n)%nat) 0%nat observed).

Fixpoint mods_of (l:list (N * list app_tuple)) (g:N) : list app_tuple :=
  match l with
  | [] => []
  | (g', apps) :: l' => if N.eqb g' g then apps else mods_of l' g
  end.

Fixpoint posts_ok (mods:N -> list app_tuple) (rs:list (N * pstate)) (os:list post_obs) : bool :=
  match rs, os with
  | [], [] => true
  | r :: rs', o :: os' =>
      match o with (g', observed, typed, lets, msgs) =>
        N.eqb (fst r) g' && state_ok (snd r) (List.length (mods (fst r))) observed typed
        && list_eqb N.eqb (nsort (p_lets (snd r))) lets && msgs_ok (p_msgs (snd r)) msgs && posts_ok mods rs' os'
      end
  | _, _ => false
  end.

Definition sched_ok (c:sched_case) : bool :=
  match c with (ml, sched, os) =>
    let evs := map (fun e : bool * N => if fst e then EReset (snd e) else EPost (snd e)) sched in
    let r := run_sched current_resets current_flags (fun l => l) (fun _ l => l) (fun g => map mk_iapp (mods_of ml g)) new_parser evs in
    posts_ok (mods_of ml) (snd r) os
  end.

(* 3c. (round 3, second pass) fixTypeRefScope inside the application loop: generated modules whose applications and types
   share names, with fields and endpoint parameters typed `<application>.<type>`, and mixins that move types - and with them
   the reference objects - between applications.  Observed: per application the member table, and the references that came
   out as local deep references (Appname gone, Path = [A, B]), sorted.  Model: Infer.pp at the current flags. *)
Definition ref_tuple := (N * option N * N * N)%type.
Definition refs_case := (list (N * list (N * N) * list N * list ref_tuple) * list (N * list (N * N)) * list N)%type.
Definition mk_ref (r:ref_tuple) : rref := match r with (i, f, a, t) => {| r_id := i; r_field := f; r_app := a; r_type := t |} end.
Definition refs_ok (c:refs_case) : bool :=
  match c with (apps, observed, locals) =>
    let m := map (fun a => match a with (n, mem, mix, rs) =>
                   {| i_name := n; i_mem := mem; i_views := []; i_mix := mix; i_refs := map mk_ref rs |} end) apps in
    let r := pp current_flags (fun l => l) (fun _ l => l) [] m in
    forallb (fun p => match ilookup (p_mod r) (fst p) with
                      | Some a => list_eqb pair_eqb (msort (i_mem a)) (snd p)
                      | None => false
                      end) observed
    && Nat.eqb (List.length observed) (List.length apps)
    && list_eqb N.eqb (p_local r) locals
  end.

(* 4. (round 3) the retrieved-file table: the import statements of a graph, each as (index, spelling) in the harness's own
   numbering of what a file system makes of the spelling, and the files the real collectSpecs asked the reader for under one
   forced completion order.  Model: first claim per index; the set of files read must be the same. *)
Definition claim_case := (list N * list N)%type.
Definition claim_ok (c:claim_case) : bool :=
  match c with (claims, reads) => list_eqb N.eqb (nsort (files_read (fun f => f) claims)) (nsort reads) end.
