(* C02 correspondence glue: decidable equality of projections (maps compared as maps) and the case check
   `denote spec = observed`. *)
From Coq Require Import String List ZArith NArith Ascii Bool.
Require Import Verif.Base.Harness Verif.Front.Ast Verif.Front.Denote Verif.Front.Canon Verif.Front.CanonFull.
Import ListNotations.
Local Open Scope string_scope.

(* list equality with the element test outside the fixpoint, so that it can be used in nested recursion *)
Section ListEq.
  Context {A:Type} (eqb:A -> A -> bool).
  Fixpoint leqb (x y:list A) : bool :=
    match x, y with
    | [], [] => true
    | a :: x', b :: y' => eqb a b && leqb x' y'
    | _, _ => false
    end.
End ListEq.
Definition lstr_eqb := leqb String.eqb.

(* two association lists with unique keys denote the same map *)
Definition amap_eqb {V} (eqb:V -> V -> bool) (m1 m2:list (string * V)) : bool :=
  Nat.eqb (List.length m1) (List.length m2) &&
  forallb (fun kv => match aget (fst kv) m2 with Some v => eqb (snd kv) v | None => false end) m1.

Fixpoint attr_eqb (a b:attr) : bool :=
  match a, b with
  | AS x, AS y => String.eqb x y
  | AA x, AA y => leqb attr_eqb x y
  | AUnset, AUnset => true
  | _, _ => false
  end.
Definition attrs_eqb := amap_eqb attr_eqb.

Definition scope_eqb (a b:scope) := lstr_eqb (sc_app a) (sc_app b) && lstr_eqb (sc_path a) (sc_path b).
Definition prim_eqb (a b:prim) : bool :=
  match a, b with
  | PNone, PNone | PEmpty, PEmpty | PAny, PAny | PBool, PBool | PInt, PInt | PFloat, PFloat | PDecimal, PDecimal
  | PString, PString | PBytes, PBytes | PString8, PString8 | PDate, PDate | PDatetime, PDatetime | PXml, PXml
  | PUuid, PUuid => true
  | _, _ => false
  end.
Definition zz_eqb (a b:Z * Z) := Z.eqb (fst a) (fst b) && Z.eqb (snd a) (snd b).
Definition constr_eqb (a b:constr) : bool :=
  match a, b with
  | C b1 mi1 ma1 p1 s1 r1, C b2 mi2 ma2 p2 s2 r2 =>
      Z.eqb b1 b2 && Z.eqb mi1 mi2 && Z.eqb ma1 ma2 && Z.eqb p1 p2 && Z.eqb s1 s2 && option_eqb zz_eqb r1 r2
  | _, _ => false
  end.
Definition szeqb (a b:string * Z) := String.eqb (fst a) (fst b) && Z.eqb (snd a) (snd b).

Fixpoint ty_eqb (a b:ty) {struct a} : bool :=
  match a, b with
  | Ty k1 o1 c1 a1 d1, Ty k2 o2 c2 a2 d2 =>
      kind_eqb k1 k2 && Bool.eqb o1 o2 && leqb constr_eqb c1 c2 && attrs_eqb a1 a2 && String.eqb d1 d2
  | _, _ => false
  end
with kind_eqb (a b:kind) {struct a} : bool :=
  match a, b with
  | KUnset, KUnset | KNoType, KNoType => true
  | KPrim p, KPrim q => prim_eqb p q
  | KRef c1 r1, KRef c2 r2 => option_eqb scope_eqb c1 c2 && scope_eqb r1 r2
  | KSet x, KSet y | KSeq x, KSeq y | KList x, KList y => ty_eqb x y
  | KTuple f1, KTuple f2 => amap_eqb ty_eqb f1 f2
  | KRel f1 p1, KRel f2 p2 => amap_eqb ty_eqb f1 f2 && lstr_eqb p1 p2
  | KEnum i1, KEnum i2 => amap_eqb Z.eqb i1 i2
  | KOneOf m1, KOneOf m2 => leqb ty_eqb m1 m2
  | _, _ => false
  end.

Definition lm_eqb (a b:loopmode) : bool :=
  match a, b with LNone, LNone | LWhile, LWhile | LUntil, LUntil => true | _, _ => false end.

Fixpoint stmt_eqb (a b:stmt) {struct a} : bool :=
  match a, b with
  | SAction a1 t1, SAction a2 t2 => attrs_eqb a1 a2 && String.eqb t1 t2
  | SCall a1 g1 e1 r1, SCall a2 g2 e2 r2 => attrs_eqb a1 a2 && lstr_eqb g1 g2 && String.eqb e1 e2 && option_eqb lstr_eqb r1 r2
  | SRet a1 t1, SRet a2 t2 => attrs_eqb a1 a2 && String.eqb t1 t2
  | SCond a1 t1 b1, SCond a2 t2 b2 => attrs_eqb a1 a2 && String.eqb t1 t2 && leqb stmt_eqb b1 b2
  | SLoop a1 m1 t1 b1, SLoop a2 m2 t2 b2 => attrs_eqb a1 a2 && lm_eqb m1 m2 && String.eqb t1 t2 && leqb stmt_eqb b1 b2
  | SForeach a1 t1 b1, SForeach a2 t2 b2 => attrs_eqb a1 a2 && String.eqb t1 t2 && leqb stmt_eqb b1 b2
  | SGroup a1 t1 b1, SGroup a2 t2 b2 => attrs_eqb a1 a2 && String.eqb t1 t2 && leqb stmt_eqb b1 b2
  | SAlt a1 c1, SAlt a2 c2 =>
      attrs_eqb a1 a2 &&
      leqb (fun x y => String.eqb (fst x) (fst y) && leqb stmt_eqb (snd x) (snd y)) c1 c2
  | _, _ => false
  end.

Definition meth_eqb (a b:meth) : bool :=
  match a, b with
  | MNone, MNone | MGet, MGet | MPut, MPut | MPost, MPost | MDelete, MDelete | MPatch, MPatch | MOptions, MOptions
  | MHead, MHead => true
  | _, _ => false
  end.
Definition param_eqb (a b:string * ty) := String.eqb (fst a) (fst b) && ty_eqb (snd a) (snd b).
Definition rest_eqb (a b:rest) :=
  meth_eqb (r_method a) (r_method b) && String.eqb (r_path a) (r_path b) &&
  leqb param_eqb (r_query a) (r_query b) && leqb param_eqb (r_url a) (r_url b).
Definition endpoint_eqb (a b:endpoint) :=
  String.eqb (e_name a) (e_name b) && String.eqb (e_long a) (e_long b) && String.eqb (e_doc a) (e_doc b) &&
  attrs_eqb (e_attrs a) (e_attrs b) && Bool.eqb (e_pubsub a) (e_pubsub b) && lstr_eqb (e_source a) (e_source b) &&
  leqb param_eqb (e_params a) (e_params b) && option_eqb rest_eqb (e_rest a) (e_rest b) &&
  leqb stmt_eqb (e_stmts a) (e_stmts b).
Definition app_eqb (a b:app) :=
  lstr_eqb (a_parts a) (a_parts b) && String.eqb (a_long a) (a_long b) && attrs_eqb (a_attrs a) (a_attrs b) &&
  amap_eqb ty_eqb (a_types a) (a_types b) && amap_eqb endpoint_eqb (a_eps a) (a_eps b) &&
  leqb lstr_eqb (a_mixins a) (a_mixins b).
Definition module_eqb := amap_eqb app_eqb.

(* one correspondence case: the abstract specification and what the real compiler produced for its text
   (None: the text was rejected). The listener model must reproduce it; and whenever the specification is in the
   sub-language of Front/Canon.v, well-formed and not re-scoped, so must the declarative reading `canon`
   (by CanonProps.denote_canon the two coincide there - this ties `canon` itself to the implementation). *)
(* ... and the same for the reading `canonf` of the whole member language (REST trees, subscriptions, collector
   blocks; CanonFullProps.denote_canon_full): `canonf spec = observed` whenever wf_full holds and postProcess has
   nothing to do, and `post (canonf spec) = observed` whenever wf_full holds (mixins, re-scoped references and
   collector entries applied to the declarative reading). *)
Definition full_final (s:spec) : bool :=
  wf_full s && no_mixins (canonf s) && no_rescope (canonf s) && no_collector (canonf s).
Definition ok (c : spec * option module) : bool :=
  option_eqb module_eqb (denote (fst c)) (snd c) &&
  (if wf_sub (fst c) && no_mixins (canon (fst c)) && no_rescope (canon (fst c)) && no_collector (canon (fst c))
   then option_eqb module_eqb (Some (canon (fst c))) (snd c) else true) &&
  (if full_final (fst c) then option_eqb module_eqb (Some (canonf (fst c))) (snd c) else true) &&
  (if wf_full (fst c) then option_eqb module_eqb (post (canonf (fst c))) (snd c) else true).

(* how many cases of a file the global equalities cover (a count, printed next to M; not a theorem):
   (canon = observed checked, canonf = observed checked, post canonf = observed checked, cases) *)
Definition cover (cases : list (N * (spec * option module))) : N * N * N * N :=
  let cnt (f : spec -> bool) := N.of_nat (List.length (filter (fun c => f (fst (snd c))) cases)) in
  (cnt (fun s => wf_sub s && no_mixins (canon s) && no_rescope (canon s) && no_collector (canon s)),
   cnt full_final, cnt wf_full, N.of_nat (List.length cases)).
