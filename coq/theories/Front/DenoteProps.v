(* C02: theorems about the listener model Front/Denote.v.
   1. obligations against the CURRENT source (Gen/PrimTables.v, regenerated every run): the primitive / constraint
      tables the model uses are the ones the code has;
   2. stmts_order_nesting: the scope-stack machine over the walker's enter/exit events rebuilds exactly the
      statement tree that was written - kind, text, order, nesting - for arbitrary depth and lengths;
   3. field round trip: what a field declaration says (collection, type, optionality, size) can be read back from
      the compiled field; nothing is lost or moved to the wrong level;
   4. exactness of the application / type / endpoint name sets and of single declarations through the whole
      listener fold (lookup-or-create never loses or invents an element). *)
From Coq Require Import String List ZArith Ascii Bool Lia.
Require Import Verif.Front.Ast Verif.Front.Denote Verif.Gen.PrimTables.
Import ListNotations.
Local Open Scope string_scope.
Local Open Scope list_scope.

(* ================================================================== 1. the tables of the current source *)
Definition native_name (n:native) : string :=
  match n with
  | NInt => "INT" | NInt32 => "INT32" | NInt64 => "INT64" | NFloat => "FLOAT" | NFloat32 => "FLOAT32"
  | NFloat64 => "FLOAT64" | NString => "STRING" | NDate => "DATE" | NBool => "BOOL" | NDecimal => "DECIMAL"
  | NDatetime => "DATETIME" | NBytes => "BYTES" | NAny => "ANY"
  end.
Definition prim_name (p:prim) : string :=
  match p with
  | PNone => "NO_Primitive" | PEmpty => "EMPTY" | PAny => "ANY" | PBool => "BOOL" | PInt => "INT" | PFloat => "FLOAT"
  | PDecimal => "DECIMAL" | PString => "STRING" | PBytes => "BYTES" | PString8 => "STRING_8" | PDate => "DATE"
  | PDatetime => "DATETIME" | PXml => "XML" | PUuid => "UUID"
  end.
Definition all_prims := [PNone; PEmpty; PAny; PBool; PInt; PFloat; PDecimal; PString; PBytes; PString8; PDate; PDatetime; PXml; PUuid].
Definition prim_named (s:string) : prim :=
  match find (fun p => String.eqb (prim_name p) s) all_prims with Some p => p | None => PNone end.

(* primitiveFromNativeDataType as the regenerated tables describe it *)
Definition gen_prim_of (n:native) : prim * list constr :=
  let s := native_name n in
  match aget s prim_value with
  | Some v => if Z.eqb v 0 then (PNone, []) else (prim_named s, [])
  | None =>
      match aget s native_special with
      | Some (p, bits, rng) => (prim_named p, [C bits 0 0 0 0 rng])
      | None => (PNone, [])
      end
  end.

Lemma prim_of_current : forall n, prim_of n = gen_prim_of n.
Proof. destruct n; reflexivity. Qed.

Lemma native_names_upper : native_upper = true.
Proof. reflexivity. Qed.

Definition in_cases (p:prim) (cs:list (list string)) : bool := existsb (String.eqb (prim_name p)) (concat cs).

(* which primitives take a size / an array specification; every other one makes the listener panic *)
Lemma sizable_current : forall p, sizable p = in_cases p size_cases.
Proof. destruct p; reflexivity. Qed.
Lemma arrayable_current : forall p, sizable p = in_cases p array_cases.
Proof. destruct p; reflexivity. Qed.
Lemma decimal_arm_current : nth 1 size_cases [] = ["DECIMAL"] /\ List.length size_cases = 2%nat /\ List.length array_cases = 1%nat.
Proof. repeat split; reflexivity. Qed.
Lemma defaults_panic_current : size_default_panics = true /\ array_default_panics = true.
Proof. split; reflexivity. Qed.
(* the constraint built from a specification REPLACES what the native type brought, at all four call sites *)
Lemma spec_replaces_current :
  map (fun x => (fst (fst x), snd (fst x))) spec_assignments =
    [("ExitField_type", "makeTypeConstraint"); ("ExitField_type", "makeArrayConstraint");
     ("exitSetOrSequence_type", "makeTypeConstraint"); ("exitSetOrSequence_type", "makeArrayConstraint")]
  /\ forallb (fun x => snd x) spec_assignments = true.
Proof. split; reflexivity. Qed.

(* ================================================================== 2. statements: order and nesting *)
(* what a written statement IS in the compiled model (kind, text, attributes; children by recursion) *)
Fixpoint image (ap:list string) (s:xstmt) : stmt :=
  match s with
  | XAction es t => SAction (opt_attrs es) t
  | XCall es tg ep args => SCall (opt_attrs es) (match tg with Some p => p | None => ap end) ep args
  | XRet t => SRet [] t
  | XBlock k t body => block_stmt k t (map (image ap) body)
  | XOneOf cases => SAlt [] (map (fun c => (fst c, map (image ap) (snd c))) cases)
  end.

(* induction principle for the nested type *)
Section XInd.
  Variable P : xstmt -> Prop.
  Hypothesis Hact : forall es t, P (XAction es t).
  Hypothesis Hcall : forall es tg ep args, P (XCall es tg ep args).
  Hypothesis Hret : forall t, P (XRet t).
  Hypothesis Hblock : forall k t body, Forall P body -> P (XBlock k t body).
  Hypothesis Honeof : forall cases, Forall (fun c => Forall P (snd c)) cases -> P (XOneOf cases).
  Fixpoint xstmt_ind' (s:xstmt) : P s :=
    match s with
    | XAction es t => Hact es t
    | XCall es tg ep args => Hcall es tg ep args
    | XRet t => Hret t
    | XBlock k t body =>
        Hblock k t body ((fix go (l:list xstmt) : Forall P l :=
                            match l with [] => Forall_nil _ | x :: r => Forall_cons _ (xstmt_ind' x) (go r) end) body)
    | XOneOf cases =>
        Honeof cases ((fix goc (cs:list (string * list xstmt)) : Forall (fun c => Forall P (snd c)) cs :=
                         match cs with
                         | [] => Forall_nil _
                         | c :: r => Forall_cons _
                                       ((fix go (l:list xstmt) : Forall P l :=
                                           match l with [] => Forall_nil _ | x :: r => Forall_cons _ (xstmt_ind' x) (go r) end) (snd c))
                                       (goc r)
                         end) cases)
    end.
End XInd.

Lemma run_app ap e1 e2 stk : run ap (e1 ++ e2) stk = match run ap e1 stk with Some s => run ap e2 s | None => None end.
Proof.
  revert stk. induction e1 as [|e r IH]; intros stk; cbn [run List.app]; [reflexivity|].
  destruct (step ap e stk); [apply IH|reflexivity].
Qed.

Lemma walk_block k t body : walk (XBlock k t body) = EvOpen k t :: walks body ++ [EvClose].
Proof. reflexivity. Qed.

Fixpoint wcases (cs:list (string * list xstmt)) : list ev :=
  match cs with [] => [] | c :: r => EvCase (fst c) :: walks (snd c) ++ [EvClose] ++ wcases r end.
Lemma walk_oneof cases : walk (XOneOf cases) = EvOneOf :: wcases cases ++ [EvClose].
Proof.
  cbn [walk]. f_equal. f_equal. induction cases as [|[l b] r IH]; [reflexivity|].
  cbn [wcases fst snd]. rewrite <- IH. reflexivity.
Qed.

(* one statement: walking it on top of a statement scope appends exactly its image to that scope *)
Definition stmt_ok (ap:list string) (s:xstmt) : Prop :=
  forall h acc stk, run ap (walk s) (FStmts h acc :: stk) = Some (FStmts h (acc ++ [image ap s]) :: stk).

Lemma walks_ok ap l : Forall (stmt_ok ap) l ->
  forall h acc stk, run ap (walks l) (FStmts h acc :: stk) = Some (FStmts h (acc ++ map (image ap) l) :: stk).
Proof.
  induction 1 as [|x r Hx _ IH]; intros h acc stk; cbn [walks map].
  - rewrite app_nil_r. reflexivity.
  - rewrite run_app, Hx, IH, <- app_assoc. reflexivity.
Qed.

Lemma stmt_image_ok ap : forall s, stmt_ok ap s.
Proof.
  induction s as [es t|es tg ep args|t|k t body IH|cases IH] using xstmt_ind'; intros h acc stk.
  - reflexivity.
  - reflexivity.
  - reflexivity.
  - rewrite walk_block. cbn [run step]. rewrite run_app, (walks_ok ap body IH). cbn [run step add_stmt image]. reflexivity.
  - rewrite walk_oneof. cbn [run step]. rewrite run_app.
    assert (Hc : forall cs0, run ap (wcases cases) (FAlt cs0 :: FStmts h acc :: stk)
                   = Some (FAlt (cs0 ++ map (fun c => (fst c, map (image ap) (snd c))) cases) :: FStmts h acc :: stk)).
    { induction IH as [|c r Hc _ IHr]; intros cs0; cbn [wcases map].
      - rewrite app_nil_r. reflexivity.
      - cbn [run step]. rewrite run_app, (walks_ok ap (snd c) Hc). cbn [run step List.app].
        rewrite IHr, <- app_assoc. reflexivity. }
    rewrite Hc. cbn [run step add_stmt List.app image]. reflexivity.
Qed.

(* stmts_order_nesting: for every body - any depth, any lengths - the scope stack leaves in the endpoint exactly
   the images of the written statements, in source order, after what the endpoint already held *)
Theorem stmts_order_nesting : forall ap init body, run_body ap init body = init ++ map (image ap) body.
Proof.
  intros ap init body. unfold run_body.
  rewrite (walks_ok ap body); [reflexivity|]. apply Forall_forall. intros s _. apply stmt_image_ok.
Qed.

(* a statement is never dropped, duplicated or re-ordered: the compiled body has as many statements as written,
   at every level *)
Corollary stmts_count : forall ap init body, List.length (run_body ap init body) = (List.length init + List.length body)%nat.
Proof. intros. rewrite stmts_order_nesting, app_length, map_length. reflexivity. Qed.

(* the image keeps the children of every block: the nesting is the written one *)
Definition children (s:stmt) : list stmt :=
  match s with SCond _ _ b | SLoop _ _ _ b | SForeach _ _ b | SGroup _ _ b => b | _ => [] end.
Lemma block_children : forall ap k t body, children (image ap (XBlock k t body)) = map (image ap) body.
Proof. intros ap k t body. destruct k; reflexivity. Qed.

(* ================================================================== 3. fields: what is declared can be read back *)
Definition ty_opt (t:ty) : bool := match t with Ty _ o _ _ _ => o | TyNil => false end.
Definition ty_cons (t:ty) : list constr := match t with Ty _ _ c _ _ => c | TyNil => [] end.
Definition ty_doc (t:ty) : string := match t with Ty _ _ _ _ d => d | TyNil => "" end.
Definition ty_coll (t:ty) : coll := match t with Ty (KSet _) _ _ _ _ => CSet | Ty (KSeq _) _ _ _ _ => CSeq | _ => CNone end.
Definition ty_elem (t:ty) : ty := match t with Ty (KSet e) _ _ _ _ | Ty (KSeq e) _ _ _ _ => e | _ => t end.
(* the thing a field is "of": a primitive kind or the target of a reference *)
Inductive target := TPrim (p:prim) | TRef (r:scope) | TOther.
Definition ty_target (t:ty) : target :=
  match t with Ty (KPrim p) _ _ _ _ => TPrim p | Ty (KRef _ r) _ _ _ _ => TRef r | _ => TOther end.
Definition declared_target (x:tyexpr) : target :=
  match x with
  | XNative n => TPrim (fst (prim_of n))
  | XLocal s => TRef (Sc [] [s])
  | XRef a p => TRef (Sc a p)
  | XNone => TOther
  end.

Lemma base_type_target ap path x : ty_target (Ty (fst (base_type ap path x)) false [] [] "") = declared_target x.
Proof. destruct x as [n|s|a p|]; cbn; try reflexivity. destruct (prim_of n); reflexivity. Qed.

Lemma base_type_flat ap path x :
  match fst (base_type ap path x) with KSet _ | KSeq _ | KList _ => False | _ => True end.
Proof. destruct x as [n|s|a p|]; cbn; try exact I. destruct (prim_of n); exact I. Qed.

(* field_roundtrip: collection wrapper, optionality (on the field itself, never on the element), primitive kind
   or reference target, and the docstring of every compiled field are the declared ones - for every primitive,
   every wrapper, local and cross-application references, with or without size specification, attributes and
   annotations. (The "optional lost for a cross-app reference inside a sequence" mutant contradicts this.) *)
Theorem field_roundtrip : forall ap path f t,
  dfield ap path f = Some t -> fd_array f = false ->
  ty_coll t = fd_coll f /\
  ty_opt t = fd_opt f /\
  (fd_coll f <> CNone -> ty_opt (ty_elem t) = false) /\
  ty_target (ty_elem t) = declared_target (fd_ty f) /\
  ty_doc t = match fd_doc f with Some d => d | None => "" end.
Proof.
  intros ap path f t H Harr. unfold dfield in H.
  pose proof (base_type_target ap path (fd_ty f)) as Ht.
  pose proof (base_type_flat ap path (fd_ty f)) as Hnc.
  destruct (base_type ap path (fd_ty f)) as [k cs0]. cbn [fst] in Ht, Hnc.
  destruct (sized k cs0 (fd_size f)) as [cs|]; [|discriminate].
  rewrite Harr in H. injection H as <-.
  assert (Hk : forall o c a d, ty_target (Ty k o c a d) = declared_target (fd_ty f)).
  { intros. rewrite <- Ht. destruct k; reflexivity. }
  destruct (fd_coll f); cbn [wrap_type ty_coll ty_opt ty_elem ty_doc].
  - destruct k; try contradiction; cbn [ty_elem ty_coll]; repeat split; try (intros X; congruence); apply Hk.
  - repeat split; try apply Hk.
  - repeat split; try apply Hk.
Qed.

(* legacy array form  name(lo..hi) <: T : the field becomes a list of what it would have been *)
Lemma field_array : forall ap path f t,
  dfield ap path f = Some t -> fd_array f = true ->
  exists e, t = Ty (KList e) false [] [] "" /\
            dfield ap path (Fd (fd_name f) false (fd_coll f) (fd_ty f) (fd_size f) (fd_opt f) (fd_attribs f) (fd_annos f) (fd_doc f)) = Some e.
Proof.
  intros ap path f t H Harr. unfold dfield in *. cbn [fd_ty fd_size fd_attribs fd_annos fd_doc fd_coll fd_opt fd_array].
  destruct (base_type ap path (fd_ty f)) as [k cs0]. destruct (sized k cs0 (fd_size f)); [|discriminate].
  rewrite Harr in H. injection H as <-. eexists. split; reflexivity.
Qed.

(* ---- size specifications *)
Definition c_lmin (c:constr) : Z := match c with C _ x _ _ _ _ => x | CBad => 0%Z end.
Definition c_lmax (c:constr) : Z := match c with C _ _ x _ _ _ => x | CBad => 0%Z end.
Definition c_prec (c:constr) : Z := match c with C _ _ _ x _ _ => x | CBad => 0%Z end.
Definition c_scale (c:constr) : Z := match c with C _ _ _ _ x _ => x | CBad => 0%Z end.
Definition in_int32 (z:Z) : Prop := (-2147483648 <= z <= 2147483647)%Z.

Lemma wrap32_id z : in_int32 z -> wrap32 z = z.
Proof. unfold in_int32, wrap32. intros H. rewrite Z.mod_small; lia. Qed.

(* size_exact_partial: whenever the listener accepts a size / array specification whose numbers fit (int64 for
   lengths, int32 for precision and scale), the compiled constraint carries exactly the declared numbers. *)
Theorem size_exact_partial : forall p cs z cs',
  apply_spec p cs z = Some cs' ->
  match z with
  | ZNone => cs' = cs
  | ZSize n m => exists c, cs' = [c] /\ c_lmax c = n /\ c_lmin c = 0%Z /\
                           (p = PDecimal -> forall k, m = Some k -> in_int32 n -> in_int32 k -> c_prec c = n /\ c_scale c = k)
  | ZArr lo hi => exists c, cs' = [c] /\ c_lmax c = (match hi with Some h => h | None => 0%Z end) /\
                            ((lo <= int64_max)%Z -> c_lmin c = lo)
  end.
Proof.
  intros p cs z cs' H. destruct z as [|n m|lo hi]; cbn [apply_spec] in H.
  - congruence.
  - destruct (negb (sizable p)); [discriminate|]. destruct (int64_max <? n)%Z; [discriminate|].
    destruct p; try (injection H as <-; eexists; repeat split; intros; discriminate).
    destruct m as [k|].
    + destruct (int64_max <? k)%Z; [discriminate|]. injection H as <-. eexists. repeat split.
      * cbn. injection H0 as <-. apply wrap32_id; assumption.
      * cbn. injection H0 as <-. apply wrap32_id; assumption.
    + injection H as <-. eexists. repeat split; intros; discriminate.
  - destruct (negb (sizable p)); [discriminate|]. destruct hi as [h|].
    + destruct (int64_max <? h)%Z; [discriminate|]. injection H as <-. eexists. repeat split. cbn. intros Hlo.
      destruct (Z.ltb_spec int64_max lo); [lia|reflexivity].
    + destruct (int64_max <? lo)%Z; [discriminate|]. injection H as <-. eexists. repeat split.
Qed.

(* size_exact_refuted: without the range side conditions the statement is false of the current code.
   (a) decimal(3000000000.2): precision is stored through int32(l) and comes out negative;
   (b) string(99999999999999999999..5): the unparsable lower bound is silently dropped (only the last ParseInt
       error is looked at) instead of being rejected. *)
Theorem size_exact_refuted :
  (exists n k cs', apply_spec PDecimal [] (ZSize n (Some k)) = Some cs' /\ forall c, cs' = [c] -> c_prec c <> n) /\
  (exists lo h cs', apply_spec PString [] (ZArr lo (Some h)) = Some cs' /\ forall c, cs' = [c] -> c_lmin c <> lo).
Proof.
  split.
  - exists 3000000000%Z, 2%Z. eexists. split; [vm_compute; reflexivity|]. intros c [= <-]. vm_compute. discriminate.
  - exists 99999999999999999999%Z, 5%Z. eexists. split; [vm_compute; reflexivity|]. intros c [= <-]. vm_compute. discriminate.
Qed.

(* non-vacuity of the hypotheses above *)
Example field_roundtrip_nonvacuous :
  exists t, dfield ["Main"] ["Holder"]
              (Fd "a" false CSeq (XRef ["Other"] ["Thing"]) ZNone true [ETag "pk"] [] None) = Some t
            /\ ty_opt t = true /\ ty_coll t = CSeq /\ ty_target (ty_elem t) = TRef (Sc ["Other"] ["Thing"]).
Proof. eexists. repeat split. Qed.
Example size_exact_nonvacuous :
  apply_spec PDecimal [] (ZSize 12 (Some 4%Z)) = Some [C 0 0 12 12 4 None] /\
  apply_spec PInt (snd (prim_of NInt32)) (ZArr 3 None) = Some [C 32 3 0 0 0 None].
Proof. split; reflexivity. Qed.

(* ================================================================== 4. lookup-or-create never loses or invents *)
Lemma aget_aset_eq {V} k (v:V) m : aget k (aset k v m) = Some v.
Proof.
  induction m as [|[k' v'] r IH]; cbn [aset aget].
  - rewrite String.eqb_refl. reflexivity.
  - destruct (String.eqb_spec k k') as [->|Hne]; cbn [aget].
    + rewrite String.eqb_refl. reflexivity.
    + destruct (String.eqb_spec k k'); [contradiction|exact IH].
Qed.
Lemma aget_aset_ne {V} k k' (v:V) m : k <> k' -> aget k' (aset k v m) = aget k' m.
Proof.
  intros Hne. induction m as [|[k2 v2] r IH]; cbn [aset aget].
  - destruct (String.eqb_spec k' k); [congruence|reflexivity].
  - destruct (String.eqb_spec k k2) as [->|Hk]; cbn [aget].
    + destruct (String.eqb_spec k' k2); [congruence|reflexivity].
    + destruct (String.eqb_spec k' k2); [reflexivity|exact IH].
Qed.
Lemma aget_in_keys {V} k (m:list (string * V)) v : aget k m = Some v -> In k (keys m).
Proof.
  induction m as [|[k' v'] r IH]; cbn [aget keys map fst]; [discriminate|].
  destruct (String.eqb_spec k k') as [->|_]; [left; reflexivity|right; apply IH; assumption].
Qed.
Lemma keys_aset {V} k (v:V) m x : In x (keys (aset k v m)) <-> x = k \/ In x (keys m).
Proof.
  induction m as [|[k' v'] r IH]; cbn [aset keys map fst In].
  - intuition congruence.
  - destruct (String.eqb_spec k k') as [Heq|_]; cbn [map fst In].
    + fold (keys r). subst k'. intuition congruence.
    + fold (keys (aset k v r)). fold (keys r). rewrite IH. intuition congruence.
Qed.

(* ---- the fields of one !type / !table declaration *)
(* the field names of the type itself (an in-place tuple is a field of its parent) *)
Definition item_names (items:list titem) : list string :=
  flat_map (fun i => match i with TField f => [fd_name f] | TAnno _ => [] | TTuple n _ _ => [n] end) items.
(* the listener's name stack after the block (ExitTable reads it for the key): the fields of the type itself *)
Definition item_allnames (items:list titem) : list string :=
  flat_map (fun i => match i with TField f => [fd_name f] | TAnno _ => [] | TTuple n arr fs => nnames (NTuple n arr fs) end) items.

Lemma ditems_exact ap tn : forall items fields at_ names fields' at' names',
  ditems ap tn items fields at_ names = Some (fields', at', names') ->
  NoDup (item_names items) ->
  names' = names ++ item_allnames items /\
  (forall f, In (TField f) items -> aget (fd_name f) fields' = dfield ap [tn] f) /\
  (forall n arr fs, In (TTuple n arr fs) items -> aget n fields' = Some (tuple_field n arr)) /\
  (forall n, ~ In n (item_names items) -> aget n fields' = aget n fields).
Proof.
  induction items as [|[f|a|n0 arr0 fs0] r IH]; intros fields at_ names fields' at' names' H Hnd;
    cbn [ditems item_names item_allnames flat_map] in *.
  - injection H as <- <- <-. rewrite app_nil_r. split; [reflexivity|]. split; [intros f []|]. split; [intros n arr fs []|reflexivity].
  - destruct (dfield ap [tn] f) as [t|] eqn:Hf; [|discriminate].
    cbn [List.app] in Hnd. inversion Hnd as [|x l Hnotin Hnd' Heq]; subst.
    destruct (IH _ _ _ _ _ _ H Hnd') as (Hn & Hc & Ht & Hs). split; [|split; [|split]].
    + rewrite Hn, <- app_assoc. reflexivity.
    + intros f' [[= <-]|Hin].
      * rewrite (Hs _ Hnotin), aget_aset_eq, Hf. reflexivity.
      * apply Hc, Hin.
    + intros n arr fs [Hx|Hin]; [discriminate|apply (Ht _ _ _ Hin)].
    + intros n Hn'. cbn [List.app In] in Hn'. rewrite Hs by tauto. apply aget_aset_ne. intros Heq. apply Hn'. left. exact Heq.
  - destruct (IH _ _ _ _ _ _ H Hnd) as (Hn & Hc & Ht & Hs). split; [exact Hn|]. split; [|split; [|exact Hs]].
    + intros f [Hx|Hin]; [discriminate|apply Hc, Hin].
    + intros n arr fs [Hx|Hin]; [discriminate|apply (Ht _ _ _ Hin)].
  - cbn [List.app] in Hnd. inversion Hnd as [|x l Hnotin Hnd' Heq]; subst.
    destruct (IH _ _ _ _ _ _ H Hnd') as (Hn & Hc & Ht & Hs). split; [|split; [|split]].
    + rewrite Hn, <- app_assoc. reflexivity.
    + intros f' [Hx|Hin]; [discriminate|apply Hc, Hin].
    + intros n arr fs [[= <- <- <-]|Hin].
      * rewrite (Hs _ Hnotin), aget_aset_eq. reflexivity.
      * apply (Ht _ _ _ Hin).
    + intros n Hn'. cbn [List.app In] in Hn'. rewrite Hs by tauto. apply aget_aset_ne. intros Heq. apply Hn'. left. exact Heq.
Qed.

(* ---- in-place tuples: the types they add to the application *)
Section NInd.
  Variable P : nfield -> Prop.
  Hypothesis Hf : forall f, P (NField f).
  Hypothesis Ht : forall n arr fs, Forall P fs -> P (NTuple n arr fs).
  Fixpoint nfield_ind' (x:nfield) : P x :=
    match x with
    | NField f => Hf f
    | NTuple n arr fs =>
        Ht n arr fs ((fix go (l:list nfield) : Forall P l :=
                        match l with [] => Forall_nil _ | y :: r => Forall_cons _ (nfield_ind' y) (go r) end) fs)
    end.
End NInd.

Fixpoint ntuples (ap path:list string) (l:list nfield) (st:list (string * ty) * list (string * ty)) : option (list (string * ty) * list (string * ty)) :=
  match l with
  | [] => Some st
  | y :: r => match ntuple ap path y st with Some st' => ntuples ap path r st' | None => None end
  end.
Lemma ntuple_tuple ap path n arr fs acc :
  ntuple ap path (NTuple n arr fs) acc =
    match ntuples ap (path ++ [n]) fs ([], snd acc) with
    | Some (nf, ts) => Some (aset n (tuple_field n arr) (fst acc), aset (dotted (path ++ [n])) (Ty (KTuple nf) false [] [] "") ts)
    | None => None
    end.
Proof.
  cbn [ntuple].
  assert (E : forall st, (fix go (l:list nfield) (st:list (string * ty) * list (string * ty)) {struct l} :=
               match l with
               | [] => Some st
               | y :: r => match ntuple ap (path ++ [n]) y st with Some st' => go r st' | None => None end
               end) fs st = ntuples ap (path ++ [n]) fs st).
  { induction fs as [|y r IH]; intros st; cbn [ntuples]; [reflexivity|]. destruct (ntuple ap (path ++ [n]) y st); [apply IH|reflexivity]. }
  rewrite E. reflexivity.
Qed.

(* the dotted names of the types an in-place tuple declares, at any depth *)
Fixpoint ntype_names (path:list string) (x:nfield) : list string :=
  match x with
  | NField _ => []
  | NTuple n _ fs =>
      dotted (path ++ [n]) ::
      (fix go (l:list nfield) : list string := match l with [] => [] | y :: r => ntype_names (path ++ [n]) y ++ go r end) fs
  end.
Lemma ntype_names_tuple path n arr fs :
  ntype_names path (NTuple n arr fs) = dotted (path ++ [n]) :: flat_map (ntype_names (path ++ [n])) fs.
Proof. cbn [ntype_names]. f_equal; induction fs as [|y r IH]; cbn [flat_map]; try reflexivity; rewrite IH; reflexivity. Qed.
Definition items_type_names (tn:string) (items:list titem) : list string :=
  flat_map (fun i => match i with TTuple n arr fs => ntype_names [tn] (NTuple n arr fs) | _ => [] end) items.

(* nested_types_exact (one nested field): the application's type names grow by exactly the dotted names of the
   in-place tuples below it, and every other type is untouched - any depth, any number of fields *)
Lemma ntuple_types : forall x ap path acc r, ntuple ap path x acc = Some r ->
  (forall t, In t (keys (snd r)) <-> In t (keys (snd acc)) \/ In t (ntype_names path x)) /\
  (forall t, ~ In t (ntype_names path x) -> aget t (snd r) = aget t (snd acc)).
Proof.
  induction x as [f|n arr fs IH] using nfield_ind'; intros ap path acc r H.
  - cbn [ntuple] in H. destruct (dfield ap path f); [|discriminate]. injection H as <-. cbn [snd ntype_names In]. split; [tauto|reflexivity].
  - rewrite ntuple_tuple in H. rewrite ntype_names_tuple.
    assert (Hl : forall st st', ntuples ap (path ++ [n]) fs st = Some st' ->
              (forall t, In t (keys (snd st')) <-> In t (keys (snd st)) \/ In t (flat_map (ntype_names (path ++ [n])) fs)) /\
              (forall t, ~ In t (flat_map (ntype_names (path ++ [n])) fs) -> aget t (snd st') = aget t (snd st))).
    { clear H. induction IH as [|y r0 Hy _ IHr]; intros st st' Hs; cbn [ntuples flat_map] in *.
      - injection Hs as <-. cbn [In]. split; [tauto|reflexivity].
      - destruct (ntuple ap (path ++ [n]) y st) as [st1|] eqn:E; [|discriminate].
        destruct (Hy _ _ _ _ E) as [K1 A1]. destruct (IHr _ _ Hs) as [K2 A2]. split.
        + intros t. rewrite K2, K1, in_app_iff. tauto.
        + intros t Hn. rewrite in_app_iff in Hn. rewrite A2 by tauto. apply A1. tauto. }
    destruct (ntuples ap (path ++ [n]) fs ([], snd acc)) as [[nf ts]|] eqn:E; [|discriminate]. injection H as <-.
    destruct (Hl _ _ E) as [K A]. cbn [snd] in *. split.
    + intros t. rewrite keys_aset, K. cbn [In]. intuition congruence.
    + intros t Hn. cbn [In] in Hn. rewrite aget_aset_ne by tauto. apply A. tauto.
Qed.

Lemma items_ntypes ap tn : forall items ts ts', fold_opt (item_ntypes ap tn) items ts = Some ts' ->
  (forall t, In t (keys ts') <-> In t (keys ts) \/ In t (items_type_names tn items)) /\
  (forall t, ~ In t (items_type_names tn items) -> aget t ts' = aget t ts).
Proof.
  induction items as [|i r IH]; intros ts ts' H; cbn [fold_opt items_type_names flat_map] in *.
  - injection H as <-. cbn [In]. split; [tauto|reflexivity].
  - destruct (item_ntypes ap tn ts i) as [ts1|] eqn:E; [|discriminate]. destruct (IH _ _ H) as [K A].
    fold (items_type_names tn r) in *.
    assert (H1 : (forall t, In t (keys ts1) <-> In t (keys ts) \/ In t (match i with TTuple n arr fs => ntype_names [tn] (NTuple n arr fs) | _ => [] end)) /\
                 (forall t, ~ In t (match i with TTuple n arr fs => ntype_names [tn] (NTuple n arr fs) | _ => [] end) -> aget t ts1 = aget t ts)).
    { destruct i as [f|a|n arr fs]; cbn [item_ntypes] in E.
      - injection E as <-. cbn [In]. split; [tauto|reflexivity].
      - injection E as <-. cbn [In]. split; [tauto|reflexivity].
      - destruct (ntuple ap [tn] (NTuple n arr fs) ([], ts)) as [[x ts2]|] eqn:E2; [|discriminate]. injection E as <-.
        apply (ntuple_types _ _ _ _ _ E2). }
    destruct H1 as [K1 A1]. split.
    + intros t. rewrite K, K1, in_app_iff. tauto.
    + intros t Hn. rewrite in_app_iff in Hn. rewrite A by tauto. apply A1. tauto.
Qed.
(* without in-place tuples nothing is added *)
Definition no_tuple (i:titem) : bool := match i with TTuple _ _ _ => false | _ => true end.
Lemma items_ntypes_none ap tn : forall items ts, forallb no_tuple items = true -> fold_opt (item_ntypes ap tn) items ts = Some ts.
Proof.
  induction items as [|i r IH]; intros ts H; cbn [fold_opt forallb] in *; [reflexivity|].
  apply andb_true_iff in H as [Hi Hr]. destruct i; cbn [no_tuple] in Hi; try discriminate; cbn [item_ntypes]; apply IH, Hr.
Qed.
Lemma allnames_no_tuple : forall items, forallb no_tuple items = true -> item_allnames items = item_names items.
Proof.
  induction items as [|i r IH]; cbn [forallb]; intros H; [reflexivity|]. apply andb_true_iff in H as [Hi Hr].
  unfold item_allnames, item_names in *. cbn [flat_map]. rewrite (IH Hr). destruct i; cbn [no_tuple] in Hi; try discriminate; reflexivity.
Qed.

(* table_declared_exact: declaring a new !type / !table creates exactly that type, with exactly the declared
   fields, each being the image of its declaration (completeness), no other field (soundness), the primary key
   made of the ~pk fields in source order, and leaves every other type, every endpoint and the application's
   attributes untouched. *)
Theorem table_declared_exact : forall ap a table n es items a',
  dtable ap a table n es false items = Some a' -> aget n (a_types a) = None -> NoDup (item_names items) ->
  exists fields at_,
    aget n (a_types a') = Some (Ty (if table then KRel fields (add_pks fields (item_allnames items) []) else KTuple fields) false [] at_ "") /\
    (forall f, In (TField f) items -> aget (fd_name f) fields = dfield ap [n] f) /\
    (forall f arr fs, In (TTuple f arr fs) items -> aget f fields = Some (tuple_field f arr)) /\
    (forall x, aget x fields <> None -> In x (item_names items)) /\
    (forall n', n' <> n -> ~ In n' (items_type_names n items) -> aget n' (a_types a') = aget n' (a_types a)) /\
    (forall n', In n' (keys (a_types a')) <-> In n' (keys (a_types a)) \/ n' = n \/ In n' (items_type_names n items)) /\
    a_eps a' = a_eps a /\ a_attrs a' = a_attrs a /\ a_mixins a' = a_mixins a.
Proof.
  intros ap a table n es items a' H Hnew Hnd. unfold dtable in H. rewrite Hnew in H.
  destruct (fold_opt (item_ntypes ap n) items (a_types a)) as [ts|] eqn:Hts; [|discriminate].
  destruct (ditems ap n items [] _ []) as [[[fields at2] names]|] eqn:Hd; [|discriminate].
  destruct (ditems_exact _ _ _ _ _ _ _ _ _ Hd Hnd) as (Hn & Hc & Htu & Hs). cbn [List.app] in Hn. subst names.
  destruct (items_ntypes _ _ _ _ _ Hts) as [K A].
  injection H as <-. exists fields, at2. cbn [negb]. repeat split.
  - unfold put_type, set_types. cbn [a_types]. rewrite aget_aset_eq. destruct table; cbn [negb]; [|reflexivity].
    reflexivity.
  - exact Hc.
  - exact Htu.
  - intros x Hx. destruct (in_dec string_dec x (item_names items)) as [|Hnot]; [assumption|].
    rewrite (Hs _ Hnot) in Hx. cbn in Hx. congruence.
  - intros n' Hne Hnot. unfold put_type, set_types. cbn [a_types]. rewrite aget_aset_ne by congruence. apply A, Hnot.
  - unfold put_type, set_types. cbn [a_types]. rewrite keys_aset, K. intuition.
  - unfold put_type, set_types. cbn [a_types]. rewrite keys_aset, K. intuition.
Qed.

(* endpoint_declared_exact: declaring a new simple endpoint creates exactly that endpoint: its name, its
   parameters in order, and as statements exactly the images of the written statements in source order and
   nesting; every other endpoint and every type is untouched. *)
Theorem endpoint_declared_exact : forall ap a n long ps es annos body a',
  dendpoint ap a n long ps es annos body = Some a' -> aget n (a_eps a) = None ->
  exists e pl,
    aget n (a_eps a') = Some e /\ dparams ap ps = Some pl /\
    e_name e = n /\ e_params e = pl /\ e_stmts e = map (image ap) body /\
    e_rest e = None /\ e_pubsub e = false /\ e_source e = [] /\
    e_long e = (match long with Some l => l | None => "" end) /\
    (forall n', n' <> n -> aget n' (a_eps a') = aget n' (a_eps a)) /\
    a_types a' = a_types a /\ a_attrs a' = a_attrs a.
Proof.
  intros ap a n long ps es annos body a' H Hnew. unfold dendpoint, get_ep in H. rewrite Hnew in H.
  destruct (dparams ap ps) as [pl|]; [|discriminate]. injection H as <-.
  eexists. exists pl. unfold put_ep, set_eps. cbn [a_eps e_name a_types a_attrs new_ep e_params e_stmts e_rest e_pubsub e_source e_long].
  rewrite aget_aset_eq. repeat split.
  - cbn [e_stmts]. rewrite stmts_order_nesting. reflexivity.
  - intros n' Hne. apply aget_aset_ne. congruence.
Qed.

(* ---- the set of applications *)
Definition member_apps (mem:member) : list string :=
  match mem with MSubscribe src _ _ _ => [app_key src] | _ => [] end.
Definition block_apps (b:block) : list string := app_key (b_app b) :: flat_map member_apps (b_members b).
Definition declared_apps (s:spec) : list string := flat_map block_apps (concat s).

Lemma upd_keys m k f m' x : upd m k f = Some m' -> (In x (keys m') <-> In x (keys m)).
Proof.
  unfold upd. destruct (aget k m) as [a|] eqn:Hk; [|discriminate]. destruct (f a) as [a'|]; [|discriminate].
  intros [= <-]. rewrite keys_aset. pose proof (aget_in_keys _ _ _ Hk). intuition congruence.
Qed.

Lemma dmember_keys ap k m mem m' x : dmember ap k m mem = Some m' ->
  (In x (keys m') <-> In x (keys m) \/ In x (member_apps mem)).
Proof.
  destruct mem; cbn [dmember member_apps]; intros H;
    try (rewrite (upd_keys _ _ _ _ x H); cbn [In]; tauto).
  unfold dsubscribe in H. destruct (upd m k _) as [m1|] eqn:Hu; [|discriminate]. injection H as <-.
  rewrite keys_aset, (upd_keys _ _ _ _ x Hu). cbn [In]. intuition congruence.
Qed.

Lemma dmembers_keys ap k : forall ms m m' x, dmembers ap k m ms = Some m' ->
  (In x (keys m') <-> In x (keys m) \/ In x (flat_map member_apps ms)).
Proof.
  induction ms as [|mem r IH]; intros m m' x H; cbn [dmembers flat_map] in *.
  - injection H as <-. cbn [In]. tauto.
  - destruct (dmember ap k m mem) as [m1|] eqn:Hm; [|discriminate].
    rewrite (IH _ _ x H), (dmember_keys _ _ _ _ _ x Hm), in_app_iff. tauto.
Qed.

Lemma dblocks_keys : forall bs m m' x, dblocks m bs = Some m' ->
  (In x (keys m') <-> In x (keys m) \/ In x (flat_map block_apps bs)).
Proof.
  induction bs as [|b r IH]; intros m m' x H; cbn [dblocks flat_map] in *.
  - injection H as <-. cbn [In]. tauto.
  - destruct (dblock m b) as [m1|] eqn:Hb; [|discriminate]. unfold dblock in Hb.
    rewrite (IH _ _ x H), (dmembers_keys _ _ _ _ _ x Hb), keys_aset, in_app_iff. unfold block_apps. cbn [In].
    intuition congruence.
Qed.

(* apps_exact: the compiled module holds exactly the applications the text names - the application of every
   block and the publisher of every subscription; none is missing, none is invented. postProcess adds none. *)
Theorem listen_apps_exact : forall s m, listen s = Some m -> forall k, In k (keys m) <-> In k (declared_apps s).
Proof.
  intros s m H k. unfold listen in H. rewrite (dblocks_keys _ _ _ k H). cbn [keys map In]. unfold declared_apps. tauto.
Qed.

Lemma post_app_keys m k m' x : post_app m k = Some m' -> (In x (keys m') <-> In x (keys m)).
Proof.
  unfold post_app. destruct (aget k m) as [a|] eqn:Hk; [|intros [= <-]; tauto].
  pose proof (aget_in_keys _ _ _ Hk) as Hin.
  match goal with |- context [aget k (aset k ?v m)] => rewrite (aget_aset_eq k v m) end.
  match goal with |- context [aget k (aset k ?v ?mm)] => rewrite (aget_aset_eq k v mm) end.
  match goal with |- context [collect_app ?a] => destruct (collect_app a) as [[a3 bs]|] end; [|discriminate].
  intros [= <-]. rewrite !keys_aset. intuition congruence.
Qed.
Lemma post_keys : forall l m m' x, fold_opt post_app l m = Some m' -> (In x (keys m') <-> In x (keys m)).
Proof.
  induction l as [|k r IH]; intros m m' x H; cbn [fold_opt] in H; [injection H as <-; tauto|].
  destruct (post_app m k) as [m1|] eqn:H1; [|discriminate]. rewrite (IH _ _ x H). apply (post_app_keys _ _ _ x H1).
Qed.

Theorem apps_exact : forall s m, denote s = Some m -> forall k, In k (keys m) <-> In k (declared_apps s).
Proof.
  intros s m H k. unfold denote in H. destruct (listen s) as [m0|] eqn:Hl; [|discriminate].
  unfold post in H. rewrite (post_keys _ _ _ k H). apply listen_apps_exact, Hl.
Qed.

Example apps_exact_nonvacuous :
  exists m, denote [[Bk ["Ns"; "A"] None [] [MSubscribe ["B"] "Ev" [] [XAction [] "got it"]; MMixin ["B"]];
                     Bk ["B"] (Some "the B") [ETag "abstract"] [MType false "T" [] false [TField (Fd "x" false CSeq (XNative NInt32) (ZSize 5 None) true [] [] None)]]]]
            = Some m /\ keys m = ["Ns :: A"; "B"].
Proof. eexists. split; vm_compute; reflexivity. Qed.

(* ================================================================== 5. well-formedness, as a boolean *)
Fixpoint nodupb (l:list string) : bool :=
  match l with [] => true | x :: r => negb (existsb (String.eqb x) r) && nodupb r end.
Lemma nodupb_NoDup l : nodupb l = true -> NoDup l.
Proof.
  induction l as [|x r IH]; cbn [nodupb]; intros H; [constructor|].
  apply andb_true_iff in H as [Hx Hr]. constructor; [|apply IH, Hr].
  intros Hin. apply negb_true_iff in Hx. assert (existsb (String.eqb x) r = true); [|congruence].
  apply existsb_exists. exists x. split; [assumption|apply String.eqb_refl].
Qed.

(* names a member introduces into the application's type map / endpoint map *)
Definition member_types (m:member) : list string :=
  match m with MType _ n _ _ _ | MEnum n _ _ _ | MAlias n _ _ _ _ _ | MUnion n _ _ _ => [n] | _ => [] end.
Definition member_fields_ok (m:member) : bool :=
  match m with MType _ _ _ _ items => nodupb (item_names items) | _ => true end.
Definition same_app (k:string) (b:block) : bool := String.eqb (app_key (b_app b)) k.
(* wf_spec: within every application (over all of its blocks) each type name is declared once, and the field
   names of each !type / !table are distinct. This is what the generator emits and what the per-declaration
   exactness theorems assume. *)
Definition wf_spec (s:spec) : bool :=
  let bs := concat s in
  forallb (fun b => forallb member_fields_ok (b_members b)) bs &&
  forallb (fun b => nodupb (flat_map (fun b' => flat_map member_types (b_members b')) (filter (same_app (app_key (b_app b))) bs))) bs.

Example wf_spec_accepts :
  wf_spec [[Bk ["A"] None [] [MType true "T" [] false [TField (Fd "x" false CNone (XNative NInt) ZNone false [ETag "pk"] [] None);
                                                     TField (Fd "y" false CSeq (XRef ["B"] ["U"]) ZNone true [] [] None)];
                            MEnum "E" [] [] [("a", 70000%Z)]];
            Bk ["B"] None [] [MType false "U" [] false []];
            Bk ["A"] None [] [MAlias "Al" [] [] CSet (XLocal "T") ZNone]]] = true.
Proof. reflexivity. Qed.
Example wf_spec_rejects_duplicate_field :
  wf_spec [[Bk ["A"] None [] [MType true "T" [] false [TField (Fd "x" false CNone (XNative NInt) ZNone false [] [] None);
                                                     TField (Fd "x" false CNone (XNative NBool) ZNone false [] [] None)]]]] = false.
Proof. reflexivity. Qed.
Example wf_spec_rejects_redeclared_type :
  wf_spec [[Bk ["A"] None [] [MType true "T" [] false []]; Bk ["A"] None [] [MEnum "T" [] [] [("a", 1%Z)]]]] = false.
Proof. reflexivity. Qed.

Corollary table_declared_exact_wf : forall ap a table n es items a',
  member_fields_ok (MType table n es false items) = true ->
  dtable ap a table n es false items = Some a' -> aget n (a_types a) = None ->
  exists fields at_,
    aget n (a_types a') = Some (Ty (if table then KRel fields (add_pks fields (item_allnames items) []) else KTuple fields) false [] at_ "") /\
    (forall f, In (TField f) items -> aget (fd_name f) fields = dfield ap [n] f) /\
    (forall f arr fs, In (TTuple f arr fs) items -> aget f fields = Some (tuple_field f arr)) /\
    (forall x, aget x fields <> None -> In x (item_names items)).
Proof.
  intros ap a table n es items a' Hwf H Hnew. cbn [member_fields_ok] in Hwf.
  destruct (table_declared_exact _ _ _ _ _ _ _ H Hnew (nodupb_NoDup _ Hwf)) as (fields & at_ & H1 & H2 & H3 & H4 & _).
  exists fields, at_. auto.
Qed.

(* non-vacuity: a table with a primary key, an optional sequence of a cross-application reference and a sized field *)
Example table_declared_exact_nonvacuous :
  exists a', dtable ["A"] (new_app ["A"]) true "T" [ETag "db"] false
               [TField (Fd "id" false CNone (XNative NInt64) ZNone false [ETag "pk"] [] None);
                TField (Fd "refs" false CSeq (XRef ["B"] ["U"]) ZNone true [] [] None);
                TField (Fd "name" false CNone (XNative NString) (ZSize 40 None) false [] [] (Some "the name"))] = Some a'
             /\ aget "T" (a_types (new_app ["A"])) = None
             /\ match aget "T" (a_types a') with Some (Ty (KRel fs pk) _ _ _ _) => pk = ["id"] /\ keys fs = ["id"; "refs"; "name"] | _ => False end.
Proof. eexists. split; [reflexivity|]. split; [reflexivity|]. vm_compute. split; reflexivity. Qed.

(* ================================================================== 6. the set of type names, through all blocks *)
Lemma dmethod_types ap a path urls rattrs md a' : dmethod ap a path urls rattrs md = Some a' -> a_types a' = a_types a.
Proof.
  unfold dmethod. destruct (dparams ap (m_params md)); [|discriminate].
  destruct (match e_rest _ with Some _ => _ | None => _ end). intros [= <-]. reflexivity.
Qed.

Lemma drest_types : forall n ap prefix urls rattrs a a', drest ap prefix urls rattrs n a = Some a' -> a_types a' = a_types a.
Proof.
  fix IH 1. intros [segs es children] ap prefix urls rattrs a a'. cbn [drest].
  generalize (opt_attrs es) as own. revert a.
  induction children as [|c r IHr]; intros a own H.
  - injection H as <-. reflexivity.
  - destruct c as [md|n'|an].
    + destruct (dmethod ap a _ _ _ md) eqn:Hm; [|discriminate]. rewrite (IHr _ _ H). eapply dmethod_types; eauto.
    + destruct (drest ap _ _ _ n' a) eqn:Hr; [|discriminate]. rewrite (IHr _ _ H). eapply IH; eauto.
    + apply (IHr _ _ H).
Qed.

Definition types_of (m:module) (k:string) : list string :=
  match aget k m with Some a => keys (a_types a) | None => [] end.

Definition valid_items (items:list (string * Z)) : list (string * Z) :=
  fold_left (fun m kv => if (int64_max <? snd kv)%Z then m else aset (fst kv) (snd kv) m) items [].
(* the type names a member puts into its application (an enum without a usable item declares nothing) *)
Definition member_type_names (mem:member) : list string :=
  match mem with
  | MType _ n _ _ items => n :: items_type_names n items          (* the type and its in-place tuples, at any depth *)
  | MAlias n _ _ _ _ _ | MUnion n _ _ _ => [n]
  | MEnum n _ _ items => match valid_items items with [] => [] | _ => [n] end
  | _ => []
  end.

Lemma upd_types m k0 f m' extra :
  upd m k0 f = Some m' ->
  (forall a a', aget k0 m = Some a -> f a = Some a' ->
     forall t, In t (keys (a_types a')) <-> In t (keys (a_types a)) \/ In t extra) ->
  forall k t, In t (types_of m' k) <-> In t (types_of m k) \/ (k = k0 /\ In t extra).
Proof.
  unfold upd. destruct (aget k0 m) as [a|] eqn:Ha; [|discriminate]. destruct (f a) as [a'|] eqn:Hf; [|discriminate].
  intros [= <-] Hx k t. unfold types_of. destruct (String.eqb_spec k0 k) as [<-|Hne].
  - rewrite aget_aset_eq, Ha, (Hx a a' eq_refl Hf). tauto.
  - rewrite (aget_aset_ne _ _ _ _ Hne). intuition congruence.
Qed.

Lemma same_types_extra (a a':app) : a_types a' = a_types a ->
  forall t, In t (keys (a_types a')) <-> In t (keys (a_types a)) \/ In t [].
Proof. intros ->. cbn [In]. tauto. Qed.

Lemma put_type_extra a n v : forall t, In t (keys (a_types (put_type a n v))) <-> In t (keys (a_types a)) \/ In t [n].
Proof. intros t. unfold put_type, set_types. cbn [a_types In]. rewrite keys_aset. intuition congruence. Qed.

Lemma dmember_types ap k0 m mem m' : dmember ap k0 m mem = Some m' ->
  forall k t, In t (types_of m' k) <-> In t (types_of m k) \/ (k = k0 /\ In t (member_type_names mem)).
Proof.
  destruct mem; cbn [dmember member_type_names]; intros H.
  - eapply upd_types; [exact H|]. intros a0 a' _ [= <-]. apply same_types_extra. reflexivity.
  - eapply upd_types; [exact H|]. intros a0 a' _ Hf. unfold dtable in Hf.
    destruct (fold_opt (item_ntypes ap n) items (a_types a0)) as [ts|] eqn:Hts.
    2:{ destruct (aget n (a_types a0)) as [[k1 o c at_ d|]|];
          repeat match type of Hf with context [match ?x with _ => _ end] => destruct x end; discriminate. }
    destruct (items_ntypes _ _ _ _ _ Hts) as [K _].
    assert (Hp : forall v t, In t (keys (a_types (put_type (set_types a0 ts) n v))) <-> In t (keys (a_types a0)) \/ In t (n :: items_type_names n items)).
    { intros v t. unfold put_type, set_types. cbn [a_types In]. rewrite keys_aset, K. intuition congruence. }
    destruct (aget n (a_types a0)) as [[k1 o c at_ d|]|];
      repeat match type of Hf with context [match ?x with _ => _ end] => destruct x end;
      try discriminate; injection Hf as <-; apply Hp.
  - eapply upd_types; [exact H|]. intros a0 a' _ [= <-]. unfold denum. fold (valid_items items).
    destruct (valid_items items); [apply same_types_extra; reflexivity|apply put_type_extra].
  - eapply upd_types; [exact H|]. intros a0 a' _ Hf. unfold dalias in Hf.
    destruct (base_type ap [n] t). destruct (match c with CNone => _ | _ => _ end); [|discriminate].
    injection Hf as <-. apply put_type_extra.
  - eapply upd_types; [exact H|]. intros a0 a' _ Hf. unfold dunion in Hf.
    destruct (dunion_members ap n ms); [|discriminate]. injection Hf as <-. apply put_type_extra.
  - eapply upd_types; [exact H|]. intros a0 a' _ Hf. apply same_types_extra. unfold dendpoint in Hf.
    destruct (dparams ap params); [|discriminate]. injection Hf as <-. reflexivity.
  - eapply upd_types; [exact H|]. intros a0 a' _ Hf. apply same_types_extra. eapply drest_types; eauto.
  - eapply upd_types; [exact H|]. intros a0 a' _ [= <-]. apply same_types_extra. reflexivity.
  - eapply upd_types; [exact H|]. intros a0 a' _ Hf. apply same_types_extra. unfold devent in Hf.
    destruct (dparams ap params); [|discriminate]. injection Hf as <-. reflexivity.
  - unfold dsubscribe in H. destruct (upd m k0 _) as [m1|] eqn:Hu; [|discriminate]. injection H as <-.
    intros k t.
    assert (H1 : In t (types_of m1 k) <-> In t (types_of m k)).
    { rewrite (upd_types _ _ _ _ [] Hu); [cbn [In]; tauto|]. intros a0 a' _ [= <-]. apply same_types_extra. reflexivity. }
    rewrite <- H1. cbn [In]. unfold types_of at 1. destruct (String.eqb_spec (app_key a) k) as [<-|Hne].
    + rewrite aget_aset_eq. unfold types_of. destruct (aget (app_key a) m1); cbn; tauto.
    + rewrite (aget_aset_ne _ _ _ _ Hne). fold (types_of m1 k). tauto.
  - eapply upd_types; [exact H|]. intros a0 a' _ [= <-]. apply same_types_extra. unfold dcollector. destruct entries; reflexivity.
Qed.

Lemma dmembers_types ap k0 : forall ms m m', dmembers ap k0 m ms = Some m' ->
  forall k t, In t (types_of m' k) <-> In t (types_of m k) \/ (k = k0 /\ In t (flat_map member_type_names ms)).
Proof.
  induction ms as [|mem r IH]; intros m m' H k t; cbn [dmembers flat_map] in *.
  - injection H as <-. cbn [In]. tauto.
  - destruct (dmember ap k0 m mem) as [m1|] eqn:Hm; [|discriminate].
    rewrite (IH _ _ H), (dmember_types _ _ _ _ _ Hm), in_app_iff. tauto.
Qed.

Definition block_type_names (k:string) (b:block) : list string :=
  if String.eqb (app_key (b_app b)) k then flat_map member_type_names (b_members b) else [].
Definition declared_types (s:spec) (k:string) : list string := flat_map (block_type_names k) (concat s).

Lemma dblocks_types : forall bs m m', dblocks m bs = Some m' ->
  forall k t, In t (types_of m' k) <-> In t (types_of m k) \/ In t (flat_map (block_type_names k) bs).
Proof.
  induction bs as [|b r IH]; intros m m' H k t; cbn [dblocks flat_map] in *.
  - injection H as <-. cbn [In]. tauto.
  - destruct (dblock m b) as [m1|] eqn:Hb; [|discriminate]. unfold dblock in Hb.
    rewrite (IH _ _ H), (dmembers_types _ _ _ _ _ Hb), in_app_iff. unfold block_type_names.
    assert (Hsame : In t (types_of (aset (app_key (b_app b))
              (A (b_app b) match b_long b with Some l => l | None => a_long match aget (app_key (b_app b)) m with Some a => a | None => new_app [] end end
                 match b_attribs b with [] => a_attrs match aget (app_key (b_app b)) m with Some a => a | None => new_app [] end
                                   | e :: l => merge_attrs (make_attrs (e :: l)) (a_attrs match aget (app_key (b_app b)) m with Some a => a | None => new_app [] end) end
                 (a_types match aget (app_key (b_app b)) m with Some a => a | None => new_app [] end)
                 (a_eps match aget (app_key (b_app b)) m with Some a => a | None => new_app [] end)
                 (a_mixins match aget (app_key (b_app b)) m with Some a => a | None => new_app [] end)) m) k)
            <-> In t (types_of m k)).
    { unfold types_of. destruct (String.eqb_spec (app_key (b_app b)) k) as [<-|Hne].
      - rewrite aget_aset_eq. cbn [a_types]. destruct (aget (app_key (b_app b)) m); cbn; tauto.
      - rewrite (aget_aset_ne _ _ _ _ Hne). tauto. }
    rewrite Hsame. destruct (String.eqb_spec (app_key (b_app b)) k) as [Heq|Hne]; cbn [In]; intuition congruence.
Qed.

(* types_exact: in every application of the module built by the listener, the type names are exactly the ones
   declared for that application by !type / !table / !alias / !union / !enum (with a usable item) members of
   its blocks - over all blocks, whatever else (endpoints, REST trees, events, subscriptions from other
   applications, mixins, annotations) is declared around them. Nothing declared is missing, nothing is invented. *)
Theorem listen_types_exact : forall s m, listen s = Some m ->
  forall k t, In t (types_of m k) <-> In t (declared_types s k).
Proof.
  intros s m H k t. unfold listen in H. rewrite (dblocks_types _ _ _ H). unfold types_of at 1. cbn [aget In]. unfold declared_types. tauto.
Qed.

(* in-place tuples, any depth: their dotted type names are part of the declared names *)
Example listen_types_exact_inplace :
  match listen [[Bk ["A"] None []
     [MType true "R" [] false [TField (Fd "id" false CNone (XNative NInt) ZNone false [ETag "pk"] [] None);
                               TTuple "inner" false [NField (Fd "a" false CNone (XNative NInt) ZNone false [] [] None)];
                               TField (Fd "z" false CNone (XNative NInt) ZNone false [] [] None)];
      MType false "T" [] false [TTuple "addr" true [NField (Fd "street" false CNone (XNative NString) ZNone false [] [] None);
                                                    NTuple "geo" false [NField (Fd "back" false CNone (XLocal "T") ZNone false [] [] None)]]]]]]
  with
  | Some m => types_of m "A" = ["R.inner"; "R"; "T.addr.geo"; "T.addr"; "T"] /\
              declared_types [[Bk ["A"] None [] [MType false "T" [] false [TTuple "addr" true [NTuple "geo" false []]]]]] "A" = ["T"; "T.addr"; "T.addr.geo"] /\
              match aget "A" m with
              | Some a => aget "T" (a_types a) = Some (Ty (KTuple [("addr", Ty (KList (Ty (KRef None (Sc [] ["addr"])) false [] [] "")) false [] [] "")]) false [] [] "") /\
                          aget "T.addr.geo" (a_types a) = Some (Ty (KTuple [("back", Ty (KRef (Some (Sc ["A"] ["T"; "addr"; "geo"])) (Sc [] ["T"])) false [] [] "")]) false [] [] "") /\
                          match aget "R" (a_types a) with Some (Ty (KRel fs pk) _ _ _ _) => keys fs = ["id"; "inner"; "z"] /\ pk = ["id"] | _ => False end
              | None => False
              end
  | None => False
  end.
Proof. vm_compute. repeat split; reflexivity. Qed.

Example listen_types_exact_nonvacuous :
  match listen [[Bk ["A"] None [] [MEnum "E" [] [] [("a", 70000%Z)]; MEndpoint "Ep" None [] [] [] [XRet "ok"]];
                  Bk ["B"] None [] [MSubscribe ["A"] "Ev" [] []; MUnion "U" [] [] [Um CNone (XNative NInt) ZNone]];
                  Bk ["A"] None [] [MType true "T" [] false []; MRest (RNode [PStatic "x"] [] [RMethod (Md MGet [] [] [] [] [] [XRet "ok"])])]]]
  with Some m => types_of m "A" = ["E"; "T"] /\ types_of m "B" = ["U"] | None => False end.
Proof. vm_compute. split; reflexivity. Qed.
