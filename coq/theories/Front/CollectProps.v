(* C02: `.. * <- *:` blocks - what postProcess (parse.go collectorPubSubCalls / applyAttributes, modelled in
   Front/Denote.v apply_attrs / collect_eps / collect_entry) makes of a collector entry `Target <- Endpoint [attrs]`:
   EVERY call statement of that target and endpoint in the application's endpoints - inside if/else, loops,
   for each, groups, every choice of a one-of, at any depth, however many times it is written - ends up carrying the
   entry's attributes merged into its own; no other statement is touched; the boolean the Go code accumulates says
   exactly whether such a call exists. All statements are over arbitrary statement trees (induction on the nested
   type), not over samples. *)
From Coq Require Import String List ZArith Ascii Bool Lia.
Require Import Verif.Front.Ast Verif.Front.Denote Verif.Front.DenoteProps.
Import ListNotations.
Local Open Scope string_scope.
Local Open Scope list_scope.

(* ================================================================== the declarative side *)
(* the call statements of a statement, in source order, at any depth *)
Fixpoint calls (s:stmt) : list stmt :=
  match s with
  | SCall _ _ _ _ => [s]
  | SCond _ _ b | SLoop _ _ _ b | SForeach _ _ b | SGroup _ _ b => flat_map calls b
  | SAlt _ cs => flat_map (fun c => flat_map calls (snd c)) cs
  | _ => []
  end.
Definition calls_of (l:list stmt) : list stmt := flat_map calls l.

(* is this the call a collector entry `tg <- ep` names? *)
Definition is_match (tg:list string) (ep:string) (s:stmt) : bool :=
  match s with SCall _ tg' ep' _ => same_call tg ep tg' ep' | _ => false end.
(* what the entry does to ONE call statement: its attributes are merged into the call's own *)
Definition retag (cat:attrs) (tg:list string) (ep:string) (s:stmt) : stmt :=
  match s with
  | SCall a tg' ep' args => if same_call tg ep tg' ep' then SCall (merge_attrs cat a) tg' ep' args else s
  | _ => s
  end.
(* a function on leaf statements applied throughout a tree; containers keep kind, text, attributes, order, nesting *)
Fixpoint deep (f:stmt -> stmt) (s:stmt) : stmt :=
  match s with
  | SCond a t b => SCond a t (map (deep f) b)
  | SLoop a m t b => SLoop a m t (map (deep f) b)
  | SForeach a t b => SForeach a t (map (deep f) b)
  | SGroup a t b => SGroup a t (map (deep f) b)
  | SAlt a cs => SAlt a (map (fun c => (fst c, map (deep f) (snd c))) cs)
  | _ => f s
  end.
(* the tree with the attributes of its call statements blanked: everything a collector entry must NOT change *)
Definition blank (s:stmt) : stmt := match s with SCall _ tg ep args => SCall [] tg ep args | _ => s end.
Definition erase (s:stmt) : stmt := deep blank s.
(* statement kinds the listener produces (applyAttributes panics on anything else) *)
Fixpoint no_bad (s:stmt) : bool :=
  match s with
  | SBad => false
  | SCond _ _ b | SLoop _ _ _ b | SForeach _ _ b | SGroup _ _ b => forallb no_bad b
  | SAlt _ cs => forallb (fun c => forallb no_bad (snd c)) cs
  | _ => true
  end.

(* induction principle for the nested type *)
Section SInd.
  Variable P : stmt -> Prop.
  Hypothesis Hact : forall a t, P (SAction a t).
  Hypothesis Hcall : forall a tg ep args, P (SCall a tg ep args).
  Hypothesis Hret : forall a t, P (SRet a t).
  Hypothesis Hcond : forall a t b, Forall P b -> P (SCond a t b).
  Hypothesis Hloop : forall a m t b, Forall P b -> P (SLoop a m t b).
  Hypothesis Hfor : forall a t b, Forall P b -> P (SForeach a t b).
  Hypothesis Hgrp : forall a t b, Forall P b -> P (SGroup a t b).
  Hypothesis Halt : forall a cs, Forall (fun c => Forall P (snd c)) cs -> P (SAlt a cs).
  Hypothesis Hbad : P SBad.
  Fixpoint stmt_ind' (s:stmt) : P s :=
    let go := fix go (l:list stmt) : Forall P l :=
      match l with [] => Forall_nil _ | x :: r => Forall_cons _ (stmt_ind' x) (go r) end in
    match s with
    | SAction a t => Hact a t
    | SCall a tg ep args => Hcall a tg ep args
    | SRet a t => Hret a t
    | SCond a t b => Hcond a t b (go b)
    | SLoop a m t b => Hloop a m t b (go b)
    | SForeach a t b => Hfor a t b (go b)
    | SGroup a t b => Hgrp a t b (go b)
    | SAlt a cs =>
        Halt a cs ((fix goc (cs:list (string * list stmt)) : Forall (fun c => Forall P (snd c)) cs :=
                      match cs with [] => Forall_nil _ | c :: r => Forall_cons _ (go (snd c)) (goc r) end) cs)
    | SBad => Hbad
    end.
End SInd.

(* ================================================================== unfolding the nested fixpoint *)
Fixpoint apply_choices (cat:attrs) (tg:list string) (ep:string) (cs:list (string * list stmt)) (acc:bool)
  : option (list (string * list stmt) * bool) :=
  match cs with
  | [] => Some ([], acc)
  | c :: r =>
      match apply_list cat tg ep (snd c) acc with
      | None => None
      | Some (body', acc1) =>
          match apply_choices cat tg ep r acc1 with Some (r', b') => Some ((fst c, body') :: r', b') | None => None end
      end
  end.

Section Unfold.
  Variables (cat:attrs) (tg:list string) (ep:string).

  Ltac inner_is_apply_list :=
    match goal with
    | |- context [(fix go (l:list stmt) (acc:bool) {struct l} : option (list stmt * bool) := _) ?b ?acc0] =>
        match goal with
        | |- context [?g b acc0] =>
            let H := fresh "Hgo" in
            assert (H : forall l acc, g l acc = apply_list cat tg ep l acc);
            [ intros l; induction l as [|x r IH]; intros acc; [reflexivity|];
              cbn [apply_list]; destruct (apply_attrs cat tg ep x) as [[x' bx]|]; [rewrite IH|]; reflexivity
            | rewrite H ]
        end
    end.

  Lemma apply_cond a t b : apply_attrs cat tg ep (SCond a t b) =
    match apply_list cat tg ep b false with Some (b', x) => Some (SCond a t b', x) | None => None end.
  Proof. cbn [apply_attrs]. inner_is_apply_list. reflexivity. Qed.
  Lemma apply_group a t b : apply_attrs cat tg ep (SGroup a t b) =
    match apply_list cat tg ep b false with Some (b', x) => Some (SGroup a t b', x) | None => None end.
  Proof. cbn [apply_attrs]. inner_is_apply_list. reflexivity. Qed.
  Lemma apply_loop a m t b : apply_attrs cat tg ep (SLoop a m t b) =
    match apply_list cat tg ep b false with Some (b', x) => Some (SLoop a m t b', x) | None => None end.
  Proof. cbn [apply_attrs]. inner_is_apply_list. reflexivity. Qed.
  Lemma apply_foreach a t b : apply_attrs cat tg ep (SForeach a t b) =
    match apply_list cat tg ep b false with Some (b', x) => Some (SForeach a t b', x) | None => None end.
  Proof. cbn [apply_attrs]. inner_is_apply_list. reflexivity. Qed.
  Lemma apply_alt a cs : apply_attrs cat tg ep (SAlt a cs) =
    match apply_choices cat tg ep cs false with Some (cs', x) => Some (SAlt a cs', x) | None => None end.
  Proof.
    cbn [apply_attrs].
    match goal with
    | |- match ?gc cs false with _ => _ end = _ =>
        assert (H : forall l acc, gc l acc = apply_choices cat tg ep l acc)
    end.
    { intros l0. induction l0 as [|c rest IHc]; intros acc0; [reflexivity|]. cbn [apply_choices].
      inner_is_apply_list. destruct (apply_list cat tg ep (snd c) acc0) as [[b' a1]|]; [rewrite IHc|]; reflexivity. }
    rewrite H. reflexivity.
  Qed.
End Unfold.

(* ================================================================== the closed form *)
Section Closed.
  Variables (cat:attrs) (tg:list string) (ep:string).
  Notation r := (retag cat tg ep).
  Notation hit := (is_match tg ep).

  (* whenever applyAttributes returns, the result is the tree with `retag` applied to every leaf, and the boolean
     says whether a matching call exists below *)
  Definition closed_at (s:stmt) : Prop :=
    forall s' b, apply_attrs cat tg ep s = Some (s', b) -> s' = deep r s /\ b = existsb hit (calls s).

  Lemma apply_list_closed l : Forall closed_at l ->
    forall acc l' b, apply_list cat tg ep l acc = Some (l', b) ->
      l' = map (deep r) l /\ b = (existsb hit (calls_of l) || acc)%bool.
  Proof.
    induction 1 as [|x rest Hx _ IH]; intros acc l' b H; cbn [apply_list] in H.
    - injection H as <- <-. split; reflexivity.
    - destruct (apply_attrs cat tg ep x) as [[x' bx]|] eqn:Ex; [|discriminate].
      destruct (apply_list cat tg ep rest (bx || acc)) as [[r' b']|] eqn:Er; [|discriminate].
      injection H as <- <-. destruct (Hx _ _ Ex) as [-> ->]. destruct (IH _ _ _ Er) as [-> ->].
      split; [reflexivity|]. unfold calls_of. cbn [flat_map]. rewrite existsb_app.
      destruct (existsb hit (calls x)), (existsb hit (flat_map calls rest)), acc; reflexivity.
  Qed.

  Lemma apply_choices_closed cs : Forall (fun c => Forall closed_at (snd c)) cs ->
    forall acc cs' b, apply_choices cat tg ep cs acc = Some (cs', b) ->
      cs' = map (fun c => (fst c, map (deep r) (snd c))) cs /\
      b = (existsb hit (flat_map (fun c => flat_map calls (snd c)) cs) || acc)%bool.
  Proof.
    induction 1 as [|c rest Hc _ IH]; intros acc cs' b H; cbn [apply_choices] in H.
    - injection H as <- <-. split; reflexivity.
    - destruct (apply_list cat tg ep (snd c) acc) as [[body' a1]|] eqn:Eb; [|discriminate].
      destruct (apply_choices cat tg ep rest a1) as [[r' b']|] eqn:Er; [|discriminate].
      injection H as <- <-. destruct (apply_list_closed _ Hc _ _ _ Eb) as [-> ->]. destruct (IH _ _ _ Er) as [-> ->].
      split; [reflexivity|]. cbn [flat_map]. rewrite existsb_app. unfold calls_of.
      destruct (existsb hit (flat_map calls (snd c))), (existsb hit (flat_map (fun c0 => flat_map calls (snd c0)) rest)), acc; reflexivity.
  Qed.

  Lemma apply_closed : forall s, closed_at s.
  Proof.
    induction s as [a t|a tg' ep' args|a t|a t b IH|a m t b IH|a t b IH|a t b IH|a cs IH|] using stmt_ind'; intros s' bb H.
    - injection H as <- <-. split; reflexivity.
    - cbn [apply_attrs] in H. cbn [deep retag calls existsb is_match]. destruct (same_call tg ep tg' ep'); injection H as <- <-; split; reflexivity.
    - injection H as <- <-. split; reflexivity.
    - rewrite apply_cond in H. destruct (apply_list cat tg ep b false) as [[b' x]|] eqn:E; [|discriminate]. injection H as <- <-.
      destruct (apply_list_closed _ IH _ _ _ E) as [-> ->]. cbn [deep calls]. rewrite orb_false_r. split; reflexivity.
    - rewrite apply_loop in H. destruct (apply_list cat tg ep b false) as [[b' x]|] eqn:E; [|discriminate]. injection H as <- <-.
      destruct (apply_list_closed _ IH _ _ _ E) as [-> ->]. cbn [deep calls]. rewrite orb_false_r. split; reflexivity.
    - rewrite apply_foreach in H. destruct (apply_list cat tg ep b false) as [[b' x]|] eqn:E; [|discriminate]. injection H as <- <-.
      destruct (apply_list_closed _ IH _ _ _ E) as [-> ->]. cbn [deep calls]. rewrite orb_false_r. split; reflexivity.
    - rewrite apply_group in H. destruct (apply_list cat tg ep b false) as [[b' x]|] eqn:E; [|discriminate]. injection H as <- <-.
      destruct (apply_list_closed _ IH _ _ _ E) as [-> ->]. cbn [deep calls]. rewrite orb_false_r. split; reflexivity.
    - rewrite apply_alt in H. destruct (apply_choices cat tg ep cs false) as [[cs' x]|] eqn:E; [|discriminate]. injection H as <- <-.
      destruct (apply_choices_closed _ IH _ _ _ E) as [-> ->]. cbn [deep calls]. rewrite orb_false_r. split; reflexivity.
    - discriminate.
  Qed.

  Lemma apply_list_deep l acc l' b : apply_list cat tg ep l acc = Some (l', b) ->
    l' = map (deep r) l /\ b = (existsb hit (calls_of l) || acc)%bool.
  Proof. apply apply_list_closed. apply Forall_forall. intros s _. apply apply_closed. Qed.

  (* ---- what `deep retag` means, read off the call statements *)
  Lemma retag_call_shape s : match s with SCall _ _ _ _ => match r s with SCall _ _ _ _ => True | _ => False end | _ => r s = s end.
  Proof. destruct s; try reflexivity. cbn [retag]. destruct (same_call tg ep target ep0); exact I. Qed.

  Lemma calls_deep : forall s, calls (deep r s) = map r (calls s).
  Proof.
    assert (HL : forall l, Forall (fun s => calls (deep r s) = map r (calls s)) l ->
                   flat_map calls (map (deep r) l) = map r (flat_map calls l)).
    { induction 1 as [|x rest Hx _ IH]; [reflexivity|]. cbn [map flat_map]. rewrite map_app, Hx, IH. reflexivity. }
    induction s as [a t|a tg' ep' args|a t|a t b IH|a m t b IH|a t b IH|a t b IH|a cs IH|] using stmt_ind';
      try reflexivity; try (cbn [deep calls]; apply HL, IH).
    - cbn [deep calls retag map]. destruct (same_call tg ep tg' ep'); reflexivity.
    - cbn [deep calls]. induction IH as [|c rest Hc _ IHr]; [reflexivity|]. cbn [map flat_map snd]. rewrite map_app, (HL _ Hc), IHr. reflexivity.
  Qed.

  Lemma blank_retag s : blank (r s) = blank s.
  Proof. destruct s; try reflexivity. cbn [retag]. destruct (same_call tg ep target ep0); reflexivity. Qed.
  Lemma retag_leaf s : match s with SCond _ _ _ | SLoop _ _ _ _ | SForeach _ _ _ | SGroup _ _ _ | SAlt _ _ => True | _ => deep blank (r s) = blank s end.
  Proof. destruct s; try exact I; try reflexivity. cbn [retag]. destruct (same_call tg ep target ep0); reflexivity. Qed.

  Lemma erase_deep : forall s, erase (deep r s) = erase s.
  Proof.
    unfold erase.
    assert (HL : forall l, Forall (fun s => deep blank (deep r s) = deep blank s) l ->
                   map (deep blank) (map (deep r) l) = map (deep blank) l).
    { induction 1 as [|x rest Hx _ IH]; [reflexivity|]. cbn [map]. rewrite Hx, IH. reflexivity. }
    induction s as [a t|a tg' ep' args|a t|a t b IH|a m t b IH|a t b IH|a t b IH|a cs IH|] using stmt_ind';
      try reflexivity; try (cbn [deep]; rewrite (HL _ IH); reflexivity).
    - apply (retag_leaf (SCall a tg' ep' args)).
    - cbn [deep]. f_equal. induction IH as [|c rest Hc _ IHr]; [reflexivity|]. cbn [map fst snd]. rewrite (HL _ Hc), IHr. reflexivity.
  Qed.
End Closed.

(* ================================================================== the theorem *)
(* collector_applies_to_all_matches: whatever statement forest an endpoint holds and wherever in it calls are
   written, when applyAttributes has gone over it for the entry `tg <- ep [cat]`,
   (1) the call statements of the result are, one for one and in the same order, the call statements of the input
       with `retag`: every call of that target and endpoint carries the entry's attributes merged into its own
       (all of them: 2, 3, 4 times in one block, in sibling blocks, in different one-of choices, first match deep
       down), every other call is unchanged;
   (2) nothing else differs: with call attributes blanked the two forests are equal (kinds, texts, order, nesting,
       attributes of all non-call statements, targets / endpoints / arguments of the calls);
   (3) the accumulated boolean is true exactly when the forest contains such a call. *)
Theorem collector_applies_to_all_matches : forall cat tg ep ss ss' b,
  apply_list cat tg ep ss false = Some (ss', b) ->
  calls_of ss' = map (retag cat tg ep) (calls_of ss) /\
  map erase ss' = map erase ss /\
  b = existsb (is_match tg ep) (calls_of ss).
Proof.
  intros cat tg ep ss ss' b H. destruct (apply_list_deep _ _ _ _ _ _ _ H) as [-> ->]. rewrite orb_false_r. repeat split.
  - clear H. unfold calls_of. induction ss as [|x rest IH]; [reflexivity|]. cbn [map flat_map]. rewrite map_app, calls_deep, IH. reflexivity.
  - rewrite map_map. apply map_ext. intros s. apply erase_deep.
Qed.

(* what `retag` is on one call statement *)
Lemma retag_match cat tg ep a tg' ep' args : same_call tg ep tg' ep' = true ->
  retag cat tg ep (SCall a tg' ep' args) = SCall (merge_attrs cat a) tg' ep' args.
Proof. intros H. cbn [retag]. rewrite H. reflexivity. Qed.
Lemma retag_other cat tg ep s : is_match tg ep s = false -> retag cat tg ep s = s.
Proof. destruct s; try reflexivity. cbn [is_match retag]. intros ->. reflexivity. Qed.
Lemma parts_eqb_eq a : forall b, parts_eqb a b = true <-> a = b.
Proof.
  induction a as [|x a IH]; intros [|y b]; cbn [parts_eqb]; split; try discriminate; try reflexivity.
  - intros H. apply andb_true_iff in H as [H1 H2]. apply String.eqb_eq in H1. apply IH in H2. congruence.
  - intros [= -> ->]. rewrite String.eqb_refl. apply IH. reflexivity.
Qed.
(* a call is hit exactly when target (all parts) and endpoint text are the entry's *)
Lemma same_call_eq tg ep tg' ep' : same_call tg ep tg' ep' = true <-> tg = tg' /\ ep = ep'.
Proof. unfold same_call. rewrite andb_true_iff, parts_eqb_eq, String.eqb_eq. tauto. Qed.

(* ---- totality: on the statement kinds the listener produces applyAttributes never panics *)
Section Total.
  Variables (cat:attrs) (tg:list string) (ep:string).
  Definition defined_at (s:stmt) : Prop := no_bad s = true -> exists x, apply_attrs cat tg ep s = Some x.
  Lemma apply_list_defined l : Forall defined_at l -> forallb no_bad l = true -> forall acc, exists x, apply_list cat tg ep l acc = Some x.
  Proof.
    induction 1 as [|s rest Hs _ IH]; intros Hb acc; cbn [apply_list forallb] in *; [eexists; reflexivity|].
    apply andb_true_iff in Hb as [H1 H2]. destruct (Hs H1) as [[s' b] ->]. destruct (IH H2 (b || acc)%bool) as [[r' b'] ->]. eexists. reflexivity.
  Qed.
  Lemma apply_defined : forall s, defined_at s.
  Proof.
    induction s as [a t|a tg' ep' args|a t|a t b IH|a m t b IH|a t b IH|a t b IH|a cs IH|] using stmt_ind'; intros Hb; cbn [no_bad] in Hb.
    - eexists. reflexivity.
    - cbn [apply_attrs]. destruct (same_call tg ep tg' ep'); eexists; reflexivity.
    - eexists. reflexivity.
    - rewrite apply_cond. destruct (apply_list_defined _ IH Hb false) as [[b' x] ->]. eexists. reflexivity.
    - rewrite apply_loop. destruct (apply_list_defined _ IH Hb false) as [[b' x] ->]. eexists. reflexivity.
    - rewrite apply_foreach. destruct (apply_list_defined _ IH Hb false) as [[b' x] ->]. eexists. reflexivity.
    - rewrite apply_group. destruct (apply_list_defined _ IH Hb false) as [[b' x] ->]. eexists. reflexivity.
    - rewrite apply_alt.
      assert (G : forall acc, exists x, apply_choices cat tg ep cs acc = Some x).
      { induction IH as [|c rest Hc _ IHr]; intros acc; cbn [apply_choices forallb] in *; [eexists; reflexivity|].
        apply andb_true_iff in Hb as [H1 H2]. destruct (apply_list_defined _ Hc H1 acc) as [[b' a1] ->].
        destruct (IHr H2 a1) as [[r' b2] ->]. eexists. reflexivity. }
      destruct (G false) as [[cs' x] ->]. eexists. reflexivity.
    - discriminate.
  Qed.
  Theorem collector_never_panics : forall ss acc, forallb no_bad ss = true -> exists x, apply_list cat tg ep ss acc = Some x.
  Proof. intros ss acc H. apply apply_list_defined; [|exact H]. apply Forall_forall. intros s _. apply apply_defined. Qed.
End Total.

(* ================================================================== one entry over an application *)
(* the endpoints after a call entry: every endpoint but the collector itself has `retag` applied throughout *)
Definition eps_effect (cat:attrs) (tg:list string) (ep:string) (eps:list (string * endpoint)) : list (string * endpoint) :=
  map (fun ne => if String.eqb (fst ne) collector_name then ne
                 else (fst ne, set_stmts (snd ne) (map (deep (retag cat tg ep)) (e_stmts (snd ne))))) eps.
Definition eps_calls (eps:list (string * endpoint)) : list stmt :=
  flat_map (fun ne => if String.eqb (fst ne) collector_name then [] else calls_of (e_stmts (snd ne))) eps.

Lemma collect_eps_closed cat tg ep : forall eps acc eps' b,
  collect_eps cat tg ep eps acc = Some (eps', b) ->
  eps' = eps_effect cat tg ep eps /\ b = (existsb (is_match tg ep) (eps_calls eps) || acc)%bool.
Proof.
  induction eps as [|[n e] rest IH]; intros acc eps' b H; cbn [collect_eps] in H.
  - injection H as <- <-. split; reflexivity.
  - unfold eps_effect, eps_calls. cbn [map flat_map fst snd]. destruct (String.eqb n collector_name).
    + destruct (collect_eps cat tg ep rest acc) as [[r' b']|] eqn:E; [|discriminate]. injection H as <- <-.
      destruct (IH _ _ _ E) as [-> ->]. split; reflexivity.
    + destruct (apply_list cat tg ep (e_stmts e) acc) as [[ss a1]|] eqn:Es; [|discriminate].
      destruct (collect_eps cat tg ep rest a1) as [[r' b']|] eqn:E; [|discriminate]. injection H as <- <-.
      destruct (apply_list_deep _ _ _ _ _ _ _ Es) as [-> ->]. destruct (IH _ _ _ E) as [-> ->]. split; [reflexivity|].
      rewrite existsb_app. fold (eps_calls rest).
      destruct (existsb (is_match tg ep) (calls_of (e_stmts e))), (existsb (is_match tg ep) (eps_calls rest)), acc; reflexivity.
Qed.

(* collector_entry_effect: one `Target <- Endpoint [attrs]` entry changes, in the whole application, exactly the
   matching calls of the endpoints other than the collector; types, attributes, mixins, names, every endpoint's
   name / parameters / attributes / REST part and the collector endpoint itself stay as they are; the entry counts
   as used exactly when some endpoint holds such a call *)
Theorem collector_entry_effect : forall a cat tg ep args a' b,
  collect_entry a (SCall cat tg ep args) = Some (a', b) ->
  a' = set_eps a (eps_effect cat tg ep (a_eps a)) /\ b = existsb (is_match tg ep) (eps_calls (a_eps a)).
Proof.
  intros a cat tg ep args a' b H. cbn [collect_entry] in H.
  destruct (collect_eps cat tg ep (a_eps a) false) as [[eps b0]|] eqn:E; [|discriminate]. injection H as <- <-.
  destruct (collect_eps_closed _ _ _ _ _ _ _ E) as [-> ->]. rewrite orb_false_r. split; reflexivity.
Qed.

(* `EndpointName [attrs]` / `VERB /path [attrs]`: the attributes are merged into that endpoint's, nothing else moves *)
Theorem collector_action_effect : forall a cat n e,
  aget n (a_eps a) = Some e ->
  exists a', collect_entry a (SAction cat n) = Some (a', true) /\
    aget n (a_eps a') = Some (set_eattrs e (merge_attrs cat (e_attrs e))) /\
    (forall n', n' <> n -> aget n' (a_eps a') = aget n' (a_eps a)) /\
    a_types a' = a_types a /\ a_attrs a' = a_attrs a /\ a_mixins a' = a_mixins a.
Proof.
  intros a cat n e H. eexists. cbn [collect_entry]. rewrite H. split; [reflexivity|]. unfold set_eps. cbn [a_eps a_types a_attrs a_mixins].
  rewrite aget_aset_eq. repeat split. intros n' Hne. apply aget_aset_ne. congruence.
Qed.
Lemma collector_action_missing a cat n : aget n (a_eps a) = None -> collect_entry a (SAction cat n) = Some (a, false).
Proof. intros H. cbn [collect_entry]. rewrite H. reflexivity. Qed.

(* non-vacuity: the same call three times in one nested block (one with attributes of its own), a first match only
   two levels down, matches in two choices of a one-of, one call of another endpoint; two entries hit the call *)
Definition sample_body : list stmt :=
  [SGroup [] "for x in y" [SCond [] "if a" [SCall [] ["Svc"] "Do" None; SAction [] "log"; SCall [("patterns", AA [AS "own"])] ["Svc"] "Do" (Some ["x"]);
                                            SCall [] ["Svc"] "Do" None]];
   SCond [] "if b" [SAction [] "no call here"; SLoop [] LUntil "done" [SGroup [] "inner" [SCall [] ["Svc"] "Do" None]]];
   SAlt [] [("first", [SCall [] ["Svc"] "Do" None]); ("second", [SCall [] ["Svc"] "Other" None]); ("third", [SForeach [] "z" [SCall [] ["Svc"] "Do" None]])]].
Example collector_applies_nonvacuous :
  exists ss1 ss2,
    apply_list [("patterns", AA [AS "one"]); ("k", AS "v")] ["Svc"] "Do" sample_body false = Some (ss1, true) /\
    apply_list [("patterns", AA [AS "two"])] ["Svc"] "Do" ss1 false = Some (ss2, true) /\
    map (fun s => match s with SCall a _ e _ => (e, aget "patterns" a) | _ => ("", None) end) (calls_of ss2) =
      [("Do", Some (AA [AS "one"; AS "two"])); ("Do", Some (AA [AS "own"; AS "one"; AS "two"])); ("Do", Some (AA [AS "one"; AS "two"]));
       ("Do", Some (AA [AS "one"; AS "two"])); ("Do", Some (AA [AS "one"; AS "two"])); ("Other", None); ("Do", Some (AA [AS "one"; AS "two"]))] /\
    apply_list [("k", AS "v")] ["Svc"] "Nowhere" sample_body false = Some (sample_body, false).
Proof. eexists. eexists. repeat split; vm_compute; reflexivity. Qed.
