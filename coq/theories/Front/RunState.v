(* Front/RunState.v - correspondence glue for the full lexer state (C03): one case = the tokens the generated lexer
   delivered for a text (as in Front/Run.v) and, for each of them, the REAL lexerState right after the
   SyslLexer.NextToken call that returned it, packed into one number by the harness (read through
   VerifLexerStateID); the model state after the same token must pack to the same number, and the token types the
   real lexer returned (INDENT / DEDENT included) must be those of the model. *)
From Coq Require Import List NArith ZArith Bool.
Import ListNotations.
Require Import Verif.Front.Indent Verif.Front.Lines Verif.Front.Current Verif.Front.LexState Verif.Front.Run.
Require Import Verif.Gen.LexerTables Verif.Gen.LexerState Verif.Base.Harness.
Local Open Scope N_scope.

Definition F0 : ftables := {| f_base := lexer_tables; f_ops := ls_ops; f_preds := ls_preds |}.

Definition b2n (b:bool) : N := if b then 1 else 0.

(* flags + 16 * (blockTextLine + 16 * (inSqBrackets+32 + 64 * (parens+32 + 64 * (len(level) + 64 * (spaces + 1024 * linenum))))) *)
Definition pack (s:fstate) : N :=
  let e := ex s in
  b2n (nl (base s)) + 2 * b2n (http e) + 4 * b2n (view e) + 8 * b2n (nomore e) +
  16 * (block e + 16 * (Z.to_N (sq e + 32) + 64 * (Z.to_N (parens e + 32) + 64 * (N.of_nat (length (level (base s))) +
  64 * (spaces (base s) + 1024 * linenum e))))).

Fixpoint fstates (F:ftables) (s:fstate) (rs:list raw) : list N :=
  match rs with
  | [] => []
  | r :: rs' => let s1 := fnext F s r in pack s1 :: fstates F s1 rs'
  end.

Definition st_case := (list tok * list N * list N)%type.

Definition st_ok (c:st_case) : bool :=
  let rs := map (to_raw W0) (fst (fst c)) in
  match fouts F0 (finit F0) rs with
  | Done o => list_eqb N.eqb (all_tys lexer_tables o) (snd (fst c)) && list_eqb N.eqb (fstates F0 (finit F0) rs) (snd c)
  | _ => false
  end.
