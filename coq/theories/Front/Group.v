(* C02: lookup-or-create over ONE shared association list = group-by key.
   The listener threads one mutable map (applications of the module; endpoints of an application) through all
   declarations in source order: each declaration looks its key up, takes what is there or creates a fresh value,
   changes it and stores it back. `fold_kstep_grouped` says that this is the same as grouping the declarations by
   key (keys in order of first appearance) and folding each group on its own - the interleaving of declarations
   for different keys is irrelevant. Generic in the item type X and the value type V; used twice in
   CanonFullProps.v (items = the actions of a specification on applications; items = the contributions to the
   endpoints of one application). No well-formedness needed. *)
From Coq Require Import String List Bool.
Require Import Verif.Front.Ast Verif.Front.Denote Verif.Front.DenoteProps Verif.Front.Canon Verif.Front.CanonProps.
Import ListNotations.
Local Open Scope string_scope.
Local Open Scope list_scope.

Section Keyed.
  Context {X V : Type}.
  Variable key : X -> string.
  Variable init : X -> V.              (* the fresh value an item creates when its key is not there yet *)
  Variable eff : V -> X -> V.          (* what the item does to the value under its key *)
  Variable d : V.                      (* only to make `kgrouped` total; never used for a key that occurs *)

  Definition orinit (o:option V) (x:X) : V := match o with Some v => v | None => init x end.
  Definition kstep (m:list (string * V)) (x:X) : list (string * V) := aset (key x) (eff (orinit (aget (key x) m) x) x) m.
  Definition is_key (k:string) (x:X) : bool := String.eqb (key x) k.
  (* the value of key k after the items xs: the items for k alone, folded from the fresh value of the first *)
  Definition fold_group (l:list X) : option V :=
    match l with [] => None | x :: r => Some (fold_left eff (x :: r) (init x)) end.
  Definition after (xs:list X) (k:string) : option V := fold_group (filter (is_key k) xs).
  Definition kgrouped (xs:list X) : list (string * V) :=
    map (fun k => (k, match after xs k with Some v => v | None => d end)) (dedup (map key xs)).

  Lemma fold_group_snoc l x : fold_group (l ++ [x]) = Some (eff (orinit (fold_group l) x) x).
  Proof.
    destruct l as [|y r]; cbn [List.app fold_group orinit]; [reflexivity|].
    change (y :: r ++ [x]) with ((y :: r) ++ [x]). rewrite fold_left_app. reflexivity.
  Qed.

  Lemma after_snoc xs x k :
    after (xs ++ [x]) k = if String.eqb k (key x) then Some (eff (orinit (after xs k) x) x) else after xs k.
  Proof.
    unfold after. rewrite filter_app. cbn [filter]. unfold is_key at 2. rewrite (String.eqb_sym (key x) k).
    destruct (String.eqb k (key x)); [apply fold_group_snoc|rewrite app_nil_r; reflexivity].
  Qed.

  Lemma filter_key_none k xs : ~ In k (map key xs) -> filter (is_key k) xs = [].
  Proof using.
    induction xs as [|x r IH]; cbn [map In filter]; [reflexivity|]. intros H. unfold is_key at 1.
    destruct (String.eqb_spec (key x) k) as [Heq|_]; [exfalso; apply H; left; exact Heq|].
    apply IH. intros H'. apply H. right. exact H'.
  Qed.
  Lemma filter_key_some k xs : In k (map key xs) -> filter (is_key k) xs <> [].
  Proof.
    induction xs as [|x r IH]; cbn [map In filter]; [intros []|]. intros H. unfold is_key at 1.
    destruct (String.eqb_spec (key x) k) as [Heq|Hne]; [discriminate|]. apply IH. destruct H; [contradiction|assumption].
  Qed.
  Lemma after_some k xs : In k (map key xs) -> exists v, after xs k = Some v.
  Proof.
    intros H. apply filter_key_some in H. unfold after. destruct (filter (is_key k) xs); [contradiction|].
    eexists. reflexivity.
  Qed.

  Lemma aget_kgrouped xs k : aget k (kgrouped xs) = after xs k.
  Proof.
    unfold kgrouped. destruct (dedup_spec (map key xs)) as [_ Hin].
    destruct (in_dec string_dec k (map key xs)) as [H|H].
    - rewrite (aget_map_in (fun k => match after xs k with Some v => v | None => d end) k); [|apply Hin, H].
      destruct (after_some _ _ H) as [v ->]. reflexivity.
    - rewrite aget_notin; [|rewrite keys_map, Hin; exact H]. unfold after. rewrite (filter_key_none _ _ H). reflexivity.
  Qed.

  (* interleaving is irrelevant *)
  Theorem fold_kstep_grouped : forall xs, fold_left kstep xs [] = kgrouped xs.
  Proof.
    induction xs as [|x xs IH] using rev_ind; [reflexivity|].
    rewrite fold_left_app, IH. cbn [fold_left]. unfold kstep. rewrite aget_kgrouped.
    unfold kgrouped at 2. rewrite map_app. cbn [map]. rewrite dedup_snoc.
    destruct (dedup_spec (map key xs)) as [Hnd Hin].
    destruct (memb (key x) (dedup (map key xs))) eqn:Hm.
    - apply memb_In in Hm. unfold kgrouped. rewrite (aset_map_in _ _ _ _ Hnd Hm). apply map_ext. intros k.
      rewrite after_snoc. destruct (String.eqb_spec k (key x)) as [->|_]; reflexivity.
    - assert (Hx : ~ In (key x) (dedup (map key xs))). { intros H. apply memb_In in H. congruence. }
      unfold kgrouped. rewrite aset_fresh; [|apply aget_notin; rewrite keys_map; exact Hx].
      rewrite map_app. cbn [map]. f_equal.
      + apply map_ext_in. intros k Hk. rewrite after_snoc.
        destruct (String.eqb_spec k (key x)) as [->|_]; [contradiction|reflexivity].
      + rewrite after_snoc, String.eqb_refl. reflexivity.
  Qed.

  Lemma keys_kgrouped xs : keys (kgrouped xs) = dedup (map key xs).
  Proof. unfold kgrouped. apply keys_map. Qed.
End Keyed.
