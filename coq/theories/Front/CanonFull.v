(* C02: `canonf` - the declarative reading of Front/Canon.v extended to the WHOLE member language of the model:
     everything of Canon.v (applications in interleaved blocks, attributes, annotations, !type / !table / !enum /
     !alias / !union, simple endpoints, events, mixin declarations)
   + REST trees (nested paths, path variables, query parameters, every verb, attributes and annotations of every
     level, docstrings),
   + subscriptions `Publisher -> Event: ...` (the subscriber side is an endpoint of the subscribing application;
     the publisher side is a call ADDED to the event of the publisher's application - another application, which
     the subscription creates if nothing declared it before),
   + `.. * <- *:` collector blocks (listener stage: the endpoint holding the entries; what postProcess does with
     them is the subject of CollectProps.v).

   Where `denote` threads one mutable module through all declarations, `canonf` groups twice:
   the ACTIONS of the specification by application (an action = a block header, a member, or the publisher side of
   a subscription), and inside an application the CONTRIBUTIONS to its endpoints by endpoint name. A contribution
   is either a complete declaration (simple endpoint, REST method, subscriber side, collector block) - its endpoint
   is then the closed-form image of that one declaration - or a part of an event (`<-> Event`, a subscriber's call):
   the event is then the closed-form combination of its parts in source order.
   Definitions only; theorems in CanonFullProps.v. *)
From Coq Require Import String List ZArith Ascii Bool.
Require Import Verif.Front.Ast Verif.Front.Denote Verif.Front.DenoteProps Verif.Front.Canon.
Import ListNotations.
Local Open Scope string_scope.
Local Open Scope list_scope.

(* ------------------------------------------------------------------ contributions to the endpoints of one application *)
Inductive contrib :=
| KEp (ap:list string) (n:string) (long:option string) (ps:list fielddecl) (es:list entry) (annos:list anno) (body:list xstmt)
| KMethod (ap:list string) (path:string) (urls:list (string * ty)) (rattrs:list attrs) (md:method)
| KSubscriber (ap src:list string) (n:string) (es:list entry) (body:list xstmt)
| KCollector (entries:list centry)
| KEvent (ap:list string) (n:string) (ps:list fielddecl) (es:list entry) (body:list xstmt)
| KSubCall (ap src:list string) (n:string).

Definition sub_name (src:list string) (n:string) : string := app_key src +++ " -> " +++ n.
Definition method_name (path:string) (md:method) : string := meth_name (m_verb md) +++ " " +++ path.

Definition ckey (c:contrib) : string :=
  match c with
  | KEp _ n _ _ _ _ _ => n
  | KMethod _ path _ _ md => method_name path md
  | KSubscriber _ src n _ _ => sub_name src n
  | KCollector _ => collector_name
  | KEvent _ n _ _ _ => n
  | KSubCall _ _ n => n
  end.

(* a complete declaration (true) or a part of an event (false) *)
Definition is_decl (c:contrib) : bool := match c with KEvent _ _ _ _ _ | KSubCall _ _ _ => false | _ => true end.

(* the endpoint a contribution creates when its name is not there yet (what the listener's lookup-or-create makes) *)
Definition event0 (n:string) : endpoint := E n "" "" [] true [] [] None [].
Definition cinit (c:contrib) : endpoint :=
  match c with
  | KEp _ n _ _ _ _ _ => new_ep n
  | KMethod _ path _ _ md => E (method_name path md) "" "" [] false [] [] (Some (R (m_verb md) path [] [])) []
  | KSubscriber _ src n _ _ => new_ep (sub_name src n)
  | KCollector _ => E collector_name "" "" [] false [] [] None []
  | KEvent _ n _ _ _ => event0 n
  | KSubCall _ _ n => event0 n
  end.

Definition query_image (ap:list string) (md:method) : list (string * ty) :=
  map (fun v => (q_name v, var_type ap (q_ty v) (q_opt v))) (m_query md).
Definition method_attrs (rattrs:list attrs) (md:method) : attrs :=
  let at0 := fold_left (fun d p => merge_attrs p d) rattrs [(patterns, AA [AS "rest"])] in
  match m_attribs md with [] => at0 | es => merge_attrs (make_attrs es) at0 end.

(* what the listener does to the endpoint under the contribution's name (parameters and statements already in the
   closed forms of Canon.v / DenoteProps.v: params_image, image) *)
Definition ceff (e0:endpoint) (c:contrib) : endpoint :=
  match c with
  | KEp ap n long ps es annos body =>
      E n (match long with Some l => l | None => e_long e0 end) (e_doc e0)
        (add_annos (match es with [] => e_attrs e0 | _ => merge_attrs (make_attrs es) (e_attrs e0) end) annos)
        (e_pubsub e0) (e_source e0) (e_params e0 ++ params_image ap ps) (e_rest e0) (e_stmts e0 ++ map (image ap) body)
  | KMethod ap path urls rattrs md =>
      let rp := match e_rest e0 with
                | Some r => Some (R (r_method r) (r_path r) (r_query r ++ query_image ap md) (match urls with [] => r_url r | _ => urls end))
                | None => None
                end in
      let '(doc, ss0) := match e_rest e0, e_stmts e0 with
                         | Some _, [] => (doc_join (e_doc e0) (m_doc md), e_stmts e0)
                         | _, _ => (e_doc e0, doc_stmts (e_stmts e0) (m_doc md))
                         end in
      E (method_name path md) (e_long e0) doc (add_annos (merge_attrs (method_attrs rattrs md) (e_attrs e0)) (m_annos md))
        (e_pubsub e0) (e_source e0) (e_params e0 ++ params_image ap (m_params md)) rp (ss0 ++ map (image ap) (m_body md))
  | KSubscriber ap src n es body =>
      E (sub_name src n) "" "" (opt_attrs es) false src [] None (map (image ap) body)
  | KCollector entries =>
      match entries with
      | [] => e0
      | _ => ep_with e0 (e_attrs e0) (e_params e0) (map centry_stmt entries)
      end
  | KEvent ap n ps es body =>
      ep_with e0 (match es with [] => e_attrs e0 | _ => make_attrs es end) (e_params e0 ++ params_image ap ps)
              (e_stmts e0 ++ map (image ap) body)
  | KSubCall ap src n =>
      ep_with e0 (e_attrs e0) (e_params e0) (e_stmts e0 ++ [SCall [] ap (sub_name src n) None])
  end.

(* ---- REST: the methods of a tree, in source order, each with the path, the path variables and the attribute
   levels that apply to it: the path is the concatenation of the segments of its ancestors, the variables those of
   all ancestors in order, the attribute levels one per ancestor = its [..] plus the annotations written in it
   BEFORE the method / sub-path (an annotation applies to what follows it only) *)
Fixpoint rest_contribs (ap:list string) (prefix:string) (urls:list (string * ty)) (rattrs:list attrs) (n:restnode) {struct n}
  : list contrib :=
  match n with
  | RNode segs es children =>
      let path := prefix +++ segs_path segs in
      let urls' := urls ++ segs_vars ap segs in
      (fix go (cs:list restchild) (own:attrs) {struct cs} : list contrib :=
         match cs with
         | [] => []
         | RAnno an :: r => go r (add_anno own an)
         | RSub n' :: r => rest_contribs ap path urls' (rattrs ++ [own]) n' ++ go r own
         | RMethod md :: r => KMethod ap path urls' (rattrs ++ [own]) md :: go r own
         end) children (opt_attrs es)
  end.

Definition contribs (ap:list string) (mem:member) : list contrib :=
  match mem with
  | MEndpoint n long ps es annos body => [KEp ap n long ps es annos body]
  | MRest node => rest_contribs ap "" [] [] node
  | MEvent n ps es body => [KEvent ap n ps es body]
  | MSubscribe src n es body => [KSubscriber ap src n es body]
  | MCollector entries => [KCollector entries]
  | _ => []
  end.

(* ---- closed-form images *)
(* the endpoint of a complete declaration *)
Definition cimage (c:contrib) : endpoint :=
  match c with
  | KEp ap n long ps es annos body =>
      E n (match long with Some l => l | None => "" end) ""
        (add_annos (match es with [] => [] | _ => merge_attrs (make_attrs es) [] end) annos)
        false [] (params_image ap ps) None (map (image ap) body)
  | KMethod ap path urls rattrs md =>
      E (method_name path md) "" (doc_join "" (m_doc md)) (add_annos (merge_attrs (method_attrs rattrs md) []) (m_annos md))
        false [] (params_image ap (m_params md)) (Some (R (m_verb md) path (query_image ap md) urls)) (map (image ap) (m_body md))
  | KSubscriber ap src n es body => E (sub_name src n) "" "" (opt_attrs es) false src [] None (map (image ap) body)
  | KCollector entries => E collector_name "" "" [] false [] [] None (map centry_stmt entries)
  | KEvent _ n _ _ _ | KSubCall _ _ n => event0 n
  end.

(* an event = the combination of its parts: the attributes of the last `<-> Event [..]` that has any, the
   parameters of its declarations, and - in source order - the statements of its declarations and one call per
   subscription *)
Definition ev_attrs (at0:attrs) (cs:list contrib) : attrs :=
  fold_left (fun a c => match c with KEvent _ _ _ es _ => match es with [] => a | _ => make_attrs es end | _ => a end) cs at0.
Definition ev_params (cs:list contrib) : list (string * ty) :=
  flat_map (fun c => match c with KEvent ap _ ps _ _ => params_image ap ps | _ => [] end) cs.
Definition ev_stmts (cs:list contrib) : list stmt :=
  flat_map (fun c => match c with
                     | KEvent ap _ _ _ body => map (image ap) body
                     | KSubCall ap src n => [SCall [] ap (sub_name src n) None]
                     | _ => []
                     end) cs.
Definition event_image (n:string) (cs:list contrib) : endpoint :=
  E n "" "" (ev_attrs [] cs) true [] (ev_params cs) None (ev_stmts cs).

(* the endpoint of name n, given everything the application's text contributes to that name *)
Definition ep_canon (n:string) (cs:list contrib) : endpoint :=
  match cs with
  | [c] => if is_decl c then cimage c else event_image n cs
  | _ => event_image n cs
  end.
Definition is_ckey (n:string) (c:contrib) : bool := String.eqb (ckey c) n.
Definition canon_eps (cs:list contrib) : list (string * endpoint) :=
  map (fun n => (n, ep_canon n (filter (is_ckey n) cs))) (dedup (map ckey cs)).

(* ------------------------------------------------------------------ actions on applications *)
Inductive act :=
| AHead (b:block)                                 (* `App "long" [attrs]:` *)
| AMem (ap:list string) (mem:member)              (* a member, on its own application *)
| APub (ap src:list string) (n:string).           (* a subscription of application ap, on the publisher src *)

Definition act_key (x:act) : string :=
  match x with AHead b => bkey b | AMem ap _ => app_key ap | APub _ src _ => app_key src end.
Definition mem_acts (ap:list string) (mem:member) : list act :=
  AMem ap mem :: match mem with MSubscribe src n _ _ => [APub ap src n] | _ => [] end.
Definition block_acts (b:block) : list act := AHead b :: flat_map (mem_acts (b_app b)) (b_members b).
Definition spec_acts (s:spec) : list act := flat_map block_acts (concat s).

Definition act_types (x:act) : list (string * ty) := match x with AMem ap mem => opt_list (type_image ap mem) | _ => [] end.
Definition act_contribs (x:act) : list contrib :=
  match x with AMem ap mem => contribs ap mem | APub ap src n => [KSubCall ap src n] | AHead _ => [] end.
Definition act_annos (x:act) : list anno := match x with AMem _ mem => mem_annos mem | _ => [] end.
Definition act_mixins (x:act) : list (list string) := match x with AMem _ mem => mem_mixins mem | _ => [] end.

(* name parts: those of the last block header; an application that only subscriptions mention keeps the spelling of
   the first one *)
Definition canon_parts (xs:list act) : list string :=
  fold_left (fun p x => match x with AHead b => b_app b | _ => p end) xs
            (match xs with APub _ src _ :: _ => src | _ => [] end).
Definition canon_long (xs:list act) : string :=
  fold_left (fun l x => match x with AHead b => match b_long b with Some y => y | None => l end | _ => l end) xs "".
Definition act_attrs (at0:attrs) (x:act) : attrs :=
  match x with
  | AHead b => match b_attribs b with [] => at0 | es => merge_attrs (make_attrs es) at0 end
  | AMem _ mem => add_annos at0 (mem_annos mem)
  | APub _ _ _ => at0
  end.

(* one application: all the actions on it, in source order *)
Definition canonf_app (xs:list act) : app :=
  A (canon_parts xs) (canon_long xs) (fold_left act_attrs xs [])
    (flat_map act_types xs) (canon_eps (flat_map act_contribs xs)) (flat_map act_mixins xs).

Definition is_akey (k:string) (x:act) : bool := String.eqb (act_key x) k.
Definition canonf_acts (xs:list act) : module :=
  map (fun k => (k, canonf_app (filter (is_akey k) xs))) (dedup (map act_key xs)).
Definition canonf (s:spec) : module := canonf_acts (spec_acts s).

(* ------------------------------------------------------------------ well-formedness, as a boolean *)
Fixpoint rest_ok (n:restnode) {struct n} : bool :=
  match n with
  | RNode _ _ children =>
      (fix go (cs:list restchild) : bool :=
         match cs with
         | [] => true
         | RMethod md :: r => forallb field_ok (m_params md) && go r
         | RSub n' :: r => rest_ok n' && go r
         | RAnno _ :: r => go r
         end) children
  end.
Definition member_okf (mem:member) : bool :=
  match mem with
  | MRest node => rest_ok node
  | _ => member_ok mem
  end.
Definition act_ok (x:act) : bool := match x with AMem _ mem => member_okf mem | _ => true end.

(* per endpoint name: one complete declaration and nothing else, or parts of an event only *)
Definition name_ok (cs:list contrib) : bool :=
  match cs with [_] => true | _ => forallb (fun c => negb (is_decl c)) cs end.
Definition eps_ok (cs:list contrib) : bool := forallb (fun n => name_ok (filter (is_ckey n) cs)) (dedup (map ckey cs)).

Definition wf_full (s:spec) : bool :=
  let xs := spec_acts s in
  forallb act_ok xs &&
  forallb (fun k => nodupb (keys (flat_map act_types (filter (is_akey k) xs))) &&
                    eps_ok (flat_map act_contribs (filter (is_akey k) xs))) (dedup (map act_key xs)).
