(* C02: attribute precedence. One attribute NAME given several times on ONE element - inline in the header and
   again by `@name = value` annotations in the body (pkg/parse addAttrWithPrecedence, via EnterAnnotation /
   EnterAnnotation_value / ExitAnnotation_value = Denote.add_anno):
     the element holds the FIRST NON-EMPTY value declared for the name - a non-empty string or a non-empty array
     (nested arrays included) alike; an empty string, an empty array or a name that is only announced is no value
     and is overwritten by the next one; when every value is empty the last one stays.
   `anno_first_nonempty_wins` states this for every attribute map, every list of annotations (all three value
   forms: quoted, arrays, multi-line text) and every name other than `patterns`; tags (`patterns`) accumulate
   (`anno_patterns_append`). `prec_shape_current` ties the case analysis of Denote.add_prec to the statements of
   the CURRENT addAttrWithPrecedence (Gen/ListenerState.v, regenerated on every run). *)
From Coq Require Import String List ZArith Ascii Bool.
Require Import Verif.Front.Ast Verif.Front.Denote Verif.Front.DenoteProps Verif.Front.Canon Verif.Front.CanonProps
               Verif.Front.CanonFull Verif.Gen.ListenerState.
Import ListNotations.
Local Open Scope string_scope.
Local Open Scope list_scope.

Definition nonempty (a:attr) : bool :=
  match a with AS s => negb (String.eqb s "") | AA (_ :: _) => true | _ => false end.
(* the value an annotation declares *)
Definition anno_val (v:annoval) : attr := match v with NQ s => AS s | NArr x => x | NMulti ls => AS (multi_text ls) end.
Definition anno_name (a:anno) : string := match a with An n _ => n end.
Definition anno_value (a:anno) : attr := match a with An _ v => anno_val v end.

(* the first non-empty value among what the element already holds and the values declared after it, in order;
   if there is none, the last value declared (what is held, if nothing is declared) *)
Definition last_or (cur:option attr) (vals:list attr) : option attr := fold_left (fun _ v => Some v) vals cur.
Definition first_nonempty (cur:option attr) (vals:list attr) : option attr :=
  match find nonempty (opt_list cur ++ vals) with
  | Some x => Some x
  | None => last_or cur vals
  end.

(* one declaration *)
Definition pstep (cur:option attr) (v:attr) : option attr :=
  match cur with Some x => if nonempty x then cur else Some v | None => Some v end.

Lemma add_prec_other m k a k' : k <> k' -> k <> patterns \/ True -> aget k' (add_prec m k a) = aget k' m.
Proof.
  intros Hne _. unfold add_prec.
  destruct (if String.eqb k patterns then aget patterns m else None) as [[s|cur| |]|]; try reflexivity.
  - destruct a; try reflexivity. apply aget_aset_ne, Hne.
  - destruct (aget k m) as [[s|[|x l]| |]|]; try (apply aget_aset_ne, Hne); try reflexivity.
    destruct (String.eqb s ""); [apply aget_aset_ne, Hne|reflexivity].
Qed.

Lemma add_prec_value m n a : n <> patterns -> aget n (add_prec m n a) = pstep (aget n m) a.
Proof.
  intros Hn. unfold add_prec, pstep. destruct (String.eqb_spec n patterns) as [|_]; [contradiction|].
  destruct (aget n m) as [[s|[|x l]| |]|] eqn:E; cbn [nonempty]; try (apply aget_aset_eq).
  - destruct (String.eqb s ""); cbn [negb]; [apply aget_aset_eq|exact E].
  - exact E.
Qed.

Lemma pstep_unset v : pstep (Some AUnset) v = Some v.
Proof. reflexivity. Qed.

(* one annotation line: the named attribute makes one precedence step, every other attribute is untouched *)
Lemma add_anno_value m n v : n <> patterns -> aget n (add_anno m (An n v)) = pstep (aget n m) (anno_val v).
Proof.
  intros Hn. unfold add_anno.
  set (m1 := match aget n m with None | Some AUnset => aset n AUnset m | _ => m end).
  assert (H1 : pstep (aget n m1) = pstep (aget n m)).
  { unfold m1. destruct (aget n m) as [[s|l| |]|] eqn:E; try (rewrite E; reflexivity); rewrite aget_aset_eq; reflexivity. }
  destruct v as [s|x|ls]; cbn [anno_val].
  - rewrite (add_prec_value _ _ _ Hn), H1. reflexivity.
  - rewrite (add_prec_value _ _ _ Hn), H1. reflexivity.
  - rewrite !(add_prec_value _ _ _ Hn), H1. unfold pstep. destruct (aget n m) as [x|]; [|reflexivity].
    destruct (nonempty x) eqn:Hx; [rewrite Hx; reflexivity|reflexivity].
Qed.
Lemma add_anno_other m n v k : n <> k -> aget k (add_anno m (An n v)) = aget k m.
Proof.
  intros Hne. unfold add_anno.
  set (m1 := match aget n m with None | Some AUnset => aset n AUnset m | _ => m end).
  assert (H1 : aget k m1 = aget k m).
  { unfold m1. destruct (aget n m) as [[s|l| |]|]; try reflexivity; apply aget_aset_ne, Hne. }
  destruct v; rewrite ?(add_prec_other _ _ _ _ Hne (or_intror I)); exact H1.
Qed.

Lemma fold_pstep_first : forall vals cur, fold_left pstep vals cur = first_nonempty cur vals.
Proof.
  induction vals as [|v r IH]; intros cur.
  - unfold first_nonempty, last_or. cbn [fold_left]. rewrite app_nil_r. destruct cur as [x|]; cbn [opt_list find]; [|reflexivity].
    destruct (nonempty x); reflexivity.
  - cbn [fold_left]. rewrite IH. unfold first_nonempty, last_or, pstep.
    destruct cur as [x|]; cbn [opt_list List.app find fold_left]; [|reflexivity].
    destruct (nonempty x) eqn:Hx; cbn [opt_list List.app find]; [rewrite Hx; reflexivity|reflexivity].
Qed.

Definition named (n:string) (a:anno) : bool := String.eqb (anno_name a) n.

(* anno_first_nonempty_wins: after any list of annotation lines, the element holds for the name n the first
   non-empty value among the one it held before (e.g. from its inline [n=...]) and the values of the lines that
   name n, in source order - strings, arrays, nested arrays and multi-line texts alike *)
Theorem anno_first_nonempty_wins : forall l m n, n <> patterns ->
  aget n (add_annos m l) = first_nonempty (aget n m) (map anno_value (filter (named n) l)).
Proof.
  intros l m n Hn. rewrite <- fold_pstep_first. revert m.
  induction l as [|[n' v] r IH]; intros m; [reflexivity|].
  unfold add_annos in *. cbn [fold_left filter]. rewrite IH. unfold named at 2. cbn [anno_name].
  destruct (String.eqb_spec n' n) as [->|Hne].
  - cbn [map fold_left anno_value]. rewrite (add_anno_value _ _ _ Hn). reflexivity.
  - rewrite (add_anno_other _ _ _ _ Hne). reflexivity.
Qed.

(* ... and no other name is touched *)
Theorem anno_other_names_untouched : forall l m k, (forall a, In a l -> anno_name a <> k) -> aget k (add_annos m l) = aget k m.
Proof.
  induction l as [|[n v] r IH]; intros m k H; [reflexivity|]. unfold add_annos in *. cbn [fold_left].
  rewrite IH; [|intros a Ha; apply H; right; exact Ha]. apply add_anno_other. apply (H (An n v)). left. reflexivity.
Qed.

(* tags accumulate *)
Theorem anno_patterns_append : forall m cur new,
  aget patterns m = Some (AA cur) -> aget patterns (add_anno m (An patterns (NArr (AA new)))) = Some (AA (cur ++ new)).
Proof.
  intros m cur new H. unfold add_anno. rewrite H. unfold add_prec. rewrite String.eqb_refl, H. apply aget_aset_eq.
Qed.

(* the element kinds: the attributes of the image of a declaration are `add_annos <inline part> <annotation lines>`,
   so the theorem reads: the inline value wins if it is non-empty, else the first non-empty annotation *)
Corollary endpoint_attr_precedence : forall ap n long ps es annos body k, k <> patterns ->
  aget k (e_attrs (cimage (KEp ap n long ps es annos body))) =
    first_nonempty (aget k (match es with [] => [] | _ => merge_attrs (make_attrs es) [] end)) (map anno_value (filter (named k) annos)).
Proof. intros. cbn [cimage e_attrs]. apply anno_first_nonempty_wins. assumption. Qed.
Corollary method_attr_precedence : forall ap path urls rattrs md k, k <> patterns ->
  aget k (e_attrs (cimage (KMethod ap path urls rattrs md))) =
    first_nonempty (aget k (merge_attrs (method_attrs rattrs md) [])) (map anno_value (filter (named k) (m_annos md))).
Proof. intros. cbn [cimage e_attrs]. apply anno_first_nonempty_wins. assumption. Qed.
Corollary type_attr_precedence : forall ap table n es items k, k <> patterns ->
  match type_image ap (MType table n es false items) with
  | Some (_, t) => aget k (ty_attrs t) =
      first_nonempty (aget k (match es with [] => [] | _ => tdef_merge (make_attrs es) [] end)) (map anno_value (filter (named k) (item_annos items)))
  | None => False
  end.
Proof. intros. cbn [type_image ty_attrs]. apply anno_first_nonempty_wins. assumption. Qed.
Corollary app_attr_precedence : forall at0 b k, k <> patterns ->
  aget k (blk_attrs at0 b) =
    first_nonempty (aget k (match b_attribs b with [] => at0 | es => merge_attrs (make_attrs es) at0 end))
                   (map anno_value (filter (named k) (block_annos b))).
Proof. intros. unfold blk_attrs. apply anno_first_nonempty_wins. assumption. Qed.

(* the example of the missed regression: `!type Account [owners=["carol"]]:` with `@owners = ["dave", "erin"]` in
   the body keeps carol; an empty inline array is overwritten; a string after an array and an array after a string
   lose alike; nested arrays count as non-empty *)
Example anno_first_nonempty_wins_nonvacuous :
  let carol := [ENvp "owners" (AA [AS "carol"])] in
  let later := An "owners" (NArr (AA [AS "dave"; AS "erin"])) in
  aget "owners" (add_annos (make_attrs carol) [later]) = Some (AA [AS "carol"]) /\
  aget "owners" (add_annos (make_attrs [ENvp "owners" (AA [])]) [later; An "owners" (NQ "x")]) = Some (AA [AS "dave"; AS "erin"]) /\
  aget "owners" (add_annos (make_attrs [ENvp "owners" (AS "")]) [An "owners" (NArr (AA [])); An "owners" (NQ "")]) = Some (AS "") /\
  aget "t" (add_annos [] [An "t" (NQ "text"); An "t" (NArr (AA [AS "arr"]))]) = Some (AS "text") /\
  aget "t" (add_annos [] [An "t" (NArr (AA [AS "arr"])); An "t" (NQ "text")]) = Some (AA [AS "arr"]) /\
  aget "g" (add_annos [] [An "g" (NArr (AA [AA []; AA [AS "b"]])); An "g" (NArr (AA [AS "flat"]))]) = Some (AA [AA []; AA [AS "b"]]) /\
  aget "d" (add_annos [] [An "d" (NMulti [" one"; " two"]); An "d" (NQ "later")]) = Some (AS (multi_text [" one"; " two"])).
Proof. cbn zeta. repeat split; reflexivity. Qed.

(* ---- the statements of the CURRENT addAttrWithPrecedence: nil map -> fresh; `patterns` over existing patterns ->
   append; existing value: string non-empty -> keep, array non-empty -> keep; otherwise store. Denote.add_prec is
   this case analysis (a type-asserting arm that cannot be reached from text is kept as "unchanged"). *)
Lemma prec_shape_current : prec_shape =
  ["{";
   "if attrs == nil {";
   "attrs = make(map[string]*sysl.Attribute)";
   "}";
   "if patterns, hasPatterns := attrs[patternsKey]; hasPatterns && key == patternsKey {";
   "currPatterns := patterns.Attribute.(*sysl.Attribute_A)";
   "newPatterns := attr.Attribute.(*sysl.Attribute_A)";
   "currPatterns.A.Elt = append(currPatterns.A.GetElt(), newPatterns.A.GetElt()...)";
   "return attrs";
   "}";
   "if v, exists := attrs[key]; exists && v.Attribute != nil {";
   "switch x := v.Attribute.(type) {";
   "case *sysl.Attribute_S:";
   "if x.S != """" {";
   "v.SourceContexts = append(v.SourceContexts, attr.SourceContexts...)";
   "return attrs";
   "}";
   "case *sysl.Attribute_A:";
   "if len(x.A.GetElt()) > 0 {";
   "v.SourceContexts = append(v.SourceContexts, attr.SourceContexts...)";
   "return attrs";
   "}";
   "}";
   "}";
   "attrs[key] = attr";
   "return attrs";
   "}"].
Proof. reflexivity. Qed.
