(* Front/LinesProps.v - proofs about the layout transformations of Front/Lines.v, for ALL tables, weights,
   states and token streams (no bounds). *)
From Coq Require Import List NArith Bool Lia Arith.
Import ListNotations.
Require Import Verif.Front.Indent Verif.Front.IndentProps Verif.Front.Lines.
Local Open Scope N_scope.

(* ---------- calcSpaces ---------- *)

Lemma calc_acc W l : forall a, fold_left (fun s c => s + weight W c) l a = a + calc_spaces W l.
Proof.
  unfold calc_spaces. induction l as [|c l IH]; intros a; cbn [fold_left]; [lia|].
  rewrite IH, (IH (0 + weight W c)). lia.
Qed.

Lemma calc_cons W c l : calc_spaces W (c :: l) = weight W c + calc_spaces W l.
Proof. unfold calc_spaces at 1. cbn [fold_left]. rewrite calc_acc. lia. Qed.

Lemma calc_app W l1 l2 : calc_spaces W (l1 ++ l2) = calc_spaces W l1 + calc_spaces W l2.
Proof. induction l1 as [|c l1 IH]; [reflexivity|]. cbn [app]. rewrite !calc_cons, IH. lia. Qed.

(* a tab anywhere in the text counts as four spaces at that place (also after a prefix of spaces) *)
Theorem calc_spaces_tab W pre r : w_tab W = 4 * w_sp W ->
  calc_spaces W (pre ++ Tab :: r) = calc_spaces W (pre ++ Sp :: Sp :: Sp :: Sp :: r).
Proof. intros H. rewrite !calc_app, !calc_cons. cbn [weight]. lia. Qed.

Lemma calc_tabify W : w_tab W = 4 * w_sp W -> forall n l l', tabify_at n l = Some l' -> calc_spaces W l' = calc_spaces W l.
Proof.
  intros H. induction n as [|n IH]; intros l l' E.
  - destruct l as [|[] [|[] [|[] [|[] r]]]]; try discriminate. injection E as <-.
    rewrite !calc_cons. cbn [weight]. lia.
  - destruct l as [|c r]; [discriminate|]. cbn [tabify_at] in E.
    destruct (tabify_at n r) as [r'|] eqn:Er; [|discriminate]. injection E as <-.
    rewrite !calc_cons, (IH _ _ Er). reflexivity.
Qed.

Lemma calc_respell W : w_tab W = 4 * w_sp W -> forall l l', respell l l' -> calc_spaces W l = calc_spaces W l'.
Proof.
  intros H l l' R. induction R as [l|n l l' E|n l l' E|l1 l2 l3 _ IH1 _ IH2].
  - reflexivity.
  - symmetry. eapply calc_tabify; eassumption.
  - eapply calc_tabify; eassumption.
  - congruence.
Qed.

Lemma calc_repeat W c k : calc_spaces W (repeat c k) = N.of_nat k * weight W c.
Proof. induction k as [|k IH]; [reflexivity|]. cbn [repeat]. rewrite calc_cons, IH, Nat2N.inj_succ. lia. Qed.

Theorem calc_scale W k l : calc_spaces W (scale_ws k l) = N.of_nat k * calc_spaces W l.
Proof.
  unfold scale_ws. induction l as [|c l IH]; cbn [flat_map]; [cbn; lia|].
  rewrite calc_app, calc_repeat, calc_cons, IH. lia.
Qed.

Lemma to_raw_scale W k t : to_raw W (scale_tok k t) = scale_raw (N.of_nat k) (to_raw W t).
Proof. unfold to_raw, scale_tok, scale_raw. cbn [k_ty k_hidden k_ws k_eof ty hidden width eof]. rewrite calc_scale. reflexivity. Qed.

Lemma to_raw_respell W t t' : w_tab W = 4 * w_sp W -> respell_tok t t' -> to_raw W t = to_raw W t'.
Proof.
  intros H (Ht & Hh & He & Hr). unfold to_raw. rewrite Ht, Hh, He, (calc_respell W H _ _ Hr). reflexivity.
Qed.

(* tabs for 4-space units (and back), anywhere in any whitespace token: the lexer sees the same stream *)
Theorem respell_same_raws W ts ts' : w_tab W = 4 * w_sp W -> Forall2 respell_tok ts ts' ->
  map (to_raw W) ts = map (to_raw W) ts'.
Proof.
  intros H F. induction F as [|t t' ts ts' Ht _ IH]; [reflexivity|]. cbn [map].
  rewrite (to_raw_respell W t t' H Ht), IH. reflexivity.
Qed.

(* ---------- what is compared ---------- *)

Lemma out_vis_erase o : out_vis (erase_w o) = out_vis o.
Proof. destruct o; reflexivity. Qed.

Lemma vis_outs_alt os : vis_outs os = filter out_vis (map erase_w os).
Proof.
  unfold vis_outs. induction os as [|o os IH]; [reflexivity|]. cbn [map filter].
  rewrite out_vis_erase. destruct (out_vis o); cbn [map]; rewrite IH; reflexivity.
Qed.

Lemma vis_outs_shape os os' : map erase_w os' = map erase_w os -> vis_outs os' = vis_outs os.
Proof. intros H. rewrite !vis_outs_alt, H. reflexivity. Qed.

Lemma vis_outs_filter os os' : filter out_vis os' = filter out_vis os -> vis_outs os' = vis_outs os.
Proof. unfold vis_outs. intros ->. reflexivity. Qed.

Lemma erase_scale k o : erase_w (scale_out k o) = erase_w o.
Proof. destruct o; reflexivity. Qed.

(* the type sequences of Front/Indent.v are functions of vis_outs / of the erased outputs *)
Lemma visible_of_vis_outs T os : visible T os = map (out_ty T) (vis_outs os).
Proof.
  unfold visible, vis_outs. rewrite map_map. apply map_ext. intros o. destruct o; reflexivity.
Qed.

(* ---------- uniform re-indentation of the line-leading whitespace ---------- *)

Lemma step_unmeasured T s r : unmeasured T s r = true ->
  step T s r = Done (set_spaces (effect T s r) 0, [Tok r]).
Proof.
  unfold unmeasured, step. intros H. apply andb_true_iff in H. destruct H as [Hn Hh].
  apply negb_true_iff in Hn. rewrite Hn, Hh. reflexivity.
Qed.

Lemma unmeasured_scale_st T k s r : unmeasured T (scale_st k s) r = unmeasured T s r.
Proof. unfold unmeasured, effect. destruct (lookup (ty r) (t_actions T)); reflexivity. Qed.

Lemma effect_zero_scale T k s r :
  set_spaces (effect T (scale_st k s) r) 0 = scale_st k (set_spaces (effect T s r) 0).
Proof.
  unfold effect. destruct (lookup (ty r) (t_actions T)) as [a|]; unfold set_spaces, scale_st; cbn; f_equal; lia.
Qed.

Lemma run_scale_lead T k : 0 < k -> forall rs s s2 o, run T s rs = Done (s2, o) ->
  exists o', run T (scale_st k s) (scale_lead T k s rs) = Done (scale_st k s2, o') /\ map erase_w o' = map erase_w o.
Proof.
  intros Hk. induction rs as [|r rs IH]; intros s s2 o H; cbn [run scale_lead] in *.
  - injection H as <- <-. exists []. split; reflexivity.
  - unfold next_state. destruct (step T s r) as [[s1 o1]| |] eqn:Es; try discriminate.
    destruct (run T s1 rs) as [[s3 o3]| |] eqn:Er; try discriminate. injection H as <- <-.
    destruct (IH _ _ _ Er) as (o3' & Hr & Ho).
    destruct (unmeasured T s r) eqn:Eu.
    + pose proof (step_unmeasured T s r Eu) as E1. rewrite Es in E1. injection E1 as -> ->.
      rewrite step_unmeasured by (rewrite unmeasured_scale_st; exact Eu).
      rewrite effect_zero_scale, Hr. exists ([Tok r] ++ o3'). split; [reflexivity|].
      rewrite !map_app, Ho. reflexivity.
    + rewrite step_scale by exact Hk. rewrite Es. cbn [res_map]. unfold scale_step_res at 1. cbn [fst snd].
      rewrite Hr. exists (map (scale_out k) o1 ++ o3'). split; [reflexivity|].
      rewrite !map_app, Ho, map_map. f_equal. apply map_ext. intros x. apply erase_scale.
Qed.

Theorem scale_lead_invariant T k rs : 0 < k ->
  res_map vis_outs (indent_filter T (scale_lead T k (init T) rs)) = res_map vis_outs (indent_filter T rs).
Proof.
  intros Hk. unfold indent_filter. destruct (run_total T rs (init T)) as (s2 & o & Hr).
  destruct (run_scale_lead T k Hk rs _ _ _ Hr) as (o' & Hr' & Ho).
  rewrite init_scale in Hr'. rewrite Hr, Hr'. cbn [res_map snd]. f_equal. apply vis_outs_shape, Ho.
Qed.

Lemma scale_lead_t_raw W T k : forall ts s,
  map (to_raw W) (scale_lead_t W T k s ts) = scale_lead T (N.of_nat k) s (map (to_raw W) ts).
Proof.
  induction ts as [|t ts IH]; intros s; [reflexivity|]. cbn [scale_lead_t scale_lead map].
  rewrite IH. f_equal. destruct (unmeasured T s (to_raw W t)); [reflexivity|apply to_raw_scale].
Qed.

(* ---------- blank lines and whole-line comments ---------- *)

Lemma at_boundary_spec s : at_boundary s = true -> s = {| level := level s; spaces := 0; nl := true |}.
Proof.
  destruct s as [lvl sp n]. unfold at_boundary. cbn. intros H. apply andb_true_iff in H. destruct H as [-> H].
  apply N.eqb_eq in H. subst sp. reflexivity.
Qed.

Lemma step_eol T s r : is_eol T r = true ->
  step T s r = Done ({| level := level s; spaces := 0; nl := true |}, [Tok r]).
Proof.
  unfold is_eol, step, effect. destruct (lookup (ty r) (t_actions T)) as [a|]; [|discriminate].
  intros H. apply andb_true_iff in H. destruct H as [H Hb]. apply andb_true_iff in H. destruct H as [Hn Hs].
  destruct (a_sp a); try discriminate. rewrite Hn. cbn [nl orb andb]. rewrite Hb. reflexivity.
Qed.

(* at the start of a line a blank line / whole-line comment token changes nothing and is hidden *)
Lemma step_layout_noop T s b : at_boundary s = true -> is_layout T b = true -> step T s b = Done (s, [Tok b]).
Proof.
  intros Hb Hl. pose proof (at_boundary_spec s Hb) as Es.
  unfold is_layout in Hl. apply andb_true_iff in Hl. destruct Hl as [Hh Hl]. apply andb_true_iff in Hh. destruct Hh as [Hh _].
  apply orb_true_iff in Hl. destruct Hl as [He|Hc].
  - rewrite step_eol by exact He. rewrite <- Es. reflexivity.
  - apply andb_true_iff in Hc. destruct Hc as [Hc Hn].
    unfold step, effect. destruct (lookup (ty b) (t_actions T)); [discriminate|].
    rewrite Es. cbn [nl andb negb]. destruct (mem (ty b) (t_bypass T)); [reflexivity|].
    cbn [andb]. rewrite Hc. reflexivity.
Qed.

Lemma layout_hidden T b : is_layout T b = true -> out_vis (Tok b) = false.
Proof.
  unfold is_layout. intros H. apply andb_true_iff in H. destruct H as [H _]. apply andb_true_iff in H. destruct H as [H _].
  cbn. rewrite H. reflexivity.
Qed.

Lemma inserted_run T s rs rs' : inserted T s rs rs' -> forall s2 o, run T s rs = Done (s2, o) ->
  exists o', run T s rs' = Done (s2, o') /\ filter out_vis o' = filter out_vis o.
Proof.
  induction 1 as [s|s r rs rs' _ IH|s b rs rs' Hb Hl _ IH]; intros s2 o H.
  - exists o. split; [exact H|reflexivity].
  - cbn [run] in *. unfold next_state in IH. destruct (step T s r) as [[s1 o1]| |]; try discriminate.
    destruct (run T s1 rs) as [[s3 o3]| |] eqn:Er; try discriminate. injection H as <- <-.
    destruct (IH _ _ eq_refl) as (o' & -> & Ho). exists (o1 ++ o'). split; [reflexivity|].
    rewrite !filter_app, Ho. reflexivity.
  - destruct (IH _ _ H) as (o' & Hr & Ho). cbn [run]. rewrite (step_layout_noop T s b Hb Hl), Hr.
    exists ([Tok b] ++ o'). split; [reflexivity|]. cbn [app filter]. rewrite (layout_hidden T b Hl). exact Ho.
Qed.

(* blank lines and whole-line comments, any number of them at any set of line boundaries: the parser reads
   exactly the same tokens (INDENT / DEDENT included), and the lexer ends in the same state *)
Theorem blank_comment_transparent T rs rs' : inserted T (init T) rs rs' ->
  res_map (filter out_vis) (indent_filter T rs') = res_map (filter out_vis) (indent_filter T rs).
Proof.
  intros H. unfold indent_filter. destruct (run_total T rs (init T)) as (s2 & o & Hr).
  destruct (inserted_run T _ _ _ H _ _ Hr) as (o' & Hr' & Ho). rewrite Hr, Hr'. cbn [res_map snd]. f_equal. exact Ho.
Qed.

Lemma inserted_refl T : forall rs s, inserted T s rs rs.
Proof. induction rs as [|r rs IH]; intros s; [apply ins_nil|apply ins_keep, IH]. Qed.

Lemma inserted_front T s bs rs : at_boundary s = true -> forallb (is_layout T) bs = true -> inserted T s rs (bs ++ rs).
Proof.
  intros Hb. induction bs as [|b bs IH]; intros H; cbn [app]; [apply inserted_refl|].
  cbn [forallb] in H. apply andb_true_iff in H. destruct H as [H1 H2]. apply ins_add; auto.
Qed.

Lemma inserted_at T bs : forallb (is_layout T) bs = true -> forall n rs s,
  match run T s (firstn n rs) with Done (s1, _) => at_boundary s1 | _ => false end = true ->
  inserted T s rs (firstn n rs ++ bs ++ skipn n rs).
Proof.
  intros Hbs. induction n as [|n IH]; intros rs s H.
  - cbn [firstn skipn app run] in *. apply inserted_front; assumption.
  - destruct rs as [|r rs].
    + cbn [firstn skipn app run] in *. rewrite app_nil_r. rewrite <- (app_nil_r bs) at 1.
      rewrite app_nil_r. replace bs with (bs ++ []) by apply app_nil_r. apply inserted_front; assumption.
    + cbn [firstn skipn app run] in *. apply ins_keep. unfold next_state.
      destruct (step T s r) as [[s1 o1]| |]; try discriminate. apply IH.
      destruct (run T s1 (firstn n rs)) as [[s3 o3]| |]; [exact H|discriminate|discriminate].
Qed.

(* one position, executable side condition *)
Theorem insert_at_transparent T n bs rs : boundary_before T n rs = true -> forallb (is_layout T) bs = true ->
  res_map (filter out_vis) (indent_filter T (insert_at n bs rs)) = res_map (filter out_vis) (indent_filter T rs).
Proof.
  intros Hb Hl. apply blank_comment_transparent. unfold insert_at. apply inserted_at; [exact Hl|exact Hb].
Qed.

Lemma firstn_snoc {A} : forall m (l:list A) x, nth_error l m = Some x -> firstn (S m) l = firstn m l ++ [x].
Proof.
  induction m as [|m IH]; intros [|a l] x H; try discriminate.
  - injection H as ->. reflexivity.
  - cbn [nth_error] in H. change (firstn (S (S m)) (a :: l)) with (a :: firstn (S m) l).
    rewrite (IH _ _ H). reflexivity.
Qed.

(* a syntactic sufficient condition: right after ANY line-ending token the lexer is at a boundary, whatever came before *)
Theorem boundary_after_eol T rs m r : nth_error rs m = Some r -> is_eol T r = true -> boundary_before T (S m) rs = true.
Proof.
  intros Hn He. unfold boundary_before. rewrite (firstn_snoc _ _ _ Hn).
  destruct (run_total T (firstn m rs) (init T)) as (s1 & o1 & Hr). rewrite (run_app _ _ _ _ _ _ Hr).
  cbn [run]. rewrite (step_eol T s1 r He). reflexivity.
Qed.

(* before the first line: gotNewLine is not set there, so the general statement does not apply; it does when the
   first token of the text is an ordinary visible one (a declaration starting in the first column) *)
Definition fresh (s:st) : Prop := level s = [] /\ spaces s = 0.

Lemma step_layout_fresh T s b : fresh s -> is_layout T b = true -> exists s', step T s b = Done (s', [Tok b]) /\ fresh s'.
Proof.
  intros [Hl Hs] Hb. destruct s as [lvl sp n]. cbn in Hl, Hs. subst lvl sp.
  unfold is_layout in Hb. apply andb_true_iff in Hb. destruct Hb as [Hh Hb]. apply andb_true_iff in Hh. destruct Hh as [Hh _].
  apply orb_true_iff in Hb. destruct Hb as [He|Hc].
  - rewrite step_eol by exact He. eexists. split; [reflexivity|split; reflexivity].
  - apply andb_true_iff in Hc. destruct Hc as [Hc Hn]. unfold step, effect.
    destruct (lookup (ty b) (t_actions T)); [discriminate|]. cbn [nl].
    destruct (n && mem (ty b) (t_bypass T)); [eexists; split; [reflexivity|split; reflexivity]|].
    destruct (negb n && hidden b); [eexists; split; [reflexivity|split; reflexivity]|].
    rewrite Hc. eexists; split; [reflexivity|split; reflexivity].
Qed.

Lemma step_plain_fresh T s r : fresh s -> plain_visible T r = true ->
  step T s r = Done ({| level := []; spaces := 0; nl := false |}, [Tok r]).
Proof.
  intros [Hl Hs] Hp. destruct s as [lvl sp n]. cbn in Hl, Hs. subst lvl sp.
  unfold plain_visible in Hp. repeat (apply andb_true_iff in Hp; destruct Hp as [Hp ?]).
  apply negb_true_iff in Hp. unfold step, effect. destruct (lookup (ty r) (t_actions T)); [discriminate|].
  repeat match goal with H : negb _ = true |- _ => apply negb_true_iff in H end.
  cbn [nl]. rewrite H1, Hp, H0, H2. rewrite andb_false_r. cbn [andb negb]. destruct n; reflexivity.
Qed.

Lemma run_layout_fresh T : forall bs s, fresh s -> forallb (is_layout T) bs = true ->
  exists s' o, run T s bs = Done (s', o) /\ fresh s' /\ filter out_vis o = [].
Proof.
  induction bs as [|b bs IH]; intros s Hf H.
  - exists s, []. split; [reflexivity|split; [exact Hf|reflexivity]].
  - cbn [forallb] in H. apply andb_true_iff in H. destruct H as [H1 H2].
    destruct (step_layout_fresh T s b Hf H1) as (s1 & Es & Hf1). destruct (IH s1 Hf1 H2) as (s' & o & Er & Hf' & Ho).
    cbn [run]. rewrite Es, Er. exists s', ([Tok b] ++ o). split; [reflexivity|split; [exact Hf'|]].
    cbn [app filter]. rewrite (layout_hidden T b H1). exact Ho.
Qed.

Theorem insert_at_start_transparent T bs r rs : forallb (is_layout T) bs = true -> plain_visible T r = true ->
  res_map (filter out_vis) (indent_filter T (bs ++ r :: rs)) = res_map (filter out_vis) (indent_filter T (r :: rs)).
Proof.
  intros Hl Hp. unfold indent_filter. assert (Hf : fresh (init T)) by (split; reflexivity).
  destruct (run_layout_fresh T bs (init T) Hf Hl) as (s' & o & Er & Hf' & Ho).
  rewrite (run_app _ _ _ _ _ _ Er). cbn [run]. rewrite (step_plain_fresh T s' r Hf' Hp), (step_plain_fresh T (init T) r Hf Hp).
  destruct (run T _ rs) as [[s2 o2]| |]; cbn [res_map snd]; [|reflexivity|reflexivity].
  f_equal. rewrite !filter_app, Ho. reflexivity.
Qed.

(* ---------- every composition ---------- *)

Theorem layout_step_invariant W T a b : w_tab W = 4 * w_sp W -> layout_step W T a b -> lex_vis W T b = lex_vis W T a.
Proof.
  intros Hw [k ts Hk|ts ts' F|ts ts' I]; unfold lex_vis.
  - rewrite scale_lead_t_raw. apply scale_lead_invariant. lia.
  - rewrite (respell_same_raws W ts ts' Hw F). reflexivity.
  - pose proof (blank_comment_transparent T _ _ I) as H.
    destruct (indent_filter T (map (to_raw W) ts')) as [o'| |], (indent_filter T (map (to_raw W) ts)) as [o| |];
      cbn [res_map] in *; try discriminate; try reflexivity.
    injection H as H. f_equal. apply vis_outs_filter, H.
Qed.

(* any composition of re-indentation by any factors, tabs for 4-space units anywhere in the leading whitespace,
   and blank lines / whole-line comments at any line boundaries - applied or undone, in any order - leaves
   the default-channel token sequence (INDENT / DEDENT included) unchanged *)
Theorem layout_invariant W T a b : w_tab W = 4 * w_sp W -> layout_equiv W T a b -> lex_vis W T a = lex_vis W T b.
Proof.
  intros Hw E. induction E as [a b S|a|a b _ IH|a b c _ IH1 _ IH2].
  - symmetry. apply (layout_step_invariant W T a b Hw S).
  - reflexivity.
  - symmetry. exact IH.
  - congruence.
Qed.

(* whatever reads the default channel (parser + listener, as a function of that sequence) gives the same answer,
   and accepts one text iff it accepts the other *)
Corollary layout_same_parse {A} (parse : res (list out) -> A) W T a b :
  w_tab W = 4 * w_sp W -> layout_equiv W T a b -> parse (lex_vis W T a) = parse (lex_vis W T b).
Proof. intros Hw E. rewrite (layout_invariant W T a b Hw E). reflexivity. Qed.
