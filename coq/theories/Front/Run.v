(* Front/Run.v - correspondence glue for C03: one case = the tokens the generated lexer delivered for a text
   (the real NextToken output minus the synthetic INDENT / DEDENT; whitespace tokens with their text as runs)
   and the type sequence the real SyslLexer.NextToken returned to EOF, hidden tokens included. *)
From Coq Require Import List NArith Bool.
Import ListNotations.
Require Import Verif.Front.Indent Verif.Front.Lines Verif.Front.Current Verif.Gen.LexerTables Verif.Base.Harness.
Local Open Scope N_scope.

Definition runs_ws (l:list (bool * N)%type) : list wsch :=
  flat_map (fun p : (bool * N)%type => repeat (if fst p then Tab else Sp) (N.to_nat (snd p))) l.

Definition e : tok := {| k_ty := 0; k_hidden := false; k_ws := []; k_eof := true |}.
Definition w (t:N) (ws:list (bool * N)%type) : tok := {| k_ty := t; k_hidden := true; k_ws := runs_ws ws; k_eof := false |}.
Definition wv (t:N) (ws:list (bool * N)%type) : tok := {| k_ty := t; k_hidden := false; k_ws := runs_ws ws; k_eof := false |}.
Definition h (t:N) : tok := {| k_ty := t; k_hidden := true; k_ws := []; k_eof := false |}.
Definition v (t:N) : tok := {| k_ty := t; k_hidden := false; k_ws := []; k_eof := false |}.

Definition c03_case := (list tok * list N)%type.

Definition c03_ok (c:c03_case) : bool :=
  match indent_filter lexer_tables (map (to_raw W0) (fst c)) with
  | Done o => list_eqb N.eqb (all_tys lexer_tables o) (snd c)
  | _ => false
  end.
