(* Front/IndentProps.v - proofs about the indentation model, for ALL tables, states and token streams:
   the synthesis loop never pops an empty stack and ends within (stack height + 1) iterations;
   step / run are total; uniform scaling of all widths leaves the output unchanged. *)
From Coq Require Import List NArith Bool Lia Arith.
Import ListNotations.
Require Import Verif.Front.Indent.
Local Open Scope N_scope.

(* ---------- the loop ---------- *)

(* stack.Pop's unchecked index is safe: for every fuel, width and stack *)
Lemma loop_never_pops_empty fuel sp lvl : loop fuel sp lvl <> PopEmpty.
Proof.
  revert sp lvl. induction fuel as [|f IH]; intros sp lvl; cbn [loop].
  - destruct (N.eqb sp (top lvl)); discriminate.
  - destruct (N.eqb_spec sp (top lvl)) as [|Hne]; [discriminate|].
    destruct (N.ltb_spec (top lvl) sp) as [Hlt|Hge].
    + specialize (IH sp (sp :: lvl)). destruct (loop f sp (sp :: lvl)); cbn [res_map]; congruence.
    + destruct lvl as [|x t].
      * cbn [top] in *. lia.
      * specialize (IH sp t). destruct (loop f sp t); cbn [res_map]; congruence.
Qed.

(* after a push the loop condition is false: one more test, no more fuel *)
Lemma loop_push fuel sp lvl : loop fuel sp (sp :: lvl) = Done (sp :: lvl, []).
Proof. destruct fuel; cbn [loop top]; rewrite N.eqb_refl; reflexivity. Qed.

(* the loop ends: within (height + 1) iterations, producing at most that many synthetic tokens,
   and leaves the width on top of the stack (or an empty stack for width 0) *)
Lemma loop_total sp lvl : forall fuel, (length lvl < fuel)%nat ->
  exists lvl' o, loop fuel sp lvl = Done (lvl', o) /\ top lvl' = sp /\ (length o <= S (length lvl))%nat.
Proof.
  induction lvl as [|x t IH]; intros fuel Hf.
  - destruct fuel as [|f]; [inversion Hf|]. cbn [loop top].
    destruct (N.eqb_spec sp 0) as [->|Hne].
    + exists [], []. cbn. repeat split; lia.
    + destruct (N.ltb_spec 0 sp) as [_|Hge]; [|lia].
      rewrite loop_push. cbn [res_map fst snd]. exists [sp], [Ind]. cbn. repeat split; lia.
  - destruct fuel as [|f]; [inversion Hf|]. cbn [loop top].
    destruct (N.eqb_spec sp x) as [->|Hne].
    + exists (x :: t), []. cbn. repeat split; lia.
    + destruct (N.ltb_spec x sp) as [Hlt|Hge].
      * rewrite loop_push. cbn [res_map fst snd]. exists (sp :: x :: t), [Ind]. cbn. repeat split; lia.
      * cbn [length] in Hf. destruct (IH f ltac:(lia)) as (lvl' & o & He & Ht & Hl).
        rewrite He. cbn [res_map fst snd]. exists lvl', (Ded :: o). cbn [length]. repeat split; [exact Ht|lia].
Qed.

(* more fuel does not change a finished loop *)
Lemma loop_fuel_mono fuel sp lvl r : loop fuel sp lvl = Done r -> forall fuel', (fuel <= fuel')%nat -> loop fuel' sp lvl = Done r.
Proof.
  revert sp lvl r. induction fuel as [|f IH]; intros sp lvl r H fuel' Hle.
  - cbn [loop] in H. destruct (N.eqb sp (top lvl)) eqn:E; [|discriminate].
    destruct fuel'; cbn [loop]; rewrite E; exact H.
  - destruct fuel' as [|f']; [inversion Hle|]. cbn [loop] in *.
    destruct (N.eqb sp (top lvl)); [exact H|].
    destruct (N.ltb (top lvl) sp).
    + destruct (loop f sp (sp :: lvl)) as [p| |] eqn:E; cbn [res_map] in H; try discriminate.
      rewrite (IH _ _ _ E f' ltac:(lia)). exact H.
    + destruct lvl as [|x t]; [discriminate|].
      destruct (loop f sp t) as [p| |] eqn:E; cbn [res_map] in H; try discriminate.
      rewrite (IH _ _ _ E f' ltac:(lia)). exact H.
Qed.

(* ---------- step / run are total ---------- *)

Theorem step_total T s r : exists s' o, step T s r = Done (s', o).
Proof.
  unfold step. set (s1 := effect T s r).
  destruct (nl s1 && mem (ty r) (t_bypass T)); [eauto|].
  destruct (negb (nl s1) && hidden r); [eauto|].
  destruct (N.eqb (ty r) (t_comment T)); [eauto|].
  set (s2 := if eof r then set_spaces s1 0 else s1).
  destruct (negb (eof r) && negb (nl s2)); [eauto|].
  destruct (loop_total (spaces s2) (level s2) (S (length (level s2))) ltac:(lia)) as (lvl' & o & He & _).
  rewrite He. eauto.
Qed.

Theorem run_total T rs : forall s, exists s' o, run T s rs = Done (s', o).
Proof.
  induction rs as [|r rs IH]; intros s; cbn [run]; [eauto|].
  destruct (step_total T s r) as (s1 & o & ->). destruct (IH s1) as (s2 & o' & ->). eauto.
Qed.

Corollary indent_filter_total T rs : exists o, indent_filter T rs = Done o.
Proof. unfold indent_filter. destruct (run_total T rs (init T)) as (s & o & ->). cbn. eauto. Qed.

Lemma run_app T rs1 : forall s rs2 s1 o1, run T s rs1 = Done (s1, o1) ->
  run T s (rs1 ++ rs2) = match run T s1 rs2 with Done (s2, o2) => Done (s2, o1 ++ o2) | PopEmpty => PopEmpty | OutOfFuel => OutOfFuel end.
Proof.
  induction rs1 as [|r rs1 IH]; intros s rs2 s1 o1 H; cbn [run app] in *.
  - injection H as <- <-. destruct (run T s rs2) as [[s2 o2]| |]; reflexivity.
  - destruct (step T s r) as [[sa oa]| |]; try discriminate.
    destruct (run T sa rs1) as [[sb ob]| |] eqn:E; try discriminate. injection H as <- <-.
    rewrite (IH _ rs2 _ _ E). destruct (run T sb rs2) as [[s2 o2]| |]; [|reflexivity|reflexivity].
    rewrite app_assoc. reflexivity.
Qed.

(* ---------- the stack stays strictly increasing and positive ---------- *)

Fixpoint strict (lvl:list N) : Prop :=
  match lvl with
  | [] => True
  | x :: t => top t < x /\ strict t
  end.

Lemma loop_strict fuel : forall sp lvl lvl' o, strict lvl -> loop fuel sp lvl = Done (lvl', o) -> strict lvl'.
Proof.
  induction fuel as [|f IH]; intros sp lvl lvl' o Hs H; cbn [loop] in H.
  - destruct (N.eqb sp (top lvl)); [|discriminate]. injection H as <- _. exact Hs.
  - destruct (N.eqb_spec sp (top lvl)); [injection H as <- _; exact Hs|].
    destruct (N.ltb_spec (top lvl) sp) as [Hlt|Hge].
    + rewrite loop_push in H. cbn [res_map fst snd] in H. injection H as <- _. cbn [strict]. split; assumption.
    + destruct lvl as [|x t]; [discriminate|].
      destruct (loop f sp t) as [[l2 o2]| |] eqn:E; cbn [res_map fst snd] in H; try discriminate.
      injection H as <- _. cbn [strict] in Hs. eapply IH; [|exact E]. apply Hs.
Qed.

Lemma effect_level T s r : level (effect T s r) = level s.
Proof. unfold effect. destruct (lookup (ty r) (t_actions T)); reflexivity. Qed.

Theorem step_strict T s r s' o : strict (level s) -> step T s r = Done (s', o) -> strict (level s').
Proof.
  intros Hs. unfold step. pose proof (effect_level T s r) as Hl. set (s1 := effect T s r) in *.
  destruct (nl s1 && mem (ty r) (t_bypass T)); [intros [= <- _]; rewrite Hl; exact Hs|].
  destruct (negb (nl s1) && hidden r); [intros [= <- _]; cbn; rewrite Hl; exact Hs|].
  destruct (N.eqb (ty r) (t_comment T)); [intros [= <- _]; cbn; rewrite Hl; exact Hs|].
  assert (Hl2 : level (if eof r then set_spaces s1 0 else s1) = level s) by (destruct (eof r); cbn; exact Hl).
  set (s2 := if eof r then set_spaces s1 0 else s1) in *.
  destruct (negb (eof r) && negb (nl s2)); [intros [= <- _]; rewrite Hl2; exact Hs|].
  destruct (loop (S (length (level s2))) (spaces s2) (level s2)) as [[lvl o']| |] eqn:E; try discriminate.
  intros [= <- _]. cbn [level]. eapply loop_strict; [|exact E]. rewrite Hl2. exact Hs.
Qed.

(* ---------- uniform scaling ---------- *)

Lemma top_scale k lvl : top (map (N.mul k) lvl) = k * top lvl.
Proof. destruct lvl; cbn; lia. Qed.

Definition scale_loop_res (k:N) (p:list N * list out) : list N * list out := (map (N.mul k) (fst p), snd p).

Lemma loop_scale k : 0 < k -> forall fuel sp lvl,
  loop fuel (k * sp) (map (N.mul k) lvl) = res_map (scale_loop_res k) (loop fuel sp lvl).
Proof.
  intros Hk. induction fuel as [|f IH]; intros sp lvl; cbn [loop]; rewrite top_scale.
  - destruct (N.eqb_spec sp (top lvl)) as [->|Hne].
    + rewrite N.eqb_refl. reflexivity.
    + destruct (N.eqb_spec (k * sp) (k * top lvl)) as [He|_]; [|reflexivity].
      nia.
  - destruct (N.eqb_spec sp (top lvl)) as [->|Hne].
    + rewrite N.eqb_refl. reflexivity.
    + destruct (N.eqb_spec (k * sp) (k * top lvl)) as [He|_].
      { nia. }
      destruct (N.ltb_spec (top lvl) sp) as [Hlt|Hge].
      * destruct (N.ltb_spec (k * top lvl) (k * sp)) as [_|Hc]; [|nia].
        change (k * sp :: map (N.mul k) lvl) with (map (N.mul k) (sp :: lvl)). rewrite IH.
        destruct (loop f sp (sp :: lvl)) as [[l o]| |]; reflexivity.
      * destruct (N.ltb_spec (k * top lvl) (k * sp)) as [Hc|_]; [nia|].
        destruct lvl as [|x t]; [reflexivity|]. cbn [map]. rewrite IH.
        destruct (loop f sp t) as [[l o]| |]; reflexivity.
Qed.

Lemma effect_scale T k s r : effect T (scale_st k s) (scale_raw k r) = scale_st k (effect T s r).
Proof.
  unfold effect. cbn [ty scale_raw]. destruct (lookup (ty r) (t_actions T)) as [a|]; [|reflexivity].
  unfold scale_st. cbn [level spaces nl width]. f_equal. destruct (a_sp a); cbn [scale_raw width]; lia.
Qed.

(* the loop produces synthetic tokens only *)
Definition synthetic (o:out) : bool := match o with Tok _ => false | _ => true end.

Lemma loop_synthetic fuel : forall sp lvl lvl' o, loop fuel sp lvl = Done (lvl', o) -> forallb synthetic o = true.
Proof.
  induction fuel as [|f IH]; intros sp lvl lvl' o H; cbn [loop] in H.
  - destruct (N.eqb sp (top lvl)); [|discriminate]. injection H as _ <-. reflexivity.
  - destruct (N.eqb sp (top lvl)); [injection H as _ <-; reflexivity|].
    destruct (N.ltb (top lvl) sp).
    + destruct (loop f sp (sp :: lvl)) as [[l2 o2]| |] eqn:E; cbn [res_map fst snd] in H; try discriminate.
      injection H as _ <-. cbn [forallb synthetic]. eapply IH, E.
    + destruct lvl as [|x t]; [discriminate|].
      destruct (loop f sp t) as [[l2 o2]| |] eqn:E; cbn [res_map fst snd] in H; try discriminate.
      injection H as _ <-. cbn [forallb synthetic]. eapply IH, E.
Qed.

Lemma scale_synthetic k o : forallb synthetic o = true -> map (scale_out k) o = o.
Proof.
  induction o as [|x o IH]; [reflexivity|]. cbn [forallb map]. intros H. apply andb_true_iff in H. destruct H as [Hx Ho].
  rewrite (IH Ho). destruct x; [discriminate|reflexivity|reflexivity].
Qed.

Definition scale_step_res (k:N) (p:st * list out) : st * list out := (scale_st k (fst p), map (scale_out k) (snd p)).

Lemma step_scale T k s r : 0 < k ->
  step T (scale_st k s) (scale_raw k r) = res_map (scale_step_res k) (step T s r).
Proof.
  intros Hk. unfold step. rewrite effect_scale. set (s1 := effect T s r).
  cbn [nl scale_st ty hidden eof scale_raw].
  destruct (nl s1 && mem (ty r) (t_bypass T)); [reflexivity|].
  destruct (negb (nl s1) && hidden r).
  { cbn. unfold scale_step_res, scale_st, set_spaces. cbn. do 3 f_equal. lia. }
  destruct (N.eqb (ty r) (t_comment T)).
  { cbn. unfold scale_step_res, scale_st, set_spaces. cbn. do 3 f_equal. lia. }
  assert (Hs2 : (if eof r then set_spaces (scale_st k s1) 0 else scale_st k s1) = scale_st k (if eof r then set_spaces s1 0 else s1)).
  { destruct (eof r); [|reflexivity]. unfold scale_st, set_spaces. cbn. f_equal. lia. }
  rewrite Hs2. set (s2 := if eof r then set_spaces s1 0 else s1).
  cbn [nl scale_st level spaces].
  destruct (negb (eof r) && negb (nl s2)); [reflexivity|].
  rewrite map_length, loop_scale by exact Hk.
  destruct (loop (S (length (level s2))) (spaces s2) (level s2)) as [[lvl o]| |] eqn:E; [|reflexivity|reflexivity].
  cbn [res_map scale_loop_res fst snd]. unfold scale_step_res. cbn [fst snd]. rewrite map_app. cbn [map scale_out].
  rewrite (scale_synthetic k o (loop_synthetic _ _ _ _ _ E)). reflexivity.
Qed.

Definition scale_run_res := scale_step_res.

Theorem run_scale T k rs : 0 < k -> forall s,
  run T (scale_st k s) (map (scale_raw k) rs) = res_map (scale_run_res k) (run T s rs).
Proof.
  intros Hk. induction rs as [|r rs IH]; intros s; cbn [run map].
  - reflexivity.
  - rewrite step_scale by exact Hk. destruct (step T s r) as [[s1 o]| |]; cbn [res_map]; [|reflexivity|reflexivity].
    unfold scale_step_res at 1. cbn [fst snd]. rewrite IH.
    destruct (run T s1 rs) as [[s2 o']| |]; cbn [res_map]; [|reflexivity|reflexivity].
    unfold scale_run_res, scale_step_res. cbn [fst snd]. rewrite map_app. reflexivity.
Qed.

Lemma init_scale T k : scale_st k (init T) = init T.
Proof. unfold scale_st, init. cbn. f_equal. lia. Qed.

Lemma out_ty_scale T k o : out_ty T (scale_out k o) = out_ty T o.
Proof. destruct o; reflexivity. Qed.
Lemma out_vis_scale k o : out_vis (scale_out k o) = out_vis o.
Proof. destruct o; reflexivity. Qed.

Lemma all_tys_scale T k os : all_tys T (map (scale_out k) os) = all_tys T os.
Proof. unfold all_tys. rewrite map_map. apply map_ext. intros o. apply out_ty_scale. Qed.

Lemma visible_scale T k os : visible T (map (scale_out k) os) = visible T os.
Proof.
  unfold visible. induction os as [|o os IH]; [reflexivity|]. cbn [map filter].
  rewrite out_vis_scale. destruct (out_vis o); cbn [map]; rewrite ?out_ty_scale, IH; reflexivity.
Qed.

(* multiplying every whitespace width of a token stream by k > 0 changes neither the synthetic
   INDENT / DEDENT tokens nor anything else the lexer hands out (hidden tokens included) *)
Theorem scale_invariant_all T k rs : 0 < k ->
  res_map (all_tys T) (indent_filter T (map (scale_raw k) rs)) = res_map (all_tys T) (indent_filter T rs).
Proof.
  intros Hk. unfold indent_filter. rewrite <- (init_scale T k) at 1. rewrite run_scale by exact Hk.
  destruct (run T (init T) rs) as [[s o]| |]; cbn [res_map]; [|reflexivity|reflexivity].
  unfold scale_run_res, scale_step_res. cbn [fst snd]. rewrite all_tys_scale. reflexivity.
Qed.

Theorem indent_scale_invariant T k rs : 0 < k ->
  res_map (visible T) (indent_filter T (map (scale_raw k) rs)) = res_map (visible T) (indent_filter T rs).
Proof.
  intros Hk. unfold indent_filter. rewrite <- (init_scale T k) at 1. rewrite run_scale by exact Hk.
  destruct (run T (init T) rs) as [[s o]| |]; cbn [res_map]; [|reflexivity|reflexivity].
  unfold scale_run_res, scale_step_res. cbn [fst snd]. rewrite visible_scale. reflexivity.
Qed.
