(* Front/LexState.v - MODEL (definitions only): the WHOLE hand-written state of the lexer (pkg/grammar/lexer_impl.go,
   type lexerState) and everything in SyslLexer.g4 that reads or writes it, for all lexer modes.

     base part   level / spaces / gotNewLine (+ the queue prevToken): Front/Indent.v, unchanged
     ext part    linenum, inSqBrackets, parens, blockTextLine, gotHTTPVerb, gotView, noMoreImports
     ops         the statements of the rule actions, in the order the generated lexer runs them (per rule:
                 ascending action index); the two actions that switch the lexer MODE from Go code
                 (NEWLINE: PushMode(VIEW_TRANSFORM) if gotView; E_NL: PopMode if parens == 0) are outputs (`meff`)
     preds       the semantic predicates; `pview` = the value of every state atom a predicate reads, taken in the
                 state in which the generated lexer starts to match the next token

   Actions never read the base part and getNextToken never touches the ext part (Gen facts, Front/StateTables.v), so
   the state is a product and the base component IS Front/Indent.step.  Which token the ANTLR automaton cuts
   from the text is not modelled: for a given text, mode and predicate values it is a function of those, which
   is why the theorems of Front/LexStateProps.v are about `pview` and `meff` at every token. *)
From Coq Require Import List NArith ZArith Bool.
Import ListNotations.
Require Import Verif.Front.Indent Verif.Front.Lines.
Local Open Scope N_scope.

Inductive lop :=
| OpNL | OpSp0 | OpSpCalc            (* base part: what Front/Indent.effect applies *)
| OpHttp (b:bool) | OpLine | OpView (b:bool) | OpBlockInc | OpBlockDecPos | OpNoMore
| OpSqInc | OpSqDec | OpParInc | OpParDec
| OpPushViewIfView                   (* if ls.gotView { l.PushMode(VIEW_TRANSFORM) } *)
| OpPopIfParens0                     (* if ls.parens == 0 { ls.gotView = false; l.PopMode() } *)
| OpSetType (t:N) | OpSetText.       (* no effect on the state *)

Inductive lpred := PSqZero | PBlockZero | PNotKeyword | PImports | PView | PHttp | PSpacesGt1 | PNL.

Inductive meff := MPushView | MPop.

Record ext := { linenum : N; sq : Z; parens : Z; block : N; http : bool; view : bool; nomore : bool }.

Record fstate := { base : st; ex : ext }.

Record ftables := {
  f_base : tables;                       (* Front/Indent tables: actions on spaces / gotNewLine, bypass list, ... *)
  f_ops : list (N * list lop);           (* token type -> the statements of its rule's actions *)
  f_preds : list (N * list lpred)        (* token type -> the predicates of its rule *)
}.

Definition ops_of (F:ftables) (t:N) : list lop := match lookup t (f_ops F) with Some l => l | None => [] end.

Definition ext_op (e:ext) (o:lop) : ext * list meff :=
  match o with
  | OpHttp b => ({| linenum := linenum e; sq := sq e; parens := parens e; block := block e; http := b; view := view e; nomore := nomore e |}, [])
  | OpLine => ({| linenum := linenum e + 1; sq := sq e; parens := parens e; block := block e; http := http e; view := view e; nomore := nomore e |}, [])
  | OpView b => ({| linenum := linenum e; sq := sq e; parens := parens e; block := block e; http := http e; view := b; nomore := nomore e |}, [])
  | OpBlockInc => ({| linenum := linenum e; sq := sq e; parens := parens e; block := block e + 1; http := http e; view := view e; nomore := nomore e |}, [])
  | OpBlockDecPos => ({| linenum := linenum e; sq := sq e; parens := parens e; block := N.pred (block e); http := http e; view := view e; nomore := nomore e |}, [])
  | OpNoMore => ({| linenum := linenum e; sq := sq e; parens := parens e; block := block e; http := http e; view := view e; nomore := true |}, [])
  | OpSqInc => ({| linenum := linenum e; sq := (sq e + 1)%Z; parens := parens e; block := block e; http := http e; view := view e; nomore := nomore e |}, [])
  | OpSqDec => ({| linenum := linenum e; sq := (sq e - 1)%Z; parens := parens e; block := block e; http := http e; view := view e; nomore := nomore e |}, [])
  | OpParInc => ({| linenum := linenum e; sq := sq e; parens := (parens e + 1)%Z; block := block e; http := http e; view := view e; nomore := nomore e |}, [])
  | OpParDec => ({| linenum := linenum e; sq := sq e; parens := (parens e - 1)%Z; block := block e; http := http e; view := view e; nomore := nomore e |}, [])
  | OpPushViewIfView => (e, if view e then [MPushView] else [])
  | OpPopIfParens0 =>
      if Z.eqb (parens e) 0
      then ({| linenum := linenum e; sq := sq e; parens := parens e; block := block e; http := http e; view := false; nomore := nomore e |}, [MPop])
      else (e, [])
  | OpNL | OpSp0 | OpSpCalc | OpSetType _ | OpSetText => (e, [])
  end.

Fixpoint ext_ops (e:ext) (l:list lop) : ext * list meff :=
  match l with
  | [] => (e, [])
  | o :: r => let (e1, m1) := ext_op e o in let (e2, m2) := ext_ops e1 r in (e2, m1 ++ m2)
  end.

(* what the base tables must say about a rule, read off its ops (Front/StateTables.v proves the two agree) *)
Definition base_action (l:list lop) : option action :=
  let nlb := existsb (fun o => match o with OpNL => true | _ => false end) l in
  let sp := fold_left (fun a o => match o with OpSp0 => SpZero | OpSpCalc => SpCalc | _ => a end) l SpKeep in
  match nlb, sp with
  | false, SpKeep => None
  | _, _ => Some {| a_nl := nlb; a_sp := sp |}
  end.

(* the state atoms the predicates read *)
Record pview := { pv_sq0 : bool; pv_block0 : bool; pv_nomore : bool; pv_view : bool; pv_http : bool;
                  pv_spaces_gt1 : bool; pv_nl : bool }.

Definition pv (s:fstate) : pview :=
  {| pv_sq0 := Z.eqb (sq (ex s)) 0; pv_block0 := N.eqb (block (ex s)) 0; pv_nomore := nomore (ex s);
     pv_view := view (ex s); pv_http := http (ex s); pv_spaces_gt1 := N.ltb 1 (spaces (base s)); pv_nl := nl (base s) |}.

(* value of one predicate (PNotKeyword = !startsWithKeyword(ls, text): of the state it reads noMoreImports only;
   `kw` / `imp` say whether the text starts with a keyword / with "import") *)
Definition pred_val (v:pview) (kw imp:bool) (p:lpred) : bool :=
  match p with
  | PSqZero => pv_sq0 v | PBlockZero => pv_block0 v
  | PNotKeyword => negb (kw || (imp && negb (pv_nomore v)))
  | PImports => negb (pv_nomore v) | PView => pv_view v | PHttp => pv_http v
  | PSpacesGt1 => pv_spaces_gt1 v | PNL => pv_nl v
  end.

(* one raw token: the rule's actions run (base part inside Front/Indent.step), then getNextToken *)
Definition fstep (F:ftables) (s:fstate) (r:raw) : res (fstate * list out * list meff) :=
  match step (f_base F) (base s) r with
  | Done (b, o) => let (e, m) := ext_ops (ex s) (ops_of F (ty r)) in Done ({| base := b; ex := e |}, o, m)
  | PopEmpty => PopEmpty
  | OutOfFuel => OutOfFuel
  end.

(* trace entry: the token, the predicate view under which it was matched, the mode switches its actions made *)
Record tr := { t_tok : raw; t_pv : pview; t_m : list meff }.

Fixpoint frun (F:ftables) (s:fstate) (rs:list raw) : res (fstate * list out * list tr) :=
  match rs with
  | [] => Done (s, [], [])
  | r :: rs' =>
    match fstep F s r with
    | Done (s1, o, m) =>
      match frun F s1 rs' with
      | Done (s2, o', t') => Done (s2, o ++ o', {| t_tok := r; t_pv := pv s; t_m := m |} :: t')
      | PopEmpty => PopEmpty
      | OutOfFuel => OutOfFuel
      end
    | PopEmpty => PopEmpty
    | OutOfFuel => OutOfFuel
    end
  end.

Definition ext0 : ext := {| linenum := 0; sq := 0%Z; parens := 0%Z; block := 0; http := false; view := false; nomore := false |}.
Definition finit (F:ftables) : fstate := {| base := init (f_base F); ex := ext0 |}.

(* ---- what a layout change may and may not touch ---- *)

(* ops of a blank-line / whole-line-comment token: gotNewLine, spaces = 0, gotHTTPVerb = false, linenum++; the two
   conditional actions of NEWLINE do nothing where gotView is unset and blockTextLine is 0 (v = gotView,
   bz = (blockTextLine == 0) in the state the token arrives in) *)
Definition layout_op (v bz:bool) (o:lop) : bool :=
  match o with
  | OpNL | OpSp0 | OpLine | OpHttp false => true
  | OpPushViewIfView => negb v
  | OpBlockDecPos => bz
  | _ => false
  end.

Definition is_flayout (F:ftables) (s:fstate) (r:raw) : bool :=
  is_layout (f_base F) r && forallb (layout_op (view (ex s)) (N.eqb (block (ex s)) 0)) (ops_of F (ty r)).

(* the lexer is at the start of a line, in every respect: gotNewLine, spaces = 0, gotHTTPVerb reset *)
Definition at_fboundary (s:fstate) : bool := at_boundary (base s) && negb (http (ex s)).

Definition fnext (F:ftables) (s:fstate) (r:raw) : fstate :=
  match fstep F s r with Done (s1, _, _) => s1 | _ => s end.

(* rs' = rs with layout tokens put at line boundaries (cf. Front/Lines.inserted) *)
Inductive finserted (F:ftables) : fstate -> list raw -> list raw -> Prop :=
| fins_nil s : finserted F s [] []
| fins_keep s r rs rs' : finserted F (fnext F s r) rs rs' -> finserted F s (r :: rs) (r :: rs')
| fins_add s b rs rs' : at_fboundary s = true -> is_flayout F s b = true -> finserted F s rs rs' -> finserted F s rs (b :: rs').

(* the line counter is the one field a blank line changes *)
Definition ext_noline (e:ext) : ext :=
  {| linenum := 0; sq := sq e; parens := parens e; block := block e; http := http e; view := view e; nomore := nomore e |}.
Definition fs_noline (s:fstate) : fstate := {| base := base s; ex := ext_noline (ex s) |}.

(* trace without the blank-line / comment tokens themselves *)
Definition strip (F:ftables) (t:list tr) : list tr := filter (fun e => negb (is_layout (f_base F) (t_tok e))) t.

Definition ftrace (F:ftables) (s:fstate) (rs:list raw) : res (list tr) :=
  res_map (fun p => snd p) (frun F s rs).
Definition fouts (F:ftables) (s:fstate) (rs:list raw) : res (list out) :=
  res_map (fun p => snd (fst p)) (frun F s rs).

(* ops that matter for the ext part *)
Definition ext_relevant (o:lop) : bool :=
  match o with OpNL | OpSp0 | OpSpCalc | OpSetType _ | OpSetText => false | _ => true end.

(* two line-end tokens whose actions treat the ext part alike *)
Definition same_ext_ops (F:ftables) (t1 t2:N) : Prop :=
  filter ext_relevant (ops_of F t1) = filter ext_relevant (ops_of F t2).

(* widths erased (for the statements about re-indentation) *)
Definition tr_noscale (e:tr) : tr :=
  {| t_tok := {| ty := ty (t_tok e); hidden := hidden (t_tok e); width := 0; eof := eof (t_tok e) |}; t_pv := t_pv e; t_m := t_m e |}.
