(* Front/ImportTables.v - obligations against the CURRENT source for the import section (C03): lemmas over
   Gen/ImportScan.v (regenerated from pkg/parse/parse.go, pkg/grammar/SyslLexer.g4 and SyslParser.g4 on every run), and
   the theorems of Front/ImportScanProps.v instantiated at the current parameters. *)
From Coq Require Import List String NArith Bool.
Import ListNotations.
Require Import Verif.Front.ImportScan Verif.Front.ImportScanProps Verif.Front.RunImp Verif.Gen.ImportScan.
Local Open Scope string_scope.

(* isImportLine and extractImports, statement by statement: what Front/ImportScan.v (is_import_line, scan,
   extract_lines, extract) transliterates. The scanner buffer is as large as the content (fix C03-2) *)
Definition expected_scan_shapes : list (string * list string) := [
  ("isImportLine", [
    "return bytes.HasPrefix(line, importKeyword) && len(line) > len(importKeyword) && (line[len(importKeyword)] == ' ' || line[len(importKeyword)] == '\t')"]);
  ("extractImports", [
    "if !strings.Contains(filename, syslExt)";
    "{";
    "return";
    "}";
    "scanner := bufio.NewScanner(bytes.NewReader(content))";
    "scanner.Buffer(nil, len(content)+1)";
    "scanner.Split(bufio.ScanLines)";
    "for scanner.Scan()";
    "{";
    "if isImportLine(scanner.Bytes())";
    "{";
    "importsInput.Write(scanner.Bytes())";
    "importsInput.WriteByte('\n')";
    "}";
    "}";
    "return"])
].
Lemma import_scan_shapes : isc_shapes = expected_scan_shapes.
Proof. reflexivity. Qed.

(* collectSpecs from the pre-scan to the children: an empty pre-scan result = no children, otherwise parseImports on
   it, its error returned (Front/ImportScan.prescan) *)
Definition expected_scan_caller : list string := [
  "importsInput := extractImports(source.filename, content)";
  "if importsInput.Len() == 0";
  "{";
  "return nil";
  "}";
  "version := branch";
  "if version == """"";
  "{";
  "version = hash.String()";
  "}";
  "children, err := parseImports(source, sourceCtxHelper{source.filename, version}, importsInput.String())";
  "if err != nil";
  "{";
  "return err";
  "}";
  "fi.imports = children"
].
Lemma import_scan_caller : isc_caller = expected_scan_caller.
Proof. reflexivity. Qed.

(* the grammar rules Front/ImportScan.classify / full were written against, in source order: IMPORT = keyword + WS
   under !noMoreImports; the hidden line-end tokens; SUB_PATH_NAME (path_stop is its complement class); HASH before
   SYSL_COMMENT (a bare `#` at the end of the text); sysl_file = imports_decl? application* EOF *)
Definition expected_lexer_rules : list (string * string * string) := [
  ("IMPORT_KEY", "DEFAULT_MODE", "'import'");
  ("SUB_PATH_NAME", "DEFAULT_MODE", "~[ \r\n\t\\/:]+");
  ("IMPORT", "DEFAULT_MODE", "IMPORT_KEY WS {} { !ls(p).noMoreImports }? ->pushMode(FILENAME)");
  ("EXTERNAL_IMPORT", "DEFAULT_MODE", "'//'");
  ("COLON", "DEFAULT_MODE", "':' {}");
  ("EMPTY_COMMENT", "DEFAULT_MODE", "('#' '\r'? '\n') {} -> channel(HIDDEN)");
  ("HASH", "DEFAULT_MODE", "'#' -> pushMode(NOT_NEWLINE)");
  ("EMPTY_LINE", "DEFAULT_MODE", "([ \t]+ ( [\r\n] | EOF )) {} -> channel(HIDDEN)");
  ("INDENTED_COMMENT", "DEFAULT_MODE", "([ \t]+ '#' ~[\n]* ('\n' | EOF)) {} -> channel(HIDDEN)");
  ("NEWLINE", "DEFAULT_MODE", "'\r'? '\n' {} {} {} -> channel(HIDDEN)");
  ("SYSL_COMMENT", "DEFAULT_MODE", "HASH TEXT -> channel(HIDDEN)");
  ("PRINTABLE", "DEFAULT_MODE", "~[ \t.\-<>,()\n\r!""#'/:?@[\]{}|]+");
  ("TEXT_LINE", "DEFAULT_MODE", "PRINTABLE ([ \-]+ (PRINTABLE | IN_ANGLE))+ { ls(p).inSqBrackets == 0 }? { ls(p).blockTextLine == 0 }? { !startsWithKeyword(ls(p), p.GetText()) }?");
  ("WS", "DEFAULT_MODE", "[ \t]+ {} -> channel(HIDDEN)");
  ("ErrorChar", "DEFAULT_MODE", ".");
  ("TEXT", "NOT_NEWLINE", "(~[\r\n])* -> popMode");
  ("IMPORT_PATH", "FILENAME", "(SUB_PATH_NAME | ('/' SUB_PATH_NAME) | (EXTERNAL_IMPORT SUB_PATH_NAME))+ -> popMode")
].
Definition expected_parser_rules : list (string * string) := [
  ("import_mode", "TILDE Name");
  ("import_stmt", "IMPORT IMPORT_PATH (AS ((Name (DOT Name)*) | app_name))? WS* import_mode? (SYSL_COMMENT*|NEWLINE)");
  ("imports_decl", "import_stmt+");
  ("sysl_file", "imports_decl? application* EOF")
].
Lemma import_grammar_rules :
  isc_lexer_rules = expected_lexer_rules /\ isc_parser_rules = expected_parser_rules.
Proof. split; reflexivity. Qed.

Local Open Scope N_scope.

Lemma import_params_current :
  isc_keyword = [105; 109; 112; 111; 114; 116] /\ isc_seps = [32; 9] /\ isc_ws = [32; 9] /\ isc_limit = SLContentPlus 1.
Proof. repeat split; reflexivity. Qed.

Lemma current_params_are : P0 = P1.
Proof. reflexivity. Qed.

(* the separators of isImportLine are exactly the blanks of the lexer's WS (both inclusions); the keyword starts with
   no blank, CR or `#`; CR is no blank *)
Lemma current_params_wf :
  params_wf P0 = true /\ seps_cover_ws P0 = true /\ forallb (fun c => mem c (ip_ws P0)) (ip_seps P0) = true.
Proof. repeat split; reflexivity. Qed.

(* at the current source no line is too long for the scanner *)
Theorem current_every_line_fits content : fits (limit_of P0 content) (split_lf content) = true.
Proof. apply (content_plus_fits P0 content 1); [reflexivity|discriminate]. Qed.

Theorem current_prescan_agrees stmt content :
  tidy P0 false (split_lf content) = true -> eol_ok stmt (split_lf content) ->
  agrees (full_parse P0 stmt content) (prescan P0 stmt content).
Proof.
  intros T E. apply prescan_agrees_partial; [reflexivity|apply current_every_line_fits|exact T|exact E].
Qed.

(* every layout of the import section: hidden-token lines, import lines in column 0 with any blank of the lexer
   behind the keyword, then an application part no line of which starts that way *)
Theorem current_section_layouts_agree stmt content :
  section_layout P0 (split_lf content) -> eol_ok stmt (split_lf content) ->
  agrees (full_parse P0 stmt content) (prescan P0 stmt content).
Proof.
  intros L E. apply current_prescan_agrees; [|exact E].
  apply section_layout_is_tidy; [reflexivity|reflexivity|exact L].
Qed.
