(* Front/DocStr.v - MODEL (definitions only): how the listener (pkg/parse/listener_impl.go) turns the lines of
   multi-line constructs into model content.

     EnterText_stmt / EnterDoc_string   consecutive `| text` lines of one statement block are coalesced into ONE
                                        Action statement "| t1 t2 ..." (or, in a REST method that has no statement
                                        yet, into the endpoint's Docstring)
     EnterDoc_string / ExitAnnotation_value   the `| text` lines of an `@x =:` block are joined with "\n"

   The listener is driven by parse-tree events; an event here is what ONE Enter / Exit call of the listener sees
   that matters for the statement scopes: the kind of rule, the text of its TEXT / whole statement, and the
   position of its first token (`ln`, which the real code reads through getSrcCtx only).  The scope stack
   (s.stmt_scope, pointers into the module under construction) is a stack of frames; a block statement is
   attached to its parent when its scope is popped (nothing reads the parent while a child is open).

   Go outcomes that are not a value are explicit: a failed type assertion `peekScope().( *sysl.Endpoint)`,
   addToCurrentScope / EnterOne_of_cases on a scope of the wrong kind and a nil dereference of
   `stmt.GetAction().Action` are `LPanic` (walkTree turns them into a parse error). *)
From Coq Require Import Ascii String List NArith Bool.
Import ListNotations.
Local Open Scope string_scope.
Local Open Scope N_scope.

Inductive stmt :=
| SAct (a:string) (ln:N)                         (* Statement_Action *)
| SOther (k:N) (ln:N)                            (* a statement without a statement list: call, return *)
| SBlock (k:N) (ln:N) (body:list stmt)           (* Cond / Group / Loop / Foreach *)
| SAlt (ln:N) (choices:list (list stmt)).        (* Alt with its Alt_Choices *)

Inductive ev :=
| EText (str:string) (ln:N)    (* EnterText_stmt, ctx.Doc_string() == nil; str = ctx.GetText() *)
| EDocStmt (ln:N)              (* EnterText_stmt, ctx.Doc_string() != nil *)
| EDoc (text:string)           (* EnterDoc_string; text = ctx.TEXT().GetText() *)
| EAdd (k:N) (ln:N)            (* EnterRet_stmt / EnterCall_stmt: addToCurrentScope *)
| EOpen (k:N) (ln:N)           (* EnterIf_stmt / Else / For / Group: addToCurrentScope + pushScope *)
| EOpenAlt (ln:N)              (* EnterOne_of_stmt: addToCurrentScope + pushScope(alt) *)
| EChoice                      (* EnterOne_of_cases: alt.Choice = append(...) + pushScope(choice) *)
| EClose                       (* popScope *)
| EAnnoExit.                   (* ExitAnnotation_value of a multi-line annotation *)

Inductive frame :=
| FEnd (doc:string) (ss:list stmt)               (* *sysl.Endpoint *)
| FBlock (k:N) (ln:N) (ss:list stmt)             (* *sysl.Cond / Group / Loop / Foreach *)
| FChoice (ss:list stmt)                         (* *sysl.Alt_Choice *)
| FAlt (ln:N) (cs:list (list stmt)).             (* *sysl.Alt *)

Record lst := { scopes : list frame;              (* s.stmt_scope, top first *)
                pending : bool;                   (* s.pendingDocString *)
                anno : list string;               (* s.currentMultiLineAnno *)
                annos : list string }.            (* values given to multi-line annotations so far *)

Inductive lres := LDone (s:lst) | LPanic.

(* ---- text handling ---- *)

(* EnterDoc_string: one leading white-space rune is dropped; strings.TrimPrefix(text, " ") for annotation lines.
   (The JSON round trip through fromQString is the identity on texts without backslash / control characters;
   the correspondence keeps to those.) *)
Definition strip1 (t:string) : string :=
  match t with String " "%char r => r | _ => t end.

(* strings.TrimLeft(s, " ") *)
Fixpoint trim_left (t:string) : string :=
  match t with String " "%char r => trim_left r | _ => t end.

(* strings.Join(l, "\n") *)
Definition nl : string := String (Ascii.ascii_of_nat 10) EmptyString.
Fixpoint join_nl (l:list string) : string :=
  match l with
  | [] => ""
  | [x] => x
  | x :: r => x ++ nl ++ join_nl r
  end.

(* ExitAnnotation_value: strings.TrimLeft(strings.Join(s.currentMultiLineAnno, "\n"), " ") + "\n" *)
Definition anno_value (lines:list string) : string := trim_left (join_nl lines) ++ nl.

(* the lines as EnterDoc_string stores them *)
Definition anno_of_texts (texts:list string) : string := anno_value (map strip1 texts).

(* ---- scopes ---- *)

(* lastStatement(): nil for Alt (and the scopes that hold no statements) *)
Definition frame_stmts (f:frame) : option (list stmt) :=
  match f with
  | FEnd _ ss => Some ss
  | FBlock _ _ ss => Some ss
  | FChoice ss => Some ss
  | FAlt _ _ => None
  end.

Definition last_stmt (f:frame) : option stmt :=
  match frame_stmts f with
  | Some ss => last (map Some ss) None
  | None => None
  end.

(* addToCurrentScope: `default: panic("not implemented")` for a scope without a statement list *)
Definition add_stmt (f:frame) (x:stmt) : option frame :=
  match f with
  | FEnd d ss => Some (FEnd d (ss ++ [x])%list)
  | FBlock k l ss => Some (FBlock k l (ss ++ [x])%list)
  | FChoice ss => Some (FChoice (ss ++ [x])%list)
  | FAlt _ _ => None
  end.

Definition can_add (f:frame) : bool := match f with FAlt _ _ => false | _ => true end.

(* the last statement's Action text replaced (stmt.GetAction().Action = ...) *)
Definition set_last_action (f:frame) (a:string) : option frame :=
  let upd ss := match rev ss with
                | SAct _ l :: r => Some (rev r ++ [SAct a l])%list
                | _ => None
                end in
  match f with
  | FEnd d ss => option_map (FEnd d) (upd ss)
  | FBlock k l ss => option_map (FBlock k l) (upd ss)
  | FChoice ss => option_map FChoice (upd ss)
  | FAlt _ _ => None
  end.

(* `s.currentApp().Endpoints[s.endpointName].GetRestParams() != nil` then
   `if x := s.peekScope().( *sysl.Endpoint); x != nil && len(x.Stmt) == 0`:
     None        the type assertion panics
     Some true   the endpoint has no statement yet *)
Definition rest_empty_endpoint (f:frame) : option bool :=
  match f with
  | FEnd _ ss => Some (match ss with [] => true | _ => false end)
  | _ => None
  end.

Definition starts_with_pipe (a:string) : bool := String.prefix "|" a.

Definition with_scopes (s:lst) (sc:list frame) : lst :=
  {| scopes := sc; pending := pending s; anno := anno s; annos := annos s |}.
Definition with_pending (s:lst) (p:bool) : lst :=
  {| scopes := scopes s; pending := p; anno := anno s; annos := annos s |}.

Definition add_top (s:lst) (x:stmt) : lres :=
  match scopes s with
  | f :: r => match add_stmt f x with Some f' => LDone (with_scopes s (f' :: r)) | None => LPanic end
  | [] => LPanic
  end.

(* ---- one listener call ---- *)
Definition lstep (rest:bool) (s:lst) (e:ev) : lres :=
  match e with
  | EText str ln =>
      (* s.pendingDocString = false; addToCurrentScope(Action{str}) *)
      add_top (with_pending s false) (SAct str ln)
  | EDocStmt ln =>
      let s1 := with_pending s true in
      match scopes s1 with
      | [] => LPanic
      | f :: _ =>
        let early := if rest then rest_empty_endpoint f else Some false in
        match early with
        | None => LPanic
        | Some true => LDone s1                       (* return: the lines go to the Docstring *)
        | Some false =>
          (* x := lastStatement(); add_stmt := x == nil || x.GetAction() == nil || !HasPrefix(x.Action, "|") *)
          let add := match last_stmt f with
                     | Some (SAct a _) => negb (starts_with_pipe a)
                     | _ => true
                     end in
          if add then add_top s1 (SAct "|" ln) else LDone s1
        end
      end
  | EDoc text =>
      if pending s then
        let s1 := with_pending s false in
        let t := strip1 text in
        match scopes s1 with
        | [] => LPanic
        | f :: r =>
          let early := if rest then rest_empty_endpoint f else Some false in
          match early, f with
          | None, _ => LPanic
          | Some true, FEnd d ss =>
              let space := if String.eqb d "" then "" else " " in
              LDone (with_scopes s1 (FEnd (d ++ space ++ t) ss :: r))
          | Some true, _ => LPanic
          | Some false, _ =>
              match last_stmt f with
              | Some (SAct a _) =>
                  let space := if String.eqb a "" then "" else " " in
                  match set_last_action f (a ++ space ++ t) with
                  | Some f' => LDone (with_scopes s1 (f' :: r))
                  | None => LPanic
                  end
              | _ => LPanic                           (* nil / non-action statement: nil dereference *)
              end
          end
        end
      else
        LDone {| scopes := scopes s; pending := false; anno := (anno s ++ [strip1 text])%list; annos := annos s |}
  | EAdd k ln => add_top s (SOther k ln)
  | EOpen k ln =>
      match scopes s with
      | f :: _ => if can_add f then LDone (with_scopes s (FBlock k ln [] :: scopes s)) else LPanic
      | [] => LPanic
      end
  | EOpenAlt ln =>
      match scopes s with
      | f :: _ => if can_add f then LDone (with_scopes s (FAlt ln [] :: scopes s)) else LPanic
      | [] => LPanic
      end
  | EChoice =>
      match scopes s with
      | FAlt _ _ :: _ => LDone (with_scopes s (FChoice [] :: scopes s))
      | _ => LPanic                                   (* s.peekScope().( *sysl.Alt) *)
      end
  | EClose =>
      match scopes s with
      | FBlock k ln ss :: p :: r =>
          match add_stmt p (SBlock k ln ss) with Some p' => LDone (with_scopes s (p' :: r)) | None => LPanic end
      | FAlt ln cs :: p :: r =>
          match add_stmt p (SAlt ln cs) with Some p' => LDone (with_scopes s (p' :: r)) | None => LPanic end
      | FChoice ss :: FAlt ln cs :: r => LDone (with_scopes s (FAlt ln (cs ++ [ss])%list :: r))
      | _ => LPanic
      end
  | EAnnoExit =>
      LDone {| scopes := scopes s; pending := pending s; anno := []; annos := (annos s ++ [anno_value (anno s)])%list |}
  end.

Fixpoint lrun (rest:bool) (s:lst) (evs:list ev) : lres :=
  match evs with
  | [] => LDone s
  | e :: r => match lstep rest s e with LDone s1 => lrun rest s1 r | LPanic => LPanic end
  end.

Definition linit : lst := {| scopes := [FEnd "" []]; pending := false; anno := []; annos := [] |}.

(* what the module holds for the endpoint after its body: Docstring, Stmt, values of multi-line annotations *)
Inductive body_out := BOut (doc:string) (ss:list stmt) (an:list string) | BPanic | BOpen.

Definition body (rest:bool) (evs:list ev) : body_out :=
  match lrun rest linit evs with
  | LDone s => match scopes s with [FEnd d ss] => BOut d ss (annos s) | _ => BOpen end
  | LPanic => BPanic
  end.

(* ---- positions: the only thing a layout change alters in an event ---- *)
Definition ev_noline (e:ev) : ev :=
  match e with
  | EText str _ => EText str 0
  | EDocStmt _ => EDocStmt 0
  | EAdd k _ => EAdd k 0
  | EOpen k _ => EOpen k 0
  | EOpenAlt _ => EOpenAlt 0
  | x => x
  end.

Fixpoint stmt_noline (x:stmt) : stmt :=
  match x with
  | SAct a _ => SAct a 0
  | SOther k _ => SOther k 0
  | SBlock k _ b => SBlock k 0 (map stmt_noline b)
  | SAlt _ cs => SAlt 0 (map (map stmt_noline) cs)
  end.

Definition out_noline (o:body_out) : body_out :=
  match o with BOut d ss an => BOut d (map stmt_noline ss) an | x => x end.

(* ---- comparison for the correspondence ---- *)
Fixpoint stmt_eqb (x y:stmt) {struct x} : bool :=
  match x, y with
  | SAct a l, SAct b m => String.eqb a b && N.eqb l m
  | SOther k l, SOther j m => N.eqb k j && N.eqb l m
  | SBlock k l b, SBlock j m c =>
      N.eqb k j && N.eqb l m &&
      (fix go (b c:list stmt) : bool :=
         match b, c with [], [] => true | x :: b', y :: c' => stmt_eqb x y && go b' c' | _, _ => false end) b c
  | SAlt l cs, SAlt m ds =>
      N.eqb l m &&
      (fix go2 (cs ds:list (list stmt)) : bool :=
         match cs, ds with
         | [], [] => true
         | b :: cs', c :: ds' =>
             (fix go (b c:list stmt) : bool :=
                match b, c with [], [] => true | x :: b', y :: c' => stmt_eqb x y && go b' c' | _, _ => false end) b c
             && go2 cs' ds'
         | _, _ => false
         end) cs ds
  | _, _ => false
  end.
