(* Front/Indent.v - MODEL (definitions only): the INDENT/DEDENT synthesis of pkg/grammar/lexer_impl.go.

   `step` is a transliteration of getNextToken for ONE raw token delivered by the generated ANTLR lexer
   (l.BaseLexer.NextToken()); `effect` is the lexer action of that token's rule, which the generated
   lexer runs inside BaseLexer.NextToken, i.e. BEFORE getNextToken looks at ls.gotNewLine / ls.spaces.
   The queue ls.prevToken is represented by the list of outputs a raw token produces: getNextToken
   only reads a new raw token when the queue is empty and hands the queue out front to back, so as a
   stream transducer "one raw token in, this list out" is exactly what it computes.

   Everything that is data in the Go source is a parameter (record `tables`); the instance for the
   current source is regenerated on every run (Gen/LexerTables.v).  The file is self-contained
   (shared by C01, C03, C07). *)
From Coq Require Import List NArith Bool.
Import ListNotations.
Local Open Scope N_scope.

(* a token as delivered by the generated lexer: type, channel, calcSpaces of its text, EOF? *)
Record raw := { ty : N; hidden : bool; width : N; eof : bool }.

(* what a lexer action does to ls.spaces / ls.gotNewLine *)
Inductive sp_eff := SpKeep | SpZero | SpCalc.
Record action := { a_nl : bool (* ls.gotNewLine = true *); a_sp : sp_eff }.

Record tables := {
  t_actions : list (N * action);   (* token type -> action of its rule (only rules touching spaces / gotNewLine) *)
  t_bypass  : list N;              (* the `case` list under `if ls.gotNewLine { switch next.GetTokenType() ...` *)
  t_comment : N;                   (* SyslLexerSYSL_COMMENT *)
  t_indent  : N;                   (* SyslLexerINDENT *)
  t_dedent  : N;                   (* SyslLexerDEDENT *)
  t_init_nl : bool                 (* gotNewLine of a fresh lexerState *)
}.

Definition mem (x:N) (l:list N) : bool := existsb (N.eqb x) l.

Fixpoint lookup {A:Type} (x:N) (l:list (N * A)) : option A :=
  match l with
  | [] => None
  | (k, a) :: l' => if N.eqb x k then Some a else lookup x l'
  end.

(* lexerState, the part that matters: indent stack (top first), spaces, gotNewLine *)
Record st := { level : list N; spaces : N; nl : bool }.

Definition set_spaces (s:st) (n:N) : st := {| level := level s; spaces := n; nl := nl s |}.

Inductive out := Tok (r:raw) | Ind | Ded.

(* Go outcomes that are not a value: stack.Pop on an empty slice panics; the `for` loop has no bound *)
Inductive res (A:Type) := Done (a:A) | PopEmpty | OutOfFuel.
Arguments Done {A} a.
Arguments PopEmpty {A}.
Arguments OutOfFuel {A}.

Definition res_map {A B:Type} (f:A -> B) (r:res A) : res B :=
  match r with Done a => Done (f a) | PopEmpty => PopEmpty | OutOfFuel => OutOfFuel end.

(* getPreviousIndent *)
Definition top (l:list N) : N := match l with [] => 0 | x :: _ => x end.

(* for ls.spaces != getPreviousIndent(ls.level) { if ls.spaces > ... {Push; INDENT} else {Pop; DEDENT} } *)
Fixpoint loop (fuel:nat) (sp:N) (lvl:list N) : res (list N * list out) :=
  if N.eqb sp (top lvl) then Done (lvl, []) else
  match fuel with
  | O => OutOfFuel
  | S f =>
    if N.ltb (top lvl) sp
    then res_map (fun p => (fst p, Ind :: snd p)) (loop f sp (sp :: lvl))
    else match lvl with
         | [] => PopEmpty
         | _ :: t => res_map (fun p => (fst p, Ded :: snd p)) (loop f sp t)
         end
  end.

Definition effect (T:tables) (s:st) (r:raw) : st :=
  match lookup (ty r) (t_actions T) with
  | None => s
  | Some a => {| level := level s;
                 spaces := match a_sp a with SpKeep => spaces s | SpZero => 0 | SpCalc => width r end;
                 nl := a_nl a || nl s |}
  end.

Definition step (T:tables) (s:st) (r:raw) : res (st * list out) :=
  let s1 := effect T s r in
  if nl s1 && mem (ty r) (t_bypass T) then Done (s1, [Tok r])
  else if negb (nl s1) && hidden r then Done (set_spaces s1 0, [Tok r])
  else if N.eqb (ty r) (t_comment T) then Done (set_spaces s1 0, [Tok r])
  else
    let s2 := if eof r then set_spaces s1 0 else s1 in
    if negb (eof r) && negb (nl s2) then Done (s2, [Tok r])
    else match loop (S (length (level s2))) (spaces s2) (level s2) with
         | Done (lvl, o) => Done ({| level := lvl; spaces := spaces s2; nl := false |}, o ++ [Tok r])
         | PopEmpty => PopEmpty
         | OutOfFuel => OutOfFuel
         end.

Fixpoint run (T:tables) (s:st) (rs:list raw) : res (st * list out) :=
  match rs with
  | [] => Done (s, [])
  | r :: rs' =>
    match step T s r with
    | Done (s1, o) =>
      match run T s1 rs' with
      | Done (s2, o') => Done (s2, o ++ o')
      | PopEmpty => PopEmpty
      | OutOfFuel => OutOfFuel
      end
    | PopEmpty => PopEmpty
    | OutOfFuel => OutOfFuel
    end
  end.

Definition init (T:tables) : st := {| level := []; spaces := 0; nl := t_init_nl T |}.

(* what the token stream looks like from outside *)
Definition out_ty (T:tables) (o:out) : N :=
  match o with Tok r => ty r | Ind => t_indent T | Ded => t_dedent T end.
Definition out_vis (o:out) : bool := match o with Tok r => negb (hidden r) | _ => true end.

(* every token NextToken returns, hidden ones included: what the correspondence compares *)
Definition all_tys (T:tables) (os:list out) : list N := map (out_ty T) os.
(* the default-channel sequence: what the parser reads *)
Definition visible (T:tables) (os:list out) : list N := map (out_ty T) (filter out_vis os).

Definition indent_filter (T:tables) (rs:list raw) : res (list out) :=
  res_map snd (run T (init T) rs).

(* uniform re-indentation seen at token level *)
Definition scale_raw (k:N) (r:raw) : raw :=
  {| ty := ty r; hidden := hidden r; width := k * width r; eof := eof r |}.
Definition scale_out (k:N) (o:out) : out :=
  match o with Tok r => Tok (scale_raw k r) | Ind => Ind | Ded => Ded end.
Definition scale_st (k:N) (s:st) : st :=
  {| level := map (N.mul k) (level s); spaces := k * spaces s; nl := nl s |}.
