(* Front/StateTables.v - obligations against the CURRENT source for the full lexer state: lemmas over
   Gen/LexerState.v and Gen/LexerTables.v (both regenerated from pkg/grammar on every run), and the general
   theorems of Front/LexStateProps.v instantiated at them. *)
From Coq Require Import List String NArith ZArith Bool.
Import ListNotations.
Require Import Verif.Front.Indent Verif.Front.IndentProps Verif.Front.Lines Verif.Front.LinesProps Verif.Front.Tables.
Require Import Verif.Front.LexState Verif.Front.LexStateProps Verif.Front.RunState Verif.Gen.LexerTables Verif.Gen.LexerState.
Local Open Scope N_scope.

(* every statement of every rule action and every predicate was classified; nothing outside getNextToken and the
   rule actions writes the state; startsWithKeyword reads noMoreImports only *)
Lemma state_translator_classified_everything :
  ls_unknown = [] /\ ls_other_writers = [] /\ ls_keyword_reads = ["noMoreImports"%string].
Proof. repeat split; reflexivity. Qed.

(* type lexerState: exactly the fields of Front/LexState.fstate (prevToken = the output queue of Front/Indent.step);
   the harness reads the real state through a mirror of this layout *)
Lemma state_fields_are : ls_fields =
  ["prevToken []antlr.Token"; "level stack"; "spaces int"; "linenum int"; "inSqBrackets int"; "parens int";
   "blockTextLine int"; "gotNewLine bool"; "gotHTTPVerb bool"; "gotView bool"; "noMoreImports bool"]%string.
Proof. reflexivity. Qed.

(* the base tables of Front/Indent (LexerTables) say about spaces / gotNewLine what the full op lists say *)
Lemma base_actions_agree :
  flat_map (fun p => match base_action (snd p) with Some a => [(fst p, a)] | None => [] end) ls_ops = action_table.
Proof. reflexivity. Qed.

(* which rule's predicates read which atom of the state: no predicate reads linenum *)
Lemma predicates_are : ls_preds =
  [(3, [PSqZero]); (lst_IMPORT, [PImports]); (37, [PView]); (47, [PHttp]); (63, [PSqZero; PBlockZero; PNotKeyword]);
   (lst_E_DOT_NAME_NL, [PSpacesGt1]); (lst_E_EMPTY_LINE, [PNL])].
Proof. reflexivity. Qed.

(* the only rule that mentions the line counter increments it: line-end tokens *)
Lemma linenum_is_only_counted :
  map fst (filter (fun p => existsb (fun o => match o with OpLine => true | _ => false end) (snd p)) ls_ops) =
  [lst_EMPTY_COMMENT; lst_EMPTY_LINE; lst_INDENTED_COMMENT; lst_NEWLINE; lst_NEWLINE_2; lst_E_INDENTED_COMMENT;
   lst_E_DOT_NAME_NL; lst_E_EMPTY_LINE; lst_E_NL; lst_TMPL_NL].
Proof. reflexivity. Qed.

(* every blank-line / whole-line-comment token kind touches nothing but gotNewLine, spaces, gotHTTPVerb (reset) and
   the line counter: those of view bodies and the comment token in ANY state; those of the default mode (which, like
   every default-mode line end, also switch to the view mode after a `!view` header and count down blockTextLine
   after an import) wherever gotView is unset and blockTextLine is 0 - at every line start of the default mode *)
Definition view_layout_types : list N := [tok_SYSL_COMMENT; tok_E_EMPTY_LINE; tok_E_INDENTED_COMMENT].
Definition default_layout_types : list N := [tok_NEWLINE; tok_EMPTY_LINE; tok_INDENTED_COMMENT; tok_EMPTY_COMMENT].

Lemma layout_types_split : forall t, In t (tok_SYSL_COMMENT :: layout_token_types) <-> In t (view_layout_types ++ default_layout_types).
Proof. intros t. cbn [In layout_token_types view_layout_types default_layout_types app]. tauto. Qed.

Lemma view_layout_tokens_are_flayout s t w : In t view_layout_types ->
  is_flayout F0 s {| ty := t; hidden := true; width := w; eof := false |} = true.
Proof.
  unfold is_flayout. destruct (view (ex s)), (N.eqb (block (ex s)) 0);
    cbn [In view_layout_types]; intros H; repeat (destruct H as [<-|H]; [reflexivity|]); destruct H.
Qed.

Lemma default_layout_tokens_are_flayout s t w : view (ex s) = false -> block (ex s) = 0 -> In t default_layout_types ->
  is_flayout F0 s {| ty := t; hidden := true; width := w; eof := false |} = true.
Proof.
  unfold is_flayout. intros -> ->. cbn [In default_layout_types]. intros H. repeat (destruct H as [<-|H]; [reflexivity|]). destruct H.
Qed.

(* after every line-end token of every mode the lexer is at a full boundary *)
Lemma line_ends_are_feol :
  forallb (fun t => is_feol F0 (hid t)) (layout_token_types ++ [tok_NEWLINE_2; tok_E_NL; tok_TMPL_NL]) = true.
Proof. reflexivity. Qed.

(* default mode: a line that ends in trailing blanks (EMPTY_LINE), in a comment after its last token
   (INDENTED_COMMENT, EMPTY_COMMENT) or plainly (NEWLINE) - the four tokens treat the ext part alike *)
Lemma default_line_ends_agree :
  same_ext_ops F0 lst_NEWLINE lst_EMPTY_LINE /\ same_ext_ops F0 lst_NEWLINE lst_INDENTED_COMMENT /\
  same_ext_ops F0 lst_NEWLINE lst_EMPTY_COMMENT.
Proof. repeat split; reflexivity. Qed.

(* ---------- the general theorems at the current tables ---------- *)

Theorem current_finserted_same_predicates rs rs' : finserted F0 (finit F0) rs rs' ->
  res_map (strip F0) (ftrace F0 (finit F0) rs') = res_map (strip F0) (ftrace F0 (finit F0) rs) /\
  res_map (filter out_vis) (fouts F0 (finit F0) rs') = res_map (filter out_vis) (fouts F0 (finit F0) rs).
Proof. apply finserted_same_predicates. Qed.

Lemma line_end_types_are_feol t h w : In t (layout_token_types ++ [tok_NEWLINE_2; tok_E_NL; tok_TMPL_NL]) ->
  is_feol F0 {| ty := t; hidden := h; width := w; eof := false |} = true.
Proof. cbn [In layout_token_types app]. intros H. repeat (destruct H as [<-|H]; [reflexivity|]). destruct H. Qed.

(* trailing blanks / a comment after the last token of a default-mode line *)
Definition default_line_end_types : list N := [lst_NEWLINE; lst_EMPTY_LINE; lst_INDENTED_COMMENT; lst_EMPTY_COMMENT].
Definition mk (t:N) (h:bool) (w:N) : raw := {| ty := t; hidden := h; width := w; eof := false |}.

Theorem current_eol_swap s t1 t2 h1 h2 w1 w2 : In t1 default_line_end_types -> In t2 default_line_end_types ->
  exists s1 m, fstep F0 s (mk t1 h1 w1) = Done (s1, [Tok (mk t1 h1 w1)], m) /\ fstep F0 s (mk t2 h2 w2) = Done (s1, [Tok (mk t2 h2 w2)], m).
Proof.
  destruct default_line_ends_agree as (A1 & A2 & A3). intros H1 H2. apply eol_swap_same_state.
  - cbn [In default_line_end_types] in H1. repeat (destruct H1 as [<-|H1]; [reflexivity|]). destruct H1.
  - cbn [In default_line_end_types] in H2. repeat (destruct H2 as [<-|H2]; [reflexivity|]). destruct H2.
  - unfold same_ext_ops in *. cbn [ty mk]. cbn [In default_line_end_types] in H1, H2.
    repeat (destruct H1 as [<-|H1]; [repeat (destruct H2 as [<-|H2]; [congruence|]); destruct H2|]). destruct H1.
Qed.

(* ---------- `spaces > 1`: re-indentation is NOT invisible to the predicates when a line is indented by one column ---------- *)

Definition one_col_line : list raw :=
  [{| ty := tok_E_WS; hidden := true; width := 1; eof := false |}; {| ty := 100; hidden := false; width := 0; eof := false |}].

Theorem scale_predicates_refuted : exists k rs, 0 < k /\
  res_map (map tr_noscale) (ftrace F0 (finit F0) (scale_lead lexer_tables k (init lexer_tables) rs)) <>
  res_map (map tr_noscale) (ftrace F0 (finit F0) rs).
Proof. exists 2, (hid tok_NEWLINE :: one_col_line). split; [reflexivity|]. vm_compute. discriminate. Qed.

(* the hypothesis of scale_same_predicates is met by every text whose lines are indented by 0 or >= 2 columns *)
Example scale_hypothesis_example :
  Forall (fun r => width r <> 1) [hid tok_NEWLINE; {| ty := tok_WS; hidden := true; width := 4; eof := false |};
                                  {| ty := 100; hidden := false; width := 0; eof := false |}].
Proof. repeat constructor; cbn; discriminate. Qed.

(* non-vacuity of current_finserted_same_predicates: a comment and a blank line between two lines *)
Example finserted_example :
  finserted F0 (finit F0) [{| ty := 100; hidden := false; width := 0; eof := false |}; hid tok_NEWLINE; {| ty := 101; hidden := false; width := 0; eof := false |}]
    [{| ty := 100; hidden := false; width := 0; eof := false |}; hid tok_NEWLINE; hid tok_INDENTED_COMMENT; hid tok_EMPTY_LINE; {| ty := 101; hidden := false; width := 0; eof := false |}].
Proof.
  apply fins_keep, fins_keep. apply fins_add; [reflexivity|reflexivity|]. apply fins_add; [reflexivity|reflexivity|].
  apply fins_keep, fins_nil.
Qed.
